//! E-lb: function-level differential of the code that REBUILDS leaf nodes (properties C01 / C16).
//!
//! One item = a few stages, each one base leaf (cells + separator) plus the operations ingested
//! while it is the base (insert / overwrite / delete / delete of an absent key = keep-up-to), as the
//! leaf stage's worker drives `LeafUpdater`: `reset_base` (or `remove_cutoff`), `ingest`.., `digest`.
//! The real updater (with the real `LeafGauge`, `LeafBuilder`, split / bulk split / merge logic) is
//! reached through the hook `nomt::verif_api::leaf_rebuild_stages` (hook H5).  Every page it emits
//! is decoded by the Coq decoder `Image.decode_leaf`, encoded again by `NodeCodec` and range-checked
//! by `Image.leaf_in_range` (model co-process, `lbcheck`).  The oracle does not look at the updater:
//! the cells decoded from the emitted leaves (+ the cells still pending after a `NeedsMerge`) must be
//! the base cells with the operations applied.  The leaves built in one round are the base leaves
//! of the next round.
//!
//! Signatures
//!   c01-lb-content    decoded cells (+ pending) != base cells with the operations applied; overflow
//!                     cells reported deleted != overflow cells of the base that were replaced / deleted;
//!                     NeedsMerge / pending inconsistent
//!   c01-lb-order      keys not strictly ascending within a leaf or across the emitted leaves
//!   c01-lb-separator  a leaf's separator > its first key or <= the previous leaf's last key, not the
//!                     separator the run started with, a key >= the next separator, or the cutoff the
//!                     leaf was handed over with is not the next leaf's separator / the stage cutoff
//!   c01-lb-size       a page that does not decode, a body above LEAF_NODE_BODY_SIZE, or a page that
//!                     NodeCodec does not encode to the same defined bytes
//!   c01-lb-gauge      the gauge's / the builder's body size != the real body size of the page; the
//!                     gauge left in the updater != the size of the pending cells
//!   c01-lb-underfull  a leaf below LEAF_MERGE_THRESHOLD that is not the rightmost leaf (cutoff None,
//!                     last leaf of its digest), or an empty leaf
//!   c01-lb-panic      the real updater / builder panicked on a valid input
//!   c01-lb-model      the leaves, the NeedsMerge results or the cells carried over differ from what the
//!                     extracted Coq mirror LeafBuild.run_stages predicts for the item (`lbmodel`): the
//!                     mirror is the function the theorems of LeafBuild_proofs.v are about
//!
//! Item line (= replay file):
//!   lb1 sep=<key> base=<key>:<val>,..|-|rc ops=<key>:<val|d>,.. cutoff=<key|-> | <stage> | .. [; chain=<seed>,..]
//!   <val> = v<len>.<seed> (inline value of <len> bytes) | o<value size>.<seed> (overflow cell)

use crate::json::J;
use crate::model::Model;
use crate::util::{get_bit, hex, key_from_hex, set_bit, unhex, value_bytes, Key, Rng};
use nomt::verif_api::{leaf_constants, leaf_rebuild_stages, VerifLeafOp, VerifLeafRebuild, VerifLeafStage};
use std::collections::{BTreeMap, BTreeSet, HashMap};
use std::panic::{catch_unwind, AssertUnwindSafe};
use std::sync::{Arc, Mutex};

// the documented format / thresholds (beatree/leaf/node.rs, ops/update/mod.rs); compared with the
// constants of the real code when the engine starts
const BODY: usize = 4094;
const MAXV: usize = 1332;
const MERGE: usize = 2047;
const BULK: usize = 7369;
const BULK_TARGET: usize = 3070;
const OVF_PAGE_BODY: u64 = 4092;

type Cell = (Key, Vec<u8>, bool);

fn body_of(cells: &[Cell]) -> usize {
    cells.iter().map(|c| 34 + c.1.len()).sum()
}

// ------------------------------------------------------------------------------------------------
// values

#[derive(Clone, Debug, PartialEq)]
pub enum Val {
    Inline(usize, u64), // length, seed
    Ovf(u64, u64),      // size of the value the cell stands for, seed
}

impl Val {
    fn cell_len(&self) -> usize {
        match self {
            Val::Inline(l, _) => *l,
            Val::Ovf(size, _) => 40 + 4 * ovf_pointers(*size),
        }
    }
    fn bytes(&self) -> (Vec<u8>, bool) {
        match self {
            Val::Inline(l, s) => (value_bytes(*l, *s), false),
            Val::Ovf(size, s) => {
                // overflow.rs::encode_cell: value size, value hash, the first page numbers
                let mut v = Vec::with_capacity(100);
                v.extend_from_slice(&size.to_le_bytes());
                v.extend_from_slice(&value_bytes(32, *s));
                let mut r = Rng::new(*s ^ 0x0F0F);
                for _ in 0..ovf_pointers(*size) {
                    v.extend_from_slice(&(1 + r.below(1 << 30) as u32).to_le_bytes());
                }
                (v, true)
            }
        }
    }
    fn text(&self) -> String {
        match self {
            Val::Inline(l, s) => format!("v{}.{}", l, s),
            Val::Ovf(z, s) => format!("o{}.{}", z, s),
        }
    }
    fn parse(t: &str) -> Val {
        let (a, b) = t[1..].split_once('.').expect("value descriptor");
        if t.starts_with('v') {
            Val::Inline(a.parse().unwrap(), b.parse().unwrap())
        } else {
            Val::Ovf(a.parse().unwrap(), b.parse().unwrap())
        }
    }
}

/// page numbers an overflow cell holds for a value of `size` bytes
fn ovf_pointers(size: u64) -> usize {
    (((size + OVF_PAGE_BODY - 1) / OVF_PAGE_BODY) as usize).clamp(1, 15)
}

/// value length classes: 0, 1, tiny, small, mid, large, big, MAX-1, MAX, MAX+1.. (overflow cell)
fn gen_val(rng: &mut Rng, class: u64) -> Val {
    let seed = rng.next() >> 20;
    match class {
        0 => Val::Inline(0, seed),
        1 => Val::Inline(1, seed),
        2 => Val::Inline(rng.range(2, 8) as usize, seed),
        3 => Val::Inline(rng.range(9, 64) as usize, seed),
        4 => Val::Inline(rng.range(65, 400) as usize, seed),
        5 => Val::Inline(rng.range(401, 1000) as usize, seed),
        6 => Val::Inline(rng.range(1001, 1330) as usize, seed),
        7 => Val::Inline(MAXV - 1, seed),
        8 => Val::Inline(MAXV, seed),
        _ => {
            let size = *rng.pick(&[1333u64, 1334, 4091, 4092, 4093, 8184, 8185, 30000, 15 * 4092, 15 * 4092 + 1, 16 * 4092, 1 << 20, 1 << 29]);
            Val::Ovf(size, seed)
        }
    }
}

const STYLES: u64 = 8;

fn gen_val_in(rng: &mut Rng, lo: u64, hi: u64) -> Val {
    let c = rng.range(lo, hi);
    gen_val(rng, c)
}

fn gen_val_style(rng: &mut Rng, style: u64) -> Val {
    let c = style_class(rng, style);
    gen_val(rng, c)
}

fn style_class(rng: &mut Rng, style: u64) -> u64 {
    match style {
        0 => rng.below(3),                             // tiny only: maximal entry count
        1 => 0,                                        // empty values only
        2 => rng.below(3),                             // one huge + many tiny (the huge one is placed by the caller)
        3 => rng.range(6, 8),                          // big only
        4 => rng.below(10),                            // everything
        5 => *rng.pick(&[9u64, 9, 9, 2, 3]),           // overflow cells
        6 => rng.range(4, 5),                          // mid
        _ => *rng.pick(&[8u64, 8, 7, 0, 1, 9, 6, 3]), // extremes
    }
}

// ------------------------------------------------------------------------------------------------
// keys

fn idx_key(idx: u8) -> Key {
    let mut k = [0u8; 32];
    k[0] = idx << 5;
    k
}

fn idx_top(idx: u8) -> Key {
    let mut k = [0xffu8; 32];
    k[0] = (idx << 5) | 0x1f;
    k
}

fn key_inc(k: &Key) -> Option<Key> {
    let mut r = *k;
    for i in (0..32).rev() {
        if r[i] == 0xff {
            r[i] = 0;
        } else {
            r[i] += 1;
            return Some(r);
        }
    }
    None
}

fn key_dec(k: &Key) -> Option<Key> {
    let mut r = *k;
    for i in (0..32).rev() {
        if r[i] == 0 {
            r[i] = 0xff;
        } else {
            r[i] -= 1;
            return Some(r);
        }
    }
    None
}

/// random bits from position `from` on, cut (zeros) behind position `upto`
fn rand_tail(rng: &mut Rng, k: &mut Key, from: usize, upto: usize) {
    let r = rng.key();
    for i in from..256 {
        set_bit(k, i, i < upto && get_bit(&r, i));
    }
}

/// keys of one stage: all begin with the 3 bits of `idx`
struct KeyGen {
    idx: u8,
    family: u64,
    prefix: Key,
    plen: usize,
    ctr: u64,
    chain: usize,
}

impl KeyGen {
    fn new(rng: &mut Rng, idx: u8) -> KeyGen {
        let family = rng.below(5);
        let plen = match family {
            0 => 3,
            2 => 240,
            _ => *rng.pick(&[3usize, 8, 9, 40, 100, 200, 247, 250, 254]),
        };
        let mut prefix = idx_key(idx);
        if rng.chance(2, 3) {
            rand_tail(rng, &mut prefix, 3, plen);
        } else if rng.chance(1, 2) {
            // the highest keys of the range
            for i in 3..plen {
                set_bit(&mut prefix, i, true);
            }
        }
        KeyGen { idx, family, prefix, plen, ctr: rng.below(4), chain: 0 }
    }

    fn one(&mut self, rng: &mut Rng) -> Key {
        let mut k = self.prefix;
        match self.family {
            0 | 1 => rand_tail(rng, &mut k, self.plen, 256),
            2 => {
                // dense counter in the last 16 bits: neighbours differ in the last bits
                self.ctr += 1 + rng.below(2);
                for b in 0..16 {
                    set_bit(&mut k, 240 + b, (self.ctr >> (15 - b)) & 1 == 1);
                }
            }
            3 => {
                // prefix, j ones, zeros: every key is a prefix of the next up to its last one bit
                let j = self.chain % (256 - self.plen + 1);
                self.chain += 1;
                for b in 0..j {
                    set_bit(&mut k, self.plen + b, true);
                }
                if self.chain > 256 - self.plen {
                    rand_tail(rng, &mut k, self.plen, 256);
                }
            }
            _ => {
                // random tail cut at a random length (short keys padded with zeros)
                let upto = (self.plen + 1 + rng.below(20) as usize).min(256);
                rand_tail(rng, &mut k, self.plen, upto);
            }
        }
        k
    }

    fn take(&mut self, rng: &mut Rng, n: usize, used: &mut BTreeSet<Key>, extremes: bool) -> Vec<Key> {
        let mut out: BTreeSet<Key> = BTreeSet::new();
        if extremes && n >= 2 {
            if rng.chance(1, 3) {
                out.insert(idx_key(self.idx)); // idx 0: the all-zero key
            }
            if rng.chance(1, 3) {
                out.insert(idx_top(self.idx)); // idx 7: the all-one key
            }
        }
        let mut guard = 0;
        while out.len() < n && guard < 40 * n + 100 {
            guard += 1;
            let k = self.one(rng);
            if !used.contains(&k) {
                out.insert(k);
            }
        }
        // a family that ran dry: random keys
        while out.len() < n {
            let mut k = idx_key(self.idx);
            rand_tail(rng, &mut k, 3, 256);
            if !used.contains(&k) {
                out.insert(k);
            }
        }
        for k in &out {
            used.insert(*k);
        }
        out.into_iter().collect()
    }
}

// ------------------------------------------------------------------------------------------------
// items

#[derive(Clone, Debug)]
pub struct StageSpec {
    pub sep: Key,
    pub base: Option<Vec<(Key, Val)>>,
    pub rc: bool, // keep the previous base, remove_cutoff()
    pub ops: Vec<(Key, Option<Val>)>,
    pub cutoff: Option<Key>,
}

#[derive(Clone, Debug)]
pub struct Item {
    pub stages: Vec<StageSpec>,
    pub chain: Vec<u64>,
    pub label: String,
}

impl Item {
    pub fn to_line(&self) -> String {
        let st: Vec<String> = self
            .stages
            .iter()
            .map(|s| {
                let base = if s.rc {
                    "rc".to_string()
                } else {
                    match &s.base {
                        None => "-".to_string(),
                        Some(cells) if cells.is_empty() => "empty".to_string(),
                        Some(cells) => cells.iter().map(|(k, v)| format!("{}:{}", hex(k), v.text())).collect::<Vec<_>>().join(","),
                    }
                };
                let ops = s
                    .ops
                    .iter()
                    .map(|(k, v)| match v {
                        Some(v) => format!("{}:{}", hex(k), v.text()),
                        None => format!("{}:d", hex(k)),
                    })
                    .collect::<Vec<_>>()
                    .join(",");
                format!("sep={} base={} ops={} cutoff={}", hex(&s.sep), base, ops, s.cutoff.map(|k| hex(&k)).unwrap_or_else(|| "-".into()))
            })
            .collect();
        let mut l = format!("lb1 {}", st.join(" | "));
        if !self.chain.is_empty() {
            l += &format!(" ; chain={}", self.chain.iter().map(|s| s.to_string()).collect::<Vec<_>>().join(","));
        }
        l
    }

    pub fn from_line(line: &str) -> Item {
        let body = line.trim().strip_prefix("lb1 ").expect("lb item line");
        let (st, chain) = match body.split_once(" ; chain=") {
            Some((a, b)) => (a, b.split(',').filter(|s| !s.is_empty()).map(|s| s.parse().unwrap()).collect()),
            None => (body, vec![]),
        };
        let stages = st
            .split(" | ")
            .map(|s| {
                let mut spec = StageSpec { sep: [0u8; 32], base: None, rc: false, ops: vec![], cutoff: None };
                for f in s.split(' ') {
                    if let Some(x) = f.strip_prefix("sep=") {
                        spec.sep = key_from_hex(x);
                    } else if let Some(b) = f.strip_prefix("base=") {
                        match b {
                            "-" => {}
                            "rc" => spec.rc = true,
                            "empty" => spec.base = Some(vec![]),
                            _ => {
                                spec.base = Some(
                                    b.split(',')
                                        .map(|t| {
                                            let (k, v) = t.split_once(':').unwrap();
                                            (key_from_hex(k), Val::parse(v))
                                        })
                                        .collect(),
                                )
                            }
                        }
                    } else if let Some(o) = f.strip_prefix("ops=") {
                        spec.ops = o
                            .split(',')
                            .filter(|t| !t.is_empty())
                            .map(|t| {
                                let (k, v) = t.split_once(':').unwrap();
                                (key_from_hex(k), if v == "d" { None } else { Some(Val::parse(v)) })
                            })
                            .collect();
                    } else if let Some(c) = f.strip_prefix("cutoff=") {
                        if c != "-" {
                            spec.cutoff = Some(key_from_hex(c));
                        }
                    }
                }
                spec
            })
            .collect();
        Item { stages, chain, label: "replay".into() }
    }
}

// ------------------------------------------------------------------------------------------------
// generation

/// values of one base leaf: body size `target` at most, hit exactly when the last value can be sized
fn gen_leaf_vals(rng: &mut Rng, target: usize, style: u64) -> Vec<Val> {
    let mut vals: Vec<Val> = Vec::new();
    let mut body = 0usize;
    if style == 2 && target >= 34 + MAXV {
        vals.push(Val::Inline(*rng.pick(&[MAXV, MAXV - 1, MAXV]), rng.next() >> 20));
        body += 34 + vals[0].cell_len();
    }
    let exact = rng.chance(4, 5);
    loop {
        if vals.len() >= 120 {
            break;
        }
        let v = gen_val_style(rng, style);
        let add = 34 + v.cell_len();
        if body + add > target {
            let rest = target - body;
            if exact && rest >= 34 && rest - 34 <= MAXV && vals.len() < 120 {
                vals.push(Val::Inline(rest - 34, rng.next() >> 20));
            }
            break;
        }
        body += add;
        vals.push(v);
    }
    if style == 2 && vals.len() > 1 {
        // the huge value at a random position
        let p = rng.below(vals.len() as u64) as usize;
        vals.swap(0, p);
    }
    vals
}

/// the size of a leaf of the store: between the merge threshold and full, biased to the edges
fn gen_target(rng: &mut Rng, small_allowed: bool) -> usize {
    match rng.below(10) {
        0 | 1 => BODY,
        2 => BODY - rng.below(4) as usize,
        3 => BODY - rng.below(40) as usize,
        4 => MERGE + rng.below(3) as usize,
        5 if small_allowed => rng.range(34, MERGE as u64 - 1) as usize,
        6 => rng.range(3000, 4094) as usize,
        _ => rng.range(MERGE as u64, BODY as u64) as usize,
    }
}

/// a key in [lo, hi) that is not used: a neighbour of a base key, a base key with a re-rolled tail,
/// or a key of the stage's family
fn fresh_key(rng: &mut Rng, base: &[(Key, usize, bool)], lo: &Key, hi: Option<&Key>, used: &BTreeSet<Key>, kg: &mut Option<KeyGen>) -> Option<Key> {
    for _ in 0..12 {
        let from = if base.is_empty() { *lo } else { base[rng.below(base.len() as u64) as usize].0 };
        let k = match rng.below(4) {
            0 => {
                if rng.chance(1, 2) {
                    key_inc(&from)
                } else {
                    key_dec(&from)
                }
            }
            1 | 2 if kg.is_some() => Some(kg.as_mut().unwrap().one(rng)),
            _ => {
                let mut k = from;
                let pos = rng.range(3, 255) as usize;
                let upto = if rng.chance(1, 2) { 256 } else { (pos + 1 + rng.below(30) as usize).min(256) };
                rand_tail(rng, &mut k, pos, upto);
                Some(k)
            }
        };
        if let Some(k) = k {
            if &k >= lo && hi.map_or(true, |h| &k < h) && !used.contains(&k) {
                return Some(k);
            }
        }
    }
    None
}

/// operations of one stage: ascending distinct keys in [lo, hi)
fn gen_ops(rng: &mut Rng, base: &[(Key, usize, bool)], lo: &Key, hi: Option<&Key>, kg: &mut Option<KeyGen>, thorough: bool, label: &mut String) -> Vec<(Key, Option<Val>)> {
    let mut ops: BTreeMap<Key, Option<Val>> = BTreeMap::new();
    let n = base.len();
    let mut used: BTreeSet<Key> = base.iter().map(|b| b.0).collect();
    let mut modes = Vec::new();
    for _ in 0..rng.range(0, 3) {
        modes.push(rng.below(17));
    }
    if rng.chance(1, 14) {
        modes.clear(); // pure keep
    }
    *label += &format!(" ops{:?}", modes);
    let insert = |rng: &mut Rng, ops: &mut BTreeMap<Key, Option<Val>>, used: &mut BTreeSet<Key>, kg: &mut Option<KeyGen>, v: Val| {
        if let Some(k) = fresh_key(rng, base, lo, hi, used, kg) {
            used.insert(k);
            ops.insert(k, Some(v));
        }
    };
    for m in modes {
        match m {
            0 if n > 0 => {
                ops.insert(base[0].0, None);
            }
            1 if n > 0 => {
                let k = rng.range(1, 3.min(n as u64)) as usize;
                for i in n - k..n {
                    ops.insert(base[i].0, None);
                }
            }
            2 if n > 0 => {
                let p = rng.range(5, 90);
                for b in base {
                    if rng.chance(p, 100) {
                        ops.insert(b.0, None);
                    }
                }
            }
            3 if n > 0 => {
                for b in base {
                    ops.insert(b.0, None);
                }
            }
            4 if n > 1 => {
                // delete all but a few: the leaf becomes underfull
                let keep = rng.range(1, 3) as usize;
                let mut kept = BTreeSet::new();
                for _ in 0..keep {
                    kept.insert(rng.below(n as u64) as usize);
                }
                for i in 0..n {
                    if !kept.contains(&i) {
                        ops.insert(base[i].0, None);
                    }
                }
            }
            5 if n > 0 => {
                // overwrite a random subset with values of random classes
                let p = rng.range(3, 60);
                let style = rng.below(STYLES);
                for b in base {
                    if rng.chance(p, 100) {
                        ops.insert(b.0, Some(gen_val_style(rng, style)));
                    }
                }
            }
            6 if n > 0 => {
                // one entry becomes as large as an inline value can be
                let i = rng.below(n as u64) as usize;
                ops.insert(base[i].0, Some(gen_val_in(rng, 7, 8)));
            }
            7 if n > 0 => {
                // overflow cell <-> inline value
                let cnt = rng.range(1, 4);
                for _ in 0..cnt {
                    let i = rng.below(n as u64) as usize;
                    let v = if base[i].2 { gen_val_in(rng, 0, 8) } else { gen_val(rng, 9) };
                    ops.insert(base[i].0, Some(v));
                }
            }
            8 => {
                let cnt = rng.range(1, 6);
                for _ in 0..cnt {
                    let v = gen_val_in(rng, 0, 9);
                    insert(rng, &mut ops, &mut used, kg, v);
                }
            }
            9 => {
                // many tiny values: maximal entry count
                let cnt = rng.range(20, if thorough { 400 } else { 200 });
                for _ in 0..cnt {
                    let v = gen_val_in(rng, 0, 2);
                    insert(rng, &mut ops, &mut used, kg, v);
                }
            }
            10 => {
                // a few big values: 2-way and 3-way splits
                let cnt = rng.range(1, 6);
                for _ in 0..cnt {
                    let v = gen_val_in(rng, 5, 8);
                    insert(rng, &mut ops, &mut used, kg, v);
                }
            }
            11 => {
                // a batch beyond the bulk split threshold
                let style = rng.below(STYLES);
                let total = rng.range(3000, if thorough { 90000 } else { 40000 }) as usize;
                let mut sum = 0;
                let mut guard = 0;
                while sum < total && guard < 3000 {
                    guard += 1;
                    let v = gen_val_style(rng, style);
                    sum += 34 + v.cell_len();
                    insert(rng, &mut ops, &mut used, kg, v);
                }
            }
            12 if n > 0 => {
                // neighbours of base keys (last bit / last bits)
                let cnt = rng.range(1, 10);
                for _ in 0..cnt {
                    let b = base[rng.below(n as u64) as usize].0;
                    let k = if rng.chance(1, 2) { key_inc(&b) } else { key_dec(&b) };
                    if let Some(k) = k {
                        if &k >= lo && hi.map_or(true, |h| &k < h) && !used.contains(&k) {
                            used.insert(k);
                            ops.insert(k, Some(gen_val_in(rng, 0, 9)));
                        }
                    }
                }
            }
            13 => {
                // deletions of absent keys: keep-up-to only
                let cnt = rng.range(1, 8);
                for _ in 0..cnt {
                    if let Some(k) = fresh_key(rng, base, lo, hi, &used, kg) {
                        used.insert(k);
                        ops.insert(k, None);
                    }
                }
            }
            14 => {
                // the ends of the range: the lowest key allowed, a key above everything
                if !used.contains(lo) {
                    used.insert(*lo);
                    ops.insert(*lo, Some(gen_val_in(rng, 0, 9)));
                }
                let top = match hi {
                    Some(h) => key_dec(h),
                    None => Some([0xffu8; 32]),
                };
                if let Some(t) = top {
                    if &t >= lo && !used.contains(&t) {
                        used.insert(t);
                        ops.insert(t, Some(gen_val_in(rng, 0, 9)));
                    }
                }
            }
            15 if n > 0 => {
                // overwrite a run
                let s = rng.below(n as u64) as usize;
                let e = (s + rng.range(1, 6) as usize).min(n);
                let class = rng.below(10);
                for i in s..e {
                    ops.insert(base[i].0, Some(gen_val(rng, class)));
                }
            }
            _ => {
                // mid-size values: several leaves
                let cnt = rng.range(5, 60);
                for _ in 0..cnt {
                    let v = gen_val_in(rng, 3, 5);
                    insert(rng, &mut ops, &mut used, kg, v);
                }
            }
        }
    }
    // the resulting size on one of the thresholds
    if rng.chance(1, 3) {
        let mut total: usize = 0;
        for b in base {
            if !ops.contains_key(&b.0) {
                total += 34 + b.1;
            }
        }
        for v in ops.values().flatten() {
            total += 34 + v.cell_len();
        }
        let edge = *rng.pick(&[
            MERGE - 1, MERGE, MERGE + 1, BODY - 1, BODY, BODY + 1, BODY + 2, BODY + 34, BODY + 35, 2 * MERGE + 1, BULK - 1, BULK, BULK + 1, BULK + 2, 2 * BODY, 2 * BODY + 1,
            BODY + BULK_TARGET, 2 * BULK_TARGET, 3 * BULK_TARGET + 1,
        ]);
        if edge > total {
            let mut need = edge - total;
            *label += &format!(" edge{}", edge);
            let mut guard = 0;
            while need > 34 + MAXV && guard < 40 {
                guard += 1;
                let v = gen_val_in(rng, 5, 8);
                if let Some(k) = fresh_key(rng, base, lo, hi, &used, kg) {
                    used.insert(k);
                    need -= 34 + v.cell_len();
                    ops.insert(k, Some(v));
                }
            }
            if need >= 34 && need - 34 <= MAXV {
                if let Some(k) = fresh_key(rng, base, lo, hi, &used, kg) {
                    used.insert(k);
                    ops.insert(k, Some(Val::Inline(need - 34, rng.next() >> 20)));
                }
            }
        }
    }
    ops.into_iter().collect()
}

fn base_view(cells: &[(Key, Val)]) -> Vec<(Key, usize, bool)> {
    cells.iter().map(|(k, v)| (*k, v.cell_len(), matches!(v, Val::Ovf(..)))).collect()
}

pub fn gen_item(rng: &mut Rng, thorough: bool) -> Item {
    let mut label = String::new();
    let shape = rng.below(12);
    let mut stages = Vec::new();
    if shape == 0 {
        // empty store: insertions only
        let idx = 0u8;
        let mut kg = Some(KeyGen::new(rng, idx));
        let lo = [0u8; 32];
        let mut ops = Vec::new();
        let mut tries = 0;
        while ops.is_empty() && tries < 5 {
            tries += 1;
            ops = gen_ops(rng, &[], &lo, None, &mut kg, thorough, &mut label).into_iter().filter(|(_, v)| v.is_some()).collect();
        }
        label += " fresh";
        stages.push(StageSpec { sep: lo, base: None, rc: false, ops, cutoff: None });
    } else {
        let n_nodes: usize = match shape {
            1 | 2 | 3 => 2,
            4 | 5 => 3,
            6 => rng.range(3, 5) as usize,
            _ => 1,
        };
        let last_open = rng.chance(1, 2); // the last leaf is the rightmost leaf of the store
        let first_idx = if last_open && rng.chance(1, 2) { (8 - n_nodes) as u8 } else { rng.below((8 - n_nodes) as u64 + 1) as u8 };
        let first_idx = if rng.chance(1, 3) { 0 } else { first_idx };
        let mut used: BTreeSet<Key> = BTreeSet::new();
        let mut staged: Vec<(StageSpec, Option<KeyGen>)> = Vec::new();
        for i in 0..n_nodes {
            let idx = first_idx + i as u8;
            let is_last = i + 1 == n_nodes;
            let mut kg = KeyGen::new(rng, idx);
            let style = rng.below(STYLES);
            let small_ok = (is_last && last_open) || rng.chance(1, 8);
            let target = gen_target(rng, small_ok);
            let vals = gen_leaf_vals(rng, target, style);
            let keys = kg.take(rng, vals.len(), &mut used, true);
            let cells: Vec<(Key, Val)> = keys.into_iter().zip(vals.into_iter()).collect();
            label += &format!(" leaf(idx={} fam={} style={} target={} n={})", idx, kg.family, style, target, cells.len());
            let sep = if cells.is_empty() || rng.chance(2, 3) { idx_key(idx) } else { cells[0].0 };
            let sep = if idx == 0 && rng.chance(3, 4) { [0u8; 32] } else { sep };
            let cutoff = if is_last {
                if last_open || idx == 7 {
                    None
                } else {
                    Some(idx_key(idx + 1))
                }
            } else {
                None // filled in below: the next stage's separator
            };
            staged.push((StageSpec { sep, base: Some(cells), rc: false, ops: vec![], cutoff }, Some(kg)));
        }
        for i in 0..n_nodes - 1 {
            let next = staged[i + 1].0.sep;
            staged[i].0.cutoff = Some(next);
        }
        let mut specs = Vec::new();
        for (mut s, mut kg) in staged.drain(..) {
            let view = base_view(s.base.as_ref().unwrap());
            s.ops = gen_ops(rng, &view, &s.sep, s.cutoff.as_ref(), &mut kg, thorough, &mut label);
            specs.push(s);
        }
        // the range extension found no leaf to the right: the cutoff is removed, the old base stays
        if specs.last().unwrap().cutoff.is_some() && rng.chance(1, 3) {
            label += " rc";
            specs.push(StageSpec { sep: [0u8; 32], base: None, rc: true, ops: vec![], cutoff: None });
        }
        return Item { stages: specs, chain: (0..rng.below(3)).map(|_| rng.next() >> 1).collect(), label };
    }
    let rounds = rng.below(3);
    let chain = (0..rounds).map(|_| rng.next() >> 1).collect();
    Item { stages, chain, label }
}

// ------------------------------------------------------------------------------------------------
// running

#[derive(Default, Clone)]
pub struct LbStats {
    pub rounds: u64,
    pub stages: u64,
    pub stages_no_base: u64,
    pub stages_remove_cutoff: u64,
    pub leaves: u64,
    pub cells: u64,
    pub leaves_full: u64,
    pub leaves_within_8: u64,
    pub leaves_100_cells: u64,
    pub leaves_with_overflow: u64,
    pub leaves_single: u64,
    pub leaves_rightmost_underfull: u64,
    pub leaves_below_split_target: u64,
    pub digest_three_no_bulk: u64,
    pub separators_full_length: u64,
    pub small_base_not_last: u64,
    pub max_body: u64,
    pub max_cells: u64,
    pub digest_one_leaf: u64,
    pub digest_two_leaves: u64,
    pub digest_three_leaves: u64,
    pub digest_more_leaves: u64,
    pub digest_bulk: u64,
    pub digest_split_then_merge: u64,
    pub digest_size_on_threshold: u64,
    pub needs_merge: u64,
    pub merge_chains: u64,
    pub merged_leaf_built: u64,
    pub pending_at_end: u64,
    pub inserts: u64,
    pub overwrites: u64,
    pub deletes: u64,
    pub absent_deletes: u64,
    pub overflow_released: u64,
    pub zero_key: u64,
    pub ones_key: u64,
    pub base_full: u64,
    pub vclass: [u64; 6],
    pub real_panics: u64,
    pub model_rounds: u64,
    pub model_rounds_wf: u64,
    pub model_leaves: u64,
    pub model_pending: u64,
    pub model_us: u64,
}

impl LbStats {
    fn merge(&mut self, o: &LbStats) {
        macro_rules! add { ($($f:ident),*) => { $( self.$f += o.$f; )* } }
        add!(
            rounds, stages, stages_no_base, stages_remove_cutoff, leaves, cells, leaves_full, leaves_within_8, leaves_100_cells, leaves_with_overflow, leaves_single,
            leaves_rightmost_underfull, leaves_below_split_target, digest_three_no_bulk, separators_full_length, small_base_not_last, digest_one_leaf, digest_two_leaves, digest_three_leaves, digest_more_leaves, digest_bulk,
            digest_split_then_merge, digest_size_on_threshold, needs_merge, merge_chains, merged_leaf_built, pending_at_end, inserts, overwrites, deletes, absent_deletes,
            overflow_released, zero_key, ones_key, base_full, real_panics, model_rounds, model_rounds_wf, model_leaves, model_pending, model_us
        );
        self.max_body = self.max_body.max(o.max_body);
        self.max_cells = self.max_cells.max(o.max_cells);
        for i in 0..6 {
            self.vclass[i] += o.vclass[i];
        }
    }
    fn json(&self) -> J {
        let i = |x: u64| J::Int(x as i64);
        J::obj(vec![
            ("rounds", i(self.rounds)),
            ("stages", i(self.stages)),
            ("stages_without_base", i(self.stages_no_base)),
            ("stages_remove_cutoff", i(self.stages_remove_cutoff)),
            ("leaves_built", i(self.leaves)),
            ("cells_in_built_leaves", i(self.cells)),
            ("leaves_body_4094", i(self.leaves_full)),
            ("leaves_within_8_bytes_of_full", i(self.leaves_within_8)),
            ("leaves_100_or_more_cells", i(self.leaves_100_cells)),
            ("leaves_with_overflow_cells", i(self.leaves_with_overflow)),
            ("leaves_single_cell", i(self.leaves_single)),
            ("leaves_rightmost_underfull", i(self.leaves_rightmost_underfull)),
            ("split_leaves_below_the_split_target_next_item_would_overfill", i(self.leaves_below_split_target)),
            ("digests_three_leaves_without_bulk_split", i(self.digest_three_no_bulk)),
            ("split_separators_of_256_bits", i(self.separators_full_length)),
            ("base_leaves_below_merge_threshold_not_last", i(self.small_base_not_last)),
            ("max_body_size", i(self.max_body)),
            ("max_cells_in_a_leaf", i(self.max_cells)),
            ("digests_one_leaf", i(self.digest_one_leaf)),
            ("digests_two_leaves", i(self.digest_two_leaves)),
            ("digests_three_leaves", i(self.digest_three_leaves)),
            ("digests_four_or_more_leaves", i(self.digest_more_leaves)),
            ("digests_bulk_split", i(self.digest_bulk)),
            ("digests_split_then_needs_merge", i(self.digest_split_then_merge)),
            ("digests_total_size_on_a_threshold", i(self.digest_size_on_threshold)),
            ("digests_needs_merge", i(self.needs_merge)),
            ("merge_chains_over_two_or_more_leaves", i(self.merge_chains)),
            ("leaves_built_from_merged_cells", i(self.merged_leaf_built)),
            ("rounds_ending_with_pending_cells", i(self.pending_at_end)),
            ("inserts", i(self.inserts)),
            ("overwrites", i(self.overwrites)),
            ("deletes", i(self.deletes)),
            ("deletes_of_absent_keys", i(self.absent_deletes)),
            ("overflow_cells_released", i(self.overflow_released)),
            ("items_with_all_zero_key", i(self.zero_key)),
            ("items_with_all_one_key", i(self.ones_key)),
            ("base_leaves_within_4_bytes_of_full", i(self.base_full)),
            (
                "put_value_lengths",
                J::obj(vec![
                    ("0", i(self.vclass[0])),
                    ("1", i(self.vclass[1])),
                    ("2..1330", i(self.vclass[2])),
                    ("1331", i(self.vclass[3])),
                    ("1332", i(self.vclass[4])),
                    ("overflow_cell", i(self.vclass[5])),
                ]),
            ),
            ("real_panics", i(self.real_panics)),
            ("rounds_compared_with_the_coq_mirror", i(self.model_rounds)),
            ("rounds_satisfying_stages_wf", i(self.model_rounds_wf)),
            ("leaves_equal_to_the_mirrors_prediction", i(self.model_leaves)),
            ("carried_over_cell_lists_equal_to_the_mirrors_prediction", i(self.model_pending)),
            ("cpu_ms_spent_in_the_mirror_all_threads", i(self.model_us / 1000)),
        ])
    }
}

/// a stage with raw cells
#[derive(Clone)]
struct RStage {
    sep: Key,
    base: Option<Vec<Cell>>,
    rc: bool,
    ops: Vec<(Key, Option<(Vec<u8>, bool)>)>,
    cutoff: Option<Key>,
}

impl RStage {
    fn of_spec(s: &StageSpec) -> RStage {
        RStage {
            sep: s.sep,
            base: s.base.as_ref().map(|cells| {
                cells
                    .iter()
                    .map(|(k, v)| {
                        let (b, o) = v.bytes();
                        (*k, b, o)
                    })
                    .collect()
            }),
            rc: s.rc,
            ops: s.ops.iter().map(|(k, v)| (*k, v.as_ref().map(|v| v.bytes()))).collect(),
            cutoff: s.cutoff,
        }
    }
}

/// a leaf the real updater built, as the Coq decoder reads its page
struct DLeaf {
    sep: Key,
    cells: Vec<Cell>,
}

pub struct Outcome {
    pub viol: Vec<(String, String, String)>, // (sig, kind, detail)
    pub stats: LbStats,
    pub nontrivial: bool,
}

fn kh(k: &Key) -> String {
    hex(k)
}

enum Carry {
    None,
    Exact(Key),
    Ranged,
}

/// the extracted Coq mirror (LeafBuild.run_stages) on the stages of the round against what the real
/// updater did: leaves (stage, separator, cutoff, gauge, builder size, the cells), NeedsMerge and the
/// gauge left per stage, the cells carried over and their separator
fn model_round(model: &mut Model, stages: &[RStage], real: &VerifLeafRebuild, dcells: &[Option<Vec<Cell>>], out: &mut Outcome) {
    let mut ids: HashMap<(Key, Vec<u8>, bool), u64> = HashMap::new();
    let mut id_of = |k: &Key, v: &Vec<u8>, o: bool| -> u64 {
        let n = ids.len() as u64 + 1;
        *ids.entry((*k, v.clone(), o)).or_insert(n)
    };
    let mut cmd = String::from("lbmodel");
    for s in stages {
        let base = if s.rc {
            "rc".to_string()
        } else {
            match &s.base {
                None => "-".to_string(),
                Some(cells) if cells.is_empty() => "empty".to_string(),
                Some(cells) => cells.iter().map(|(k, v, o)| format!("{}:{}:{}", kh(k), v.len(), id_of(k, v, *o))).collect::<Vec<_>>().join(","),
            }
        };
        let ops = s
            .ops
            .iter()
            .map(|(k, v)| match v {
                Some((b, o)) => format!("{}:{}:{}", kh(k), b.len(), id_of(k, b, *o)),
                None => format!("{}:d", kh(k)),
            })
            .collect::<Vec<_>>()
            .join(",");
        cmd += &format!(" S;{};{};{};{}", kh(&s.sep), base, s.cutoff.map(|k| kh(&k)).unwrap_or_else(|| "-".into()), ops);
    }
    let t_model = std::time::Instant::now();
    let reply = model.ask_multi(&cmd);
    out.stats.model_us += t_model.elapsed().as_micros() as u64;
    out.stats.model_rounds += 1;
    let mut viol = |kind: &str, detail: String| out.viol.push(("c01-lb-model".into(), kind.into(), detail));
    let okey = |k: &Option<Key>| k.map(|k| kh(&k)).unwrap_or_else(|| "-".into());
    let ids_of = |cells: &[Cell], ids: &HashMap<(Key, Vec<u8>, bool), u64>| -> Vec<u64> { cells.iter().map(|c| ids.get(&(c.0, c.1.clone(), c.2)).cloned().unwrap_or(0)).collect() };
    let mut n_leaves = 0usize;
    let mut n_stages = 0usize;
    let mut leaves_ok = 0u64;
    let mut pending_ok = 0u64;
    let mut wf = false;
    let mut leaf_fields_ok: Vec<bool> = Vec::new();
    for l in &reply {
        let t: Vec<&str> = l.split(' ').collect();
        match t[0] {
            "const" => {
                let c: Vec<usize> = t[1..].iter().map(|x| x.parse().unwrap()).collect();
                if c != [BODY, MAXV, MERGE, BULK, BULK_TARGET] {
                    viol("constants", format!("the mirror's constants {:?} differ from the real ones", c));
                }
            }
            "wf" => wf = t[1] == "1",
            "panic" => viol("mirror-panic", "the mirror's updater panics on an input the real updater handled".into()),
            "stage" => {
                let i: usize = t[1].parse().unwrap();
                n_stages += 1;
                match real.stages.get(i) {
                    None => viol("stage-count", format!("the mirror ran stage {}, the real updater {} stages", i, real.stages.len())),
                    Some(r) => {
                        if okey(&r.needs_merge) != t[2] {
                            viol("needs-merge", format!("stage {}: the real digest returned NeedsMerge {}, the mirror {}", i, okey(&r.needs_merge), t[2]));
                        }
                        if r.gauge_left.to_string() != t[3] {
                            viol("gauge-left", format!("stage {}: the real gauge is left at {}, the mirror's at {}", i, r.gauge_left, t[3]));
                        }
                    }
                }
            }
            "leaf" => {
                let j: usize = t[1].parse().unwrap();
                n_leaves += 1;
                let mut ok = false;
                match real.built.get(j) {
                    None => {
                        if j == real.built.len() {
                            viol("leaf-count", format!("the mirror predicts more than the {} leaves the real updater built; leaf {}: stage {} separator {} cells {} body {}", real.built.len(), j, t[2], t[3], t[8], t[9]));
                        }
                    }
                    Some(b) => {
                        let n: usize = t[6].parse().unwrap();
                        let vs: usize = t[7].parse().unwrap();
                        let mut diffs: Vec<String> = Vec::new();
                        if b.stage.to_string() != t[2] {
                            diffs.push(format!("stage {} / {}", b.stage, t[2]));
                        }
                        if kh(&b.separator) != t[3] {
                            diffs.push(format!("separator {} / {}", kh(&b.separator), t[3]));
                        }
                        if okey(&b.cutoff) != t[4] {
                            diffs.push(format!("cutoff {} / {}", okey(&b.cutoff), t[4]));
                        }
                        if b.gauge_body_size.to_string() != t[5] {
                            diffs.push(format!("gauge {} / {}", b.gauge_body_size, t[5]));
                        }
                        if b.builder_body_size != 34 * n + vs {
                            diffs.push(format!("builder sized for {} / {}", b.builder_body_size, 34 * n + vs));
                        }
                        if let Some(Some(cells)) = dcells.get(j) {
                            if cells.len().to_string() != t[8] || body_of(cells).to_string() != t[9] {
                                diffs.push(format!("{} cells with a body of {} / {} cells, {}", cells.len(), body_of(cells), t[8], t[9]));
                            }
                            if cells.first().map(|c| kh(&c.0)).unwrap_or_else(|| "-".into()) != t[10] || cells.last().map(|c| kh(&c.0)).unwrap_or_else(|| "-".into()) != t[11] {
                                diffs.push(format!("first / last key differ, the mirror has {} .. {}", t[10], t[11]));
                            }
                        }
                        if diffs.is_empty() {
                            ok = true;
                        } else {
                            viol("leaf", format!("leaf {} (real / mirror): {}", j, diffs.join("; ")));
                        }
                    }
                }
                leaf_fields_ok.push(ok);
            }
            "ids" => {
                let j: usize = t[1].parse().unwrap();
                if let Some(Some(cells)) = dcells.get(j) {
                    let got = ids_of(cells, &ids);
                    let want: Vec<u64> = t[2..].iter().filter(|x| !x.is_empty()).map(|x| x.parse().unwrap()).collect();
                    if got != want {
                        let first = got.iter().zip(want.iter()).position(|(a, b)| a != b).unwrap_or(got.len().min(want.len()));
                        viol("leaf-cells", format!("leaf {}: the page holds {} cells, the mirror predicts {}; first difference at cell {}", j, got.len(), want.len(), first));
                    } else if leaf_fields_ok.get(j).cloned().unwrap_or(false) {
                        leaves_ok += 1;
                    }
                }
            }
            "pending" => {
                let got = ids_of(&real.pending, &ids);
                let want: Vec<u64> = t[4..].iter().filter(|x| !x.is_empty()).map(|x| x.parse().unwrap()).collect();
                if got != want {
                    viol("pending", format!("{} cells are left in the real updater, the mirror predicts {}", got.len(), want.len()));
                } else if okey(&real.pending_separator) != t[1] {
                    viol("pending-separator", format!("the separator override left in the real updater is {}, the mirror's {}", okey(&real.pending_separator), t[1]));
                } else {
                    pending_ok += 1;
                }
            }
            _ => {}
        }
    }
    if !reply.iter().any(|l| l == "panic") {
        if n_leaves != real.built.len() {
            viol("leaf-count", format!("the real updater built {} leaves, the mirror predicts {}", real.built.len(), n_leaves));
        }
        if n_stages != real.stages.len() {
            viol("stage-count", format!("the real updater ran {} stages, the mirror {}", real.stages.len(), n_stages));
        }
    }
    out.stats.model_leaves += leaves_ok;
    out.stats.model_pending += pending_ok;
    if wf {
        out.stats.model_rounds_wf += 1;
    }
}

/// one round: the real updater and the checks.  Returns the decoded leaves and the cutoff behind the
/// last one when every page decodes and nothing is pending.
fn run_round(model: &mut Model, stages: &[RStage], out: &mut Outcome) -> Option<(Vec<DLeaf>, Option<Key>)> {
    let stats = &mut out.stats;
    stats.rounds += 1;
    // expected content: the bases with the operations applied; expected releases of overflow cells
    let mut expected: BTreeMap<Key, (Vec<u8>, bool)> = BTreeMap::new();
    let mut exp_released: Vec<Vec<Vec<u8>>> = Vec::new();
    for st in stages {
        stats.stages += 1;
        if st.rc {
            stats.stages_remove_cutoff += 1;
        } else if st.base.is_none() {
            stats.stages_no_base += 1;
        }
        let mut rel = Vec::new();
        if let Some(cells) = &st.base {
            if body_of(cells) + 4 >= BODY {
                stats.base_full += 1;
            }
            if body_of(cells) < MERGE && st.cutoff.is_some() {
                stats.small_base_not_last += 1;
            }
            for (k, v, o) in cells {
                expected.insert(*k, (v.clone(), *o));
            }
            let pos: HashMap<Key, usize> = cells.iter().enumerate().map(|(i, c)| (c.0, i)).collect();
            for (k, v) in &st.ops {
                match (pos.get(k), v) {
                    (Some(i), _) => {
                        if cells[*i].2 {
                            rel.push(cells[*i].1.clone());
                        }
                        if v.is_some() {
                            stats.overwrites += 1;
                        } else {
                            stats.deletes += 1;
                        }
                    }
                    (None, Some(_)) => stats.inserts += 1,
                    (None, None) => stats.absent_deletes += 1,
                }
            }
        } else {
            for (_, v) in &st.ops {
                if v.is_some() {
                    stats.inserts += 1;
                } else {
                    stats.absent_deletes += 1;
                }
            }
        }
        stats.overflow_released += rel.len() as u64;
        exp_released.push(rel);
        for (_, v) in &st.ops {
            if let Some((b, o)) = v {
                let c = if *o {
                    5
                } else {
                    match b.len() {
                        0 => 0,
                        1 => 1,
                        l if l == MAXV - 1 => 3,
                        l if l == MAXV => 4,
                        _ => 2,
                    }
                };
                stats.vclass[c] += 1;
            }
        }
    }
    for st in stages {
        for (k, v) in &st.ops {
            match v {
                Some(v) => {
                    expected.insert(*k, v.clone());
                }
                None => {
                    expected.remove(k);
                }
            }
        }
    }
    // the real updater
    let vstages: Vec<VerifLeafStage> = stages
        .iter()
        .map(|s| VerifLeafStage {
            base: s.base.clone(),
            separator: s.sep,
            remove_cutoff: s.rc,
            ops: s
                .ops
                .iter()
                .map(|(k, v)| match v {
                    Some((b, o)) => VerifLeafOp::Put { key: *k, value: b.clone(), overflow: *o },
                    None => VerifLeafOp::Delete { key: *k },
                })
                .collect(),
            cutoff: s.cutoff,
        })
        .collect();
    let real = match catch_unwind(AssertUnwindSafe(|| leaf_rebuild_stages(vstages))) {
        Ok(r) => r,
        Err(e) => {
            let msg = e.downcast_ref::<String>().cloned().or_else(|| e.downcast_ref::<&str>().map(|s| s.to_string())).unwrap_or_else(|| "panic".into());
            out.stats.real_panics += 1;
            out.viol.push(("c01-lb-panic".into(), "real-panic".into(), format!("the real updater panicked: {}", msg)));
            return None;
        }
    };
    // the cutoff in force at each digest
    let eff_cutoff: Vec<Option<Key>> = stages.iter().map(|s| if s.rc { None } else { s.cutoff }).collect();
    // overflow cells released, NeedsMerge key
    for (i, r) in real.stages.iter().enumerate() {
        if r.deleted_overflow != exp_released[i] {
            out.viol.push((
                "c01-lb-content".into(),
                "overflow-release".into(),
                format!("stage {}: {} overflow cells of the base were replaced or deleted, the updater reported {} to release", i, exp_released[i].len(), r.deleted_overflow.len()),
            ));
        }
        if let Some(k) = r.needs_merge {
            if Some(k) != eff_cutoff[i] {
                out.viol.push(("c01-lb-content".into(), "needs-merge-key".into(), format!("stage {}: NeedsMerge({}) but the cutoff is {:?}", i, kh(&k), eff_cutoff[i].map(|c| kh(&c)))));
            }
        }
    }
    // the pages
    let n_built = real.built.len();
    let pending_nonempty = !real.pending.is_empty();
    let mut dleaves: Vec<DLeaf> = Vec::new();
    let mut all_decoded = true;
    let mut per_stage: Vec<usize> = vec![0; stages.len()];
    let mut bodies: Vec<Option<usize>> = vec![None; n_built];
    let mut dcells: Vec<Option<Vec<Cell>>> = vec![None; n_built];
    for b in &real.built {
        per_stage[b.stage] += 1;
    }
    for (j, b) in real.built.iter().enumerate() {
        out.stats.leaves += 1;
        let last_of_stage = j + 1 == n_built || real.built[j + 1].stage != b.stage;
        let stage_merges = real.stages[b.stage].needs_merge.is_some();
        // the separator of what follows the leaf
        let next: Option<Key> = if !last_of_stage || stage_merges {
            if j + 1 < n_built {
                Some(real.built[j + 1].separator)
            } else {
                real.pending_separator
            }
        } else {
            eff_cutoff[b.stage]
        };
        if (!last_of_stage || stage_merges) && next.is_none() {
            out.viol.push(("c01-lb-separator".into(), "no-separator-for-rest".into(), format!("leaf {}: cells follow the leaf but no separator is recorded for them", j)));
        }
        if b.cutoff != next {
            out.viol.push((
                "c01-lb-separator".into(),
                "cutoff".into(),
                format!("leaf {} (stage {}) was handed over with cutoff {:?}, what follows it starts at {:?}", j, b.stage, b.cutoff.map(|k| kh(&k)), next.map(|k| kh(&k))),
            ));
        }
        let reply = model.ask_multi(&format!("lbcheck {} {} {}", kh(&b.separator), next.map(|k| kh(&k)).unwrap_or_else(|| "-".into()), hex(&b.page)));
        let mut cells: Vec<Cell> = Vec::new();
        let mut decoded = true;
        let mut body = 0usize;
        for l in &reply {
            let t: Vec<&str> = l.split(' ').collect();
            match t[0] {
                "D" => {
                    decoded = false;
                    out.viol.push(("c01-lb-size".into(), "undecodable".into(), format!("leaf {} (stage {}): the page does not decode: {}", j, b.stage, l)));
                }
                "E" => cells.push((key_from_hex(t[1]), if t[3] == "-" { vec![] } else { unhex(t[3]) }, t[2] == "1")),
                "body" => body = t[1].parse().unwrap(),
                "fits" => {
                    if t[1] != "1" {
                        out.viol.push(("c01-lb-size".into(), "not-leaf-fits".into(), format!("leaf {} (stage {}): the decoded entries are not NodeCodec.leaf_fits", j, b.stage)));
                    }
                }
                "inline" => {
                    if t[1] != "1" {
                        out.viol.push(("c01-lb-size".into(), "inline-entry".into(), format!("leaf {} (stage {}): an inline entry is not NodeCodec.inline_ok", j, b.stage)));
                    }
                }
                "reenc" => {
                    if t[1] != "0" {
                        out.viol.push((
                            "c01-lb-size".into(),
                            "reencode".into(),
                            format!("leaf {} (stage {}): NodeCodec.encode_leaf of the decoded entries differs from the page on {} defined bytes, first at offset {}", j, b.stage, t[1], t[2]),
                        ));
                    }
                }
                "range" => {
                    if t[1] != "ok" {
                        let sig = if t[2] == "WLeafKeyOrder" { "c01-lb-order" } else { "c01-lb-separator" };
                        out.viol.push((
                            sig.into(),
                            t[2].into(),
                            format!("leaf {} (stage {}) with separator {} and next separator {:?}: Image.leaf_in_range fails with {}", j, b.stage, kh(&b.separator), next.map(|k| kh(&k)), t[2]),
                        ));
                    }
                }
                _ => {}
            }
        }
        if !decoded {
            all_decoded = false;
            continue;
        }
        if body > BODY {
            out.viol.push(("c01-lb-size".into(), "body-too-big".into(), format!("leaf {} (stage {}): body {} > {}", j, b.stage, body, BODY)));
        }
        if b.gauge_body_size != body {
            out.viol.push(("c01-lb-gauge".into(), "gauge".into(), format!("leaf {} (stage {}): the gauge says {}, the page holds a body of {}", j, b.stage, b.gauge_body_size, body)));
        }
        if b.builder_body_size != body {
            out.viol.push(("c01-lb-gauge".into(), "builder".into(), format!("leaf {} (stage {}): LeafBuilder was sized for a body of {}, the page holds {}", j, b.stage, b.builder_body_size, body)));
        }
        let rightmost = last_of_stage && !stage_merges && eff_cutoff[b.stage].is_none();
        if cells.is_empty() {
            out.viol.push(("c01-lb-underfull".into(), "empty-leaf".into(), format!("leaf {} (stage {}) has no cells", j, b.stage)));
        } else if body < MERGE {
            if rightmost {
                out.stats.leaves_rightmost_underfull += 1;
            } else {
                out.viol.push((
                    "c01-lb-underfull".into(),
                    "underfull".into(),
                    format!("leaf {} (stage {}): body {} < {} and it is not the rightmost leaf (last of its digest {}, digest needs merge {}, cutoff {:?})", j, b.stage, body, MERGE, last_of_stage, stage_merges, eff_cutoff[b.stage].map(|k| kh(&k))),
                ));
            }
        }
        // statistics
        let st = &mut out.stats;
        st.cells += cells.len() as u64;
        st.max_body = st.max_body.max(body as u64);
        st.max_cells = st.max_cells.max(cells.len() as u64);
        if body == BODY {
            st.leaves_full += 1;
        }
        if body + 8 >= BODY {
            st.leaves_within_8 += 1;
        }
        if cells.len() >= 100 {
            st.leaves_100_cells += 1;
        }
        if cells.len() == 1 {
            st.leaves_single += 1;
        }
        if cells.iter().any(|c| c.2) {
            st.leaves_with_overflow += 1;
        }
        bodies[j] = Some(body);
        if j > 0 && real.built[j - 1].stage == b.stage && b.separator[31] & 1 == 1 {
            st.separators_full_length += 1;
        }
        dcells[j] = Some(cells.clone());
        dleaves.push(DLeaf { sep: b.separator, cells });
    }
    // the Coq mirror's prediction
    model_round(model, stages, &real, &dcells, out);
    // per digest: how many leaves, which path
    {
        let mut pending_before: usize = 0;
        let mut chain_len = 0u64;
        let mut content: BTreeMap<Key, usize> = BTreeMap::new(); // cell sizes of what the digest sees
        for (i, s) in stages.iter().enumerate() {
            if pending_before == 0 {
                content.clear();
            }
            if let Some(cells) = &s.base {
                for c in cells {
                    content.insert(c.0, c.1.len());
                }
            }
            for (k, v) in &s.ops {
                match v {
                    Some((b, _)) => {
                        content.insert(*k, b.len());
                    }
                    None => {
                        content.remove(k);
                    }
                }
            }
            let total: usize = content.values().map(|l| 34 + l).sum();
            let st = &mut out.stats;
            if [MERGE - 1, MERGE, BODY, BODY + 1, BULK, BULK + 1].contains(&total) {
                st.digest_size_on_threshold += 1;
            }
            match per_stage[i] {
                0 => {}
                1 => st.digest_one_leaf += 1,
                2 => st.digest_two_leaves += 1,
                3 => st.digest_three_leaves += 1,
                _ => st.digest_more_leaves += 1,
            }
            if total > BULK {
                st.digest_bulk += 1;
            } else if per_stage[i] == 3 {
                st.digest_three_no_bulk += 1;
            }
            if total > BODY {
                // leaves of the split that stay below the split's target (the next item would overfill them)
                let target = if total > BULK { BULK_TARGET } else { total / 2 };
                let mine: Vec<usize> = (0..n_built).filter(|j| real.built[*j].stage == i).collect();
                for (x, j) in mine.iter().enumerate() {
                    if x + 1 < mine.len() && bodies[*j].map_or(false, |b| b < target) {
                        st.leaves_below_split_target += 1;
                    }
                }
            }
            if pending_before > 0 && per_stage[i] > 0 {
                st.merged_leaf_built += 1;
            }
            if real.stages[i].needs_merge.is_some() {
                st.needs_merge += 1;
                if per_stage[i] > 0 {
                    st.digest_split_then_merge += 1;
                }
                chain_len += 1;
                if chain_len == 2 {
                    st.merge_chains += 1;
                }
                pending_before = real.stages[i].gauge_left;
                // what is left for the next digest: the tail of the content
                let mut left = real.stages[i].gauge_left;
                let mut keep: BTreeMap<Key, usize> = BTreeMap::new();
                for (k, l) in content.iter().rev() {
                    if left == 0 {
                        break;
                    }
                    left = left.saturating_sub(34 + l);
                    keep.insert(*k, *l);
                }
                content = keep;
            } else {
                chain_len = 0;
                pending_before = 0;
            }
        }
    }
    // the updater's state after the last digest
    let last_merges = real.stages.last().map_or(false, |r| r.needs_merge.is_some());
    if last_merges != pending_nonempty {
        out.viol.push(("c01-lb-content".into(), "pending".into(), format!("the last digest {} NeedsMerge but {} cells are left in the updater", if last_merges { "returned" } else { "did not return" }, real.pending.len())));
    }
    if let Some(r) = real.stages.last() {
        if r.gauge_left != body_of(&real.pending) {
            out.viol.push(("c01-lb-gauge".into(), "gauge-left".into(), format!("the gauge left in the updater says {}, the pending cells make a body of {}", r.gauge_left, body_of(&real.pending))));
        }
    }
    if pending_nonempty {
        out.stats.pending_at_end += 1;
    }
    if !all_decoded {
        return None;
    }
    // separators: the first leaf of a run starts with the separator of the run's first base
    {
        let mut carry = Carry::None;
        let mut j = 0usize;
        for (i, s) in stages.iter().enumerate() {
            let start = match &carry {
                Carry::None => Some(if s.base.is_some() { s.sep } else { [0u8; 32] }),
                Carry::Exact(k) => Some(*k),
                Carry::Ranged => None,
            };
            let first = j;
            while j < n_built && real.built[j].stage == i {
                j += 1;
            }
            if j > first {
                if let Some(k) = start {
                    if real.built[first].separator != k {
                        out.viol.push((
                            "c01-lb-separator".into(),
                            "first-separator".into(),
                            format!("leaf {} (stage {}) carries the separator {}, the cells it starts with belong under {}", first, i, kh(&real.built[first].separator), kh(&k)),
                        ));
                    }
                }
            }
            carry = if real.stages[i].needs_merge.is_some() {
                if j > first {
                    Carry::Ranged
                } else {
                    match start {
                        Some(k) => Carry::Exact(k),
                        None => Carry::Ranged,
                    }
                }
            } else {
                Carry::None
            };
        }
        if pending_nonempty {
            match (&carry, real.pending_separator) {
                (Carry::Exact(k), Some(p)) if *k != p => {
                    out.viol.push(("c01-lb-separator".into(), "pending-separator".into(), format!("the pending cells carry the separator {}, they belong under {}", kh(&p), kh(k))));
                }
                (_, None) => {
                    out.viol.push(("c01-lb-separator".into(), "pending-separator".into(), "cells are pending without a separator".into()));
                }
                _ => {}
            }
            if let (Some(p), Some(c)) = (real.pending_separator, real.pending.first()) {
                if p > c.0 {
                    out.viol.push(("c01-lb-separator".into(), "pending-separator".into(), format!("the pending cells carry the separator {} > their first key {}", kh(&p), kh(&c.0))));
                }
                if let Some(l) = dleaves.last().and_then(|d| d.cells.last()) {
                    if p <= l.0 {
                        out.viol.push(("c01-lb-separator".into(), "pending-separator".into(), format!("the pending cells carry the separator {} <= the last key built {}", kh(&p), kh(&l.0))));
                    }
                }
            }
        }
    }
    // order across the leaves, separator above the previous leaf's last key
    let mut prev_last: Option<Key> = None;
    for (j, d) in dleaves.iter().enumerate() {
        if let Some(p) = prev_last {
            if d.sep <= p {
                out.viol.push(("c01-lb-separator".into(), "separator-not-above-previous".into(), format!("leaf {}: separator {} <= last key of the previous leaf {}", j, kh(&d.sep), kh(&p))));
            }
        }
        for c in &d.cells {
            if let Some(p) = prev_last {
                if c.0 <= p {
                    out.viol.push(("c01-lb-order".into(), "keys-not-ascending".into(), format!("leaf {}: key {} after {}", j, kh(&c.0), kh(&p))));
                    break;
                }
            }
            prev_last = Some(c.0);
        }
    }
    // content
    let got: Vec<Cell> = dleaves.iter().flat_map(|d| d.cells.iter().cloned()).chain(real.pending.iter().cloned()).collect();
    let want: Vec<Cell> = expected.into_iter().map(|(k, (v, o))| (k, v, o)).collect();
    if got != want {
        let first = got.iter().zip(want.iter()).position(|(a, b)| a != b).unwrap_or(got.len().min(want.len()));
        let show = |c: Option<&Cell>| c.map(|(k, v, o)| format!("{} {} bytes{}", kh(k), v.len(), if *o { " (overflow cell)" } else { "" }));
        out.viol.push((
            "c01-lb-content".into(),
            "content".into(),
            format!(
                "the built pages (+ {} pending cells) decode to {} cells, the bases with the operations applied are {}; first difference at position {}: decoded {:?}, expected {:?}",
                real.pending.len(),
                got.len(),
                want.len(),
                first,
                show(got.get(first)),
                show(want.get(first))
            ),
        ));
    }
    if got.iter().any(|c| c.0 == [0u8; 32]) {
        out.stats.zero_key += 1;
    }
    if got.iter().any(|c| c.0 == [0xffu8; 32]) {
        out.stats.ones_key += 1;
    }
    if stages.iter().any(|s| !s.ops.is_empty()) && !dleaves.is_empty() {
        out.nontrivial = true;
    }
    if pending_nonempty {
        return None;
    }
    let behind = eff_cutoff.last().cloned().flatten();
    Some((dleaves, behind))
}

pub fn run_item(model: &mut Model, item: &Item, thorough: bool) -> Outcome {
    let mut out = Outcome { viol: Vec::new(), stats: LbStats::default(), nontrivial: false };
    let stages: Vec<RStage> = item.stages.iter().map(RStage::of_spec).collect();
    let mut built = run_round(model, &stages, &mut out);
    // further rounds: the leaves just built are the bases
    for seed in &item.chain {
        let Some((leaves, behind)) = built.take() else { break };
        if leaves.is_empty() || !out.viol.is_empty() {
            break;
        }
        let mut rng = Rng::new(*seed);
        let mut stages: Vec<RStage> = Vec::new();
        let mut lbl = String::new();
        for (i, d) in leaves.iter().enumerate() {
            let cutoff = match leaves.get(i + 1) {
                Some(n) => Some(n.sep),
                None => behind,
            };
            let view: Vec<(Key, usize, bool)> = d.cells.iter().map(|c| (c.0, c.1.len(), c.2)).collect();
            let ops = gen_ops(&mut rng, &view, &d.sep, cutoff.as_ref(), &mut None, thorough, &mut lbl);
            stages.push(RStage { sep: d.sep, base: Some(d.cells.clone()), rc: false, ops: ops.into_iter().map(|(k, v)| (k, v.map(|v| v.bytes()))).collect(), cutoff });
        }
        built = run_round(model, &stages, &mut out);
    }
    out
}

fn write_item(dir: &str, prop: &str, seed: u64, idx: usize, item: &Item, sigs: &BTreeSet<String>) -> String {
    std::fs::create_dir_all(dir).ok();
    let path = format!("{}/{}-lb-seed{}-{}.lb", dir, prop, seed, idx);
    let txt = format!("# {} [{}]\n{}\n", sigs.iter().cloned().collect::<Vec<_>>().join(" "), item.label.trim(), item.to_line());
    std::fs::write(&path, txt).ok();
    path
}

fn check_constants() {
    let c = leaf_constants();
    assert_eq!(c, (BODY, MAXV, MERGE, BULK, BULK_TARGET), "the constants of the leaf format differ from the documented ones");
}

fn replay(file: &str, thorough: bool) -> i32 {
    let txt = std::fs::read_to_string(file).expect("replay file");
    let line = txt.lines().find(|l| l.starts_with("lb1 ")).expect("lb item line");
    let item = Item::from_line(line);
    let mut model = Model::spawn();
    let out = run_item(&mut model, &item, thorough);
    if out.viol.is_empty() {
        println!("replay ok: {} stages, {} leaves built", out.stats.stages, out.stats.leaves);
        0
    } else {
        for (sig, kind, detail) in &out.viol {
            println!("replay violation sig={} kind={}: {}", sig, kind, detail);
        }
        1
    }
}

pub fn cmd_lb(kv: &HashMap<String, String>) -> i32 {
    check_constants();
    let thorough = kv.get("tier").map(|t| t == "thorough").unwrap_or(false);
    if let Some(f) = kv.get("replay") {
        return replay(f, thorough);
    }
    let prop = kv.get("prop").cloned().unwrap_or_else(|| "C01".into());
    let seed: u64 = kv.get("seed").and_then(|s| s.parse().ok()).unwrap_or(1);
    let n: usize = kv.get("n").and_then(|s| s.parse().ok()).unwrap_or(if thorough { 8000 } else { 800 });
    let out_file = kv.get("out").cloned().expect("--out");
    let replay_dir = kv.get("replays").cloned().unwrap_or_else(|| format!("/verif/replays/{}", prop));
    let corpus_out = kv.get("corpus-out").cloned().unwrap_or_else(|| format!("/verif/corpus/{}/lb", prop));
    let threads: usize = kv.get("threads").and_then(|s| s.parse().ok()).unwrap_or(12);
    std::fs::create_dir_all(&replay_dir).ok();
    let t0 = std::time::Instant::now();
    // corpus items (one item line per file, sub-directory `lb` of --corpus) run first
    let mut corpus: Vec<(String, Item)> = Vec::new();
    if let Some(c) = kv.get("corpus") {
        if let Ok(rd) = std::fs::read_dir(format!("{}/lb", c)) {
            let mut files: Vec<_> = rd.filter_map(|e| e.ok()).map(|e| e.path()).filter(|p| p.extension().map_or(false, |e| e == "lb")).collect();
            files.sort();
            for f in files {
                if let Ok(txt) = std::fs::read_to_string(&f) {
                    if let Some(line) = txt.lines().find(|l| l.starts_with("lb1 ")) {
                        let mut it = Item::from_line(line);
                        it.label = format!("corpus {}", f.display());
                        corpus.push((f.display().to_string(), it));
                    }
                }
            }
        }
    }
    let n_corpus = corpus.len();
    let corpus = Arc::new(corpus);
    let mut rng = Rng::new(seed ^ 0x1B01);
    let seeds: Vec<u64> = (0..n).map(|_| rng.next()).collect();
    let seeds = Arc::new(seeds);
    let next = Arc::new(Mutex::new(0usize));
    let results: Arc<Mutex<Vec<(usize, Item, Outcome)>>> = Arc::new(Mutex::new(Vec::new()));
    let mut hs = Vec::new();
    for _ in 0..threads.min(n + n_corpus).max(1) {
        let (seeds, next, results, corpus) = (seeds.clone(), next.clone(), results.clone(), corpus.clone());
        hs.push(std::thread::spawn(move || {
            let mut model = Model::spawn();
            loop {
                let i = {
                    let mut g = next.lock().unwrap();
                    let i = *g;
                    *g += 1;
                    i
                };
                if i >= corpus.len() + seeds.len() {
                    break;
                }
                let item = if i < corpus.len() { corpus[i].1.clone() } else { gen_item(&mut Rng::new(seeds[i - corpus.len()]), thorough) };
                let r = catch_unwind(AssertUnwindSafe(|| run_item(&mut model, &item, thorough)));
                let o = match r {
                    Ok(o) => o,
                    Err(e) => {
                        let msg = e.downcast_ref::<String>().cloned().or_else(|| e.downcast_ref::<&str>().map(|s| s.to_string())).unwrap_or_else(|| "panic".into());
                        model = Model::spawn();
                        Outcome { viol: vec![("c01-lb-harness".into(), "harness".into(), format!("harness panic: {}", msg))], stats: LbStats::default(), nontrivial: false }
                    }
                };
                results.lock().unwrap().push((i, item, o));
            }
        }));
    }
    for h in hs {
        h.join().unwrap();
    }
    let mut results = std::mem::take(&mut *results.lock().unwrap());
    results.sort_by_key(|r| r.0);
    let mut total = LbStats::default();
    let mut violations = Vec::new();
    let mut distinct = BTreeSet::new();
    let mut nontrivial = 0usize;
    let mut by_sig: BTreeMap<String, usize> = BTreeMap::new();
    for (i, item, o) in &results {
        total.merge(&o.stats);
        if o.nontrivial {
            nontrivial += 1;
            distinct.insert(crate::model::digest(item.to_line().as_bytes()));
        }
        if !o.viol.is_empty() {
            let sigs: BTreeSet<String> = o.viol.iter().map(|v| v.0.clone()).collect();
            let path = write_item(&replay_dir, &prop, seed, *i, item, &sigs);
            if *i >= n_corpus && corpus_out != "-" && !sigs.contains("c01-lb-harness") {
                write_item(&corpus_out, &prop, seed, *i, item, &sigs);
            }
            // one entry per signature of the item
            let mut seen = BTreeSet::new();
            for (sig, kind, detail) in &o.viol {
                *by_sig.entry(sig.clone()).or_default() += 1;
                if seen.insert(sig.clone()) && violations.len() < 60 {
                    violations.push(J::obj(vec![("replay", J::s(path.clone())), ("sig", J::s(sig.clone())), ("kind", J::s(kind.clone())), ("detail", J::s(format!("{} [{}]", detail, item.label.trim())))]));
                }
            }
        }
    }
    let samples: Vec<J> = results
        .iter()
        .skip(n_corpus)
        .take(3)
        .map(|(_, it, _)| {
            let l = it.to_line();
            J::obj(vec![("label", J::s(it.label.trim())), ("stages", J::Int(it.stages.len() as i64)), ("chain_rounds", J::Int(it.chain.len() as i64)), ("line_prefix", J::s(l.chars().take(240).collect::<String>()))])
        })
        .collect();
    let j = J::obj(vec![
        ("engine", J::s("lb")),
        ("property", J::s(prop.clone())),
        ("evaluations", J::Int(results.len() as i64)),
        ("corpus_cases", J::Int(n_corpus as i64)),
        ("distinct_nontrivial", J::Int(distinct.len().min(nontrivial) as i64)),
        ("rule", J::s("one evaluation = one generated item (1-6 stages of base leaf + ingested operations, then 0-2 further rounds on the leaves just built) run through the real LeafUpdater (hook H5), every built page decoded by the extracted Image.decode_leaf, re-encoded by NodeCodec and range-checked by Image.leaf_in_range; expected content computed from the item alone; every round also evaluated by the extracted Coq mirror LeafBuild.run_stages (lbmodel) and compared leaf by leaf (stage, separator, cutoff, gauge, builder size, cells), NeedsMerge / gauge left per stage, carried-over cells and separator override; non-trivial = some stage has operations and a leaf was built; distinct = distinct item line")),
        ("violations_by_sig", J::Obj(by_sig.iter().map(|(k, v)| (k.clone(), J::Int(*v as i64))).collect())),
        ("stats", total.json()),
        ("samples", J::Arr(samples)),
        ("violations", J::Arr(violations.clone())),
        ("wall_s", J::Num(t0.elapsed().as_secs_f64())),
    ]);
    std::fs::write(&out_file, j.to_string()).unwrap();
    if violations.is_empty() {
        0
    } else {
        1
    }
}
