//! Scenario generators. Structured, mostly-valid inputs; every choice comes from one Rng.

use crate::sys::{Acc, Cfg, Op, ValDesc};
use crate::util::{diverge_at, flip_bit, Key, Rng};
use std::collections::BTreeMap;

pub const VALUE_LENS: &[usize] = &[
    0, 1, 31, 32, 33, 100, 1331, 1332, 1333, 2000, 4091, 4092, 4093, 8184, 8185, 61379, 61380, 61381,
    65471, 65472, 65473, 65536,
];

#[derive(Clone, Copy, PartialEq, Debug)]
pub enum ValueMix {
    Small,      // 0..64 bytes
    Boundary,   // straddling in-leaf / overflow and page multiples
    Mixed,
}

pub fn gen_value(rng: &mut Rng, mix: ValueMix) -> ValDesc {
    let len = match mix {
        ValueMix::Small => rng.below(64) as usize,
        ValueMix::Boundary => {
            if rng.chance(1, 6) {
                rng.below(70000) as usize
            } else {
                *rng.pick(VALUE_LENS)
            }
        }
        ValueMix::Mixed => {
            if rng.chance(3, 4) {
                rng.below(200) as usize
            } else if rng.chance(1, 2) {
                *rng.pick(VALUE_LENS)
            } else {
                rng.range(1200, 9000) as usize
            }
        }
    };
    (len, rng.next() % 1_000_000)
}

/// key shapes
pub struct KeyGen {
    pub bases: Vec<Key>,
}

impl KeyGen {
    pub fn new(rng: &mut Rng) -> Self {
        KeyGen { bases: (0..4).map(|_| rng.key()).collect() }
    }

    pub fn prefix_len(rng: &mut Rng) -> usize {
        match rng.below(6) {
            0 => rng.below(256) as usize,
            1 => (6 * rng.below(42) as usize + rng.below(3) as usize).min(255).saturating_sub(1),
            2 => 250 + rng.below(6) as usize,
            3 => rng.below(14) as usize,
            4 => 12 + rng.below(8) as usize,
            _ => rng.below(64) as usize,
        }
    }

    pub fn key(&mut self, rng: &mut Rng) -> Key {
        match rng.below(10) {
            0..=3 => rng.key(),
            4..=7 => {
                let b = *rng.pick(&self.bases);
                let n = Self::prefix_len(rng);
                diverge_at(rng, &b, n)
            }
            8 => {
                // new base derived from an old one: long shared prefix chains
                let b = *rng.pick(&self.bases);
                let n = Self::prefix_len(rng);
                let k = diverge_at(rng, &b, n);
                if self.bases.len() < 12 {
                    self.bases.push(k);
                }
                k
            }
            _ => {
                // last-bit sibling
                let mut k = *rng.pick(&self.bases);
                flip_bit(&mut k, 255 - rng.below(3) as usize);
                k
            }
        }
    }

    /// n keys sharing exactly a `bits`-bit prefix region (dense sub-trie under one page)
    pub fn dense(&mut self, rng: &mut Rng, bits: usize, n: usize) -> Vec<Key> {
        let base = rng.key();
        let mut out = Vec::new();
        while out.len() < n {
            let mut k = rng.key();
            for i in 0..bits {
                crate::util::set_bit(&mut k, i, crate::util::get_bit(&base, i));
            }
            if !out.contains(&k) {
                out.push(k);
            }
        }
        out
    }
}

/// tracks what the generator believes is live, only to pick interesting keys
#[derive(Default, Clone)]
pub struct Live {
    pub map: BTreeMap<Key, ValDesc>,
    pub ever: Vec<Key>,
}

impl Live {
    pub fn pick_live(&self, rng: &mut Rng) -> Option<Key> {
        if self.map.is_empty() {
            return None;
        }
        let n = rng.below(self.map.len() as u64) as usize;
        self.map.keys().nth(n).copied()
    }
    pub fn pick_ever(&self, rng: &mut Rng) -> Option<Key> {
        if self.ever.is_empty() {
            None
        } else {
            Some(*rng.pick(&self.ever))
        }
    }
    pub fn apply(&mut self, batch: &[(Key, Acc)]) {
        for (k, a) in batch {
            match a {
                Acc::Read => {}
                Acc::Write(v) | Acc::ReadWrite(v) => match v {
                    Some(d) => {
                        self.map.insert(*k, *d);
                    }
                    None => {
                        self.map.remove(k);
                    }
                },
            }
            if !self.ever.contains(k) && self.ever.len() < 5000 {
                self.ever.push(*k);
            }
        }
    }
}

pub struct BatchSpec {
    pub size: usize,
    pub mix: ValueMix,
    pub p_delete: u64,   // per cent among ops on live keys
    pub p_read: u64,     // per cent reads
    pub p_rw: u64,       // per cent of writes that are read-then-write
    pub p_existing: u64, // per cent of ops aimed at existing / formerly existing keys
}

pub fn gen_batch(rng: &mut Rng, kg: &mut KeyGen, live: &Live, spec: &BatchSpec) -> Vec<(Key, Acc)> {
    let mut m: BTreeMap<Key, Acc> = BTreeMap::new();
    let mut guard = 0;
    while m.len() < spec.size && guard < spec.size * 4 + 16 {
        guard += 1;
        let existing = rng.chance(spec.p_existing, 100);
        let key = if existing {
            if rng.chance(4, 5) { live.pick_live(rng) } else { live.pick_ever(rng) }.unwrap_or_else(|| kg.key(rng))
        } else {
            kg.key(rng)
        };
        if m.contains_key(&key) {
            continue;
        }
        let acc = if rng.chance(spec.p_read, 100) {
            Acc::Read
        } else {
            let v = if rng.chance(spec.p_delete, 100) { None } else { Some(gen_value(rng, spec.mix)) };
            if rng.chance(spec.p_rw, 100) { Acc::ReadWrite(v) } else { Acc::Write(v) }
        };
        m.insert(key, acc);
    }
    m.into_iter().collect()
}

pub fn gen_cfg(rng: &mut Rng) -> Cfg {
    Cfg {
        cc: *rng.pick(&[1usize, 1, 2, 3, 4, 7, 8, 16, 64]),
        warm: rng.chance(1, 2),
        io: *rng.pick(&[1usize, 3]),
        pc: *rng.pick(&[1usize, 2, 256]),
        lc: *rng.pick(&[1usize, 256]),
        ht: *rng.pick(&[4096u32, 64000]),
        seed: rng.next() % 1000,
        rollback: false,
        max_len: 100,
        prepop: rng.chance(1, 3),
        upper: rng.below(4) as usize,
        prealloc: false,
        sha2: false,
        panic: 0,
        // small rollback segments in two of three configurations: roll-over and pruning of
        // segment files happen within short histories
        segsz: *rng.pick(&[0u64, 4096, 16384]),
    }
}

/// the simple "one session, commit" sequence
pub fn commit_ops(s: u32, c: u32, batch: Vec<(Key, Acc)>, witness: bool) -> Vec<Op> {
    vec![
        Op::Begin { s, chain: vec![], witness },
        Op::Finish { s, c, batch },
        Op::Commit { c, nb: false },
    ]
}
