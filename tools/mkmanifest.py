#!/usr/bin/env python3
"""Derive /verif/MANIFEST.json from tools/props.py (single source of truth)."""
import json, sys, os
sys.path.insert(0, os.path.dirname(__file__))
from props import PROPS, PROOF_TECH
ALL = ["C%02d" % i for i in range(1, 21)]
REASON = {}
checks = []
for pid in sorted(PROPS):
    p = PROPS[pid]
    cat = p["level"]
    tech = PROOF_TECH if cat == "proof" else {
        "fault_enumeration": "crash / fault point enumeration over the observed I/O events of the real implementation, outcomes compared with an executable Coq specification (extracted)",
        "translation_validation": "an independent decoder written in Coq (extracted) translates the real files back to the abstract state and checks well-formedness; compared with the executable Coq specification",
        "exploration": "differential testing of the implementation against an executable Coq specification (extracted to OCaml)",
    }.get(cat, cat)
    checks.append({
        "property_id": pid,
        "quick_cmd": "tools/check %s --tier quick" % pid,
        "thorough_cmd": "tools/check %s --tier thorough" % pid,
        "evidence_file": "/verif/evidence/%s.json" % pid,
        "replay_cmd_template": "tools/check %s --replay {path}" % pid,
        "engine": p.get("engine", "E-sys"),
        "level_claimed": {"category": cat, "text": p["text"], "design_ref": "DESIGN.md section 5, %s" % p.get("design", pid)},
        "level_note": p["note"],
        "technique": tech,
    })
hooks_commits = []
try:
    import subprocess
    out = subprocess.run("git -C /repo log --format=%h\\ %s", shell=True, capture_output=True, text=True).stdout
    hooks_commits = [l.split()[0] for l in out.splitlines() if l.split(" ", 1)[1].startswith("verif hook")]
except Exception:
    pass
m = {
    "version": 1,
    "setup_cmd": "sh tools/build.sh all",
    "hooks": {
        "guard": "cargo feature `verif-hooks` of the nomt crate",
        "enable": "the harness depends on nomt with features = [\"verif-hooks\"] (harness/Cargo.toml); checks preload tools/shim.c (built to .cache/shim.so) into child processes",
        "baseline_off_cmd": "cd /repo && (cargo nextest run --workspace --no-fail-fast --tool-config-file pb:/w/lib/nextest.toml --profile pb --test-threads 8 --offline || cargo test --workspace --no-fail-fast --offline)",
        "source_commits": hooks_commits,
        "add_only": True,
    },
    "engines": [
        {"name": "E-proof", "path": "coq/", "serves_properties": [c["property_id"] for c in checks if c["level_claimed"]["category"] == "proof"], "kind_free_text": "Coq 8.16.1 development (models, proofs, Props/Cxx.v pinned statements with Print Assumptions), rebuilt and audited by tools/check"},
        {"name": "E-sys", "path": "harness/src/sys.rs", "serves_properties": [c["property_id"] for c in checks if c["engine"] == "E-sys"], "kind_free_text": "API-level differential run of real Nomt against the Coq Store/Trie specification extracted to OCaml (ocaml/model)"},
        {"name": "E-core", "path": "harness/src/core.rs + ocaml/core_cmds.ml + coq/theories/CoreGlue.v", "serves_properties": ["C02", "C06", "C07", "C08", "C18"], "kind_free_text": "function-level differential of nomt-core (build_trie, PathProof::verify, confirm_*, verify_update, MultiProof::*, multi verify_update) against the extracted Coq mirrors, honest and mutated / malformed inputs, catch_unwind"},
        {"name": "E-img", "path": "coq/theories/Image.v + ocaml/img_cmds.ml + harness/src/img.rs", "serves_properties": ["C16", "C19"], "kind_free_text": "Coq decoder of the on-disk formats (extracted) run on the real files at every quiescent point; well-formedness, abstraction to the key/value state, merkle pages vs the canonical trie"},
        {"name": "E-conc", "path": "harness/src/conc.rs", "serves_properties": [c["property_id"] for c in checks if c["engine"] == "E-conc"], "kind_free_text": "multi-threaded programs against one handle; observations checked against the Coq Store states (version stamps), chain of commits, exclusion by time stamps, watchdog"},
        {"name": "E-lock", "path": "harness/src/lock.rs + tools/shim.c", "serves_properties": [c["property_id"] for c in checks if c["engine"] == "E-lock"], "kind_free_text": "in-process and multi-process open races, holder endings; observer traces of refused openers"},
        {"name": "E-io", "path": "harness/src/io.rs + harness/src/pl.rs + tools/shim.c", "serves_properties": [c["property_id"] for c in checks if c["engine"] == "E-io"], "kind_free_text": "child processes with an LD_PRELOAD observer: I/O event traces, crash-at-event-k, fail-at-event-k; recovered directory compared with the Coq specification"},
    ],
    "checks": checks,
    "notes": "See DESIGN.md. Properties not yet claimed are listed under not_applicable with the reason 'not built yet' (planned, not inapplicable).",
    "not_applicable": [{"property_id": i, "reason": "check not built yet at this commit (planned, see DESIGN.md section 5); not a claim that the technique cannot apply"} for i in ALL if i not in PROPS],
}
json.dump(m, open("/verif/MANIFEST.json", "w"), indent=1)
print("MANIFEST.json written: %d checks, %d not claimed" % (len(checks), len(m["not_applicable"])))
