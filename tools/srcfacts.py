#!/usr/bin/env python3
"""T1 translator: regenerate coq/theories/Gen/SrcFacts.v from /repo's current source.

Deliberately dumb and line-oriented: constants are evaluated from their `const` definitions,
step orders are the textual order of marker expressions inside specific function bodies.  A
marker that is not found is emitted as position 0 ("absent"), which makes the dependent lemma in
SrcFacts_proofs.v fail instead of silently passing.  Usage: srcfacts.py /repo OUT.v"""
import re, sys, os

repo, out = sys.argv[1], sys.argv[2]


def read(p):
    return open(os.path.join(repo, p), errors="replace").read()


def strip_comments(s):
    s = re.sub(r"//[^\n]*", "", s)
    return re.sub(r"/\*.*?\*/", "", s, flags=re.S)


def fn_body(src, header_re):
    """text of the first function whose header matches header_re (brace matching)"""
    m = re.search(header_re, src)
    if not m:
        return ""
    i = src.index("{", m.end() - 1) if src[m.end() - 1] != "{" else m.end() - 1
    depth, j = 0, i
    while j < len(src):
        if src[j] == "{":
            depth += 1
        elif src[j] == "}":
            depth -= 1
            if depth == 0:
                return src[i:j + 1]
        j += 1
    return src[i:]


def positions(body, markers):
    """1-based rank of the first occurrence of each marker in textual order; 0 if absent"""
    pos = {}
    for name, pat in markers:
        m = re.search(pat, body)
        pos[name] = m.start() if m else None
    present = sorted((p, n) for n, p in pos.items() if p is not None)
    rank = {n: i + 1 for i, (p, n) in enumerate(present)}
    return [(name, rank.get(name, 0)) for name, _ in markers]


consts = {}


def const(path, name, env=None):
    src = strip_comments(read(path))
    m = re.search(r"const\s+%s\s*:\s*\w+\s*=\s*([^;]+);" % name, src)
    if not m:
        consts[name] = None
        return
    expr = m.group(1).strip()
    expr = re.sub(r"\bas\s+\w+", "", expr)
    expr = re.sub(r"0b([01_]+)", lambda mm: str(int(mm.group(1).replace("_", ""), 2)), expr)
    expr = expr.replace("/", "//")
    # Rust precedence: `1 << DEPTH + 1` parses as 1 << (DEPTH + 1): same as Python
    try:
        consts[name] = int(eval(expr, {"__builtins__": {}}, dict(consts, **(env or {}))))
    except Exception:
        consts[name] = None


const("nomt/src/io/mod.rs", "PAGE_SIZE")
const("core/src/page.rs", "DEPTH")
const("core/src/page.rs", "NODES_PER_PAGE")
const("core/src/page_id.rs", "MAX_PAGE_DEPTH")
const("core/src/page_id.rs", "MAX_CHILD_INDEX")
const("core/src/page_id.rs", "NUM_CHILDREN")
const("nomt/src/merkle/mod.rs", "PAGE_ELISION_THRESHOLD")
const("nomt/src/beatree/leaf/node.rs", "LEAF_NODE_BODY_SIZE")
const("nomt/src/beatree/leaf/node.rs", "MAX_LEAF_VALUE_SIZE")
const("nomt/src/beatree/leaf/node.rs", "MAX_OVERFLOW_CELL_NODE_POINTERS")
const("nomt/src/beatree/leaf/node.rs", "MAX_OVERFLOW_VALUE_SIZE")
const("nomt/src/beatree/ops/overflow.rs", "BODY_SIZE")
const("nomt/src/beatree/ops/overflow.rs", "MAX_PNS")
const("nomt/src/beatree/ops/overflow.rs", "HEADER_SIZE")
const("nomt/src/beatree/allocator/free_list.rs", "MAX_PNS_PER_PAGE")
const("nomt/src/bitbox/meta_map.rs", "EMPTY")
const("nomt/src/bitbox/meta_map.rs", "TOMBSTONE")
const("nomt/src/bitbox/meta_map.rs", "FULL_MASK")
const("nomt/src/lib.rs", "MAX_COMMIT_CONCURRENCY")
const("nomt/src/seglog/mod.rs", "RECORD_ALIGNMENT")
consts["SEGLOG_HEADER_SIZE"] = None
m = re.search(r"const\s+HEADER_SIZE\s*:\s*u32\s*=\s*(\d+)", strip_comments(read("nomt/src/seglog/mod.rs")))
if m:
    consts["SEGLOG_HEADER_SIZE"] = int(m.group(1))

lib = strip_comments(read("nomt/src/lib.rs"))
COMMIT_MARKERS = [
    ("parent_check", r"parent_matches_marker"),
    ("lock", r"access_lock\s*\.\s*(try_)?write\s*\("),
    ("poison_check", r"is_poisoned\s*\("),
    ("root_check", r"shared\.root\s*!=\s*self\.prev_root"),
    ("rollback_append", r"rollback\s*\.\s*commit(_nonblocking)?\s*\("),
    ("mark_committed", r"mark_committed\s*\("),
    ("root_update", r"shared\.root\s*=\s*"),
    ("store_commit", r"store\s*\.\s*commit\s*\("),
]
impl_fs = lib[lib.index("impl FinishedSession"):lib.index("impl Overlay")] if "impl FinishedSession" in lib and "impl Overlay" in lib else ""
impl_ov = lib[lib.index("impl Overlay"):] if "impl Overlay" in lib else ""
steps = {
    "session_commit": positions(fn_body(impl_fs, r"pub fn commit<[^{]*\{"), COMMIT_MARKERS),
    "session_commit_nb": positions(fn_body(impl_fs, r"pub fn try_commit_nonblocking<[^{]*\{"), COMMIT_MARKERS),
    "overlay_commit": positions(fn_body(impl_ov, r"pub fn commit<[^{]*\{"), COMMIT_MARKERS),
    "overlay_commit_nb": positions(fn_body(impl_ov, r"pub fn try_commit_nonblocking<[^{]*\{"), COMMIT_MARKERS),
}
rb = fn_body(lib, r"pub fn rollback\(&self[^{]*\{")
steps["rollback"] = positions(rb, [
    ("lock", r"access_lock\s*\.\s*write\s*\("),
    ("poison_check", r"is_poisoned\s*\("),
    ("truncate", r"\.truncate\s*\("),
    ("commit", r"\.commit\s*\("),
])

sync = strip_comments(read("nomt/src/store/sync.rs"))
sync_body = fn_body(sync, r"pub fn sync\([^{]*\{")
sync_pos = positions(sync_body, [
    ("bitbox_begin", r"bitbox_sync\.begin_sync"),
    ("beatree_begin", r"beatree_sync\.begin_sync"),
    ("rollback_begin", r"rollback\.begin_sync"),
    ("bitbox_wait_pre_meta", r"bitbox_sync\.wait_pre_meta"),
    ("beatree_wait_pre_meta", r"beatree_sync\.wait_pre_meta"),
    ("meta_write", r"Meta::write"),
    ("rollback_post_meta", r"rollback\.post_meta"),
    ("bitbox_post_meta", r"bitbox_sync\.post_meta"),
    ("beatree_post_meta", r"beatree_sync\.post_meta"),
    ("rollback_wait_post_meta", r"rollback\.wait_post_meta"),
])

wo = strip_comments(read("nomt/src/bitbox/writeout.rs"))
write_wal = positions(fn_body(wo, r"fn write_wal\([^{]*\{"), [
    ("set_len", r"set_len"), ("write_all", r"write_all"), ("sync_all", r"sync_all")])
write_ht = positions(fn_body(wo, r"fn write_ht\([^{]*\{"), [
    ("send", r"\.send\("), ("recv_checked", r"recv\(\)\s*\.unwrap\(\)\s*\.result\s*\?"), ("sync_all", r"sync_all")])
bb = strip_comments(read("nomt/src/bitbox/mod.rs"))
post_meta = positions(fn_body(bb, r"pub fn post_meta\([^{]*\{"), [("write_ht", r"write_ht"), ("truncate_wal", r"truncate_wal")])
recover = positions(fn_body(bb, r"fn recover\([^{]*\{"), [
    ("redo_write", r"ht_fd\.write_all_at"), ("ht_sync", r"ht_fd\.sync_all"), ("truncate_wal_synced", r"truncate_wal\(wal_fd,\s*true\)\?;\s*Ok")])
# the final truncation is the last truncate_wal(.., true) in the function
rec_body = fn_body(bb, r"fn recover\([^{]*\{")
last_trunc = [m.start() for m in re.finditer(r"truncate_wal\(wal_fd,\s*true\)", rec_body)]
ht_sync = re.search(r"ht_fd\.sync_all", rec_body)
redo = [m.start() for m in re.finditer(r"ht_fd\.write_all_at", rec_body)]
recover = [("redo_write", 1 if redo else 0),
           ("ht_sync", (2 if (ht_sync and redo and ht_sync.start() > max(redo)) else (1 if ht_sync else 0))),
           ("final_truncate", (3 if (last_trunc and ht_sync and last_trunc[-1] > ht_sync.start()) else (2 if last_trunc else 0)))]

meta = strip_comments(read("nomt/src/store/meta.rs"))
meta_write = positions(fn_body(meta, r"pub fn write\([^{]*\{"), [("write_all_at", r"write_all_at"), ("sync_all", r"sync_all")])
store = strip_comments(read("nomt/src/store/mod.rs"))
drop_shared = positions(fn_body(store, r"impl Drop for Shared\s*\{"), [("io_shutdown", r"io_pool\.shutdown"), ("flock_drop", r"drop\(self\.flock")])
create = positions(fn_body(store, r"fn create\([^{]*\{"), [("mkdir", r"create_dir_all"), ("flock", r"Flock::lock"), ("create_meta", r"File::create")])
store_commit = positions(fn_body(store, r"pub fn commit\(\s*&self[^{]*\{"), [("poison_check", r"poisoned\s*\.\s*load"), ("sync", r"sync\.sync\("), ("poison_set", r"poisoned\s*\.\s*store\(true")])
seg = strip_comments(read("nomt/src/seglog/mod.rs"))
append = positions(fn_body(seg, r"pub fn append\([^{]*\{"), [("write_header", r"write_header"), ("write_payload", r"write_payload"), ("fsync", r"writer\.fsync"), ("end_live_update", r"self\.end_live\s*=")])

L = []
L.append("(* GENERATED by tools/srcfacts.py from /repo's current source - do not edit. *)")
L.append("From Coq Require Import List NArith String.")
L.append("Import ListNotations.")
L.append("Open Scope string_scope.")
L.append("")
L.append("(* constants; 0 stands for \"definition not found\" for the few that are legitimately positive *)")
for k, v in consts.items():
    L.append("Definition c_%s : N := %d%%N.%s" % (k, v if v is not None else 0, "" if v is not None else "  (* NOT FOUND *)"))
L.append("")
L.append("(* step orders: (marker, rank in textual order inside the function body; 0 = absent) *)")


def emit(name, lst):
    L.append("Definition %s : list (string * nat) := [%s]." % (name, "; ".join('("%s", %d)' % (n, r) for n, r in lst)))


for k, v in steps.items():
    emit("steps_" + k, v)
emit("sync_phases", sync_pos)
emit("write_wal_steps", write_wal)
emit("write_ht_steps", write_ht)
emit("bitbox_post_meta_steps", post_meta)
emit("bitbox_recover_steps", recover)
emit("meta_write_steps", meta_write)
emit("shared_drop_steps", drop_shared)
emit("store_create_steps", create)
emit("store_commit_steps", store_commit)
emit("seglog_append_steps", append)
open(out, "w").write("\n".join(L) + "\n")
print("srcfacts: %d constants, %d step lists" % (len(consts), 15))

# ---------------------------------------------------------------------------------------------
# C14 (fault model, Fault.v): is the RESULT of every fallible call examined?
# Still dumb and textual: a call is "checked" when the closing parenthesis of its argument list is
# directly followed by `?` (or when the call is the tail expression of the function, i.e. its value
# is the function's result).  `let _ = f();`, `f().ok();`, `f();`, `if let Err(_) = f() {}` are all
# "not checked".  A function body or a call that is not found yields no entry / a `false` entry,
# so that the lemmas over these lists FAIL instead of passing silently.


def close_paren(body, j):
    """index of the parenthesis closing the one at j"""
    depth = 0
    while j < len(body):
        if body[j] == "(":
            depth += 1
        elif body[j] == ")":
            depth -= 1
            if depth == 0:
                return j
        j += 1
    return len(body) - 1


def block_after(body, j):
    """text of the brace block starting at the first `{` at or after j"""
    i = body.find("{", j)
    if i < 0:
        return ""
    depth, k = 0, i
    while k < len(body):
        if body[k] == "{":
            depth += 1
        elif body[k] == "}":
            depth -= 1
            if depth == 0:
                return body[i:k + 1]
        k += 1
    return body[i:]


ADAPTERS = r"\s*\.\s*(map_err|context|with_context|map|and_then)\s*\("


def is_checked(body, start, end):
    """Is the result of the call body[start:end+1] examined?  The translator knows the shapes that DROP a
    result and treats everything else (the value flows on: `?`, tail expression, match arm value, argument,
    `return call`, bound to a named variable, `match call { Err(..) => return Err.. }`) as examined:
      dropped:  `call;`   `let _ = call;`   `call.ok()` / `.is_ok()` / `.is_err()` / `.unwrap_or..`
                `if let Err(..) = call { <no return / ?> }`   `match call { <no Err arm that leaves> }`"""
    j = end + 1
    rest = body[j:]
    while True:
        m = re.match(ADAPTERS, rest)
        if not m:
            break
        k = close_paren(rest, m.end() - 1)
        rest = rest[k + 1:]
    r = rest.lstrip()
    if r.startswith("?"):
        return True
    if re.match(r"\.\s*(ok|is_ok|is_err|unwrap_or|unwrap_or_default|unwrap_or_else|err)\s*\(", r):
        return False
    before = body[:start]
    line_start = max(before.rfind("\n"), before.rfind(";"), before.rfind("{")) + 1
    lead = before[line_start:]
    if re.search(r"\blet\s+_\w*\s*(:[^=]+)?=\s*[\w\s.:&()]*$", lead):
        return False
    if re.search(r"\bif\s+let\s+Err\s*\([^)]*\)\s*=\s*[\w\s.:&()]*$", lead):
        blk = block_after(body, end)
        return bool(re.search(r"return\s+Err|\?\s*;|Err\s*\(", blk[1:]))
    if re.search(r"\bmatch\s+[\w\s.:&()]*$", lead):
        blk = block_after(body, end)
        return bool(re.search(r"Err\s*\([^)]*\)\s*=>\s*\{?\s*(return\s+)?Err", blk))
    if r.startswith(";"):
        if re.search(r"\breturn\s+[\w\s.:&()]*$", lead):
            return True
        if re.search(r"(\blet\s+(mut\s+)?[A-Za-z]\w*\s*(:[^=]+)?=|\b[A-Za-z]\w*\s*=)\s*[\w\s.:&()]*$", lead):
            return True
        return False
    return True


def call_sites(body, pat):
    """[(position, name, checked)] for every occurrence of `pat` (a regex with one group = the
    reported name, ending just before the opening parenthesis) in textual order"""
    res = []
    for m in re.finditer(pat + r"\s*\(", body):
        j = close_paren(body, m.end() - 1)
        res.append((m.start(), m.group(1), is_checked(body, m.start(), j)))
    return res


# the fallible calls of Sync::sync, identified by METHOD name and occurrence (the names of the local
# variables holding the three sync controllers are free to change): the two `wait_pre_meta` calls in
# their order (hash table first, value files second - the order of the model's steps), `Meta::write`,
# the `post_meta` call that takes an argument (the hash-table write-out; the other two take none and
# return nothing), `wait_post_meta`.
def nth_sites(body, pat, names):
    sites = call_sites(body, pat)
    out = []
    for i, nm in enumerate(names):
        if i < len(sites):
            out.append((sites[i][0], nm, sites[i][2]))
        else:
            out.append((10 ** 9, nm, False))      # absent: listed last, not checked
    for extra in sites[len(names):]:
        out.append((extra[0], names[-1] + "_extra", extra[2]))
    return out


sync_calls = []
sync_calls += nth_sites(sync_body, r"\.\s*(wait_pre_meta)", ["bitbox_wait_pre_meta", "beatree_wait_pre_meta"])
sync_calls += nth_sites(sync_body, r"Meta::(write)", ["meta_write"])
sync_calls += nth_sites(sync_body, r"\.\s*(post_meta)(?=\s*\(\s*[^)\s])", ["bitbox_post_meta"])
sync_calls += nth_sites(sync_body, r"\.\s*(wait_post_meta)", ["rollback_wait_post_meta"])
sync_calls.sort()
# every point of Sync::sync at which an error leaves the function: `?` and `return Err` - a new fallible
# call that the model does not know about changes this count
sync_try_count = len(re.findall(r"\?", sync_body)) + len(re.findall(r"return\s+Err", sync_body))

IO_CALL = r"\.\s*(write_all_at|write_all|set_len|sync_all|sync_data|fsync)"
segrw = strip_comments(read("nomt/src/seglog/segment_rw.rs"))


def local_fns(src):
    return set(re.findall(r"\bfn\s+(\w+)\s*[<(]", src))


def io_sites(src, body, pat, depth=0):
    """I/O call sites of a function body, following calls to functions of the same file (a body split
    into helpers keeps its facts): a helper's sites count as checked only if the helper call is"""
    out = [(c, k) for _, c, k in call_sites(body, pat)]
    if depth >= 2:
        return out
    for name in sorted(local_fns(src)):
        for pos, _, checked in call_sites(body, r"(?<![\w.])(?:Self::|self\.)?(" + name + r")"):
            hb = fn_body(src, r"fn\s+" + name + r"\s*[<(][^{]*\{")
            if not hb or hb == body:
                continue
            for c, k in io_sites(src, hb, pat, depth + 1):
                out.append((c, k and checked))
    return out


SEG_CALL = r"\.\s*(create_segment|write_header|write_payload|fsync|sync_all|sync_data)"
io_fns = [
    ("write_wal", wo, fn_body(wo, r"fn write_wal\([^{]*\{"), IO_CALL),
    ("truncate_wal", wo, fn_body(wo, r"fn truncate_wal\([^{]*\{"), IO_CALL),
    ("write_ht", wo, fn_body(wo, r"fn write_ht\([^{]*\{"), IO_CALL),
    ("meta_write", meta, fn_body(meta, r"pub fn write\([^{]*\{"), IO_CALL),
    ("seglog_append", seg, fn_body(seg, r"pub fn append\([^{]*\{"), SEG_CALL),
    ("segment_write_header", segrw, fn_body(segrw, r"pub fn write_header\([^{]*\{"), IO_CALL),
    ("segment_write_payload", segrw, fn_body(segrw, r"pub fn write_payload\([^{]*\{"), IO_CALL),
    ("segment_fsync", segrw, fn_body(segrw, r"pub fn fsync\([^{]*\{"), IO_CALL),
]
io_calls = []
for fname, src, body, pat in io_fns:
    seen = set()
    for cname, checked in io_sites(src, body, pat):
        io_calls.append((fname, cname, checked))
# completions of the asynchronous hash-table writes (write_ht): every received completion's `result` is
# propagated (`recv().unwrap().result?`, or bound to a name first and then `<name>.result?`)
_wht = fn_body(wo, r"fn write_ht\([^{]*\{")
if re.search(r"\.\s*recv\s*\(\s*\)", _wht):
    io_calls.append(("write_ht", "recv_result", bool(re.search(r"\.\s*result\s*\?", _wht))))


def coq_bool(b):
    return "true" if b else "false"


F = []
F.append("")
F.append("(* C14: the fallible calls of Sync::sync in textual order, with \"its result is followed by `?`\" *)")
F.append("Definition sync_fallible_calls : list (string * bool) := [%s]." % "; ".join(
    '("%s", %s)' % (n, coq_bool(c)) for _, n, c in sync_calls))
F.append("Definition sync_try_count : nat := %d." % sync_try_count)
F.append("(* C14: (function, I/O call inside its body, \"the result is propagated\") in textual order *)")
F.append("Definition io_result_calls : list (string * string * bool) := [%s]." % "; ".join(
    '("%s", "%s", %s)' % (f, c, coq_bool(k)) for f, c, k in io_calls))
open(out, "a").write("\n".join(F) + "\n")
print("srcfacts: %d fallible calls in Sync::sync, %d I/O call sites" % (len(sync_calls), len(io_calls)))
