#!/bin/sh
# tools/seedtest.sh <patch.diff> <prop> [<prop>...]: apply a seeded change to /repo, run the checks, undo it.
patch="$1"; shift
cd /repo && git apply --check "$patch" || { echo "patch does not apply"; exit 2; }
git apply "$patch"
cd /verif
for p in "$@"; do
  timeout 1500 tools/check "$p" > .cache/out/seedtest-$p.log 2>&1; rc=$?
  echo "== $p exit $rc"; grep -E "^VIOLATION|^KNOWN" .cache/out/seedtest-$p.log | cut -c1-220 | head -4; grep -A1 "^VIOLATION" .cache/out/seedtest-$p.log | grep -v "^VIOLATION\|^--" | cut -c1-260 | head -3
done
git -C /repo checkout -- . ; rm -rf /repo/nomt/test
git -C /repo status --short | head -3
