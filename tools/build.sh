#!/bin/sh
# Build everything the checks need, from files on disk only (offline):
#   1. regenerate coq/theories/Gen/SrcFacts.v from /repo's current source (tools/srcfacts.py)
#   2. the Coq development (full .vo build, every proof re-checked when a dependency changed)
#   3. the OCaml model driver extracted from it
#   4. the Rust harness, against /repo's current working tree with the hooks enabled
# Serialised by a lock so that concurrent checks do not trample each other.
# Usage: tools/build.sh [coq|model|harness|all]   (default all)
set -e
cd /verif
mkdir -p .cache/log
exec 9>.cache/build.lock
flock 9
what="${1:-all}"
export CARGO_NET_OFFLINE=true

if [ "$what" = all ] || [ "$what" = coq ]; then
  if [ -f tools/srcfacts.py ]; then
    mkdir -p coq/theories/Gen
    python3 tools/srcfacts.py /repo coq/theories/Gen/SrcFacts.v.new > .cache/log/srcfacts.log 2>&1 || {
      echo "SRCFACTS-FAILED (see .cache/log/srcfacts.log)"; cat .cache/log/srcfacts.log; exit 3; }
    if ! cmp -s coq/theories/Gen/SrcFacts.v.new coq/theories/Gen/SrcFacts.v 2>/dev/null; then
      mv coq/theories/Gen/SrcFacts.v.new coq/theories/Gen/SrcFacts.v
    else
      rm -f coq/theories/Gen/SrcFacts.v.new
    fi
  fi
  [ -n "$VERIF_SKIP_COQ" ] || ( cd coq && coq_makefile -f _CoqProject -o Makefile >/dev/null 2>&1 && \
    timeout 3000 make -k -j16 > ../.cache/log/coq.log 2>&1 ) || { echo "COQ-BUILD-FAILED (see .cache/log/coq.log)"; grep -B2 -A12 "^Error\|^File.*line" .cache/log/coq.log | tail -40; COQFAIL=1; }
fi

if [ "$what" = all ] || [ "$what" = model ] || [ "$what" = coq ]; then
  stale=0
  [ -x ocaml/model ] || stale=1
  if [ $stale = 0 ]; then
    mods=$(sed -n 's/^Separate Extraction \(.*\)\.$/\1/p' coq/extract/Extract.v)
    for m in $mods; do
      [ "coq/theories/$m.v" -nt ocaml/model ] && stale=1
    done
    for f in coq/extract/Extract.v ocaml/*.ml ocaml/build.sh; do
      [ "$f" -nt ocaml/model ] && stale=1
    done
  fi
  if [ $stale = 1 ]; then
    sh ocaml/build.sh > .cache/log/ocaml.log 2>&1 || { echo "MODEL-BUILD-FAILED (see .cache/log/ocaml.log)"; tail -20 .cache/log/ocaml.log; exit 4; }
  fi
fi

if [ "$what" = all ] || [ "$what" = harness ]; then
  if [ ! -f .cache/shim.so ] || [ tools/shim.c -nt .cache/shim.so ]; then
    cc -shared -fPIC -O2 -o .cache/shim.so tools/shim.c -ldl -lpthread > .cache/log/shim.log 2>&1 || {
      echo "SHIM-BUILD-FAILED"; cat .cache/log/shim.log; exit 5; }
  fi
  cp /repo/Cargo.lock harness/Cargo.lock
  ( cd harness && cargo build --release --offline > ../.cache/log/cargo.log 2>&1 ) || {
    echo "HARNESS-BUILD-FAILED (see .cache/log/cargo.log)"; grep -E "^error" -A 8 .cache/log/cargo.log | head -60; exit 5; }
fi
# a broken proof file does not stop the other properties' checks: tools/check re-checks the
# property files it needs and reports what no longer compiles
exit 0
