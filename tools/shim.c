// LD_PRELOAD observer for the E-io engine.
//
// Records every mutating file operation a process performs below NOMT_VERIF_DIR (libc calls
// are interposed; writes submitted through io_uring are reported by the cfg-guarded hook in
// nomt/src/io/verif.rs through nomt_verif_uring_event), and can make the process die at the
// k-th such event (crash-at-k) or make the k-th event fail with EIO (fail-at-k).
//
// Environment:
//   NOMT_VERIF_DIR    directory whose files are observed (prefix match on the resolved path)
//   NOMT_VERIF_LOG    event log (text, appended)
//   NOMT_VERIF_SPOOL  directory receiving the payload of each write as <seq>.bin (optional)
//   NOMT_VERIF_MODE   record | crash | fail | failp (persistent failure from event k on)
//   NOMT_VERIF_AT     k: index among the events counted while armed (0-based)
//   NOMT_VERIF_WHEN   before | after     (crash mode: die before or after performing event k)
//   NOMT_VERIF_ARMED  1: armed from the start; otherwise the harness calls nomt_verif_ctl(1/0)
//
// Log lines:  "E <seq> <armed-index|-> <tid> <KIND> <relpath> <offset> <len>"  before the operation,
//             "R <seq> <return value>"                                         after it,
//             "X <seq> crash-before|crash-after|fail"                          for injected faults.
#define _GNU_SOURCE
#include <dlfcn.h>
#include <errno.h>
#include <fcntl.h>
#include <pthread.h>
#include <stdarg.h>
#include <stdio.h>
#include <stdlib.h>
#include <string.h>
#include <sys/stat.h>
#include <sys/syscall.h>
#include <sys/types.h>
#include <unistd.h>

static pthread_mutex_t mu = PTHREAD_MUTEX_INITIALIZER;
static int inited = 0;
static char dir[1024];
static size_t dirlen = 0;
static int logfd = -1;
static char spool[1024];
static int mode = 0;  // 0 record, 1 crash, 2 fail once, 3 fail persistently
static long at = -1;
static int when_after = 0;
static volatile int armed = 0;
static long seq = 0;
static long armed_idx = 0;

static void init_once(void) {
  if (inited) return;
  inited = 1;
  const char *d = getenv("NOMT_VERIF_DIR");
  if (d && realpath(d, dir)) {
    dirlen = strlen(dir);
  } else if (d) {
    strncpy(dir, d, sizeof dir - 1);
    dirlen = strlen(dir);
  }
  const char *l = getenv("NOMT_VERIF_LOG");
  if (l) logfd = syscall(SYS_openat, AT_FDCWD, l, O_WRONLY | O_CREAT | O_APPEND | O_CLOEXEC, 0644);
  const char *s = getenv("NOMT_VERIF_SPOOL");
  if (s) strncpy(spool, s, sizeof spool - 1);
  const char *m = getenv("NOMT_VERIF_MODE");
  if (m) {
    if (!strcmp(m, "crash")) mode = 1;
    else if (!strcmp(m, "fail")) mode = 2;
    else if (!strcmp(m, "failp")) mode = 3;
  }
  const char *a = getenv("NOMT_VERIF_AT");
  if (a) at = atol(a);
  const char *w = getenv("NOMT_VERIF_WHEN");
  if (w && !strcmp(w, "after")) when_after = 1;
  const char *ar = getenv("NOMT_VERIF_ARMED");
  if (ar && !strcmp(ar, "1")) armed = 1;
}

static void logline(const char *fmt, ...) {
  if (logfd < 0) return;
  char buf[1600];
  va_list ap;
  va_start(ap, fmt);
  int n = vsnprintf(buf, sizeof buf, fmt, ap);
  va_end(ap);
  if (n > 0) syscall(SYS_write, logfd, buf, (size_t)(n < (int)sizeof buf ? n : (int)sizeof buf - 1));
}

// relative path of fd if it lies below the observed directory, else NULL
static const char *fd_rel(int fd, char *out, size_t outlen) {
  if (dirlen == 0) return NULL;
  char link[64];
  snprintf(link, sizeof link, "/proc/self/fd/%d", fd);
  ssize_t n = readlink(link, out, outlen - 1);
  if (n <= 0) return NULL;
  out[n] = 0;
  // deleted files show up as "path (deleted)"
  if (strncmp(out, dir, dirlen) != 0) return NULL;
  if (out[dirlen] == 0) return ".";
  if (out[dirlen] != '/') return NULL;
  return out + dirlen + 1;
}

static const char *path_rel(int dfd, const char *path, char *out, size_t outlen) {
  if (dirlen == 0 || !path) return NULL;
  char tmp[2048];
  if (path[0] != '/') {
    if (dfd == AT_FDCWD) {
      char cwd[1024];
      if (!getcwd(cwd, sizeof cwd)) return NULL;
      snprintf(tmp, sizeof tmp, "%s/%s", cwd, path);
    } else {
      char base[1024];
      char link[64];
      snprintf(link, sizeof link, "/proc/self/fd/%d", dfd);
      ssize_t n = readlink(link, base, sizeof base - 1);
      if (n <= 0) return NULL;
      base[n] = 0;
      snprintf(tmp, sizeof tmp, "%s/%s", base, path);
    }
  } else {
    snprintf(tmp, sizeof tmp, "%s", path);
  }
  // resolve the parent directory only (the file itself may not exist)
  char *slash = strrchr(tmp, '/');
  if (!slash) return NULL;
  char parent[2048], resolved[4096];
  size_t pl = (size_t)(slash - tmp);
  if (pl == 0) pl = 1;
  memcpy(parent, tmp, pl);
  parent[pl] = 0;
  if (!realpath(parent, resolved)) return NULL;
  snprintf(out, outlen, "%s/%s", resolved, slash + 1);
  if (!strcmp(out, dir)) return ".";
  if (strncmp(out, dir, dirlen) != 0 || out[dirlen] != '/') return NULL;
  return out + dirlen + 1;
}

static void spool_payload(long s, const void *buf, size_t len) {
  if (!spool[0] || !buf) return;
  char p[1200];
  snprintf(p, sizeof p, "%s/%ld.bin", spool, s);
  int fd = syscall(SYS_openat, AT_FDCWD, p, O_WRONLY | O_CREAT | O_TRUNC | O_CLOEXEC, 0644);
  if (fd < 0) return;
  size_t off = 0;
  while (off < len) {
    long n = syscall(SYS_write, fd, (const char *)buf + off, len - off);
    if (n <= 0) break;
    off += (size_t)n;
  }
  syscall(SYS_close, fd);
}

// decision for one event: 0 perform, 1 fail, (crash-before never returns)
// *out_seq receives the sequence number, *crash_after set if the process must die afterwards
static int pre_event(const char *kind, const char *rel, long long off, long long len, const void *payload,
                     int can_fail, long *out_seq, int *crash_after) {
  pthread_mutex_lock(&mu);
  long s = seq++;
  long ai = -1;
  int decision = 0;
  *crash_after = 0;
  if (armed) ai = armed_idx++;
  if (ai >= 0)
    logline("E %ld %ld %ld %s %s %lld %lld\n", s, ai, (long)syscall(SYS_gettid), kind, rel, off, len);
  else
    logline("E %ld - %ld %s %s %lld %lld\n", s, (long)syscall(SYS_gettid), kind, rel, off, len);
  if (payload && len > 0) spool_payload(s, payload, (size_t)len);
  if (ai >= 0 && at >= 0) {
    if (mode == 1 && ai == at) {
      if (!when_after) {
        logline("X %ld crash-before\n", s);
        syscall(SYS_exit_group, 99);
      }
      *crash_after = 1;
    } else if (can_fail && ((mode == 2 && ai == at) || (mode == 3 && ai >= at))) {
      logline("X %ld fail\n", s);
      decision = 1;
    }
  }
  *out_seq = s;
  pthread_mutex_unlock(&mu);
  return decision;
}

static void post_event(long s, long long ret, int crash_after) {
  pthread_mutex_lock(&mu);
  logline("R %ld %lld\n", s, ret);
  if (crash_after) {
    logline("X %ld crash-after\n", s);
    syscall(SYS_exit_group, 99);
  }
  pthread_mutex_unlock(&mu);
}

// ---- control entry points used by the harness / the source hook -------------------------
int nomt_verif_ctl(int cmd) {
  pthread_mutex_lock(&mu);
  init_once();
  long r = armed_idx;
  if (cmd == 1) {
    armed = 1;
    logline("C arm\n");
  } else if (cmd == 0) {
    armed = 0;
    logline("C disarm\n");
  } else if (cmd == 3) {
    logline("C mark\n");
  }
  pthread_mutex_unlock(&mu);
  return (int)r;
}

int nomt_verif_uring_event(int kind, int fd, unsigned long long offset, const unsigned char *ptr,
                           unsigned long long len) {
  init_once();
  char buf[1200];
  const char *rel = fd_rel(fd, buf, sizeof buf);
  if (!rel) return 0;
  long s;
  int ca;
  if (kind == 0) {
    int d = pre_event("UW", rel, (long long)offset, (long long)len, ptr, 1, &s, &ca);
    if (d) {
      post_event(s, -5, ca);
      return 1;
    }
    post_event(s, 0, ca);
    return 0;
  }
  pre_event(kind == 1 ? "UC" : "UE", rel, (long long)offset, (long long)len, NULL, 0, &s, &ca);
  post_event(s, 0, ca);
  return 0;
}

// ---- interposed libc functions -------------------------------------------------------------
#define REAL(name) \
  static __typeof__(name) *real = NULL; \
  if (!real) real = dlsym(RTLD_NEXT, #name);

ssize_t write(int fd, const void *b, size_t n) {
  REAL(write);
  init_once();
  char buf[1200];
  const char *rel = (fd > 2) ? fd_rel(fd, buf, sizeof buf) : NULL;
  if (!rel) return real(fd, b, n);
  long long off;
  int fl = fcntl(fd, F_GETFL);
  if (fl >= 0 && (fl & O_APPEND)) {
    struct stat st;
    off = fstat(fd, &st) == 0 ? (long long)st.st_size : -1;
  } else {
    off = (long long)lseek(fd, 0, SEEK_CUR);
  }
  long s;
  int ca;
  if (pre_event("W", rel, off, (long long)n, b, 1, &s, &ca)) {
    post_event(s, -5, ca);
    errno = EIO;
    return -1;
  }
  ssize_t r = real(fd, b, n);
  post_event(s, r, ca);
  return r;
}

ssize_t pwrite64(int fd, const void *b, size_t n, off64_t o) {
  REAL(pwrite64);
  init_once();
  char buf[1200];
  const char *rel = fd_rel(fd, buf, sizeof buf);
  if (!rel) return real(fd, b, n, o);
  long s;
  int ca;
  if (pre_event("W", rel, (long long)o, (long long)n, b, 1, &s, &ca)) {
    post_event(s, -5, ca);
    errno = EIO;
    return -1;
  }
  ssize_t r = real(fd, b, n, o);
  post_event(s, r, ca);
  return r;
}

ssize_t pwrite(int fd, const void *b, size_t n, off_t o) { return pwrite64(fd, b, n, (off64_t)o); }

int ftruncate64(int fd, off64_t len) {
  REAL(ftruncate64);
  init_once();
  char buf[1200];
  const char *rel = fd_rel(fd, buf, sizeof buf);
  if (!rel) return real(fd, len);
  long s;
  int ca;
  if (pre_event("T", rel, (long long)len, 0, NULL, 1, &s, &ca)) {
    post_event(s, -5, ca);
    errno = EIO;
    return -1;
  }
  int r = real(fd, len);
  post_event(s, r, ca);
  return r;
}

int ftruncate(int fd, off_t len) { return ftruncate64(fd, (off64_t)len); }

int fallocate64(int fd, int m, off64_t o, off64_t l) {
  REAL(fallocate64);
  init_once();
  char buf[1200];
  const char *rel = fd_rel(fd, buf, sizeof buf);
  if (!rel) return real(fd, m, o, l);
  long s;
  int ca;
  if (pre_event("A", rel, (long long)o, (long long)l, NULL, 1, &s, &ca)) {
    post_event(s, -5, ca);
    errno = EIO;
    return -1;
  }
  int r = real(fd, m, o, l);
  post_event(s, r, ca);
  return r;
}

int fallocate(int fd, int m, off_t o, off_t l) { return fallocate64(fd, m, o, l); }

static int sync_common(int fd, int data, int (*real)(int)) {
  init_once();
  char buf[1200];
  const char *rel = fd_rel(fd, buf, sizeof buf);
  if (!rel) return real(fd);
  long s;
  int ca;
  if (pre_event(data ? "D" : "S", rel, 0, 0, NULL, 1, &s, &ca)) {
    post_event(s, -5, ca);
    errno = EIO;
    return -1;
  }
  int r = real(fd);
  post_event(s, r, ca);
  return r;
}

int fsync(int fd) {
  REAL(fsync);
  return sync_common(fd, 0, real);
}

int fdatasync(int fd) {
  REAL(fdatasync);
  return sync_common(fd, 1, real);
}

static int unlink_common(int dfd, const char *path, int flags) {
  static int (*real)(int, const char *, int) = NULL;
  if (!real) real = dlsym(RTLD_NEXT, "unlinkat");
  init_once();
  char buf[4200];
  const char *rel = path_rel(dfd, path, buf, sizeof buf);
  if (!rel) return real(dfd, path, flags);
  long s;
  int ca;
  if (pre_event("U", rel, 0, 0, NULL, 1, &s, &ca)) {
    post_event(s, -5, ca);
    errno = EIO;
    return -1;
  }
  int r = real(dfd, path, flags);
  post_event(s, r, ca);
  return r;
}

int unlink(const char *path) { return unlink_common(AT_FDCWD, path, 0); }
int unlinkat(int dfd, const char *path, int flags) { return unlink_common(dfd, path, flags); }

int rename(const char *a, const char *b) {
  REAL(rename);
  init_once();
  char buf[4200];
  const char *rel = path_rel(AT_FDCWD, b, buf, sizeof buf);
  if (!rel) return real(a, b);
  long s;
  int ca;
  if (pre_event("N", rel, 0, 0, NULL, 1, &s, &ca)) {
    post_event(s, -5, ca);
    errno = EIO;
    return -1;
  }
  int r = real(a, b);
  post_event(s, r, ca);
  return r;
}

int mkdir(const char *path, mode_t m) {
  REAL(mkdir);
  init_once();
  char buf[4200];
  const char *rel = path_rel(AT_FDCWD, path, buf, sizeof buf);
  if (!rel) return real(path, m);
  long s;
  int ca;
  pre_event("M", rel, 0, 0, NULL, 0, &s, &ca);
  int r = real(path, m);
  post_event(s, r, ca);
  return r;
}

int flock(int fd, int op) {
  REAL(flock);
  init_once();
  char buf[1200];
  const char *rel = fd_rel(fd, buf, sizeof buf);
  if (!rel) return real(fd, op);
  long s;
  int ca;
  pre_event("L", rel, (long long)op, 0, NULL, 0, &s, &ca);
  int r = real(fd, op);
  post_event(s, r, ca);
  return r;
}

int close(int fd) {
  REAL(close);
  init_once();
  char buf[1200];
  const char *rel = (fd > 2 && fd != logfd) ? fd_rel(fd, buf, sizeof buf) : NULL;
  if (!rel) return real(fd);
  long s;
  int ca;
  pre_event("K", rel, 0, 0, NULL, 0, &s, &ca);
  int r = real(fd);
  post_event(s, r, ca);
  return r;
}

// file creation: open with O_CREAT of a file that does not exist yet
static int open_common(int dfd, const char *path, int flags, mode_t m, int is64) {
  static int (*real)(int, const char *, int, ...) = NULL;
  if (!real) real = dlsym(RTLD_NEXT, is64 ? "openat64" : "openat");
  init_once();
  if (!(flags & O_CREAT)) return real(dfd, path, flags, m);
  char buf[4200];
  const char *rel = path_rel(dfd, path, buf, sizeof buf);
  if (!rel) return real(dfd, path, flags, m);
  struct stat st;
  int exists = fstatat(dfd, path, &st, 0) == 0;
  if (exists) return real(dfd, path, flags, m);
  long s;
  int ca;
  if (pre_event("C", rel, 0, 0, NULL, 1, &s, &ca)) {
    post_event(s, -5, ca);
    errno = EIO;
    return -1;
  }
  int r = real(dfd, path, flags, m);
  post_event(s, r, ca);
  return r;
}

int open(const char *path, int flags, ...) {
  mode_t m = 0;
  if (flags & (O_CREAT | O_TMPFILE)) {
    va_list ap;
    va_start(ap, flags);
    m = va_arg(ap, mode_t);
    va_end(ap);
  }
  return open_common(AT_FDCWD, path, flags, m, 0);
}
int open64(const char *path, int flags, ...) {
  mode_t m = 0;
  if (flags & (O_CREAT | O_TMPFILE)) {
    va_list ap;
    va_start(ap, flags);
    m = va_arg(ap, mode_t);
    va_end(ap);
  }
  return open_common(AT_FDCWD, path, flags, m, 1);
}
int openat(int dfd, const char *path, int flags, ...) {
  mode_t m = 0;
  if (flags & (O_CREAT | O_TMPFILE)) {
    va_list ap;
    va_start(ap, flags);
    m = va_arg(ap, mode_t);
    va_end(ap);
  }
  return open_common(dfd, path, flags, m, 0);
}
int openat64(int dfd, const char *path, int flags, ...) {
  mode_t m = 0;
  if (flags & (O_CREAT | O_TMPFILE)) {
    va_list ap;
    va_start(ap, flags);
    m = va_arg(ap, mode_t);
    va_end(ap);
  }
  return open_common(dfd, path, flags, m, 1);
}
