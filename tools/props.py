"""Per-property configuration of tools/check: engines (correspondence runs), claimed level,
trusted base.  `props_file: True` means coq/theories/Props/<id>.v exists and its theorems are
re-checked and audited on every run."""

ALLOWED_AXIOMS = set([
    # none needed so far; axioms of the standard library would be named here
])

def sys_engine(nq, nt, extra=""):
    return {"name": "sys", "cmd": "sys", "quick": "--n %d %s" % (nq, extra), "thorough": "--n %d %s" % (nt, extra), "timeout": 3000}

COMMON_ASSUME = [
    "the real hash functions (Blake3 / SHA-2) are collision free and never output all-zero; the model's nodes are free terms evaluated by the harness with the real hasher",
    "value bytes are interned by the harness: equal bytes <-> equal model value ids",
]

PROPS = {
    "C01": {"level": "exploration", "props_file": False, "engines": [sys_engine(96, 1500)], "assumptions": COMMON_ASSUME},
    "C02": {"level": "exploration", "props_file": False, "engines": [sys_engine(96, 1500)], "assumptions": COMMON_ASSUME},
    "C05": {"level": "exploration", "props_file": False, "engines": [sys_engine(96, 1500)], "assumptions": COMMON_ASSUME},
    "C06": {"level": "exploration", "props_file": False, "engines": [sys_engine(128, 2000)], "assumptions": COMMON_ASSUME},
    "C09": {"level": "exploration", "props_file": False, "engines": [sys_engine(128, 2000)], "assumptions": COMMON_ASSUME},
    "C10": {"level": "exploration", "props_file": False, "engines": [sys_engine(128, 2000)], "assumptions": COMMON_ASSUME},
    "C11": {"level": "exploration", "props_file": False, "engines": [sys_engine(128, 2000)], "assumptions": COMMON_ASSUME},
    "C12": {"level": "exploration", "props_file": False, "engines": [sys_engine(128, 2000)], "assumptions": COMMON_ASSUME},
    "C13": {"level": "exploration", "props_file": False, "engines": [sys_engine(64, 800)], "assumptions": COMMON_ASSUME},
}
