"""Per-property configuration of tools/check: engines (correspondence runs), claimed level,
trusted base.  `props_file: True` means coq/theories/Props/<id>.v exists and its theorems are
re-checked and audited on every run.  tools/mkmanifest.py derives MANIFEST.json from this."""

ALLOWED_AXIOMS = set([
    # none needed so far; axioms of the standard library would be named here
])

def sys_engine(nq, nt, extra=""):
    return {"name": "sys", "cmd": "sys", "quick": "--n %d %s" % (nq, extra), "thorough": "--n %d %s" % (nt, extra), "timeout": 3000}

def io_engine(nq, nt, pq, pt, extra=""):
    return {"name": "io", "cmd": "io", "quick": "--n %d --points %d %s" % (nq, pq, extra), "thorough": "--n %d --points %d %s" % (nt, pt, extra), "timeout": 3000}

COMMON_ASSUME = [
    "the real hash functions (Blake3 / SHA-2) are collision free and never output all-zero; the model's nodes are free terms evaluated by the harness with the real hasher",
    "value bytes are interned by the harness: equal bytes <-> equal model value ids",
]
TB = [
    "hand-written Coq models (coq/theories/*.v) tied to /repo by the correspondence runs named in the evidence (differential testing: sampled, not proved)",
]
PROOF_TECH = "Coq 8.16 theorems about executable models + differential correspondence of the extracted models with the implementation"

PROPS = {
    "C01": {"level": "proof", "props_file": True, "engines": [sys_engine(96, 1500)], "assumptions": COMMON_ASSUME, "trusted_base": TB,
            "engine": "E-sys", "design": "C01",
            "text": "Theorems (all histories, keys, values): reads of the abstract store equal the last committed write; delete = absence as an equation; a commit applies exactly its batch. Correspondence: every read (handle and later session) after every commit of generated histories (values straddling in-leaf/overflow/page boundaries, clustered keys, all configurations) against the extracted Coq Store.",
            "note": "Proved for the Coq Store specification only; that the B-tree update stages implement it is carried by the differential runs (sampled). Trusted: extraction, OCaml driver, Rust harness."},
    "C02": {"level": "proof", "props_file": True, "engines": [sys_engine(96, 1500)], "assumptions": COMMON_ASSUME, "trusted_base": TB,
            "engine": "E-sys", "design": "C02",
            "text": "Theorems (all key sets / key lengths / hashers): the specification trie satisfies the NOMT rules and is the unique such trie; the root depends only on the key/value set (history independence); empty -> terminator, single pair -> leaf; the mirrored stack-based build_trie of nomt-core equals the recursive root and never panics. Correspondence: every reported root (Nomt::root, FinishedSession::root, Overlay::root, after reopen) equals the canonical root evaluated with the real hasher.",
            "note": "The page walker / paging is not modelled; its output root is compared on every commit of generated histories (sampled). build_trie mirror is hand-written (function-level differential planned)."},
    "C03": {"level": "fault_enumeration", "props_file": False, "engines": [io_engine(24, 200, 60, 400)], "engine": "E-io", "design": "C03",
            "assumptions": COMMON_ASSUME + ["a process crash is modelled by exit_group at an observed I/O event boundary (libc calls interposed by tools/shim.c, io_uring writes reported by the verif-hooks feature); completed writes stay in the page cache"],
            "text": "Crash-point enumeration: for generated histories the target operation (commit, non-blocking commit, overlay commit, rollback) runs in a child process that is killed at each observed I/O event (before / after), also inside the recovering open (nested); the directory is reopened and must equal exactly the old or exactly the new state of the Coq Store specification (root, seqn, every touched key, proofs), new iff the switch-over was durable or the call had returned; a further commit must behave as in the model.",
            "note": "No theorem yet about the sync protocol (planned: Proto.Sync/Recover). Crash = process death only (page cache survives); power loss is C04."},
    "C05": {"level": "proof", "props_file": True, "engines": [sys_engine(96, 1500)], "assumptions": COMMON_ASSUME, "trusted_base": TB,
            "engine": "E-sys", "design": "C05",
            "text": "Theorems (any hasher with correct kinds, any key set, any key): the canonical path proof verifies against the root (mirror of PathProof::verify) and confirms exactly the set's view (value / non-existence), with <= n siblings; under collision freeness a verifying proof IS the canonical one. Correspondence: Session::prove equals the canonical proof (siblings and terminal, evaluated with the real hasher) and verifies/confirms with the real verifier, for present / absent / deleted / diverging keys, cold and warm caches, elided pages, uncommitted overlays.",
            "note": "Seek / page loading / hash-table probing are not modelled: their output is compared for exact equality (sampled). PathProof mirror hand-written."},
    "C06": {"level": "exploration", "props_file": False, "engines": [sys_engine(128, 2000)], "assumptions": COMMON_ASSUME, "engine": "E-sys", "design": "C06",
            "text": "Witness of generated sessions (reads, writes, read-then-writes, deletes of absent keys, several keys per terminal, 1..64 workers): every path verifies against the previous root, reads attest the Coq specification's view, all writes are covered, verify_update over the witnessed writes equals the reported and the canonical new root.",
            "note": "Theorem verify_update_correct is being proved (VerifyUpdate_proofs.v); until it is registered this check claims exploration only."},
    "C09": {"level": "proof", "props_file": True, "engines": [sys_engine(128, 2000)], "assumptions": COMMON_ASSUME, "trusted_base": TB, "engine": "E-sys", "design": "C09",
            "text": "Theorems (abstract machine, all histories): n commits then rollback n restores the values; rollback k then m = rollback k+m; an unservable request leaves the entire state unchanged; the log stays within its limit. Correspondence: histories over commit / overlay commit / rollback(n) / reopen with log lengths 1,2,3,5,100 and multi-page values against the extracted Store (result kind, root, every value, reopen succeeds).",
            "note": "The reverse-delta representation and the segmented log are not modelled yet (planned Engine.Rollback/Seglog); their behaviour is compared through the API (sampled). Segment roll-over needs the H2 hook (not built): 64 MiB segments never roll in these runs."},
    "C10": {"level": "proof", "props_file": True, "engines": [sys_engine(128, 2000)], "assumptions": COMMON_ASSUME, "trusted_base": TB, "engine": "E-sys", "design": "C10",
            "text": "Theorems (abstract machine): reopen leaves values, history, seqn unchanged and later commits / rollbacks behave identically. Correspondence: reopen at random points under a different configuration; root, values, proofs, seqn, hash-table occupancy, and subsequent commits/rollbacks against the never-closed Store.",
            "note": "Recovery code (index reconstruction, free-list read, occupancy recount) not modelled yet; compared through the API (sampled)."},
    "C11": {"level": "proof", "props_file": True, "engines": [sys_engine(128, 2000)], "assumptions": COMMON_ASSUME, "trusted_base": TB, "engine": "E-sys", "design": "C11",
            "text": "Theorems (abstract machine): the view of a session on a chain = committed state with the chain's changes applied oldest first; creating/dropping overlays does not change the committed state; committing a chain in order = committing the batches directly (values and rollback history); an overlay whose parent is not the last committed one is refused. Correspondence: random overlay trees (chains, forks, drops, out-of-order commits, sabotaged chains) against the extracted Store: reads, proofs, roots, refusals (Incomplete / NotAncestor).",
            "note": "overlay.rs Index/LiveOverlay not mirrored yet; behaviour compared through the API (sampled). Sessions on chains whose base was overtaken (abandoned forks) are out of the property's scope and skipped."},
    "C12": {"level": "proof", "props_file": True, "engines": [sys_engine(128, 2000)], "assumptions": COMMON_ASSUME, "trusted_base": TB, "engine": "E-sys", "design": "C12",
            "text": "Theorem (abstract machine): a commit that is rejected (stale / parent not committed) or deferred leaves values, history, seqn, marker, every other change set unchanged; deferred returns the identical state. Correspondence: competing change sets on one base in every order and flavour (blocking / non-blocking, session / overlay, live session forcing deferral, rollback in between), then what rollback(1..3) restores and whether children of a rejected overlay are refused.",
            "note": "The step order of the four commit entry points in lib.rs is not yet regenerated into SrcFacts; carried by the differential runs (sampled)."},
    "C13": {"level": "exploration", "props_file": False, "engines": [sys_engine(64, 800)], "assumptions": COMMON_ASSUME, "engine": "E-sys", "design": "C13",
            "text": "One history executed under sampled points of the option space (workers 1..64, warm-up and preserve-prior hints, cache sizes down to the minimum, io workers, hash-table size/seed, upper-level caching 0..3, prepopulation, Blake3/SHA-2), each compared with the configuration-free Coq specification: reads, roots, proofs, witness verification.",
            "note": "Thread interleavings are sampled, never enumerated."},
    "C14": {"level": "fault_enumeration", "props_file": False, "engines": [io_engine(24, 200, 60, 400)], "engine": "E-io", "design": "C14",
            "assumptions": COMMON_ASSUME + ["an I/O failure is modelled by EIO returned from the interposed libc call / io_uring completion at one observed event (once or persistently)"],
            "text": "Fault-point enumeration: each observed I/O event of the target operation (write, resize, fsync, unlink, create; libc and io_uring) fails with EIO once or persistently; the call must return an error within a time limit, the handle must report poisoned, the next commit must be refused, and the reopened directory must equal the old or the new state of the Coq Store specification.",
            "note": "Bucket exhaustion not yet exercised. No theorem yet (planned Proto.Fault)."},
}
