// NOT a replay script (the sys driver drops every changeset at `close`): stand-alone reproduction, build as a
// throw-away crate with path deps on /repo/nomt (features verif-hooks, fuzz), /repo/core, bitvec, anyhow.
// Defect: Shared::commit_count (lib.rs:414, 594) is per HANDLE and restarts at 0 on every Nomt::open, while
// FinishedSession / Overlay do not borrow the handle they were prepared on. A changeset prepared at count 0 on
// handle 1, invalidated by two commits that bring the root back (P: 10 leaves elided -> 25 stored -> 10, stays
// stored), is accepted by a NEW handle of the same directory (count 0 again, same root): the ABA hole of e261f11
// reopened across a reopen in the same process. Output on the pinned tree:
//   stale changeset committed through a new handle: true
//   root equals the canonical root of the same contents: false
//   proofs that do not verify against the reported root: 1
use nomt::{hasher::Blake3Hasher, KeyReadWrite, Nomt, Options, SessionParams};
type H = Blake3Hasher;
fn key(i: u32) -> [u8; 32] {
    // keys under one depth-2 page: prefix aaa
    let mut k = [0x55u8; 32];
    k[0] = 0xaa; k[1] = 0xa0 | ((i >> 8) as u8 & 0xf); k[2] = i as u8;
    k
}
fn opts(p: &str) -> Options {
    let mut o = Options::new();
    o.path(p); o.commit_concurrency(1); o.hashtable_buckets(20000); o.rollback(false);
    o
}
fn commit(db: &Nomt<H>, w: Vec<([u8;32], Option<Vec<u8>>)>) {
    let s = db.begin_session(SessionParams::default());
    let mut a: Vec<_> = w.into_iter().map(|(k,v)| (k, KeyReadWrite::Write(v))).collect();
    a.sort_by(|x,y| x.0.cmp(&y.0));
    s.finish(a).unwrap().commit(db).unwrap();
}
fn main() {
    let p = std::env::args().nth(1).unwrap();
    let _ = std::fs::remove_dir_all(&p);
    let db = Nomt::<H>::open(opts(&p)).unwrap();
    // base: 10 leaves under P (elided)
    commit(&db, (0..10).map(|i| (key(i), Some(vec![i as u8; 5]))).collect());
    drop(db);
    // handle 1: count 0; prepare stale session S on the 10-leaf state
    let db = Nomt::<H>::open(opts(&p)).unwrap();
    let s = db.begin_session(SessionParams::default());
    let fin = s.finish(vec![(key(3), KeyReadWrite::Write(Some(vec![7u8; 7])))]).unwrap();
    let r0 = db.root();
    // P becomes stored (25 leaves) and shrinks back (stays stored)
    commit(&db, (10..25).map(|i| (key(i), Some(vec![i as u8; 5]))).collect());
    commit(&db, (10..25).map(|i| (key(i), None)).collect());
    assert_eq!(db.root().into_inner(), r0.into_inner());
    drop(db);
    // handle 2: commit counter restarts at 0 == the counter S was prepared on
    let db = Nomt::<H>::open(opts(&p)).unwrap();
    let res = fin.commit(&db);
    println!("stale changeset committed through a new handle: {:?}", res.is_ok());
    // grow P again
    commit(&db, (25..45).map(|i| (key(i), Some(vec![i as u8; 5]))).collect());
    drop(db);
    let db = Nomt::<H>::open(opts(&p)).unwrap();
    commit(&db, vec![(key(0), Some(vec![9u8; 9]))]);
    let root = db.root().into_inner();
    // reference db with the same contents
    let p2 = format!("{}-ref", p);
    let _ = std::fs::remove_dir_all(&p2);
    let rf = Nomt::<H>::open(opts(&p2)).unwrap();
    let mut w: Vec<([u8;32], Option<Vec<u8>>)> = (0..10).map(|i| (key(i), Some(vec![i as u8; 5]))).collect();
    w[3].1 = Some(vec![7u8; 7]); w[0].1 = Some(vec![9u8; 9]);
    w.extend((25..45).map(|i| (key(i), Some(vec![i as u8; 5]))));
    commit(&rf, w);
    println!("root equals the canonical root of the same contents: {}", root == rf.root().into_inner());
    let s = db.begin_session(SessionParams::default());
    let mut bad = 0;
    for i in (0..10u32).chain(25..45) {
        use bitvec::prelude::*;
        let k = key(i);
        let pr = s.prove(k).unwrap();
        if pr.verify::<H>(k.view_bits::<Msb0>(), root).is_err() { bad += 1; }
    }
    println!("proofs that do not verify against the reported root: {}", bad);
}
