From Coq Require Import Extraction ExtrOcamlBasic.
From Nomt Require Import Base Hash Trie Store Emit.
Extraction Language OCaml.
Separate Extraction Base Hash Trie Store Emit.
