From Coq Require Import Extraction ExtrOcamlBasic.
From Nomt Require Import Base Hash Trie Store Emit Result PathProof BuildTrie VerifyUpdate Witness MultiProof MultiUpdate CoreGlue Image SyncProto SyncGlue Shards ShardsGen Overflow BitOps Wal RbProto ReadPath FreeList SeekPath DeltaCodec NodeCodec BranchBuild RbBook LeafBuild AsyncRead.
Extraction Language OCaml.
Separate Extraction Base Hash Trie Store Emit Result PathProof BuildTrie VerifyUpdate Witness MultiProof MultiUpdate CoreGlue Image SyncProto SyncGlue Shards ShardsGen Overflow BitOps Wal RbProto ReadPath FreeList SeekPath DeltaCodec NodeCodec BranchBuild RbBook LeafBuild AsyncRead.
