(* Image: an independent decoder of NOMT's on-disk files (meta, ln, bbn, ht), well-formedness
   predicates over the decoded image and its abstraction to a key/value list (properties C16, C19).

   Written from the documented layouts only (store/meta.rs, beatree/allocator/free_list.rs,
   beatree/branch/node.rs, beatree/leaf/node.rs, beatree/ops/overflow.rs, bitbox/ht_file.rs,
   bitbox/meta_map.rs, bitbox/mod.rs, page_cache.rs, core/page_id.rs); it shares no code with NOMT's
   read path.  Bytes are [N] (0..255), a page is a [list N] of 4096 bytes, files are reached through
   [read_page : N -> option page] arguments so that the extracted code reads the real files lazily.
   Everything is total: an out-of-range read or a malformed field yields [Err], never a default.

   Two oracles come from the harness because they cannot be computed here:
     [hash_of : N -> option (list N)]   node id of the annotated reference trie -> 32-byte hash
     [xxh     : N -> option N]          page label (as a 256-bit big-endian number) -> xxh3 hash
   Coq [string] is avoided on purpose (its extraction would shadow OCaml's [String]); check names and
   error codes are enumerations that the driver prints. *)
From Coq Require Import List Bool Arith NArith PArith Pnat Lia.
From Nomt Require Import Base Trie Emit.
Import ListNotations.
Local Open Scope N_scope.

(* ------------------------------------------------------------------------------------------- *)
(* errors                                                                                        *)

Inductive ecode :=
| EReadMeta | EReadLn | EReadBbn | EReadHt           (* page not readable (beyond the file)      *)
| EShortPage                                          (* page shorter than 4096 bytes             *)
| EField                                              (* field outside the page                   *)
| EBumpBeyondFile
| EFreeListLoop | EFreeListCount
| EBranchHeader | EBranchCells | EBranchBits | EBranchSepLen | EBranchPn
| ELeafHeader | ELeafOffsets
| EOvfCell | EOvfSize | EOvfPage
| EHtSize
(* well-formedness failures *)
| WMagic | WVersion | WBump | WRollbackNil | WFreeHead
| WFirstSep | WLeafKeyOrder | WLeafBelowSep | WLeafAboveNext
| WSepOrder | WLeafPn | WBbnPn
| WOvfIncomplete | WOvfLen | WOvfPages
| WPageDup | WPageRange | WPageCover
| WMetaPadding | WLabel
| WNoOracle | WMetaByte | WProbeEmpty | WProbeFuel | WLabelDup
| WRootPageMissing | WNodeMismatch | WNodeIndex | WNoHash
| WElidedButStored | WAbsentNotMarked | WStoredBelowAbsent
| WKeysUnsorted.

Inductive res (A : Type) : Type :=
| Ok (a : A)
| Err (c : ecode) (x y : N).
Arguments Ok {A} a.
Arguments Err {A} c x y.

Definition bind {A B} (r : res A) (f : A -> res B) : res B :=
  match r with Ok a => f a | Err c x y => Err c x y end.
Notation "x <- r ;; k" := (bind r (fun x => k)) (at level 61, r at next level, right associativity).

Definition need {A} (o : option A) (c : ecode) (x y : N) : res A :=
  match o with Some a => Ok a | None => Err c x y end.

Definition guard (b : bool) (c : ecode) (x y : N) : res unit :=
  if b then Ok tt else Err c x y.

Fixpoint mapM {A B} (f : A -> res B) (l : list A) : res (list B) :=
  match l with
  | [] => Ok []
  | a :: r => b <- f a ;; bs <- mapM f r ;; Ok (b :: bs)
  end.

(* a failed check: code + two numbers of detail *)
Definition fail := (ecode * N * N)%type.
Definition verdict := option fail.          (* None = the check passes *)
Definition passes (v : verdict) : bool := match v with None => true | Some _ => false end.
Definition first_fail (a b : verdict) : verdict := match a with Some _ => a | None => b end.
Definition vguard (b : bool) (c : ecode) (x y : N) : verdict := if b then None else Some (c, x, y).
Fixpoint vall {A} (f : A -> verdict) (l : list A) : verdict :=
  match l with
  | [] => None
  | a :: r => match f a with Some e => Some e | None => vall f r end
  end.

(* ------------------------------------------------------------------------------------------- *)
(* lists indexed by N                                                                            *)

(* drop / take recurse on the binary representation of the count: no arithmetic per element *)
Fixpoint drop_pos {A} (p : positive) (l : list A) : list A :=
  match p with
  | xH => tl l
  | xO q => drop_pos q (drop_pos q l)
  | xI q => tl (drop_pos q (drop_pos q l))
  end.

Definition dropN {A} (n : N) (l : list A) : list A :=
  match n with N0 => l | Npos p => drop_pos p l end.

(* moves the first p elements of l onto acc (reversed); None when l is too short *)
Fixpoint take_rev {A} (p : positive) (l acc : list A) : option (list A * list A) :=
  match p with
  | xH => match l with x :: r => Some (x :: acc, r) | [] => None end
  | xO q =>
      match take_rev q l acc with
      | Some (acc1, r1) => take_rev q r1 acc1
      | None => None
      end
  | xI q =>
      match l with
      | x :: r =>
          match take_rev q r (x :: acc) with
          | Some (acc1, r1) => take_rev q r1 acc1
          | None => None
          end
      | [] => None
      end
  end.

(* exactly the first n elements and the rest; None when l is shorter than n *)
Definition split_exact {A} (n : N) (l : list A) : option (list A * list A) :=
  match n with
  | N0 => Some ([], l)
  | Npos p =>
      match take_rev p l [] with
      | Some (a, r) => Some (rev_append a [], r)
      | None => None
      end
  end.

Fixpoint lenN_aux {A} (l : list A) (acc : N) : N :=
  match l with [] => acc | _ :: r => lenN_aux r (N.succ acc) end.
Definition lenN {A} (l : list A) : N := lenN_aux l 0.

Definition sliceN {A} (off len : N) (l : list A) : option (list A) :=
  option_map fst (split_exact len (dropN off l)).

Fixpoint nthN {A} (n : N) (l : list A) : option A :=
  match l with
  | [] => None
  | x :: r => if n =? 0 then Some x else nthN (N.pred n) r
  end.

Fixpoint repeatN {A} (a : A) (n : nat) : list A :=
  match n with O => [] | S m => a :: repeatN a m end.

Fixpoint bytes_eqb (a b : list N) : bool :=
  match a, b with
  | [], [] => true
  | x :: a', y :: b' => (x =? y) && bytes_eqb a' b'
  | _, _ => false
  end.

(* ------------------------------------------------------------------------------------------- *)
(* a small map keyed by positive numbers                                                         *)

Inductive pmap (A : Type) : Type :=
| PL
| PN (l : pmap A) (o : option A) (r : pmap A).
Arguments PL {A}.
Arguments PN {A} l o r.

Fixpoint pfind {A} (p : positive) (m : pmap A) : option A :=
  match m with
  | PL => None
  | PN l o r =>
      match p with
      | xH => o
      | xO q => pfind q l
      | xI q => pfind q r
      end
  end.

Fixpoint padd {A} (p : positive) (v : A) (m : pmap A) : pmap A :=
  match p with
  | xH => match m with PL => PN PL (Some v) PL | PN l _ r => PN l (Some v) r end
  | xO q => match m with PL => PN (padd q v PL) None PL | PN l o r => PN (padd q v l) o r end
  | xI q => match m with PL => PN PL None (padd q v PL) | PN l o r => PN l o (padd q v r) end
  end.

Definition nfind {A} (n : N) (m : pmap A) : option A := pfind (N.succ_pos n) m.
Definition nadd {A} (n : N) (v : A) (m : pmap A) : pmap A := padd (N.succ_pos n) v m.
Definition nmem {A} (n : N) (m : pmap A) : bool := match nfind n m with Some _ => true | None => false end.

(* insert all numbers of a list; the first number already present is reported *)
Fixpoint add_all (l : list N) (m : pmap unit) : pmap unit * option N :=
  match l with
  | [] => (m, None)
  | x :: r => if nmem x m then (m, Some x) else add_all r (nadd x tt m)
  end.

(* ------------------------------------------------------------------------------------------- *)
(* integer readers (little endian, as the formats use; big endian for labels)                    *)

Fixpoint le_num (l : list N) : N :=
  match l with [] => 0 | b :: r => b + 256 * le_num r end.

Fixpoint be_num_aux (l : list N) (acc : N) : N :=
  match l with [] => acc | b :: r => be_num_aux r (acc * 256 + b) end.
Definition be_num (l : list N) : N := be_num_aux l 0.

Definition u16 (l : list N) (off : N) : option N := option_map le_num (sliceN off 2 l).
Definition u32 (l : list N) (off : N) : option N := option_map le_num (sliceN off 4 l).
Definition u64 (l : list N) (off : N) : option N := option_map le_num (sliceN off 8 l).

Fixpoint u16s (l : list N) : list N :=
  match l with a :: b :: r => (a + 256 * b) :: u16s r | _ => [] end.

Fixpoint u32s (l : list N) : list N :=
  match l with
  | a :: b :: c :: d :: r => (a + 256 * b + 65536 * c + 16777216 * d) :: u32s r
  | _ => []
  end.

Definition bits_of_byte (b : N) : list bool :=
  [N.testbit b 7; N.testbit b 6; N.testbit b 5; N.testbit b 4;
   N.testbit b 3; N.testbit b 2; N.testbit b 1; N.testbit b 0].

Fixpoint bits_of_bytes (l : list N) : list bool :=
  match l with [] => [] | b :: r => bits_of_byte b ++ bits_of_bytes r end.

Definition pad256 (k : list bool) : key := k ++ repeatN false (256 - length k)%nat.
Definition zero_key : key := repeatN false 256%nat.
Definition key_leb (a b : key) : bool := negb (key_ltb b a).

Definition PAGE : N := 4096.

Definition full_page (c : ecode) (pn : N) (o : option (list N)) : res (list N) :=
  match o with
  | None => Err c pn 0
  | Some pg => match dropN (PAGE - 1) pg with [_] => Ok pg | _ => Err EShortPage pn (lenN pg) end
  end.

(* ------------------------------------------------------------------------------------------- *)
(* files                                                                                         *)

Record files := mkFiles {
  rd_meta : N -> option (list N);
  rd_ln   : N -> option (list N);
  rd_bbn  : N -> option (list N);
  rd_ht   : N -> option (list N);
  sz_ln   : N;                       (* file lengths in pages *)
  sz_bbn  : N;
  sz_ht   : N
}.

(* ------------------------------------------------------------------------------------------- *)
(* 1. manifest: 64 bytes at the start of page 0 of [meta]                                        *)

Record manifest := mkManifest {
  mf_magic : N;                      (* the four bytes read as a little-endian u32 *)
  mf_version : N;
  mf_ln_freelist_pn : N;
  mf_ln_bump : N;
  mf_bbn_freelist_pn : N;
  mf_bbn_bump : N;
  mf_sync_seqn : N;
  mf_bitbox_num_pages : N;
  mf_bitbox_seed : list N;           (* 16 bytes *)
  mf_rollback_start_live : N;
  mf_rollback_end_live : N
}.

Definition MAGIC : N := 78 + 256 * 79 + 65536 * 77 + 16777216 * 84.     (* "NOMT" *)

Definition decode_manifest (pg : list N) : res manifest :=
  magic <- need (u32 pg 0) EField 0 0 ;;
  version <- need (u32 pg 4) EField 0 4 ;;
  lnfl <- need (u32 pg 8) EField 0 8 ;;
  lnb <- need (u32 pg 12) EField 0 12 ;;
  bbnfl <- need (u32 pg 16) EField 0 16 ;;
  bbnb <- need (u32 pg 20) EField 0 20 ;;
  seqn <- need (u32 pg 24) EField 0 24 ;;
  np <- need (u32 pg 28) EField 0 28 ;;
  seed <- need (sliceN 32 16 pg) EField 0 32 ;;
  rs <- need (u64 pg 48) EField 0 48 ;;
  re <- need (u64 pg 56) EField 0 56 ;;
  Ok (mkManifest magic version lnfl lnb bbnfl bbnb seqn np seed rs re).

(* ------------------------------------------------------------------------------------------- *)
(* 2. free lists: (prev : u32, n : u16, items : [u32; n]) pages linked through [prev]            *)

Definition MAX_PNS_PER_PAGE : N := 1022.

Definition decode_free_page (pn : N) (pg : list N) : res (N * list N) :=
  prev <- need (u32 pg 0) EField pn 0 ;;
  n <- need (u16 pg 4) EField pn 4 ;;
  _ <- guard (n <=? MAX_PNS_PER_PAGE) EFreeListCount pn n ;;
  raw <- need (sliceN 6 (4 * n) pg) EField pn 6 ;;
  Ok (prev, u32s raw).

(* head portion first *)
Fixpoint free_walk (fuel : nat) (c : ecode) (rd : N -> option (list N)) (pn : N)
         (acc : list (N * list N)) : res (list (N * list N)) :=
  if pn =? 0 then Ok (rev_append acc [])
  else match fuel with
       | O => Err EFreeListLoop pn 0
       | S f =>
           pg <- full_page c pn (rd pn) ;;
           d <- decode_free_page pn pg ;;
           free_walk f c rd (fst d) ((pn, snd d) :: acc)
       end.

Definition free_items (fl : list (N * list N)) : list N := flat_map snd fl.
Definition free_portions (fl : list (N * list N)) : list N := map fst fl.
Definition free_tracked (fl : list (N * list N)) : list N := free_portions fl ++ free_items fl.

(* ------------------------------------------------------------------------------------------- *)
(* 3. branch nodes                                                                               *)

Record branch := mkBranch {
  b_pn : N;                          (* where it was found *)
  b_bbn_pn : N;                      (* what its header says *)
  b_prefix_compressed : N;
  b_prefix_len : N;
  b_seps : list key;                 (* reconstructed 256-bit separators *)
  b_lns : list N                     (* leaf page numbers *)
}.

Definition BRANCH_HEADER : N := 10.

(* cells are the END bit offsets of the separators within the separator bit vector *)
Fixpoint split_seps (pn : N) (cells : list N) (i prev pc : N) (prefix bits : list bool) : res (list key) :=
  match cells with
  | [] => Ok []
  | c :: cs =>
      _ <- guard (prev <=? c) EBranchCells pn i ;;
      let len := c - prev in
      sp <- need (split_exact len bits) EBranchBits pn i ;;
      let whole := if i <? pc then prefix ++ fst sp else fst sp in
      _ <- guard (lenN whole <=? 256) EBranchSepLen pn i ;;
      rest <- split_seps pn cs (i + 1) c pc prefix (snd sp) ;;
      Ok (pad256 whole :: rest)
  end.

Definition decode_branch (pn : N) (pg : list N) : res branch :=
  bbn_pn <- need (u32 pg 0) EField pn 0 ;;
  n <- need (u16 pg 4) EField pn 4 ;;
  pc <- need (u16 pg 6) EField pn 6 ;;
  plen <- need (u16 pg 8) EField pn 8 ;;
  _ <- guard ((1 <=? n) && (BRANCH_HEADER + 6 * n <=? PAGE) && (pc <=? n) && (plen <=? 256))
         EBranchHeader pn n ;;
  rawcells <- need (sliceN BRANCH_HEADER (2 * n) pg) EField pn BRANCH_HEADER ;;
  let cells := u16s rawcells in
  let last := last cells 0 in
  let bstart := BRANCH_HEADER + 2 * n in
  let bend := PAGE - 4 * n in
  let need_bytes := (plen + last + 7) / 8 in
  _ <- guard (bstart + need_bytes <=? bend) EBranchBits pn need_bytes ;;
  region <- need (sliceN bstart need_bytes pg) EField pn bstart ;;
  let bits := bits_of_bytes region in
  pf <- need (split_exact plen bits) EBranchBits pn plen ;;
  seps <- split_seps pn cells 0 0 pc (fst pf) (snd pf) ;;
  rawptr <- need (sliceN bend (4 * n) pg) EField pn bend ;;
  Ok (mkBranch pn bbn_pn pc plen seps (u32s rawptr)).

Definition all_zero (pg : list N) : bool := forallb (fun b => b =? 0) pg.

(* every page 1 <= pn < bump that is not all-zero and not tracked by the free list
   (what beatree/ops/reconstruction.rs does) *)
Fixpoint scan_branches (fuel : nat) (rd : N -> option (list N)) (tracked : pmap unit)
         (pn bump : N) : res (list branch) :=
  match fuel with
  | O => Ok []
  | S f =>
      if bump <=? pn then Ok []
      else
        pg <- full_page EReadBbn pn (rd pn) ;;
        if nmem pn tracked || all_zero pg then scan_branches f rd tracked (pn + 1) bump
        else
          b <- decode_branch pn pg ;;
          rest <- scan_branches f rd tracked (pn + 1) bump ;;
          Ok (b :: rest)
  end.

Definition first_sep (b : branch) : key := hd zero_key (b_seps b).

Fixpoint insert_branch (b : branch) (l : list branch) : list branch :=
  match l with
  | [] => [b]
  | c :: r => if key_ltb (first_sep b) (first_sep c) then b :: l else c :: insert_branch b r
  end.
Definition sort_branches (l : list branch) : list branch := fold_right insert_branch [] l.

(* ------------------------------------------------------------------------------------------- *)
(* 4./5. leaves and overflow values                                                              *)

Definition BODY_SIZE : N := 4092.
Definition MAX_CELL_PNS : N := 15.
Definition MAX_OVERFLOW_VALUE_SIZE : N := 536870912.       (* 1 << 29 *)

Definition needed_pages (size : N) : N := (size + BODY_SIZE - 1) / BODY_SIZE.

(* mirror of overflow.rs::total_needed_pages *)
Definition total_needed_pages (size : N) : N :=
  let np := needed_pages size in
  if np <=? MAX_CELL_PNS then np
  else
    let bytes_left := np * BODY_SIZE - size in
    let avail := bytes_left / 4 in
    if np <=? MAX_CELL_PNS + avail then np
    else
      let n := size + (np - MAX_CELL_PNS) * 4 - np * BODY_SIZE in
      np + (n + BODY_SIZE - 3) / (BODY_SIZE - 4).

Record overflow := mkOverflow {
  o_size : N;                        (* value_size recorded in the cell *)
  o_hash : list N;                   (* value hash recorded in the cell, 32 bytes *)
  o_cell_pages : list N;
  o_pages : list N;                  (* every page of the chain, in reading order *)
  o_complete : bool                  (* the page list never ran dry while reading *)
}.

Record entry := mkEntry {
  e_key : key;
  e_val : list N;
  e_len : N;                         (* number of value bytes, summed while slicing (= lenN e_val) *)
  e_ovf : option overflow
}.

Record leaf := mkLeaf {
  l_pn : N;
  l_sep : key;                       (* separator under which a branch refers to it *)
  l_entries : list entry
}.

(* read_blocking: take the next page of the queue [total] times; each page contributes further
   page numbers (appended to the queue) and value bytes *)
Fixpoint ovf_read (fuel : nat) (rd : N -> option (list N)) (queue : list N)
         (used : list N) (val : list (list N)) (tot : N)
  : res (list N * list (list N) * list N * bool * N) :=
  match fuel with
  | O => Ok (rev_append used [], rev_append val [], queue, true, tot)
  | S f =>
      match queue with
      | [] => Ok (rev_append used [], rev_append val [], [], false, tot)
      | pn :: q =>
          pg <- full_page EReadLn pn (rd pn) ;;
          npn <- need (u16 pg 0) EField pn 0 ;;
          nb <- need (u16 pg 2) EField pn 2 ;;
          _ <- guard (4 + 4 * npn + nb <=? PAGE) EOvfPage pn nb ;;
          rawp <- need (sliceN 4 (4 * npn) pg) EField pn 4 ;;
          bytes <- need (sliceN (4 + 4 * npn) nb pg) EField pn nb ;;
          ovf_read f rd (q ++ u32s rawp) (pn :: used) (bytes :: val) (tot + nb)
      end
  end.

Definition decode_overflow (rd : N -> option (list N)) (lpn : N) (raw : list N)
  : res (list N * N * overflow) :=
  let len := lenN raw in
  _ <- guard ((44 <=? len) && (len mod 4 =? 0)) EOvfCell lpn len ;;
  size <- need (u64 raw 0) EField lpn 0 ;;
  _ <- guard (size <=? MAX_OVERFLOW_VALUE_SIZE) EOvfSize lpn size ;;
  hash <- need (sliceN 8 32 raw) EField lpn 8 ;;
  let cellp := u32s (dropN 40 raw) in
  let total := total_needed_pages size in
  r <- ovf_read (N.to_nat total) rd cellp [] [] 0 ;;
  let '(used, chunks, leftover, complete, tot) := r in
  Ok (concat chunks, tot, mkOverflow size hash cellp (used ++ leftover) complete).

(* cell pointers: n times (32-byte key, u16 offset whose top bit flags an overflow cell) *)
Fixpoint cell_pointers (n : nat) (l : list N) : option (list (list N * N)) :=
  match n with
  | O => Some []
  | S m =>
      match sliceN 0 32 l, u16 l 32 with
      | Some k, Some off =>
          match cell_pointers m (dropN 34 l) with
          | Some r => Some ((k, off) :: r)
          | None => None
          end
      | _, _ => None
      end
  end.

Definition OVERFLOW_BIT : N := 32768.
Definition cp_off (raw : N) : N := raw mod OVERFLOW_BIT.
Definition cp_ovf (raw : N) : bool := OVERFLOW_BIT <=? raw.

(* cells: from this pointer's offset to the next one's (last: to the end of the page).  The cells
   are consecutive, so the page is walked once: [cur] is the page from this cell's offset on. *)
Fixpoint leaf_cells (rd : N -> option (list N)) (lpn : N) (cur : list N) (cps : list (list N * N))
  : res (list entry) :=
  match cps with
  | [] => Ok []
  | (k, raw) :: rest =>
      let off := cp_off raw in
      let fin := match rest with [] => PAGE | (_, raw') :: _ => cp_off raw' end in
      _ <- guard (off <=? fin) ELeafOffsets lpn off ;;
      sp <- need (split_exact (fin - off) cur) EField lpn off ;;
      let cell := fst sp in
      e <- (if cp_ovf raw
            then d <- decode_overflow rd lpn cell ;;
                 Ok (mkEntry (bits_of_bytes k) (fst (fst d)) (snd (fst d)) (Some (snd d)))
            else Ok (mkEntry (bits_of_bytes k) cell (fin - off) None)) ;;
      es <- leaf_cells rd lpn (snd sp) rest ;;
      Ok (e :: es)
  end.

Definition decode_leaf (rd : N -> option (list N)) (lpn : N) (sep : key) (pg : list N) : res leaf :=
  n <- need (u16 pg 0) EField lpn 0 ;;
  _ <- guard (2 + 34 * n <=? PAGE) ELeafHeader lpn n ;;
  cps <- need (cell_pointers (N.to_nat n) (dropN 2 pg)) EField lpn 2 ;;
  let first := match cps with [] => PAGE | (_, raw) :: _ => cp_off raw end in
  _ <- guard (2 + 34 * n <=? first) ELeafOffsets lpn n ;;
  es <- leaf_cells rd lpn (dropN first pg) cps ;;
  Ok (mkLeaf lpn sep es).

Definition read_leaf (rd : N -> option (list N)) (ref : key * N) : res leaf :=
  pg <- full_page EReadLn (snd ref) (rd (snd ref)) ;;
  decode_leaf rd (snd ref) (fst ref) pg.

Definition branch_refs (b : branch) : list (key * N) := combine (b_seps b) (b_lns b).

(* ------------------------------------------------------------------------------------------- *)
(* 6. hash table: meta bytes in the first pages, then one page per bucket                        *)

Definition META_EMPTY : N := 0.
Definition META_TOMBSTONE : N := 127.
Definition is_full (b : N) : bool := 128 <=? b.

Record mpage := mkMpage {
  p_bucket : N;
  p_meta : N;                        (* its meta byte *)
  p_label : N;                       (* the last 32 bytes as a big-endian number *)
  p_label_bytes : list N;
  p_elided : N;                      (* u64 at 4096-40 *)
  p_nodes : list (list N)            (* 126 nodes of 32 bytes *)
}.

Fixpoint chunk32 (n : nat) (l : list N) : list (list N) :=
  match n with
  | O => []
  | S m => match split_exact 32 l with
           | Some (a, r) => a :: chunk32 m r
           | None => []
           end
  end.

Definition decode_mpage (bucket meta : N) (pg : list N) : res mpage :=
  el <- need (u64 pg (PAGE - 40)) EField bucket (PAGE - 40) ;;
  lab <- need (sliceN (PAGE - 32) 32 pg) EField bucket (PAGE - 32) ;;
  Ok (mkMpage bucket meta (be_num lab) lab el (chunk32 126 pg)).

Definition num_meta_pages (buckets : N) : N := (buckets + 4095) / PAGE.

(* non-zero meta bytes of one meta page, with their bucket numbers *)
Fixpoint meta_scan (l : list N) (bucket : N) (acc : list (N * N)) : list (N * N) :=
  match l with
  | [] => acc
  | b :: r => meta_scan r (N.succ bucket) (if b =? 0 then acc else (bucket, b) :: acc)
  end.

Fixpoint meta_pages (fuel : nat) (rd : N -> option (list N)) (p np : N) (acc : list (N * N))
  : res (list (N * N)) :=
  match fuel with
  | O => Ok (rev_append acc [])
  | S f =>
      if np <=? p then Ok (rev_append acc [])
      else
        pg <- full_page EReadHt p (rd p) ;;
        meta_pages f rd (p + 1) np (meta_scan pg (p * PAGE) acc)
  end.

Record hashtable := mkHt {
  h_buckets : N;
  h_meta : list (N * N);             (* (bucket, non-zero meta byte), ascending *)
  h_meta_map : pmap N;
  h_pages : list mpage               (* the FULL buckets below [h_buckets] *)
}.

Definition decode_ht (rd : N -> option (list N)) (buckets size : N) : res hashtable :=
  let np := num_meta_pages buckets in
  _ <- guard (size =? np + buckets) EHtSize size (np + buckets) ;;
  meta <- meta_pages (N.to_nat np) rd 0 np [] ;;
  let mm := fold_left (fun m e => nadd (fst e) (snd e) m) meta PL in
  pages <- mapM (fun e =>
                   pg <- full_page EReadHt (np + fst e) (rd (np + fst e)) ;;
                   decode_mpage (fst e) (snd e) pg)
                (filter (fun e => is_full (snd e) && (fst e <? buckets)) meta) ;;
  Ok (mkHt buckets meta mm pages).

(* page ids.  [pageid_encode] mirrors what PageId::encode DOES: add (limb + 1), THEN shift by 6
   (so the label is 64 times the documented encoding, finding F9); 256-bit wrap-around. *)
Definition TWO256 : N := 2 ^ 256.

Definition child_label (lab idx : N) : N := ((lab + idx + 1) * 64) mod TWO256.

Definition pageid_encode (path : list N) : N := fold_left child_label path 0.

(* the documented encoding: shift by 6, then add (limb + 1) *)
Definition pageid_encode_doc (path : list N) : N :=
  fold_left (fun acc limb => (acc * 64 + limb + 1) mod TWO256) path 0.

Definition HIGHEST_ENCODED_42 : N :=
  be_num [16; 65; 4; 16; 65; 4; 16; 65; 4; 16; 65; 4; 16; 65; 4; 16; 65; 4; 16; 65; 4; 16; 65; 4;
          16; 65; 4; 16; 65; 4; 16; 64].

(* mirror of PageId::decode (which inverts the DOCUMENTED encoding); path built back to front *)
Fixpoint decode_sextets (fuel : nat) (x : N) (acc : list N) : N * list N :=
  match fuel with
  | O => (x, acc)
  | S f => let y := x - 1 in decode_sextets f (y / 64) (y mod 64 :: acc)
  end.

Definition pageid_decode_doc (x : N) : option (list N) :=
  if HIGHEST_ENCODED_42 <? x then None
  else if x =? 0 then Some []
  else
    let sextets := (N.size x + 5) / 6 in
    let '(rest, acc) := decode_sextets (N.to_nat (sextets - 1)) x [] in
    if rest mod 256 =? 0 then Some acc else Some ((rest - 1) mod 256 :: acc).

(* a label found on disk -> page id: undo the extra shift, decode, and insist on the round trip *)
Definition label_pageid (lab : N) : option (list N) :=
  if lab mod 64 =? 0 then
    match pageid_decode_doc (lab / 64) with
    | Some p => if (pageid_encode p =? lab) && (lenN p <=? 42) && forallb (fun i => i <? 64) p
                then Some p else None
    | None => None
    end
  else None.

(* ------------------------------------------------------------------------------------------- *)
(* the image                                                                                     *)

Record image := mkImage {
  i_manifest : manifest;
  i_ln_free : list (N * list N);
  i_bbn_free : list (N * list N);
  i_branches : list branch;          (* ordered by first separator *)
  i_leaves : list leaf;              (* in separator order *)
  i_ht : hashtable
}.

Definition decode_image (fs : files) : res image :=
  m0 <- full_page EReadMeta 0 (rd_meta fs 0) ;;
  mf <- decode_manifest m0 ;;
  _ <- guard (mf_ln_bump mf <=? sz_ln fs) EBumpBeyondFile 0 (mf_ln_bump mf) ;;
  _ <- guard (mf_bbn_bump mf <=? sz_bbn fs) EBumpBeyondFile 1 (mf_bbn_bump mf) ;;
  lnfl <- free_walk (N.to_nat (mf_ln_bump mf)) EReadLn (rd_ln fs) (mf_ln_freelist_pn mf) [] ;;
  bbnfl <- free_walk (N.to_nat (mf_bbn_bump mf)) EReadBbn (rd_bbn fs) (mf_bbn_freelist_pn mf) [] ;;
  let tracked := fold_left (fun m x => nadd x tt m) (free_tracked bbnfl) PL in
  bs <- scan_branches (N.to_nat (mf_bbn_bump mf)) (rd_bbn fs) tracked 1 (mf_bbn_bump mf) ;;
  let bs := sort_branches bs in
  leaves <- mapM (read_leaf (rd_ln fs)) (flat_map branch_refs bs) ;;
  ht <- decode_ht (rd_ht fs) (mf_bitbox_num_pages mf) (sz_ht fs) ;;
  Ok (mkImage mf lnfl bbnfl bs leaves ht).

(* the abstraction: all (key, value bytes) pairs of all leaves, in image order *)
Definition entries (img : image) : list entry := flat_map l_entries (i_leaves img).
Definition abs (img : image) : list (key * list N) := map (fun e => (e_key e, e_val e)) (entries img).

(* the same with opaque value ids (position in the image), for Trie.mk *)
Fixpoint number {A} (l : list (key * A)) (i : N) : kv :=
  match l with [] => [] | (k, _) :: r => (k, i) :: number r (N.succ i) end.
Definition abs_kv (img : image) : kv := number (abs img) 1.

(* ------------------------------------------------------------------------------------------- *)
(* well-formedness                                                                               *)

Definition wf_manifest_v (img : image) : verdict :=
  let m := i_manifest img in
  first_fail (vguard (mf_magic m =? MAGIC) WMagic (mf_magic m) 0)
  (first_fail (vguard (mf_version m =? 1) WVersion (mf_version m) 0)
  (first_fail (vguard ((1 <=? mf_ln_bump m) && (1 <=? mf_bbn_bump m)) WBump (mf_ln_bump m) (mf_bbn_bump m))
  (first_fail (vguard (Bool.eqb (mf_rollback_start_live m =? 0) (mf_rollback_end_live m =? 0))
                 WRollbackNil (mf_rollback_start_live m) (mf_rollback_end_live m))
              (vguard ((mf_ln_freelist_pn m <? mf_ln_bump m) && (mf_bbn_freelist_pn m <? mf_bbn_bump m))
                 WFreeHead (mf_ln_freelist_pn m) (mf_bbn_freelist_pn m))))).

(* keys strictly ascending within a leaf, all in [separator, next separator) *)
Fixpoint keys_ascending (lpn : N) (ks : list key) : verdict :=
  match ks with
  | k :: ((k' :: _) as r) => first_fail (vguard (key_ltb k k') WLeafKeyOrder lpn 0) (keys_ascending lpn r)
  | _ => None
  end.

Definition leaf_in_range (l : leaf) (next : option key) : verdict :=
  let ks := map e_key (l_entries l) in
  first_fail (keys_ascending (l_pn l) ks)
  (first_fail (vall (fun k => vguard (key_leb (l_sep l) k) WLeafBelowSep (l_pn l) 0) ks)
     match next with
     | None => None
     | Some nx => vall (fun k => vguard (key_ltb k nx) WLeafAboveNext (l_pn l) 0) ks
     end).

Fixpoint leaves_in_range (ls : list leaf) : verdict :=
  match ls with
  | [] => None
  | l :: r =>
      first_fail (leaf_in_range l (match r with [] => None | l' :: _ => Some (l_sep l') end))
                 (leaves_in_range r)
  end.

Definition wf_leaf_order_v (img : image) : verdict :=
  first_fail
    match i_leaves img with
    | [] => None
    | l :: _ => vguard (key_eqb (l_sep l) zero_key) WFirstSep (l_pn l) 0
    end
    (leaves_in_range (i_leaves img)).

Fixpoint seps_ascending (ks : list key) (i : N) : verdict :=
  match ks with
  | k :: ((k' :: _) as r) => first_fail (vguard (key_ltb k k') WSepOrder i 0) (seps_ascending r (i + 1))
  | _ => None
  end.

Definition wf_branches_v (img : image) : verdict :=
  let bump := mf_ln_bump (i_manifest img) in
  first_fail (vall (fun b => vguard (b_bbn_pn b =? b_pn b) WBbnPn (b_pn b) (b_bbn_pn b)) (i_branches img))
  (first_fail (vall (fun b => vguard (lenN (b_seps b) =? lenN (b_lns b)) WSepOrder (b_pn b) 1) (i_branches img))
  (first_fail (seps_ascending (flat_map b_seps (i_branches img)) 0)
     (vall (fun b => vall (fun pn => vguard ((1 <=? pn) && (pn <? bump)) WLeafPn (b_pn b) pn) (b_lns b))
           (i_branches img)))).

Definition wf_overflow_v (img : image) : verdict :=
  vall (fun e =>
          match e_ovf e with
          | None => None
          | Some o =>
              first_fail (vguard (o_complete o) WOvfIncomplete (o_size o) (lenN (o_pages o)))
              (first_fail (vguard (e_len e =? o_size o) WOvfLen (o_size o) (e_len e))
                 (vguard (lenN (o_pages o) =? total_needed_pages (o_size o)) WOvfPages
                    (o_size o) (lenN (o_pages o))))
          end)
       (entries img).

(* C19: the pages below the frontier are exactly the live pages and the free-list pages, each once *)
Definition pages_exact (tag : N) (pages : list N) (bump : N) : verdict :=
  let '(_, dup) := add_all pages PL in
  first_fail (match dup with Some x => Some (WPageDup, tag, x) | None => None end)
  (first_fail (vall (fun pn => vguard ((1 <=? pn) && (pn <? bump)) WPageRange tag pn) pages)
     (vguard (lenN pages + 1 =? bump) WPageCover (lenN pages) bump)).

Definition overflow_pages (img : image) : list N :=
  flat_map (fun e => match e_ovf e with Some o => o_pages o | None => [] end) (entries img).

Definition ln_pages (img : image) : list N :=
  map l_pn (i_leaves img) ++ overflow_pages img ++ free_tracked (i_ln_free img).
Definition bbn_pages (img : image) : list N :=
  map b_pn (i_branches img) ++ free_tracked (i_bbn_free img).

Definition wf_pages_ln_v (img : image) : verdict :=
  pages_exact 0 (ln_pages img) (mf_ln_bump (i_manifest img)).
Definition wf_pages_bbn_v (img : image) : verdict :=
  pages_exact 1 (bbn_pages img) (mf_bbn_bump (i_manifest img)).

(* meta bytes beyond the last bucket are zero (they are counted by full_count at open);
   every FULL bucket carries a label that is a page id *)
Definition wf_ht_meta_v (img : image) : verdict :=
  let h := i_ht img in
  first_fail (vall (fun e => vguard (fst e <? h_buckets h) WMetaPadding (fst e) (snd e)) (h_meta h))
             (vall (fun p => vguard (match label_pageid (p_label p) with Some _ => true | None => false end)
                               WLabel (p_bucket p) 0) (h_pages h)).

(* mirror of ProbeSequence: triangular probing from hash mod buckets; the walk must reach [target]
   before any EMPTY byte *)
Fixpoint probe (fuel : nat) (mm : pmap N) (buckets target bucket step : N) : verdict :=
  match fuel with
  | O => Some (WProbeFuel, target, 0)
  | S f =>
      let b := (bucket + step) mod buckets in
      if b =? target then None
      else match nfind b mm with
           | None => Some (WProbeEmpty, target, b)
           | Some _ => probe f mm buckets target b (step + 1)
           end
  end.

Definition full_entry (h : N) : N := 128 + h / 2 ^ 57.

Definition label_map (ps : list mpage) : pmap mpage * option N :=
  fold_left (fun acc p =>
               let '(m, dup) := acc in
               match nfind (p_label p) m with
               | Some _ => (m, match dup with None => Some (p_bucket p) | _ => dup end)
               | None => (nadd (p_label p) p m, dup)
               end) ps (PL, None).

Definition wf_ht_probe_v (xxh : N -> option N) (img : image) : verdict :=
  let h := i_ht img in
  let fuel := N.to_nat (2 * h_buckets h + 2) in
  first_fail
    (match snd (label_map (h_pages h)) with Some b => Some (WLabelDup, b, 0) | None => None end)
    (vall (fun p =>
             match xxh (p_label p) with
             | None => Some (WNoOracle, p_bucket p, 0)
             | Some hash =>
                 first_fail (vguard (p_meta p =? full_entry hash) WMetaByte (p_bucket p) (p_meta p))
                   (probe fuel (h_meta_map h) (h_buckets h) (p_bucket p)
                      (hash mod h_buckets h) 0)
             end) (h_pages h)).

(* ------------------------------------------------------------------------------------------- *)
(* merkle pages against the reference trie                                                       *)

Record mw := mkMw {
  mw_fail : verdict;
  mw_needed : N;                     (* pages that hold at least one reachable node *)
  mw_stored : N;                     (* ... of which stored *)
  mw_elided : N;                     (* ... absent and marked elided in their stored parent *)
  mw_below : N;                      (* ... absent below an absent page *)
  mw_nodes : N;                      (* node positions compared *)
  mw_maxdepth : N                    (* deepest needed page *)
}.

Definition mw0 : mw := mkMw None 0 0 0 0 0 0.
Definition mw_err (c : ecode) (x y : N) (s : mw) : mw :=
  mkMw (first_fail (mw_fail s) (Some (c, x, y))) (mw_needed s) (mw_stored s) (mw_elided s)
       (mw_below s) (mw_nodes s) (mw_maxdepth s).
Definition mw_node (s : mw) : mw :=
  mkMw (mw_fail s) (mw_needed s) (mw_stored s) (mw_elided s) (mw_below s) (N.succ (mw_nodes s))
       (mw_maxdepth s).
Definition mw_page (st el be : N) (depth : N) (s : mw) : mw :=
  mkMw (mw_fail s) (N.succ (mw_needed s)) (mw_stored s + st) (mw_elided s + el) (mw_below s + be)
       (mw_nodes s) (N.max depth (mw_maxdepth s)).

Inductive pctx := PStored (pg : mpage) | PAbsent.

Definition ZERO_NODE : list N := repeatN 0 32%nat.

Definition expected_node (hash_of : N -> option (list N)) (id : N) : option (list N) :=
  if id =? 0 then Some ZERO_NODE else hash_of id.

(* entering the child page [lab'] = child [idx] of the page of context [ctx]; that child is needed *)
Definition enter (pages : pmap mpage) (ctx : pctx) (lab' idx depth : N) (s : mw) : pctx * mw :=
  match ctx, nfind lab' pages with
  | PStored pg, Some c =>
      (PStored c,
       if N.testbit (p_elided pg) idx then mw_err WElidedButStored (p_bucket c) idx (mw_page 1 0 0 depth s)
       else mw_page 1 0 0 depth s)
  | PStored pg, None =>
      (PAbsent,
       if N.testbit (p_elided pg) idx then mw_page 0 1 0 depth s
       else mw_err WAbsentNotMarked (p_bucket pg) idx (mw_page 0 0 0 depth s))
  | PAbsent, Some c => (PAbsent, mw_err WStoredBelowAbsent (p_bucket c) idx (mw_page 1 0 0 depth s))
  | PAbsent, None => (PAbsent, mw_page 0 0 1 depth s)
  end.

(* [t] sits in the page labelled [lab] (page depth [pd]) at in-page depth [j] (1..6) under the
   in-page path [acc]; its slot is (2^j - 2) + acc *)
Fixpoint visit (hash_of : N -> option (list N)) (pages : pmap mpage) (t : atrie)
         (lab pd j acc : N) (ctx : pctx) (s : mw) : mw :=
  let s1 :=
    match ctx with
    | PAbsent => s
    | PStored pg =>
        let ix := 2 ^ j - 2 + acc in
        match nthN ix (p_nodes pg), expected_node hash_of (aid t) with
        | Some nd, Some ex =>
            if bytes_eqb nd ex then mw_node s else mw_err WNodeMismatch (p_bucket pg) ix s
        | None, _ => mw_err WNodeIndex (p_bucket pg) ix s
        | _, None => mw_err WNoHash (aid t) 0 s
        end
    end in
  match t with
  | AB _ l r =>
      if j <? 6 then
        visit hash_of pages r lab pd (j + 1) (2 * acc + 1) ctx
          (visit hash_of pages l lab pd (j + 1) (2 * acc) ctx s1)
      else
        let lab' := child_label lab acc in
        let '(ctx', s2) := enter pages ctx lab' acc (pd + 1) s1 in
        visit hash_of pages r lab' (pd + 1) 1 1 ctx' (visit hash_of pages l lab' (pd + 1) 1 0 ctx' s2)
  | _ => s1
  end.

Definition merkle_walk (hash_of : N -> option (list N)) (pages : pmap mpage) (t : atrie) : mw :=
  match t with
  | AB _ l r =>
      match nfind 0 pages with
      | Some pg =>
          visit hash_of pages r 0 0 1 1 (PStored pg)
            (visit hash_of pages l 0 0 1 0 (PStored pg) (mw_page 1 0 0 0 mw0))
      | None => mw_err WRootPageMissing 0 0 (mw_page 0 0 0 0 mw0)
      end
  | _ => mw0
  end.

Definition KEY_LEN : nat := 256.

(* the reference trie of the decoded pairs, numbered as the driver numbers the model's view *)
Definition ref_trie (img : image) : atrie := fst (annotate (mk KEY_LEN 0 (abs_kv img)) 1).

Definition merkle_result (hash_of : N -> option (list N)) (img : image) : mw :=
  if kv_sorted (abs_kv img)
  then merkle_walk hash_of (fst (label_map (h_pages (i_ht img)))) (ref_trie img)
  else mw_err WKeysUnsorted 0 0 mw0.

Definition wf_merkle_v (hash_of : N -> option (list N)) (img : image) : verdict :=
  mw_fail (merkle_result hash_of img).

(* the bool predicates *)
Definition wf_manifest (img : image) : bool := passes (wf_manifest_v img).
Definition wf_leaf_order (img : image) : bool := passes (wf_leaf_order_v img).
Definition wf_branches (img : image) : bool := passes (wf_branches_v img).
Definition wf_overflow (img : image) : bool := passes (wf_overflow_v img).
Definition wf_pages_disjoint (img : image) : bool :=
  passes (wf_pages_ln_v img) && passes (wf_pages_bbn_v img).
Definition wf_ht_meta (img : image) : bool := passes (wf_ht_meta_v img).
Definition wf_ht_probe (xxh : N -> option N) (img : image) : bool := passes (wf_ht_probe_v xxh img).
Definition wf_merkle (hash_of : N -> option (list N)) (img : image) : bool :=
  passes (wf_merkle_v hash_of img).

Definition occupancy (img : image) : N := lenN (h_pages (i_ht img)).

Inductive check_id :=
| CkDecode | CkManifest | CkLeafOrder | CkBranches | CkOverflow | CkPagesLn | CkPagesBbn
| CkHtMeta | CkHtProbe | CkMerkle.

Definition check_image_mw (hash_of : N -> option (list N)) (xxh : N -> option N) (img : image)
  : list (check_id * verdict) * mw :=
  let mr := merkle_result hash_of img in
  ([ (CkDecode, None);
     (CkManifest, wf_manifest_v img);
     (CkLeafOrder, wf_leaf_order_v img);
     (CkBranches, wf_branches_v img);
     (CkOverflow, wf_overflow_v img);
     (CkPagesLn, wf_pages_ln_v img);
     (CkPagesBbn, wf_pages_bbn_v img);
     (CkHtMeta, wf_ht_meta_v img);
     (CkHtProbe, wf_ht_probe_v xxh img);
     (CkMerkle, mw_fail mr) ], mr).

Definition check_image (hash_of : N -> option (list N)) (xxh : N -> option N) (img : image)
  : list (check_id * verdict) := fst (check_image_mw hash_of xxh img).

Definition check_all_v (fs : files) (hash_of : N -> option (list N)) (xxh : N -> option N)
  : list (check_id * verdict) :=
  match decode_image fs with
  | Ok img => check_image hash_of xxh img
  | Err c x y => [ (CkDecode, Some (c, x, y)) ]
  end.

Definition check_all (fs : files) (hash_of : N -> option (list N)) (xxh : N -> option N)
  : list (check_id * bool) :=
  map (fun p => (fst p, passes (snd p))) (check_all_v fs hash_of xxh).

(* WF image: every clause at once *)
Definition WF (hash_of : N -> option (list N)) (xxh : N -> option N) (img : image) : bool :=
  forallb (fun p => passes (snd p)) (check_image hash_of xxh img).

(* ------------------------------------------------------------------------------------------- *)
(* statistics for the evidence                                                                   *)

Record stats := mkStats {
  s_ln_bump : N; s_bbn_bump : N;
  s_ln_free_items : N; s_ln_free_portions : N;
  s_bbn_free_items : N; s_bbn_free_portions : N;
  s_branches : N; s_leaves : N; s_entries : N;
  s_inline : N; s_overflow_values : N; s_overflow_pages : N;
  s_full : N; s_tombstones : N; s_elided_bits : N;
  s_sync_seqn : N
}.

Fixpoint popcount_pos (p : positive) : N :=
  match p with xH => 1 | xO q => popcount_pos q | xI q => N.succ (popcount_pos q) end.
Definition popcount (n : N) : N := match n with N0 => 0 | Npos p => popcount_pos p end.

Definition image_stats (img : image) : stats :=
  let m := i_manifest img in
  let es := entries img in
  let novf := lenN (filter (fun e => match e_ovf e with Some _ => true | None => false end) es) in
  mkStats (mf_ln_bump m) (mf_bbn_bump m)
    (lenN (free_items (i_ln_free img))) (lenN (i_ln_free img))
    (lenN (free_items (i_bbn_free img))) (lenN (i_bbn_free img))
    (lenN (i_branches img)) (lenN (i_leaves img)) (lenN es)
    (lenN es - novf) novf (lenN (overflow_pages img))
    (occupancy img)
    (lenN (filter (fun e => (snd e =? META_TOMBSTONE) && (fst e <? h_buckets (i_ht img))) (h_meta (i_ht img))))
    (fold_left (fun a p => a + popcount (p_elided p)) (h_pages (i_ht img)) 0)
    (mf_sync_seqn m).

(* ------------------------------------------------------------------------------------------- *)
(* examples on hand-made pages                                                                   *)

Section Examples.

  Fixpoint le_bytes (k : nat) (n : N) : list N :=
    match k with O => [] | S m => n mod 256 :: le_bytes m (n / 256) end.
  Definition zeros (n : nat) : list N := repeatN 0 n.
  Definition pad_page (l : list N) : list N := l ++ zeros (4096 - length l).

  Example u16_ex : u16 [1; 2; 3; 4; 5; 6; 7; 8; 9] 1 = Some (2 + 256 * 3).
  Proof. vm_compute. reflexivity. Qed.
  Example u32_ex : u32 [1; 2; 3; 4; 5; 6; 7; 8; 9] 2 = Some (3 + 256 * 4 + 65536 * 5 + 16777216 * 6).
  Proof. vm_compute. reflexivity. Qed.
  Example u64_ex : u64 [1; 0; 0; 0; 0; 0; 0; 128; 7] 0 = Some (1 + 128 * 2 ^ 56).
  Proof. vm_compute. reflexivity. Qed.
  Example u32_out_of_range : u32 [1; 2; 3; 4; 5] 2 = None.
  Proof. vm_compute. reflexivity. Qed.
  Example le_bytes_roundtrip : le_num (le_bytes 4 305419896) = 305419896.
  Proof. vm_compute. reflexivity. Qed.

  (* manifest *)
  Definition ex_meta : list N :=
    pad_page ([78; 79; 77; 84] ++ le_bytes 4 1 ++ le_bytes 4 3 ++ le_bytes 4 9 ++ le_bytes 4 0
              ++ le_bytes 4 2 ++ le_bytes 4 5 ++ le_bytes 4 64000 ++ zeros 16
              ++ le_bytes 8 1 ++ le_bytes 8 4).
  Example manifest_ex :
    match decode_manifest ex_meta with
    | Ok m => (mf_magic m =? MAGIC) && (mf_version m =? 1) && (mf_ln_freelist_pn m =? 3)
              && (mf_ln_bump m =? 9) && (mf_bbn_freelist_pn m =? 0) && (mf_bbn_bump m =? 2)
              && (mf_sync_seqn m =? 5) && (mf_bitbox_num_pages m =? 64000)
              && (mf_rollback_start_live m =? 1) && (mf_rollback_end_live m =? 4)
    | Err _ _ _ => false
    end = true.
  Proof. vm_compute. reflexivity. Qed.

  (* a free-list page: prev = 7, two items *)
  Example free_page_ex :
    decode_free_page 3 (pad_page (le_bytes 4 7 ++ le_bytes 2 2 ++ le_bytes 4 11 ++ le_bytes 4 12))
    = Ok (7, [11; 12]).
  Proof. vm_compute. reflexivity. Qed.

  (* a leaf with two inline cells: values [1;2;3] and [4;5;6;7;8] packed against the page end *)
  Definition ex_k1 : list N := repeatN 17 32.
  Definition ex_k2 : list N := repeatN 34 32.
  Definition ex_leaf : list N :=
    let head := le_bytes 2 2 ++ ex_k1 ++ le_bytes 2 4088 ++ ex_k2 ++ le_bytes 2 4091 in
    head ++ zeros (4088 - length head) ++ [1; 2; 3] ++ [4; 5; 6; 7; 8].
  Example leaf_ex :
    match decode_leaf (fun _ => None) 5 zero_key ex_leaf with
    | Ok l => map (fun e => (key_eqb (e_key e) (bits_of_bytes ex_k1), e_val e)) (l_entries l)
    | Err _ _ _ => []
    end = [(true, [1; 2; 3]); (false, [4; 5; 6; 7; 8])].
  Proof. vm_compute. reflexivity. Qed.
  Example leaf_ex_keys :
    match decode_leaf (fun _ => None) 5 zero_key ex_leaf with
    | Ok l => passes (leaf_in_range l (Some (bits_of_bytes (repeatN 35 32))))
    | Err _ _ _ => false
    end = true.
  Proof. vm_compute. reflexivity. Qed.

  (* a leaf whose single cell is an overflow cell: 5000 bytes in two pages (7 and 8) *)
  Definition ex_ovf_leaf : list N :=
    let cell := le_bytes 8 5000 ++ repeatN 170 32 ++ le_bytes 4 7 ++ le_bytes 4 8 in
    let head := le_bytes 2 1 ++ ex_k1 ++ le_bytes 2 (32768 + 4048) in
    head ++ zeros (4048 - length head) ++ cell.
  Definition ex_ovf_rd (pn : N) : option (list N) :=
    if pn =? 7 then Some (le_bytes 2 0 ++ le_bytes 2 4092 ++ repeatN 1 4092)
    else if pn =? 8 then Some (pad_page (le_bytes 2 0 ++ le_bytes 2 908 ++ repeatN 2 908))
    else None.
  Example overflow_ex :
    match decode_leaf ex_ovf_rd 5 zero_key ex_ovf_leaf with
    | Ok l =>
        match l_entries l with
        | [e] => match e_ovf e with
                 | Some o => (lenN (e_val e) =? 5000) && (e_len e =? 5000) && (o_size o =? 5000) && o_complete o
                             && bytes_eqb (o_pages o) [7; 8] && match nthN 4092 (e_val e) with Some b => b =? 2 | None => false end
                 | None => false
                 end
        | _ => false
        end
    | Err _ _ _ => false
    end = true.
  Proof.
    vm_compute.
    reflexivity.
  Qed.

  Example total_needed_pages_ex :
    (total_needed_pages (4092 * 15), total_needed_pages (4092 * 15 + 1),
     total_needed_pages (4092 * 16 - 4), total_needed_pages (4092 * 16 - 3),
     total_needed_pages (4092 * 15 + 4092 * 1023))
    = (15, 16, 16, 17, 15 + 1023 + 1 + 1).
  Proof. vm_compute. reflexivity. Qed.

  (* a branch with prefix compression: n = 3, the first two separators share the 4-bit prefix 1010,
     the first one is shorter than the prefix (empty compressed form), the third is stored whole.
     bit vector: 1010 | 11 | 11  = 0xAF *)
  Definition ex_branch : list N :=
    let head := le_bytes 4 7 ++ le_bytes 2 3 ++ le_bytes 2 2 ++ le_bytes 2 4
                ++ le_bytes 2 0 ++ le_bytes 2 2 ++ le_bytes 2 4 ++ [175] in
    head ++ zeros (4096 - 12 - length head) ++ le_bytes 4 5 ++ le_bytes 4 6 ++ le_bytes 4 9.
  Example branch_ex :
    match decode_branch 7 ex_branch with
    | Ok b =>
        (b_bbn_pn b =? 7) && bytes_eqb (b_lns b) [5; 6; 9]
        && match b_seps b with
           | [s0; s1; s2] =>
               key_eqb s0 (pad256 [true; false; true; false])
               && key_eqb s1 (pad256 [true; false; true; false; true; true])
               && key_eqb s2 (pad256 [true; true])
           | _ => false
           end
    | Err _ _ _ => false
    end = true.
  Proof. vm_compute. reflexivity. Qed.

  (* page ids: the label on disk is what encode produces (documented encoding times 64) *)
  Example pageid_code_vs_doc :
    (pageid_encode [0], pageid_encode_doc [0], pageid_encode [3; 63], pageid_encode_doc [3; 63])
    = (64, 1, (4 * 64 + 64) * 64, 4 * 64 + 64).
  Proof. vm_compute. reflexivity. Qed.
  Example pageid_decode_ex :
    (pageid_decode_doc 0, pageid_decode_doc 1, pageid_decode_doc (4 * 64 + 64),
     label_pageid ((4 * 64 + 64) * 64), label_pageid 65, label_pageid 0)
    = (Some [], Some [0], Some [3; 63], Some [3; 63], None, Some []).
  Proof. vm_compute. reflexivity. Qed.
  Example pageid_roundtrip_deep :
    label_pageid (pageid_encode [1; 2; 3; 4; 5; 6; 7; 8; 9; 10; 11; 12; 63; 0; 63])
    = Some [1; 2; 3; 4; 5; 6; 7; 8; 9; 10; 11; 12; 63; 0; 63].
  Proof. vm_compute. reflexivity. Qed.

  (* probing: 8 buckets, hash 5: sequence 5, 6, 0, 3, ...; buckets 5 and 6 occupied, target 0 *)
  Example probe_ex :
    (probe 20 (nadd 5 200 (nadd 6 127 (nadd 0 133 PL))) 8 0 5 0,
     probe 20 (nadd 5 200 (nadd 0 133 PL)) 8 0 5 0)
    = (None, Some (WProbeEmpty, 0, 6)).
  Proof. vm_compute. reflexivity. Qed.

End Examples.

(* ------------------------------------------------------------------------------------------- *)
(* a few facts about the helpers                                                                 *)

Lemma passes_first_fail : forall a b, passes (first_fail a b) = passes a && passes b.
Proof. intros [e|] b; reflexivity. Qed.

Lemma vall_passes : forall {A} (f : A -> verdict) (l : list A),
    passes (vall f l) = forallb (fun a => passes (f a)) l.
Proof.
  intros A f l. induction l as [|a r IH]; cbn [vall forallb]; [reflexivity|].
  destruct (f a) as [e|]; cbn [passes]; [reflexivity|]. exact IH.
Qed.

Lemma pfind_padd_same : forall {A} (p : positive) (v : A) (m : pmap A), pfind p (padd p v m) = Some v.
Proof.
  intros A p v. induction p as [q IH|q IH|]; intros [|l o r]; cbn [padd pfind]; auto.
Qed.

Lemma pfind_padd_other : forall {A} (p q : positive) (v : A) (m : pmap A),
    p <> q -> pfind p (padd q v m) = pfind p m.
Proof.
  intros A p q v. revert p.
  induction q as [q IH|q IH|]; intros p m Hne; destruct p as [p|p|]; destruct m as [|l o r];
    cbn [padd pfind]; try reflexivity;
    try (rewrite IH; [destruct p; reflexivity || reflexivity | congruence]);
    try (destruct p; reflexivity);
    try congruence.
Qed.

Lemma lenN_aux_length : forall {A} (l : list A) (acc : N), lenN_aux l acc = acc + N.of_nat (length l).
Proof.
  intros A l. induction l as [|x r IH]; intros acc; cbn [lenN_aux length].
  - rewrite N.add_0_r. reflexivity.
  - rewrite IH. lia.
Qed.

Lemma lenN_length : forall {A} (l : list A), lenN l = N.of_nat (length l).
Proof. intros A l. unfold lenN. rewrite lenN_aux_length. reflexivity. Qed.

(* the readers never invent bytes: a successful slice has exactly the requested length *)
Lemma take_rev_length : forall {A} (p : positive) (l acc a r : list A),
    take_rev p l acc = Some (a, r) -> length a = (Pos.to_nat p + length acc)%nat.
Proof.
  intros A p. induction p as [q IH|q IH|]; intros l acc a r H; cbn [take_rev] in H.
  - destruct l as [|x l']; [discriminate|].
    destruct (take_rev q l' (x :: acc)) as [[acc1 r1]|] eqn:E1; [|discriminate].
    apply IH in E1. apply IH in H. cbn [length] in E1. rewrite Pos2Nat.inj_xI. lia.
  - destruct (take_rev q l acc) as [[acc1 r1]|] eqn:E1; [|discriminate].
    apply IH in E1. apply IH in H. rewrite Pos2Nat.inj_xO. lia.
  - destruct l as [|x l']; [discriminate|]. injection H as <- _. cbn [length]. lia.
Qed.

Lemma split_exact_length : forall {A} (n : N) (l a r : list A),
    split_exact n l = Some (a, r) -> length a = N.to_nat n.
Proof.
  intros A n l a r. unfold split_exact. destruct n as [|p].
  - intros H. injection H as <- _. reflexivity.
  - destruct (take_rev p l []) as [[a0 r0]|] eqn:E; [|discriminate].
    intros H. injection H as <- _. apply take_rev_length in E.
    rewrite rev_append_rev, app_length, rev_length. cbn [length] in *. cbn [N.to_nat]. lia.
Qed.

Lemma sliceN_length : forall {A} (off len : N) (l r : list A),
    sliceN off len l = Some r -> lenN r = len.
Proof.
  intros A off len l r. unfold sliceN.
  destruct (split_exact len (dropN off l)) as [[a r0]|] eqn:E; cbn [option_map]; [|discriminate].
  intros H. injection H as <-. apply split_exact_length in E. cbn [fst].
  rewrite lenN_length, E. apply N2Nat.id.
Qed.

(* WF is exactly the conjunction of the named clauses *)
Lemma WF_clauses : forall hash_of xxh img,
    WF hash_of xxh img =
    wf_manifest img && (wf_leaf_order img && (wf_branches img && (wf_overflow img &&
    (passes (wf_pages_ln_v img) && (passes (wf_pages_bbn_v img) && (wf_ht_meta img &&
    (wf_ht_probe xxh img && (wf_merkle hash_of img && true)))))))).
Proof. intros. reflexivity. Qed.

(* ------------------------------------------------------------------------------------------- *)
(* soundness of the checks: what a passing verdict means                                         *)
(*   pages_exact / wf_pages_disjoint (C19): duplicate free and EXACTLY the numbers of [1, bump)  *)
(*   probe: the triangular sequence reaches the bucket, passing only non-empty meta bytes        *)
(*   label_pageid: a decoded label re-encodes (as the code encodes) to the label                 *)

(* ------------------------------------------------------------------------------------------- *)
(* soundness of the bool / verdict checks                                                        *)

Lemma succ_pos_inj : forall n n' : N, N.succ_pos n = N.succ_pos n' -> n = n'.
Proof.
  intros n n' H. apply N.succ_inj. rewrite <- !N.succ_pos_spec. rewrite H. reflexivity.
Qed.

Lemma nfind_nadd_same : forall {A} (n : N) (v : A) (m : pmap A), nfind n (nadd n v m) = Some v.
Proof. intros A n v m. unfold nfind, nadd. apply pfind_padd_same. Qed.

Lemma nfind_nadd_other : forall {A} (n n' : N) (v : A) (m : pmap A),
    n <> n' -> nfind n (nadd n' v m) = nfind n m.
Proof.
  intros A n n' v m Hne. unfold nfind, nadd. apply pfind_padd_other.
  intros H. apply Hne. apply succ_pos_inj. exact H.
Qed.

Lemma add_all_sound : forall (l : list N) (m m' : pmap unit),
    add_all l m = (m', None) -> NoDup l /\ (forall x, In x l -> nmem x m = false).
Proof.
  intros l. induction l as [|x r IH]; intros m m' H; cbn [add_all] in H.
  - split; [constructor|]. intros x [].
  - destruct (nmem x m) eqn:Ex; [discriminate|].
    apply IH in H. destruct H as [Hnd Hall].
    assert (Hnotin : ~ In x r).
    { intros Hin. apply Hall in Hin. unfold nmem in Hin. rewrite nfind_nadd_same in Hin.
      discriminate. }
    split.
    + constructor; assumption.
    + intros y [<-|Hy]; [exact Ex|].
      assert (Hne : y <> x) by (intros ->; contradiction).
      specialize (Hall y Hy). unfold nmem in *.
      rewrite nfind_nadd_other in Hall by exact Hne. exact Hall.
Qed.

Lemma add_all_nodup : forall l, snd (add_all l PL) = None -> NoDup l.
Proof.
  intros l H. destruct (add_all l PL) as [m' d] eqn:E. cbn [snd] in H. subst d.
  apply add_all_sound in E. exact (proj1 E).
Qed.

Lemma NoDup_map_to_nat : forall l : list N, NoDup l -> NoDup (map N.to_nat l).
Proof.
  intros l H. induction H as [|x l Hx Hnd IH]; cbn [map]; constructor; [|exact IH].
  intros Hin. apply in_map_iff in Hin. destruct Hin as [y [Hy Hin]].
  apply N2Nat.inj in Hy. subst y. contradiction.
Qed.

Lemma pages_exact_sound : forall (tag : N) (pages : list N) (bump : N),
    pages_exact tag pages bump = None ->
    NoDup pages /\ (forall pn, In pn pages <-> (1 <= pn /\ pn < bump)).
Proof.
  intros tag pages bump H.
  assert (Hp : passes (pages_exact tag pages bump) = true) by (rewrite H; reflexivity).
  clear H. unfold pages_exact in Hp.
  destruct (add_all pages PL) as [m' dup] eqn:E.
  rewrite !passes_first_fail in Hp.
  apply andb_true_iff in Hp. destruct Hp as [Hdup Hp].
  apply andb_true_iff in Hp. destruct Hp as [Hrange Hcover].
  destruct dup as [x|]; [discriminate|]. clear Hdup.
  apply add_all_sound in E. destruct E as [Hnd _].
  rewrite vall_passes in Hrange. rewrite forallb_forall in Hrange.
  assert (Hin : forall pn, In pn pages -> 1 <= pn /\ pn < bump).
  { intros pn Hpn. apply Hrange in Hpn. unfold vguard in Hpn.
    destruct ((1 <=? pn) && (pn <? bump)) eqn:Eb; [|discriminate].
    apply andb_true_iff in Eb. destruct Eb as [E1 E2].
    apply N.leb_le in E1. apply N.ltb_lt in E2. split; assumption. }
  unfold vguard in Hcover.
  destruct (lenN pages + 1 =? bump) eqn:Ec; [|discriminate]. clear Hcover.
  apply N.eqb_eq in Ec. rewrite lenN_length in Ec.
  split; [exact Hnd|].
  intros pn. split; [apply Hin|].
  intros [H1 H2].
  set (l' := map N.to_nat pages).
  assert (Hnd' : NoDup l') by (apply NoDup_map_to_nat; exact Hnd).
  assert (Hincl : incl l' (seq 1 (length pages))).
  { intros y Hy. unfold l' in Hy. apply in_map_iff in Hy. destruct Hy as [z [<- Hz]].
    apply Hin in Hz. apply in_seq. lia. }
  assert (Hback : incl (seq 1 (length pages)) l').
  { apply NoDup_length_incl; [exact Hnd'| |exact Hincl].
    unfold l'. rewrite map_length, seq_length. apply Nat.le_refl. }
  assert (Hs : In (N.to_nat pn) (seq 1 (length pages))) by (apply in_seq; lia).
  apply Hback in Hs. unfold l' in Hs. apply in_map_iff in Hs.
  destruct Hs as [z [Hz Hzin]]. apply N2Nat.inj in Hz. subst z. exact Hzin.
Qed.

Theorem wf_pages_disjoint_sound : forall img, wf_pages_disjoint img = true ->
    (NoDup (ln_pages img) /\
     forall pn, In pn (ln_pages img) <-> (1 <= pn /\ pn < mf_ln_bump (i_manifest img)))
    /\ (NoDup (bbn_pages img) /\
        forall pn, In pn (bbn_pages img) <-> (1 <= pn /\ pn < mf_bbn_bump (i_manifest img))).
Proof.
  intros img H. unfold wf_pages_disjoint in H. apply andb_true_iff in H. destruct H as [Hl Hb].
  unfold wf_pages_ln_v in Hl. unfold wf_pages_bbn_v in Hb.
  split.
  - apply (pages_exact_sound 0).
    destruct (pages_exact 0 (ln_pages img) (mf_ln_bump (i_manifest img))); [discriminate|reflexivity].
  - apply (pages_exact_sound 1).
    destruct (pages_exact 1 (bbn_pages img) (mf_bbn_bump (i_manifest img))); [discriminate|reflexivity].
Qed.

(* the k-th bucket visited by the probe sequence that starts at [b] with step [s] *)
Fixpoint seqpos (buckets b s : N) (k : nat) : N :=
  match k with
  | O => (b + s) mod buckets
  | S k' => seqpos buckets ((b + s) mod buckets) (s + 1) k'
  end.

Lemma probe_sound : forall fuel mm buckets target b s,
    probe fuel mm buckets target b s = None ->
    exists k, (k < fuel)%nat /\ seqpos buckets b s k = target /\
              forall j, (j < k)%nat -> nfind (seqpos buckets b s j) mm <> None.
Proof.
  intros fuel. induction fuel as [|f IH]; intros mm buckets target b s H; cbn [probe] in H.
  - discriminate.
  - destruct ((b + s) mod buckets =? target) eqn:Et.
    + apply N.eqb_eq in Et. exists O. split; [lia|]. split; [exact Et|].
      intros j Hj. lia.
    + destruct (nfind ((b + s) mod buckets) mm) as [v|] eqn:Ef; [|discriminate].
      apply IH in H. destruct H as [k [Hk [Hpos Hall]]].
      exists (S k). split; [lia|]. split; [exact Hpos|].
      intros [|j] Hj; cbn [seqpos].
      * rewrite Ef. discriminate.
      * apply Hall. lia.
Qed.

Lemma label_pageid_sound : forall lab p, label_pageid lab = Some p ->
    pageid_encode p = lab /\ (length p <= 42)%nat /\ Forall (fun i => i < 64) p.
Proof.
  intros lab p H. unfold label_pageid in H.
  destruct (lab mod 64 =? 0); [|discriminate].
  destruct (pageid_decode_doc (lab / 64)) as [q|]; [|discriminate].
  destruct ((pageid_encode q =? lab) && (lenN q <=? 42) && forallb (fun i => i <? 64) q) eqn:E;
    [|discriminate].
  injection H as <-.
  apply andb_true_iff in E. destruct E as [E E3].
  apply andb_true_iff in E. destruct E as [E1 E2].
  apply N.eqb_eq in E1. apply N.leb_le in E2. rewrite lenN_length in E2.
  split; [exact E1|]. split; [lia|].
  apply Forall_forall. intros i Hi. rewrite forallb_forall in E3. apply E3 in Hi.
  apply N.ltb_lt in Hi. exact Hi.
Qed.

Lemma keys_ascending_sorted : forall lpn ks, keys_ascending lpn ks = None -> sorted_keys ks = true.
Proof.
  intros lpn ks. induction ks as [|k r IH]; intros H; [reflexivity|].
  destruct r as [|k' r']; [reflexivity|].
  cbn [keys_ascending] in H. cbn [sorted_keys].
  unfold vguard in H. destruct (key_ltb k k') eqn:E; cbn [first_fail] in H; [|discriminate].
  cbn [andb]. apply IH. exact H.
Qed.

