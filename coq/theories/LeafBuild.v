(* LeafBuild: mirror of the code that REBUILDS leaf nodes of the beatree (property C01),

     beatree/ops/update/leaf_updater.rs   LeafGauge (ingest, body_size, body_size_after),
                                          BaseLeaf::find_key, LeafOp,
                                          LeafUpdater::{new, reset_base, remove_cutoff, ingest, keep_up_to,
                                          digest, try_build_leaves, separator, consume_and_update_until,
                                          extract_insert_from_keep_chunk, prepare_merge_ops, op_first_key,
                                          build_leaf}, try_split_keep_chunk
     beatree/leaf/node.rs                 body_size, LeafBuilder::{new, push_cell, push_chunk, finish}
     beatree/ops/update/mod.rs            LEAF_MERGE_THRESHOLD, LEAF_BULK_SPLIT_THRESHOLD, LEAF_BULK_SPLIT_TARGET

   in terms of KEYS and SIZES: a cell is its key, the number of bytes of its value (or of its overflow
   cell) and a payload id standing for the bytes and the overflow flag, which the updater copies and
   never looks at.  Positions are [nat], byte sizes and item counts of the gauge [N].

   The obligation (LeafBuild_proofs.v): over every well-formed sequence of stages the cells of the
   emitted leaves plus the cells carried over are the bases with the operations applied, every leaf
   fits and has the size its gauge computed, no leaf but the rightmost one is underfull, and the
   separators separate.

   [bug] selects a seeded off-by-one of the split point (true): the overfull test of
   consume_and_update_until / try_split_keep_chunk looks at the gauge BEFORE the item is added
   instead of after.  The real code is [bug = false]; LeafBuild_proofs.leaves_fit_refuted shows that
   the theorem fails for [bug = true].

   Not modelled: the bytes of the cells and the page layout (NodeCodec.encode_leaf has the encoder,
   the engine `nv lb` decodes the real pages with Image.decode_leaf), the overflow cells handed to
   `with_deleted_overflow`, the binary search of find_key (a linear scan here: the same position on
   an ascending base), `unwrap` of a missing base under a KeepChunk (KeepChunk operations only
   exist while their base is in place), usize wrap-around. *)
From Coq Require Import List Bool Arith NArith Lia.
From Nomt Require Import Base.
From Nomt Require BitOps Result.
Import ListNotations.
Local Open Scope N_scope.

(* ------------------------------------------------------------------------------------------- *)
(* constants (leaf/node.rs, ops/update/mod.rs)                                                   *)

Definition BODY : N := 4094.            (* LEAF_NODE_BODY_SIZE = PAGE_SIZE - 2 *)
Definition MAXV : N := 1332.            (* MAX_LEAF_VALUE_SIZE = BODY / 3 - 32 *)
Definition MERGE : N := 2047.           (* LEAF_MERGE_THRESHOLD = BODY / 2 *)
Definition BULK_THRESHOLD : N := 7369.  (* LEAF_BULK_SPLIT_THRESHOLD = BODY * 9 / 5 *)
Definition BULK_TARGET : N := 3070.     (* LEAF_BULK_SPLIT_TARGET = BODY * 3 / 4 *)

Definition zero_key : key := repeat false BitOps.KEY_BITS.

(* ------------------------------------------------------------------------------------------- *)
(* cells                                                                                         *)

Record cell := mkCell { c_key : key; c_size : N; c_id : N }.
Definition dcell : cell := mkCell [] 0 0.

Fixpoint sumN (l : list N) : N := match l with [] => 0 | x :: r => x + sumN r end.
Definition sizes (l : list cell) : N := sumN (map c_size l).

(* node::body_size(n, value_size_sum) *)
Definition body_size (n vs : N) : N := n * 34 + vs.

(* the body size of a leaf holding the cells *)
Definition body_of (l : list cell) : N := body_size (N.of_nat (length l)) (sizes l).

(* cells[from..to] *)
Definition range (cs : list cell) (from to : nat) : list cell := firstn (to - from) (skipn from cs).

(* LeafNode::values_size(from, to) *)
Definition vsize (cs : list cell) (from to : nat) : N := sizes (range cs from to).

(* ------------------------------------------------------------------------------------------- *)
(* LeafGauge                                                                                     *)

Record gauge := mkG { g_n : N; g_sum : N }.
Definition g0 : gauge := mkG 0 0.
Definition g_ingest (g : gauge) (n vs : N) : gauge := mkG (g_n g + n) (g_sum g + vs).
Definition g_after (g : gauge) (n vs : N) : N := body_size (g_n g + n) (g_sum g + vs).
Definition g_body (g : gauge) : N := body_size (g_n g) (g_sum g).

(* ------------------------------------------------------------------------------------------- *)
(* operations                                                                                    *)

Inductive lop :=
| LIns (c : cell)                        (* Insert(key, value, overflow) *)
| LKeep (from to : nat) (vs : N).        (* KeepChunk(from, to, values size) *)

Definition op_cells (cs : list cell) (o : lop) : list cell :=
  match o with LIns c => [c] | LKeep f t _ => range cs f t end.

(* the cells a list of operations stands for, over the cells of the base *)
Definition flat (cs : list cell) (ops : list lop) : list cell := flat_map (op_cells cs) ops.

Definition op_n (o : lop) : nat := match o with LIns _ => 1 | LKeep f t _ => t - f end%nat.
Definition op_vs (o : lop) : N := match o with LIns c => c_size c | LKeep _ _ vs => vs end.
Definition ops_items (ops : list lop) : nat := fold_right (fun o a => op_n o + a)%nat 0%nat ops.

(* op_first_key *)
Definition op_first_key (cs : list cell) (o : lop) : key :=
  match o with LIns c => c_key c | LKeep f _ _ => c_key (nth f cs dcell) end.

(* what prepare_merge_ops puts in the place of an operation *)
Definition expand (cs : list cell) (o : lop) : list lop :=
  match o with LIns _ => [o] | LKeep f t _ => map LIns (range cs f t) end.

(* extract_insert_from_keep_chunk *)
Definition extract_first (cs : list cell) (f t : nat) (vs : N) : list lop :=
  let c := nth f cs dcell in
  if (f =? t - 1)%nat then [LIns c] else [LIns c; LKeep (S f) t (vs - c_size c)].

(* the size the overfull test looks at: the gauge after the item ([bug]: before it) *)
Definition chk_after (bug : bool) (g : gauge) (n vs : N) : N :=
  if bug then g_body g else g_after g n vs.

(* the loop of try_split_keep_chunk: (left_chunk_n_items, left_chunk_values_size) *)
Fixpoint split_scan (bug : bool) (cs : list cell) (g : gauge) (target limit : N) (pos cnt ln : nat) (lvs : N)
  : nat * N :=
  match cnt with
  | O => (ln, lvs)
  | S c =>
      let size := c_size (nth pos cs dcell) in
      let bsa := g_after g (N.of_nat (S ln)) (lvs + size) in
      if target <=? bsa then
        if limit <? (if bug then g_after g (N.of_nat ln) lvs else bsa) then (ln, lvs) else (S ln, lvs + size)
      else split_scan bug cs g target limit (S pos) c (S ln) (lvs + size)
  end.

(* try_split_keep_chunk: the left chunk's item count and values size, and what stands in the place
   of the chunk afterwards *)
Definition try_split (bug : bool) (cs : list cell) (g : gauge) (f t : nat) (vs target limit : N)
  : nat * N * list lop :=
  let '(ln, lvs) := split_scan bug cs g target limit f (t - f) 0 0 in
  if negb (ln =? 0)%nat && negb (t - f =? ln)%nat
  then (ln, lvs, [LKeep f (f + ln) lvs; LKeep (f + ln) t (vs - lvs)])
  else (ln, lvs, [LKeep f t vs]).

Inductive cres :=
| CSome (ops : list lop) (g : gauge) (rest : list lop)   (* Some(item_count): ops[from..][..item_count], the gauge noted *)
| CNone (ops : list lop) (g : gauge)                     (* None: self.gauge = gauge *)
| CPanic.                                                (* assert!(target >= LEAF_MERGE_THRESHOLD) / out of fuel *)

Definition cfinish (done todo : list lop) (g : gauge) (target : N) (overfull : bool) : cres :=
  if (target <=? g_body g) || overfull then CSome done g todo else CNone (done ++ todo) g.

(* the loop of consume_and_update_until: [done] = ops[from..pos], [todo] = ops[pos..] *)
Fixpoint cloop (fuel : nat) (bug : bool) (cs : list cell) (done todo : list lop) (g : gauge) (target : N) : cres :=
  match fuel with
  | O => CPanic
  | S f =>
      match todo with
      | [] => cfinish done todo g target false
      | op :: rest =>
          if target <=? g_body g then cfinish done todo g target false
          else
            match op with
            | LIns c =>
                if BODY <? chk_after bug g 1 (c_size c) then cfinish done todo g target true
                else cloop f bug cs (done ++ [op]) rest (g_ingest g 1 (c_size c)) target
            | LKeep s e vs =>
                if target <? g_after g (N.of_nat (e - s)) vs then
                  let '(ln, lvs, repl) := try_split bug cs g s e vs target BODY in
                  if (ln =? 0)%nat then cloop f bug cs done (extract_first cs s e vs ++ rest) g target
                  else
                    match repl with
                    | op' :: more => cloop f bug cs (done ++ [op']) (more ++ rest) (g_ingest g (N.of_nat ln) lvs) target
                    | [] => CPanic
                    end
                else cloop f bug cs (done ++ [op]) rest (g_ingest g (N.of_nat (e - s)) vs) target
            end
      end
  end.

Definition cfuel (ops : list lop) : nat := (2 * ops_items ops + 2)%nat.

(* consume_and_update_until(from, target) on ops[from..] *)
Definition consume (bug : bool) (cs : list cell) (ops : list lop) (target : N) : cres :=
  if target <? MERGE then CPanic else cloop (cfuel ops) bug cs [] ops g0 target.

(* ------------------------------------------------------------------------------------------- *)
(* LeafBuilder                                                                                   *)

(* LeafBuilder: n of the header, the value bytes not yet placed, the cells pushed *)
Record builder := mkB { bd_n : nat; bd_rem : N; bd_cells : list cell }.

(* push_cell; None = `assert!(self.index < self.leaf.n())` or the subtraction from
   remaining_value_size underflows *)
Definition bpush (bd : builder) (c : cell) : option builder :=
  if (length (bd_cells bd) <? bd_n bd)%nat && (c_size c <=? bd_rem bd)
  then Some (mkB (bd_n bd) (bd_rem bd - c_size c) (bd_cells bd ++ [c]))
  else None.

(* push_chunk(base, from, to); None = the assertion, a slice out of bounds or the underflow *)
Definition bpush_chunk (bd : builder) (cs : list cell) (from to : nat) : option builder :=
  let chunk := range cs from to in
  if (length (bd_cells bd) <? bd_n bd)%nat && (length (bd_cells bd) + (to - from) <=? bd_n bd)%nat
     && (to <=? length cs)%nat && (from <? to)%nat && (sizes chunk <=? bd_rem bd)
  then Some (mkB (bd_n bd) (bd_rem bd - sizes chunk) (bd_cells bd ++ chunk))
  else None.

Fixpoint bpush_ops (bd : builder) (cs : list cell) (ops : list lop) : option builder :=
  match ops with
  | [] => Some bd
  | LIns c :: r => match bpush bd c with Some bd' => bpush_ops bd' cs r | None => None end
  | LKeep f t _ :: r => match bpush_chunk bd cs f t with Some bd' => bpush_ops bd' cs r | None => None end
  end.

(* a leaf the updater handed over, with what was computed for it *)
Record built := mkBuilt {
  bl_sep : key;               (* handle_new_leaf(separator, .., ..) *)
  bl_cutoff : option key;     (* handle_new_leaf(.., .., cutoff) *)
  bl_gauge : N;               (* body_size() of the gauge that decided to build the leaf *)
  bl_n : nat;                 (* LeafBuilder::new(n, ..) *)
  bl_vs : N;                  (* LeafBuilder::new(.., total_value_size) *)
  bl_cells : list cell        (* the cells pushed *)
}.

(* build_leaf(ops): (n, total value size, cells); None = a panic of the builder, of finish() *)
Definition build_leaf (cs : list cell) (ops : list lop) : option (nat * N * list cell) :=
  let n := fold_left (fun a o => a + op_n o)%nat ops 0%nat in
  let vs := fold_left (fun a o => a + op_vs o) ops 0 in
  match bpush_ops (mkB n vs []) cs ops with
  | Some bd => if bd_rem bd =? 0 then Some (n, vs, bd_cells bd) else None
  | None => None
  end.

(* ------------------------------------------------------------------------------------------- *)
(* LeafUpdater                                                                                   *)

Record base := mkBase { b_sep : key; b_cells : list cell }.

Record updater := mkU {
  u_base : option base;
  u_low : nat;                 (* BaseLeaf::low *)
  u_cutoff : option key;
  u_sepov : option key;        (* separator_override *)
  u_ops : list lop;
  u_g : gauge
}.

(* LeafUpdater::new(page_pool, None, None) *)
Definition u0 : updater := mkU None 0 None None [] g0.

Definition bcells (ob : option base) : list cell := match ob with Some b => b_cells b | None => [] end.
Definition u_cells (u : updater) : list cell := bcells (u_base u).

(* reset_base(Some(BaseLeaf::new(node, separator)), cutoff) *)
Definition reset_base (u : updater) (ob : option base) (cutoff : option key) : updater :=
  mkU ob 0 cutoff (u_sepov u) (u_ops u) (u_g u).

Definition remove_cutoff (u : updater) : updater :=
  mkU (u_base u) (u_low u) None (u_sepov u) (u_ops u) (u_g u).

(* separator(): the separator of the next leaf that will be built *)
Definition separator_of (sepov : option key) (ob : option base) : key :=
  match sepov with
  | Some s => s
  | None => match ob with Some b => b_sep b | None => zero_key end
  end.

(* find_key on cells[low..] of an ascending base: the first position whose key is not below [k],
   and whether it holds [k] *)
Fixpoint find_from (cs : list cell) (k : key) (i : nat) : bool * nat :=
  match cs with
  | [] => (false, i)
  | c :: r =>
      if key_eqb (c_key c) k then (true, i)
      else if key_ltb k (c_key c) then (false, i)
      else find_from r k (S i)
  end.

Definition push_keep (u : updater) (low' from to : nat) : updater :=
  if (from =? to)%nat then mkU (u_base u) low' (u_cutoff u) (u_sepov u) (u_ops u) (u_g u)
  else
    let vs := vsize (u_cells u) from to in
    mkU (u_base u) low' (u_cutoff u) (u_sepov u) (u_ops u ++ [LKeep from to vs])
        (g_ingest (u_g u) (N.of_nat (to - from)) vs).

(* keep_up_to(Some(key)) *)
Definition keep_up_to_key (u : updater) (k : key) : updater :=
  match u_base u with
  | None => u
  | Some b =>
      let from := u_low u in
      if (from =? length (b_cells b))%nat then u
      else
        let '(found, to) := find_from (skipn from (b_cells b)) k from in
        push_keep u (if found then S to else to) from to
  end.

(* keep_up_to(None) *)
Definition keep_up_to_end (u : updater) : updater :=
  match u_base u with
  | None => u
  | Some b =>
      let from := u_low u in
      let n := length (b_cells b) in
      if (from =? n)%nat then u else push_keep u n from n
  end.

(* ingest(key, value_change, overflow, _): [v] = (size of the value or overflow cell, payload id) *)
Definition u_ingest (u : updater) (k : key) (v : option (N * N)) : updater :=
  let u1 := keep_up_to_key u k in
  match v with
  | None => u1
  | Some (size, id) =>
      mkU (u_base u1) (u_low u1) (u_cutoff u1) (u_sepov u1) (u_ops u1 ++ [LIns (mkCell k size id)])
          (g_ingest (u_g u1) 1 size)
  end.

Definition or_else {A} (a b : option A) : option A := match a with Some _ => a | None => b end.

(* try_build_leaves(new_leaves, target): the leaves handed over, self.ops, self.gauge and
   self.separator_override afterwards; [first] = (start == 0); None = a panic *)
Fixpoint tbl_loop (fuel : nat) (bug : bool) (ob : option base) (cutoff sepov : option key) (first : bool)
         (ops : list lop) (target : N) (acc : list built)
  : option (list built * list lop * gauge * option key) :=
  match fuel with
  | O => None
  | S f =>
      let cs := bcells ob in
      match consume bug cs ops target with
      | CPanic => None
      | CNone ops' g => Some (acc, ops', g, sepov)
      | CSome done g rest =>
          match (if first then Some (separator_of sepov ob, sepov)
                 else match sepov with Some s => Some (s, None) | None => None end) with
          | None => None                       (* separator_override.take().unwrap() *)
          | Some (sep, sepov1) =>
              match build_leaf cs done with
              | None => None
              | Some (n, vs, cells) =>
                  match (match rest with
                         | [] => Some sepov1
                         | op :: _ =>
                             match cells with
                             | [] => None            (* new_node.n() - 1 *)
                             | _ =>
                                 match BitOps.separate (c_key (last cells dcell)) (op_first_key cs op) with
                                 | Result.Ok s => Some (Some s)
                                 | _ => None
                                 end
                             end
                         end) with
                  | None => None
                  | Some sepov2 =>
                      match done with
                      | [] => None                   (* no progress: the real loop does not end *)
                      | _ =>
                          tbl_loop f bug ob cutoff sepov2 false rest target
                                   (acc ++ [mkBuilt sep (or_else sepov2 cutoff) (g_body g) n vs cells])
                      end
                  end
              end
          end
      end
  end.

Definition try_build_leaves (bug : bool) (ob : option base) (cutoff sepov : option key) (ops : list lop)
           (target : N) (acc : list built) :=
  tbl_loop (S (ops_items ops)) bug ob cutoff sepov true ops target acc.

(* digest: (leaves handed over, updater afterwards, NeedsMerge(key)); None = a panic *)
Definition digest (bug : bool) (u : updater) : option (list built * updater * option key) :=
  let u1 := keep_up_to_end u in
  let ob := u_base u1 in
  let cs := bcells ob in
  let cutoff := u_cutoff u1 in
  let upd := fun sepov ops g => mkU ob (u_low u1) cutoff sepov ops g in
  match (if BULK_THRESHOLD <? g_body (u_g u1)
         then try_build_leaves bug ob cutoff (u_sepov u1) (u_ops u1) BULK_TARGET []
         else Some ([], u_ops u1, u_g u1, u_sepov u1)) with
  | None => None
  | Some (l1, ops1, g1, so1) =>
      match (if BODY <? g_body g1
             then try_build_leaves bug ob cutoff so1 ops1 (g_body g1 / 2) l1
             else Some (l1, ops1, g1, so1)) with
      | None => None
      | Some (l2, ops2, g2, so2) =>
          if g_body g2 =? 0 then Some (l2, upd None ops2 g2, None)
          else if (MERGE <=? g_body g2) || (match cutoff with None => true | Some _ => false end) then
            match build_leaf cs ops2 with
            | Some (n, vs, cells) =>
                Some (l2 ++ [mkBuilt (separator_of so2 ob) cutoff (g_body g2) n vs cells], upd None [] g0, None)
            | None => None
            end
          else
            match (match so2 with
                   | Some s => Some s
                   | None => match ob with Some b => Some (b_sep b) | None => None end   (* base.unwrap() *)
                   end) with
            | None => None
            | Some s =>
                Some (l2,
                      upd (Some s) (match ob with Some _ => flat_map (expand cs) ops2 | None => ops2 end) g2,
                      cutoff)
            end
      end
  end.

(* one step of the leaf stage's worker: reset_base (or remove_cutoff), ingest.., digest *)
Record stage := mkStage {
  sg_base : option base;                     (* unused when sg_rc *)
  sg_rc : bool;                              (* keep the previous base, remove_cutoff() *)
  sg_ops : list (key * option (N * N));      (* key, Some (size, payload id) | None = delete *)
  sg_cutoff : option key                     (* unused when sg_rc *)
}.

Definition stage_start (u : updater) (sg : stage) : updater :=
  if sg_rc sg then remove_cutoff u else reset_base u (sg_base sg) (sg_cutoff sg).

Definition ingest_all (u : updater) (ops : list (key * option (N * N))) : updater :=
  fold_left (fun u kv => u_ingest u (fst kv) (snd kv)) ops u.

Definition run_stage (bug : bool) (u : updater) (sg : stage) : option (list built * updater * option key) :=
  digest bug (ingest_all (stage_start u sg) (sg_ops sg)).

(* per stage: the leaves built, NeedsMerge, the gauge's body size of what is left in the updater *)
Record sres := mkSres { sr_built : list built; sr_merge : option key; sr_left : N }.

Fixpoint run_stages (bug : bool) (u : updater) (sgs : list stage) : option (list sres * updater) :=
  match sgs with
  | [] => Some ([], u)
  | sg :: r =>
      match run_stage bug u sg with
      | Some (leaves, u', nm) =>
          match run_stages bug u' r with
          | Some (rest, u'') => Some (mkSres leaves nm (g_body (u_g u')) :: rest, u'')
          | None => None
          end
      | None => None
      end
  end.

(* the cells still waiting in the updater *)
Definition pending (u : updater) : list cell := flat (u_cells u) (u_ops u).

Definition all_built (res : list sres) : list built := flat_map sr_built res.

(* ------------------------------------------------------------------------------------------- *)
(* well-formed stage sequences                                                                   *)

Definition key_leb (a b : key) : bool := negb (key_ltb b a).

Definition cell_ok (c : cell) : bool := Nat.eqb (length (c_key c)) BitOps.KEY_BITS && (c_size c <=? MAXV).

Definition op_cell (kv : key * option (N * N)) : list cell :=
  match snd kv with Some (size, id) => [mkCell (fst kv) size id] | None => [] end.

Definition op_ok (kv : key * option (N * N)) : bool :=
  Nat.eqb (length (fst kv)) BitOps.KEY_BITS
  && match snd kv with Some (size, _) => size <=? MAXV | None => true end.

(* the base in force during the stage: none for remove_cutoff (the old base has been consumed) *)
Definition stage_base (sg : stage) : option base := if sg_rc sg then None else sg_base sg.
Definition stage_cells (sg : stage) : list cell := bcells (stage_base sg).
Definition stage_keys (sg : stage) : list key := map c_key (stage_cells sg) ++ map fst (sg_ops sg).

Definition is_nil {A} (l : list A) : bool := match l with [] => true | _ => false end.

(* [seen]: the keys of the stages before.  A remove_cutoff stage ingests nothing (the leaf stage's
   worker calls it between two digests of its merge loop).  Otherwise the cells of the base ascend, the
   operations ascend, keys have 256 bits and sizes are within the in-leaf limit; the separator of the
   base is not above the keys of the stage and above every key seen before; only an empty tree has no
   base, and then no cutoff either (`digest`: "if cutoff exists, then base must too") *)
Definition stage_wf (seen : list key) (sg : stage) : bool :=
  if sg_rc sg then is_nil (sg_ops sg)
  else
    forallb cell_ok (stage_cells sg) && forallb op_ok (sg_ops sg)
    && sorted_keys (map c_key (stage_cells sg)) && sorted_keys (map fst (sg_ops sg))
    && match sg_base sg with
       | Some b =>
           Nat.eqb (length (b_sep b)) BitOps.KEY_BITS
           && forallb (fun k => key_leb (b_sep b) k) (stage_keys sg)
           && forallb (fun k => key_ltb k (b_sep b)) seen
       | None => is_nil seen && match sg_cutoff sg with None => true | Some _ => false end
       end.

Fixpoint stages_wf_from (seen : list key) (sgs : list stage) : bool :=
  match sgs with
  | [] => true
  | sg :: r => stage_wf seen sg && stages_wf_from (seen ++ stage_keys sg) r
  end.

Definition stages_wf (sgs : list stage) : bool := stages_wf_from [] sgs.

(* what the run starts from: the cells of all bases, all operations *)
Definition all_base (sgs : list stage) : list cell := flat_map stage_cells sgs.
Definition all_ops (sgs : list stage) : list (key * option (N * N)) := flat_map sg_ops sgs.

(* ------------------------------------------------------------------------------------------- *)
(* examples: the unit tests of leaf_updater.rs                                                   *)

Section Examples.

  Definition kx (x : N) : key := BitOps.bits_of_byte x ++ repeat false 248.
  Definition cx (x size : N) : cell := mkCell (kx x) size x.

  Definition summary (r : option (list built * updater * option key)) :=
    match r with
    | Some (ls, u, nm) =>
        Some (map (fun b => (bl_sep b, map c_id (bl_cells b), bl_gauge b)) ls, map c_id (pending u),
              u_sepov u, nm)
    | None => None
    end.

  (* insert_overflowing: 3 * 1200 in the base, 1200 inserted behind: two leaves of two *)
  Example ex_insert_overflowing :
    summary (run_stage false u0 (mkStage (Some (mkBase (kx 1) [cx 1 1200; cx 2 1200; cx 3 1200])) false
                                         [(kx 4, Some (1200, 4))] None))
    = Some ([(kx 1, [1; 2], 2468); (kx 3, [3; 4], 2468)], [], None, None).
  Proof. vm_compute. reflexivity. Qed.

  (* delete_underflow_and_merge *)
  Example ex_delete_underflow_and_merge :
    match run_stages false u0
            [mkStage (Some (mkBase (kx 1) [cx 1 800; cx 2 800; cx 3 800])) false [(kx 2, None)] (Some (kx 4));
             mkStage (Some (mkBase (kx 4) [cx 4 1100; cx 5 1100])) false [] None] with
    | Some ([r1; r2], u) =>
        (sr_built r1, sr_merge r1, sr_left r1,
         map (fun b => (bl_sep b, map c_id (bl_cells b), bl_gauge b, bl_cutoff b)) (sr_built r2), sr_merge r2,
         pending u)
    | _ => ([], None, 0, [], None, [])
    end = ([], Some (kx 4), 1668, [(kx 1, [1; 3; 4; 5], 3936, None)], None, []).
  Proof. vm_compute. reflexivity. Qed.

  (* split_with_underflow: the first leaf is built, the rest waits for a merge under the separator
     separate(key 2, key 3) *)
  Example ex_split_with_underflow :
    summary (run_stage false u0 (mkStage (Some (mkBase (kx 1) [cx 1 1800; cx 2 1800; cx 3 300])) false
                                         [(kx 4, Some (300, 4))] (Some (kx 5))))
    = Some ([(kx 1, [1; 2], 3668)], [3; 4], Some (kx 3), Some (kx 5)).
  Proof. vm_compute. reflexivity. Qed.

  (* delete_completely / delete_underflow_rightmost *)
  Example ex_delete_completely :
    summary (run_stage false u0 (mkStage (Some (mkBase (kx 1) [cx 1 1200; cx 2 1200])) false
                                         [(kx 1, None); (kx 2, None)] None))
    = Some ([], [], None, None).
  Proof. vm_compute. reflexivity. Qed.

  Example ex_delete_underflow_rightmost :
    summary (run_stage false u0 (mkStage (Some (mkBase (kx 1) [cx 1 1200; cx 2 1200])) false
                                         [(kx 1, None)] None))
    = Some ([(kx 1, [2], 1234)], [], None, None).
  Proof. vm_compute. reflexivity. Qed.

  (* split_left_node_below_target: the fourth value would overfill the left leaf *)
  Example ex_split_left_node_below_target :
    summary (run_stage false u0 (mkStage None false
               [(kx 1, Some (1100, 1)); (kx 2, Some (1100, 2)); (kx 3, Some (1000, 3)); (kx 4, Some (1000, 4));
                (kx 5, Some (1000, 5)); (kx 6, Some (1300, 6))] None))
    = Some ([(zero_key, [1; 2; 3], 3302); (kx 4, [4; 5; 6], 3402)], [], None, None).
  Proof. vm_compute. reflexivity. Qed.

  (* a bulk split: 12 cells of 1000 bytes, leaves of 3 (3102 >= 3070) *)
  Example ex_bulk :
    summary (run_stage false u0 (mkStage (Some (mkBase (kx 1) (map (fun x => cx x 1000) [1; 2; 3; 4; 5; 6]))) false
               (map (fun x => (kx x, Some (1000, x))) [7; 8; 9; 10; 11; 12]) None))
    = Some ([(kx 1, [1; 2; 3], 3102); (kx 4, [4; 5; 6], 3102); (kx 7, [7; 8; 9], 3102); (kx 10, [10; 11; 12], 3102)],
            [], None, None).
  Proof. vm_compute. reflexivity. Qed.

  Example ex_wf :
    stages_wf [mkStage (Some (mkBase (kx 1) [cx 1 800; cx 2 800; cx 3 800])) false [(kx 2, None)] (Some (kx 4));
               mkStage (Some (mkBase (kx 4) [cx 4 1100; cx 5 1100])) false [] None] = true.
  Proof. vm_compute. reflexivity. Qed.

End Examples.
