(* The hasher interface of nomt-core (trait NodeHasher + node_kind) as a record, the
   hypotheses the specification makes about it, and the executable free-term instance. *)
From Nomt Require Import Base.

Inductive nkind := KTerm | KLeaf | KInt.

Definition nkind_eqb (a b : nkind) : bool :=
  match a, b with KTerm, KTerm | KLeaf, KLeaf | KInt, KInt => true | _, _ => false end.

Record Hasher := {
  node : Type;
  TERM : node;
  hleaf : key -> value -> node;      (* value hash is the opaque value id *)
  hint : node -> node -> node;
  kind : node -> nkind;
  node_eqb : node -> node -> bool
}.

(* functional correctness of the labelling: what NodeHasher implementations must satisfy *)
Record HasherOK (H : Hasher) : Prop := {
  eqb_ok : forall a b, node_eqb H a b = true <-> a = b;
  kind_term : kind H (TERM H) = KTerm;
  kind_leaf : forall k v, kind H (hleaf H k v) = KLeaf;
  kind_int : forall a b, kind H (hint H a b) = KInt;
  term_only : forall n, kind H n = KTerm -> n = TERM H
}.

(* collision freeness: the one cryptographic assumption of the specification *)
Record HasherCF (H : Hasher) : Prop := {
  hint_inj : forall a b c d, hint H a b = hint H c d -> a = c /\ b = d;
  hleaf_inj : forall k v k' v', hleaf H k v = hleaf H k' v' -> k = k' /\ v = v'
}.

(* ---- the free term algebra: executable, provably OK and CF ---- *)
Inductive fnode :=
| FT                                  (* terminator *)
| FL (k : key) (v : value)            (* leaf *)
| FI (l r : fnode)                    (* internal *)
| FO (tag : nkind) (id : N).          (* opaque 32 bytes supplied by an adversary / the harness,
                                         with the kind its MSB labelling gives; never TERM *)

Fixpoint fnode_eqb (a b : fnode) : bool :=
  match a, b with
  | FT, FT => true
  | FL k v, FL k' v' => key_eqb k k' && N.eqb v v'
  | FI l r, FI l' r' => fnode_eqb l l' && fnode_eqb r r'
  | FO t i, FO t' i' => nkind_eqb t t' && N.eqb i i'
  | _, _ => false
  end.

Definition fkind (n : fnode) : nkind :=
  match n with
  | FT => KTerm
  | FL _ _ => KLeaf
  | FI _ _ => KInt
  | FO KTerm _ => KInt   (* an opaque node is never the terminator *)
  | FO t _ => t
  end.

Definition FreeH : Hasher := {|
  node := fnode; TERM := FT; hleaf := FL; hint := FI; kind := fkind; node_eqb := fnode_eqb |}.
