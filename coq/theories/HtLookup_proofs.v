(* A well-formed hash table answers every lookup like the label map the merkle walk uses: a stored
   page is FOUND by the probing lookup (with the retry after a tag collision), and whatever the
   lookup returns is the stored page with that label.  Without the retry this is false
   ([lookup_once_refuted]). *)
From Coq Require Import List Bool Arith NArith Lia.
From Nomt Require Import Base Image HtLookup.
Import ListNotations.
Local Open Scope N_scope.

Lemma page_at_some : forall ps b q, page_at ps b = Some q -> In q ps /\ p_bucket q = b.
Proof.
  intros ps b q H. unfold page_at in H. apply find_some in H. destruct H as [Hin Hb].
  apply N.eqb_eq in Hb. split; assumption.
Qed.

Lemma page_at_in : forall ps p, NoDup (map p_bucket ps) -> In p ps -> page_at ps (p_bucket p) = Some p.
Proof.
  induction ps as [|q ps IH]; intros p Hnd Hin; [destruct Hin|].
  cbn [map] in Hnd. inversion Hnd as [|x l Hnot Hnd']; subst.
  unfold page_at. cbn [find].
  destruct Hin as [->|Hin].
  - rewrite N.eqb_refl. reflexivity.
  - destruct (p_bucket q =? p_bucket p) eqn:E.
    + apply N.eqb_eq in E. exfalso. apply Hnot. rewrite E. apply in_map. exact Hin.
    + apply IH; assumption.
Qed.

Lemma nodup_map_inj : forall (ps : list mpage) p q,
  NoDup (map p_label ps) -> In p ps -> In q ps -> p_label p = p_label q -> p = q.
Proof.
  induction ps as [|r ps IH]; intros p q Hnd Hp Hq E; [destruct Hp|].
  cbn [map] in Hnd. inversion Hnd as [|x l Hnot Hnd']; subst.
  destruct Hp as [->|Hp], Hq as [->|Hq].
  - reflexivity.
  - exfalso. apply Hnot. rewrite E. apply in_map. exact Hq.
  - exfalso. apply Hnot. rewrite <- E. apply in_map. exact Hp.
  - apply IH; assumption.
Qed.

(* the decoder's duplicate-label check *)
Definition lm_step (acc : pmap mpage * option N) (p : mpage) : pmap mpage * option N :=
  let '(m, dup) := acc in
  match nfind (p_label p) m with
  | Some _ => (m, match dup with None => Some (p_bucket p) | _ => dup end)
  | None => (nadd (p_label p) p m, dup)
  end.

Lemma label_map_unfold : forall ps, label_map ps = fold_left lm_step ps (PL, None).
Proof. intros ps. reflexivity. Qed.

Lemma lm_dup_sticky : forall ps m b, snd (fold_left lm_step ps (m, Some b)) = Some b.
Proof.
  induction ps as [|p ps IH]; intros m b; [reflexivity|].
  cbn [fold_left lm_step]. destruct (nfind (p_label p) m); apply IH.
Qed.

Lemma lm_nodup : forall ps m, snd (fold_left lm_step ps (m, None)) = None ->
  NoDup (map p_label ps) /\ (forall p, In p ps -> nfind (p_label p) m = None).
Proof.
  induction ps as [|p ps IH]; intros m H.
  - split; [constructor|intros p []].
  - cbn [fold_left lm_step] in H. destruct (nfind (p_label p) m) eqn:E.
    + rewrite lm_dup_sticky in H. discriminate.
    + destruct (IH _ H) as [Hnd Hall]. split.
      * cbn [map]. constructor; [|exact Hnd].
        intros Hin. apply in_map_iff in Hin. destruct Hin as [q [Hq Hin]].
        specialize (Hall q Hin). rewrite Hq, nfind_nadd_same in Hall. discriminate.
      * intros q [<-|Hq]; [exact E|].
        specialize (Hall q Hq).
        destruct (N.eq_dec (p_label q) (p_label p)) as [Eq|Ne].
        -- rewrite Eq, nfind_nadd_same in Hall. discriminate.
        -- rewrite nfind_nadd_other in Hall by exact Ne. exact Hall.
Qed.

Lemma label_map_nodup : forall ps, snd (label_map ps) = None -> NoDup (map p_label ps).
Proof. intros ps H. rewrite label_map_unfold in H. apply (lm_nodup ps PL H). Qed.

Lemma meta_consistent_in : forall mm ps p, meta_consistent mm ps = true -> In p ps ->
  nfind (p_bucket p) mm = Some (p_meta p).
Proof.
  intros mm ps p H Hin. unfold meta_consistent in H. rewrite forallb_forall in H.
  specialize (H p Hin). destruct (nfind (p_bucket p) mm) as [m|]; [|discriminate].
  apply N.eqb_eq in H. rewrite H. reflexivity.
Qed.

(* completeness: the decoder's probe check (the walk reaches the page's bucket over non-empty
   buckets) implies that the lookup WITH retry finds the page *)
Lemma ht_lookup_complete_gen : forall fuel mm ps n hash p b s,
  meta_consistent mm ps = true -> NoDup (map p_bucket ps) -> NoDup (map p_label ps) ->
  In p ps -> p_meta p = full_entry hash ->
  probe fuel mm n (p_bucket p) b s = None ->
  ht_lookup fuel mm ps n hash (p_label p) b s = Some p.
Proof.
  induction fuel as [|f IH]; intros mm ps n hash p b s Hc Hb Hl Hin Hm Hp; cbn [probe] in Hp.
  - discriminate.
  - cbn [ht_lookup].
    destruct ((b + s) mod n =? p_bucket p) eqn:Et.
    + apply N.eqb_eq in Et. rewrite Et.
      rewrite (meta_consistent_in mm ps p Hc Hin), Hm, N.eqb_refl.
      rewrite (page_at_in ps p Hb Hin), N.eqb_refl. reflexivity.
    + destruct (nfind ((b + s) mod n) mm) as [m|] eqn:Ef; [|discriminate].
      assert (Hrec : ht_lookup f mm ps n hash (p_label p) ((b + s) mod n) (s + 1) = Some p)
        by (apply IH; assumption).
      destruct (m =? full_entry hash); [|exact Hrec].
      destruct (page_at ps ((b + s) mod n)) as [q|] eqn:Eq; [|exact Hrec].
      destruct (p_label q =? p_label p) eqn:El; [|exact Hrec].
      exfalso. apply page_at_some in Eq. destruct Eq as [Hq Hbq].
      apply N.eqb_eq in El. assert (q = p) by (apply (nodup_map_inj ps); assumption).
      subst q. apply N.eqb_neq in Et. apply Et. symmetry. exact Hbq.
Qed.

(* soundness: whatever the lookup returns is a stored page with the requested label *)
Lemma ht_lookup_sound : forall fuel mm ps n hash label b s q,
  ht_lookup fuel mm ps n hash label b s = Some q -> In q ps /\ p_label q = label.
Proof.
  induction fuel as [|f IH]; intros mm ps n hash label b s q H; cbn [ht_lookup] in H; [discriminate|].
  destruct (nfind ((b + s) mod n) mm) as [m|]; [|discriminate].
  destruct (m =? full_entry hash); [|apply (IH _ _ _ _ _ _ _ _ H)].
  destruct (page_at ps ((b + s) mod n)) as [r|] eqn:Er; [|apply (IH _ _ _ _ _ _ _ _ H)].
  destruct (p_label r =? label) eqn:El; [|apply (IH _ _ _ _ _ _ _ _ H)].
  injection H as <-. apply page_at_some in Er. apply N.eqb_eq in El. tauto.
Qed.

(* on an image that passes the decoder's hash-table check: every stored page is found from its
   label's hash; and a lookup answers exactly like the label map the merkle walk uses *)
Theorem ht_lookup_complete : forall xxh img p hash,
  let h := i_ht img in
  wf_ht_probe xxh img = true ->
  meta_consistent (h_meta_map h) (h_pages h) = true -> NoDup (map p_bucket (h_pages h)) ->
  In p (h_pages h) -> xxh (p_label p) = Some hash ->
  ht_lookup (N.to_nat (2 * h_buckets h + 2)) (h_meta_map h) (h_pages h) (h_buckets h) hash
            (p_label p) (hash mod h_buckets h) 0 = Some p.
Proof.
  intros xxh img p hash h Hwf Hc Hb Hin Hx.
  unfold wf_ht_probe, wf_ht_probe_v in Hwf. fold h in Hwf.
  destruct (snd (label_map (h_pages h))) eqn:Edup; [discriminate|].
  cbn [first_fail] in Hwf.
  assert (Hall : forall l, passes (vall (fun p0 =>
             match xxh (p_label p0) with
             | None => Some (WNoOracle, p_bucket p0, 0)
             | Some hash0 =>
                 first_fail (vguard (p_meta p0 =? full_entry hash0) WMetaByte (p_bucket p0) (p_meta p0))
                   (probe (N.to_nat (2 * h_buckets h + 2)) (h_meta_map h) (h_buckets h) (p_bucket p0)
                      (hash0 mod h_buckets h) 0)
             end) l) = true -> In p l ->
             p_meta p = full_entry hash /\
             probe (N.to_nat (2 * h_buckets h + 2)) (h_meta_map h) (h_buckets h) (p_bucket p)
                   (hash mod h_buckets h) 0 = None).
  { induction l as [|q l IHl]; intros Hp Hq; [destruct Hq|].
    cbn [vall] in Hp.
    destruct Hq as [->|Hq].
    - rewrite Hx in Hp.
      destruct (p_meta p =? full_entry hash) eqn:Em; cbn [vguard first_fail] in Hp.
      + apply N.eqb_eq in Em. split; [exact Em|].
        destruct (probe _ _ _ _ _ _); [discriminate|reflexivity].
      + discriminate.
    - apply IHl; [|exact Hq].
      destruct (match xxh (p_label q) with Some _ => _ | None => _ end); [discriminate|exact Hp]. }
  destruct (Hall _ Hwf Hin) as [Hm Hp].
  apply ht_lookup_complete_gen; try assumption.
  apply label_map_nodup. exact Edup.
Qed.

(* Without the retry the statement is FALSE: a table of 8 buckets, two pages whose hashes share
   first bucket (3) and tag; the first allocated sits in bucket 3, the second in bucket 4 (next step
   of the walk).  The decoder's check passes, the lookup with retry finds both, the single attempt
   stops at bucket 3 and misses the second page. *)
Definition tc_P : mpage := mkMpage 3 128 64 [] 0 [].
Definition tc_Q : mpage := mkMpage 4 128 128 [] 0 [].
Definition tc_mm : pmap N := nadd 4 128 (nadd 3 128 PL).

Lemma lookup_once_refuted :
  meta_consistent tc_mm [tc_P; tc_Q] = true /\
  probe 18 tc_mm 8 (p_bucket tc_Q) 3 0 = None /\ p_meta tc_Q = full_entry 3 /\
  ht_lookup 18 tc_mm [tc_P; tc_Q] 8 3 (p_label tc_Q) 3 0 = Some tc_Q /\
  ht_lookup_once 18 tc_mm [tc_P; tc_Q] 8 3 (p_label tc_Q) 3 0 = None.
Proof. vm_compute. repeat split. Qed.

(* ------------------------------------------------------------------------------------------- *)
(* the two side conditions hold for every table the decoder produces                             *)
From Nomt Require Import FreeList_proofs ReadPath_proofs.

Lemma full_page_len : forall c pn o pg, full_page c pn o = Ok pg -> length pg = 4096%nat.
Proof.
  intros c pn [l|] pg H; unfold full_page in H; [|discriminate].
  rewrite dropN_skipn in H.
  replace (N.to_nat (PAGE - 1)) with 4095%nat in H by reflexivity.
  destruct (skipn 4095 l) as [|x [|y r]] eqn:E; try discriminate.
  injection H as <-.
  assert (L : length (skipn 4095 l) = 1%nat) by (rewrite E; reflexivity).
  rewrite skipn_length in L. lia.
Qed.

Definition scan_inv (acc : list (N * N)) (b : N) : Prop :=
  NoDup (map fst acc) /\ forall e, In e acc -> fst e < b.

Lemma meta_scan_inv : forall l bucket acc,
  scan_inv acc bucket -> scan_inv (meta_scan l bucket acc) (bucket + N.of_nat (length l)).
Proof.
  induction l as [|b l IH]; intros bucket acc [Hnd Hlt]; cbn [meta_scan length].
  - rewrite N.add_0_r. split; assumption.
  - replace (bucket + N.of_nat (S (length l))) with (N.succ bucket + N.of_nat (length l)) by lia.
    apply IH. destruct (b =? 0).
    + split; [exact Hnd|]. intros e He. specialize (Hlt e He). lia.
    + split.
      * cbn [map fst]. constructor; [|exact Hnd].
        intros Hin. apply in_map_iff in Hin. destruct Hin as [e [He Hin]].
        specialize (Hlt e Hin). lia.
      * intros e [<-|He]; [cbn [fst]; lia|]. specialize (Hlt e He). lia.
Qed.

Lemma nodup_app_single : forall {A} (l : list A) x, NoDup l -> ~ In x l -> NoDup (l ++ [x]).
Proof.
  intros A l x Hnd Hx. induction Hnd as [|y l Hnot Hnd IH]; cbn [app].
  - constructor; [intros []|constructor].
  - constructor.
    + intros Hin. apply in_app_or in Hin. destruct Hin as [Hin|[->|[]]]; [exact (Hnot Hin)|].
      apply Hx. left. reflexivity.
    + apply IH. intros Hin. apply Hx. right. exact Hin.
Qed.

Lemma nodup_rev : forall {A} (l : list A), NoDup l -> NoDup (rev l).
Proof.
  intros A l H. induction H as [|x l Hnot Hnd IH]; [constructor|].
  cbn [rev]. apply nodup_app_single; [exact IH|]. rewrite <- in_rev. exact Hnot.
Qed.

Lemma meta_pages_nodup : forall fuel rd p np acc r,
  scan_inv acc (p * PAGE) -> meta_pages fuel rd p np acc = Ok r -> NoDup (map fst r).
Proof.
  assert (Hfin : forall acc b r, scan_inv acc b -> Ok (rev_append acc []) = Ok r -> NoDup (map fst r)).
  { intros acc b r [Hnd _] H. injection H as <-. rewrite rev_append_rev, app_nil_r, map_rev.
    apply nodup_rev. exact Hnd. }
  induction fuel as [|f IH]; intros rd p np acc r Hinv H; cbn [meta_pages] in H.
  - apply (Hfin _ _ _ Hinv H).
  - destruct (np <=? p); [apply (Hfin _ _ _ Hinv H)|].
    bind_inv H. apply (IH _ _ _ _ _ (fun x => x) H) || idtac.
    apply (IH rd (p + 1) np (meta_scan a (p * PAGE) acc) r); [|exact H].
    pose proof (meta_scan_inv a (p * PAGE) acc Hinv) as Hs.
    rewrite (full_page_len _ _ _ _ E) in Hs.
    replace ((p + 1) * PAGE) with (p * PAGE + N.of_nat 4096); [exact Hs|].
    unfold PAGE. lia.
Qed.

Lemma fold_nadd_other : forall (l : list (N * N)) m x, ~ In x (map fst l) ->
  nfind x (fold_left (fun m e => nadd (fst e) (snd e) m) l m) = nfind x m.
Proof.
  induction l as [|a l IH]; intros m x Hx; [reflexivity|].
  cbn [fold_left]. rewrite IH.
  - apply nfind_nadd_other. intros E. apply Hx. left. symmetry. exact E.
  - intros Hin. apply Hx. right. exact Hin.
Qed.

Lemma fold_nadd_find : forall (l : list (N * N)) m e, NoDup (map fst l) -> In e l ->
  nfind (fst e) (fold_left (fun m e => nadd (fst e) (snd e) m) l m) = Some (snd e).
Proof.
  induction l as [|a l IH]; intros m e Hnd Hin; [destruct Hin|].
  cbn [map] in Hnd. inversion Hnd as [|x l' Hnot Hnd']; subst.
  cbn [fold_left]. destruct Hin as [->|Hin].
  - rewrite fold_nadd_other by exact Hnot. apply nfind_nadd_same.
  - apply IH; assumption.
Qed.

Lemma nodup_map_filter : forall {A B} (f : A -> B) (g : A -> bool) l,
  NoDup (map f l) -> NoDup (map f (filter g l)).
Proof.
  intros A B f g l. induction l as [|a l IH]; intros H; [constructor|].
  cbn [map] in H. inversion H as [|x l' Hnot Hnd]; subst. cbn [filter].
  destruct (g a); [|apply IH; exact Hnd].
  cbn [map]. constructor; [|apply IH; exact Hnd].
  intros Hin. apply Hnot. apply in_map_iff in Hin. destruct Hin as [y [Hy Hin]].
  apply filter_In in Hin. rewrite <- Hy. apply in_map. tauto.
Qed.

Lemma decode_ht_table_ok : forall rd buckets size h, decode_ht rd buckets size = Ok h ->
  meta_consistent (h_meta_map h) (h_pages h) = true /\ NoDup (map p_bucket (h_pages h)).
Proof.
  intros rd buckets size h H. unfold decode_ht in H.
  bind_inv H. bind_inv H. bind_inv H. injection H as <-. cbn [h_meta_map h_pages].
  rename a0 into meta. rename a1 into pages.
  assert (Hnd : NoDup (map fst meta)).
  { apply (meta_pages_nodup (N.to_nat (num_meta_pages buckets)) rd 0 (num_meta_pages buckets) [] meta); [|exact E0].
    split; [constructor|intros e []]. }
  assert (Hmap : map (fun p => (p_bucket p, p_meta p)) pages =
                 filter (fun e => is_full (snd e) && (fst e <? buckets)) meta).
  { apply (mapM_Ok_map _ (fun p => (p_bucket p, p_meta p)) _ _) in E1; [exact E1|].
    intros e p Hd. bind_inv Hd. unfold decode_mpage in Hd. bind_inv Hd. bind_inv Hd.
    injection Hd as <-. cbn [p_bucket p_meta]. destruct e; reflexivity. }
  split.
  - unfold meta_consistent. apply forallb_forall. intros p Hp.
    assert (Hin : In (p_bucket p, p_meta p) meta).
    { assert (Hin' : In (p_bucket p, p_meta p) (map (fun p => (p_bucket p, p_meta p)) pages))
        by (apply (in_map (fun p => (p_bucket p, p_meta p)) pages p Hp)).
      rewrite Hmap in Hin'. apply filter_In in Hin'. tauto. }
    pose proof (fold_nadd_find meta PL _ Hnd Hin) as Hf. cbn [fst snd] in Hf.
    cbv beta. rewrite Hf. apply N.eqb_refl.
  - replace (map p_bucket pages) with (map fst (map (fun p => (p_bucket p, p_meta p)) pages))
      by (rewrite map_map; reflexivity).
    rewrite Hmap. apply nodup_map_filter. exact Hnd.
Qed.

Lemma decode_image_ht : forall fs img, decode_image fs = Ok img ->
  exists rd b s, decode_ht rd b s = Ok (i_ht img).
Proof.
  intros fs img H. unfold decode_image in H.
  repeat (bind_inv H). injection H as <-. cbn [i_ht].
  eexists _, _, _. eassumption.
Qed.

(* every stored page of a decoded image that passes the decoder's probe check is found by the
   probing lookup with retry, starting from the xxh3 hash of its label *)
Theorem image_lookup_finds_stored : forall fs xxh img p hash,
  decode_image fs = Ok img -> wf_ht_probe xxh img = true ->
  In p (h_pages (i_ht img)) -> xxh (p_label p) = Some hash ->
  let h := i_ht img in
  ht_lookup (N.to_nat (2 * h_buckets h + 2)) (h_meta_map h) (h_pages h) (h_buckets h) hash
            (p_label p) (hash mod h_buckets h) 0 = Some p.
Proof.
  intros fs xxh img p hash Hd Hwf Hin Hx h.
  destruct (decode_image_ht fs img Hd) as [rd [b [s Hht]]].
  destruct (decode_ht_table_ok rd b s _ Hht) as [Hc Hb].
  apply (ht_lookup_complete xxh img p hash Hwf Hc Hb Hin Hx).
Qed.
