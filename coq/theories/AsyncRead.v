(* The asynchronous reader of a multi-page (overflow) value - beatree/ops/overflow.rs AsyncReader, as
   driven by the reverse-delta worker of the rollback log (prior values of keys written blind) - as a
   state machine over ARBITRARY schedules of "submit a request" and "a completion arrives".

   Layout written by overflow::chunk: the leaf cell lists the first min(total, 15) page numbers; the
   others are stored inside the value's own pages, front to back.  So the reader learns page numbers
   only as it parses pages IN ORDER, while completions arrive in ANY order:
     req   pages requested so far (always the next page in order),
     proc  pages parsed so far (in order), [got] completed but not yet parsed,
     known = cell ++ the page numbers stored in pages 0 .. proc-1.
   [guard = true] is the repaired submit (no request while the page number is not known yet),
   [guard = false] the original one, which indexes the known numbers unchecked. *)
From Coq Require Import List Bool Arith NArith Lia.
Import ListNotations.

Definition page := (list N * list N)%type.          (* page numbers stored in the page, value bytes *)

Record layout := mkLayout { cellp : list N; pgs : list page }.

Definition total (L : layout) : nat := length (pgs L).
Definition known (L : layout) (k : nat) : list N := cellp L ++ flat_map fst (firstn k (pgs L)).

Record rstate := mkR {
  req : nat;
  proc : nat;
  got : list nat;
  val : list N;
  asked : list N          (* the page numbers requested, in order *)
}.

Definition rinit : rstate := mkR 0 0 [] [] [].

Inductive sres := SNone | SOk (s : rstate) | SPanic.

Definition submit (guard : bool) (L : layout) (s : rstate) : sres :=
  if Nat.eqb (req s) (total L) then SNone
  else if guard && Nat.leb (length (known L (proc s))) (req s) then SNone
  else match nth_error (known L (proc s)) (req s) with
       | Some pn => SOk (mkR (S (req s)) (proc s) (got s) (val s) (asked s ++ [pn]))
       | None => SPanic          (* self.pages[request_index]: index out of bounds *)
       end.

(* continue_parse: consume completed pages in order *)
Fixpoint parse (rest : list page) (p : nat) (g : list nat) (v : list N) : nat * list N :=
  match rest with
  | [] => (p, v)
  | pg :: rest' => if existsb (Nat.eqb p) g then parse rest' (S p) g (v ++ snd pg) else (p, v)
  end.

(* a completion for request [i]; completions for pages never requested, already completed or already
   parsed do not occur (they are ignored here) *)
Definition complete (L : layout) (i : nat) (s : rstate) : rstate :=
  if Nat.ltb i (req s) && Nat.leb (proc s) i && negb (existsb (Nat.eqb i) (got s)) then
    let g := i :: got s in
    let '(p, v) := parse (skipn (proc s) (pgs L)) (proc s) g (val s) in
    mkR (req s) p g v (asked s)
  else s.

Inductive event := ESubmit | EComplete (i : nat).

Definition step (guard : bool) (L : layout) (r : option rstate) (e : event) : option rstate :=
  match r with
  | None => None                                     (* panicked *)
  | Some s =>
      match e with
      | ESubmit => match submit guard L s with SNone => Some s | SOk s' => Some s' | SPanic => None end
      | EComplete i => Some (complete L i s)
      end
  end.

Definition run (guard : bool) (L : layout) (evs : list event) : option rstate :=
  fold_left (step guard L) evs (Some rinit).

Definition done (L : layout) (s : rstate) : bool := Nat.eqb (proc s) (total L).

(* the layout chunk writes: the number of the next page to read is always known once the pages
   before it have been parsed, and exactly [total] numbers exist *)
Definition wf_layout (L : layout) : Prop :=
  (forall k, k < total L -> k < length (known L k)) /\ length (known L (total L)) = total L.

(* chunk's layout for page contents [bytes_i] and page numbers [pns]: the first 15 numbers in the
   cell, the others front to back, at most [maxp] per page *)
Fixpoint spread (maxp : nat) (others : list N) (bytes : list (list N)) : list page :=
  match bytes with
  | [] => []
  | b :: bs => (firstn maxp others, b) :: spread maxp (skipn maxp others) bs
  end.

Definition chunk_layout (maxp : nat) (pns : list N) (bytes : list (list N)) : layout :=
  mkLayout (firstn 15 pns) (spread maxp (skipn 15 pns) bytes).
