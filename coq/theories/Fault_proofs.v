(* C14: theorems about the fault model of commit / rollback (Fault.v).

   Part 1  control flow:   [commit_err_iff] (no failure swallowed, no spurious error),
                           [failing_step_is_last], [commit_err_poisons], [poison_iff_err],
                           [poisoned_refuses], [poisoned_forever], [err_then_silent],
                           [ok_commit_new], [commit_err_iff_io] (per I/O operation).
   Part 2  every `?` is needed: [commit_err_iff_s5_refuted] (seeded change C14-s5: the result of
                           rollback.wait_post_meta() ignored), [every_check_needed].
   Part 3  the source:     [sync_model_matches_source], [sync_steps_in_source_order],
                           [sync_run_src_eq] (the control flow driven by the GENERATED list of
                           checked calls is [sync_run]).
   Part 4  the disk:       [executed_trace_prefix], [failed_commit_atomic_gen] (any attribution of the
                           events of a disciplined trace to the steps), [failed_commit_atomic]
                           (the planned writes [events_of_step]), [failed_before_meta_any_cut],
                           [ok_commit_durable].
   Part 5  examples:       the hypotheses are satisfiable (instance Tests.IA of SyncProto_proofs.v). *)
From Coq Require Import String.
From Nomt Require Import Base SyncProto SyncProto_proofs Fault SrcFacts_proofs.
From Nomt.Gen Require Import SrcFacts.
Local Open Scope list_scope.
Local Open Scope nat_scope.
Local Arguments sync_run : simpl never.

(* ====================================================================================== *)
(* Part 1: control flow                                                                     *)
(* ====================================================================================== *)

Lemma sync_run_generic : forall fails, sync_run fails = run_steps (fun _ => true) fails sync_steps.
Proof.
  intros fails. unfold sync_run, sync_steps, pre_steps, post_steps, call, try_. simpl.
  destruct (fails SBitboxWaitPre), (fails SBeatreeWaitPre), (fails SMetaWrite),
           (fails SBitboxPost), (fails SRollbackWaitPost); reflexivity.
Qed.

Lemma sync_run_s5_generic : forall fails,
  sync_run_s5 fails = run_steps (fun s => negb (step_eqb s SRollbackWaitPost)) fails sync_steps.
Proof.
  intros fails. unfold sync_run_s5, sync_steps, pre_steps, post_steps, call, try_, ign. simpl.
  destruct (fails SBitboxWaitPre), (fails SBeatreeWaitPre), (fails SMetaWrite),
           (fails SBitboxPost); reflexivity.
Qed.

(* the six ways a sync can go *)
Inductive sync_case (fails : step -> bool) : srun -> Prop :=
| sc_ok : fails SBitboxWaitPre = false -> fails SBeatreeWaitPre = false -> fails SMetaWrite = false ->
          fails SBitboxPost = false -> fails SRollbackWaitPost = false ->
          sync_case fails (ROk, sync_steps)
| sc_f1 : fails SBitboxWaitPre = true ->
          sync_case fails (RErr, [SBitboxBegin; SBeatreeBegin; SRollbackBegin; SBitboxWaitPre])
| sc_f2 : fails SBitboxWaitPre = false -> fails SBeatreeWaitPre = true ->
          sync_case fails (RErr, pre_steps)
| sc_f3 : fails SBitboxWaitPre = false -> fails SBeatreeWaitPre = false -> fails SMetaWrite = true ->
          sync_case fails (RErr, pre_steps ++ [SMetaWrite])
| sc_f4 : fails SBitboxWaitPre = false -> fails SBeatreeWaitPre = false -> fails SMetaWrite = false ->
          fails SBitboxPost = true ->
          sync_case fails (RErr, pre_steps ++ [SMetaWrite; SRollbackPost; SBitboxPost])
| sc_f5 : fails SBitboxWaitPre = false -> fails SBeatreeWaitPre = false -> fails SMetaWrite = false ->
          fails SBitboxPost = false -> fails SRollbackWaitPost = true ->
          sync_case fails (RErr, sync_steps).

Lemma sync_run_cases : forall fails, sync_case fails (sync_run fails).
Proof.
  intros fails. unfold sync_run, call, try_.
  destruct (fails SBitboxWaitPre) eqn:E1; [apply sc_f1; exact E1|].
  destruct (fails SBeatreeWaitPre) eqn:E2; [apply sc_f2; assumption|].
  destruct (fails SMetaWrite) eqn:E3; [apply sc_f3; assumption|].
  destruct (fails SBitboxPost) eqn:E4; [apply sc_f4; assumption|].
  destruct (fails SRollbackWaitPost) eqn:E5; [apply sc_f5; assumption|].
  apply sc_ok; assumption.
Qed.

(* ---- the generic runner ---- *)
Lemma run_steps_err_iff : forall fails l,
  fst (run_steps (fun _ => true) fails l) = RErr <->
  exists s, In s (snd (run_steps (fun _ => true) fails l)) /\ fallible s = true /\ fails s = true.
Proof.
  intros fails l. induction l as [|s l IH]; simpl.
  - split; [discriminate|]. intros [s [[] _]].
  - destruct (fallible s && fails s) eqn:E; simpl.
    + apply andb_true_iff in E. destruct E as [Ef Efl]. split; [|reflexivity].
      intros _. exists s. split; [left; reflexivity|]. split; assumption.
    + rewrite IH. split.
      * intros [s' [Hin Hs']]. exists s'. split; [right; exact Hin|exact Hs'].
      * intros [s' [[Heq|Hin] [Hf Hfl]]].
        -- subst s'. rewrite Hf, Hfl in E. discriminate.
        -- exists s'. split; [exact Hin|]. split; assumption.
Qed.

(* the executed calls are an initial segment of the calls of the function *)
Lemma run_steps_prefix : forall checked fails l,
  exists rest, l = snd (run_steps checked fails l) ++ rest.
Proof.
  intros checked fails l. induction l as [|s l [rest IH]]; simpl.
  - exists []. reflexivity.
  - destruct (checked s && fallible s && fails s); simpl.
    + exists l. reflexivity.
    + exists rest. f_equal. exact IH.
Qed.

(* a call that reports an error is the last one executed: every result is examined before the
   next call is made *)
Lemma run_steps_fail_last : forall fails l pfx s sfx,
  snd (run_steps (fun _ => true) fails l) = pfx ++ s :: sfx ->
  fallible s = true -> fails s = true -> sfx = [].
Proof.
  intros fails l. induction l as [|x l IH]; intros pfx s sfx H Hf Hfl; simpl in H.
  - destruct pfx; discriminate.
  - destruct (fallible x && fails x) eqn:E; simpl in H.
    + destruct pfx as [|y [|z pfx]]; simpl in H; inversion H; subst; try reflexivity.
    + destruct pfx as [|y pfx]; simpl in H; inversion H; subst.
      * rewrite Hf, Hfl in E. discriminate.
      * eapply IH; eauto.
Qed.

Lemma run_steps_ext : forall c1 c2 fails l,
  (forall s, In s l -> fallible s = true -> c1 s = c2 s) ->
  run_steps c1 fails l = run_steps c2 fails l.
Proof.
  intros c1 c2 fails l. induction l as [|s l IH]; intros H; simpl; [reflexivity|].
  rewrite IH by (intros s' Hin; apply H; right; exact Hin).
  destruct (fallible s) eqn:Ef.
  - rewrite (H s (or_introl eq_refl) Ef). reflexivity.
  - rewrite !andb_false_r. reflexivity.
Qed.

(* ---- Sync::sync ---- *)
Lemma sync_err_iff : forall fails,
  fst (sync_run fails) = RErr <->
  exists s, In s (snd (sync_run fails)) /\ fallible s = true /\ fails s = true.
Proof. intros fails. rewrite sync_run_generic. apply run_steps_err_iff. Qed.

Lemma sync_prefix : forall fails, exists rest, sync_steps = snd (sync_run fails) ++ rest.
Proof. intros fails. rewrite sync_run_generic. apply run_steps_prefix. Qed.

Lemma sync_ok_all : forall fails, fst (sync_run fails) = ROk -> snd (sync_run fails) = sync_steps.
Proof.
  intros fails H. pose proof (sync_run_cases fails) as Hc.
  destruct (sync_run fails) as [r ex]. cbn [fst snd] in *. subst r.
  inversion Hc; reflexivity.
Qed.

(* ---- Store::commit, the commit entry points, rollback ---- *)
Lemma store_commit_unpoisoned : forall fails h, poisoned h = false ->
  store_commit_run fails h =
  {| result_of := fst (sync_run fails); execd := snd (sync_run fails);
     after := {| poisoned := is_err (fst (sync_run fails));
                 committed := manifest_done fails (snd (sync_run fails)) |} |}.
Proof. intros fails h H. unfold store_commit_run. rewrite H. reflexivity. Qed.

Lemma rollback_run_eq : forall fails h, rollback_run fails h = commit_run false fails h.
Proof.
  intros fails h. unfold rollback_run, commit_run. destruct (poisoned h); reflexivity.
Qed.

(* the shape of a commit on a handle that is not poisoned *)
Lemma commit_run_cases : forall delta fails h,
  poisoned h = false ->
  (delta = true /\ fails SDeltaAppend = true /\
   result_of (commit_run delta fails h) = RErr /\ execd (commit_run delta fails h) = [SDeltaAppend] /\
   after (commit_run delta fails h) = {| poisoned := true; committed := false |}) \/
  (exists ex,
     sync_case fails (result_of (commit_run delta fails h), ex) /\
     execd (commit_run delta fails h) = (if delta then [SDeltaAppend] else []) ++ ex /\
     (delta = true -> fails SDeltaAppend = false) /\
     after (commit_run delta fails h) =
       {| poisoned := is_err (result_of (commit_run delta fails h));
          committed := manifest_done fails ex |}).
Proof.
  intros delta fails h Hp. unfold commit_run. rewrite Hp.
  pose proof (sync_run_cases fails) as Hc.
  destruct delta.
  - destruct (fails SDeltaAppend) eqn:Ea.
    + left. repeat split; reflexivity.
    + right. rewrite (store_commit_unpoisoned fails h Hp). cbn [result_of execd after].
      exists (snd (sync_run fails)). rewrite <- surjective_pairing.
      split; [exact Hc|]. split; [reflexivity|]. split; [intros _; reflexivity|reflexivity].
  - right. rewrite (store_commit_unpoisoned fails h Hp). cbn [result_of execd after].
    exists (snd (sync_run fails)). rewrite <- surjective_pairing.
    split; [exact Hc|]. split; [reflexivity|]. split; [discriminate|reflexivity].
Qed.

(* C14, first half: the call returns an error iff the handle was poisoned or some EXECUTED call
   reported a failure - no failure is swallowed, no error is made up *)
Theorem commit_err_iff : forall delta fails h,
  result_of (commit_run delta fails h) = RErr <->
  poisoned h = true \/
  exists s, In s (execd (commit_run delta fails h)) /\ fallible s = true /\ fails s = true.
Proof.
  intros delta fails h. destruct (poisoned h) eqn:Hp.
  - unfold commit_run. rewrite Hp. simpl. split; [intros _; left; reflexivity|reflexivity].
  - unfold commit_run. rewrite Hp. rewrite (store_commit_unpoisoned fails h Hp).
    destruct delta; [destruct (fails SDeltaAppend) eqn:Ea|]; cbn [result_of execd after].
    + split; [|reflexivity]. intros _. right. exists SDeltaAppend.
      split; [left; reflexivity|]. split; [reflexivity|exact Ea].
    + rewrite sync_err_iff. split.
      * intros [s [Hin Hs]]. right. exists s. split; [right; exact Hin|exact Hs].
      * intros [Hf|[s [[Heq|Hin] [Hf Hfl]]]]; [discriminate| |].
        -- subst s. rewrite Ea in Hfl. discriminate.
        -- exists s. split; [exact Hin|]. split; assumption.
    + rewrite sync_err_iff. split.
      * intros H. right. exact H.
      * intros [Hf|H]; [discriminate|exact H].
Qed.

Theorem rollback_err_iff : forall fails h,
  result_of (rollback_run fails h) = RErr <->
  poisoned h = true \/
  exists s, In s (execd (rollback_run fails h)) /\ fallible s = true /\ fails s = true.
Proof. intros fails h. rewrite rollback_run_eq. apply commit_err_iff. Qed.

Theorem op_err_iff : forall o fails h,
  result_of (op_run o fails h) = RErr <->
  poisoned h = true \/
  exists s, In s (execd (op_run o fails h)) /\ fallible s = true /\ fails s = true.
Proof. intros [delta|] fails h; simpl; [apply commit_err_iff|apply rollback_err_iff]. Qed.

Lemma cons_inj : forall A (a b : A) l l', a :: l = b :: l' -> a = b /\ l = l'.
Proof. intros A a b l l' H. inversion H. split; reflexivity. Qed.

(* ... and the failing call is the LAST one executed: nothing of the next phase has begun *)
Theorem failing_step_is_last : forall delta fails h pfx s sfx,
  execd (commit_run delta fails h) = pfx ++ s :: sfx ->
  fallible s = true -> fails s = true -> sfx = [].
Proof.
  intros delta fails h pfx s sfx H Hf Hfl. unfold commit_run in H.
  destruct (poisoned h) eqn:Hp.
  - simpl in H. destruct pfx; discriminate.
  - rewrite (store_commit_unpoisoned fails h Hp) in H.
    destruct delta; [destruct (fails SDeltaAppend) eqn:Ea|]; cbn [execd] in H.
    + destruct pfx as [|y [|z pfx]]; simpl in H; inversion H; subst; reflexivity.
    + destruct pfx as [|y pfx]; cbn [app] in H; apply cons_inj in H; destruct H as [Hy H2].
      * subst s. rewrite Ea in Hfl. discriminate.
      * rewrite sync_run_generic in H2. eapply run_steps_fail_last; eauto.
    + rewrite sync_run_generic in H. eapply run_steps_fail_last; eauto.
Qed.

(* the handle reports itself poisoned exactly when the call returned an error *)
Theorem poison_iff_err : forall delta fails h,
  poisoned (after (commit_run delta fails h)) = true <-> result_of (commit_run delta fails h) = RErr.
Proof.
  intros delta fails h. destruct (poisoned h) eqn:Hp.
  - unfold commit_run. rewrite Hp. simpl. split; reflexivity.
  - destruct (commit_run_cases delta fails h Hp) as [(_ & _ & Hr & _ & Ha)|[ex (_ & _ & _ & Ha)]];
      rewrite Ha; cbn [poisoned].
    + rewrite Hr. split; reflexivity.
    + destruct (result_of (commit_run delta fails h)); cbn [is_err]; split; congruence.
Qed.

Theorem commit_err_poisons : forall delta fails h,
  result_of (commit_run delta fails h) = RErr -> poisoned (after (commit_run delta fails h)) = true.
Proof. intros delta fails h. apply poison_iff_err. Qed.

Theorem op_err_poisons : forall o fails h,
  result_of (op_run o fails h) = RErr -> poisoned (after (op_run o fails h)) = true.
Proof.
  intros [delta|] fails h; simpl; [|rewrite rollback_run_eq]; apply commit_err_poisons.
Qed.

(* a poisoned handle refuses every operation and executes NO call: no I/O at all *)
Theorem poisoned_refuses : forall o fails h,
  poisoned h = true -> op_run o fails h = refuse.
Proof.
  intros [delta|] fails h Hp; simpl; unfold rollback_run, commit_run; rewrite Hp; reflexivity.
Qed.

Corollary poisoned_refuses_commit : forall delta fails h,
  poisoned h = true ->
  result_of (commit_run delta fails h) = RErr /\ execd (commit_run delta fails h) = [] /\
  poisoned (after (commit_run delta fails h)) = true.
Proof.
  intros delta fails h Hp. pose proof (poisoned_refuses (OCommit delta) fails h Hp) as H.
  simpl in H. rewrite H. repeat split; reflexivity.
Qed.

Theorem poisoned_forever : forall ops h,
  poisoned h = true ->
  poisoned (snd (run_ops ops h)) = true /\
  Forall (fun x => x = (RErr, [])) (fst (run_ops ops h)).
Proof.
  intros ops. induction ops as [|[o fails] ops IH]; intros h Hp; simpl.
  - split; [exact Hp|constructor].
  - rewrite (poisoned_refuses o fails h Hp). simpl.
    destruct (IH {| poisoned := true; committed := false |} eq_refl) as [H1 H2].
    split; [exact H1|]. constructor; [reflexivity|exact H2].
Qed.

(* hence: once an operation of a history has returned an error, every later one is refused
   without a single call, whatever the oracles say *)
Theorem err_then_silent : forall o fails h ops,
  result_of (op_run o fails h) = RErr ->
  poisoned (snd (run_ops ops (after (op_run o fails h)))) = true /\
  Forall (fun x => x = (RErr, [])) (fst (run_ops ops (after (op_run o fails h)))).
Proof. intros o fails h ops H. apply poisoned_forever. apply op_err_poisons. exact H. Qed.

(* ... so these operations contribute no event to the disk, for any attribution of events *)
Corollary silent_no_events : forall (seg : step -> list ev) (rs : list (result * list step)),
  Forall (fun x => x = (RErr, [])) rs -> flat_map (fun x => trace_of seg (snd x)) rs = [].
Proof.
  intros seg rs H. induction H as [|x rs Hx _ IH]; simpl; [reflexivity|].
  subst x. simpl. exact IH.
Qed.

(* a commit that returns Ok executed every call, none of them failed, the manifest step completed
   and the handle stays usable *)
Theorem ok_commit_new : forall delta fails h,
  result_of (commit_run delta fails h) = ROk ->
  poisoned h = false /\
  execd (commit_run delta fails h) = (if delta then [SDeltaAppend] else []) ++ sync_steps /\
  (forall s, In s (execd (commit_run delta fails h)) -> fallible s = true -> fails s = false) /\
  committed (after (commit_run delta fails h)) = true /\
  poisoned (after (commit_run delta fails h)) = false.
Proof.
  intros delta fails h Hok.
  destruct (poisoned h) eqn:Hp.
  { unfold commit_run in Hok. rewrite Hp in Hok. discriminate. }
  split; [reflexivity|].
  assert (Hne : forall s, In s (execd (commit_run delta fails h)) -> fallible s = true -> fails s = false).
  { intros s Hin Hf. destruct (fails s) eqn:Hfl; [|reflexivity].
    assert (E : result_of (commit_run delta fails h) = RErr).
    { apply commit_err_iff. right. exists s. auto. }
    rewrite Hok in E. discriminate. }
  destruct (commit_run_cases delta fails h Hp) as [(_ & _ & Hr & _)|[ex (Hc & Hex & _ & Ha)]].
  { rewrite Hok in Hr. discriminate. }
  rewrite Hok in Hc. inversion Hc; subst.
  split; [exact Hex|]. split; [exact Hne|].
  rewrite Ha, Hok. cbn [committed poisoned is_err]. split; [|reflexivity].
  unfold manifest_done. match goal with H : fails SMetaWrite = false |- _ => rewrite H end.
  reflexivity.
Qed.

(* the manifest step completed iff Meta::write was reached and did not fail *)
Lemma committed_iff : forall delta fails h,
  committed (after (commit_run delta fails h)) = true <->
  In SMetaWrite (execd (commit_run delta fails h)) /\ fails SMetaWrite = false.
Proof.
  intros delta fails h. destruct (poisoned h) eqn:Hp.
  - unfold commit_run. rewrite Hp. simpl. split; [discriminate|intros [[] _]].
  - destruct (commit_run_cases delta fails h Hp) as [(_ & _ & _ & Hex & Ha)|[ex (Hc & Hex & _ & Ha)]];
      rewrite Ha, Hex; simpl.
    + split; [discriminate|]. intros [[H|[]] _]. discriminate.
    + unfold manifest_done. rewrite andb_true_iff, negb_true_iff.
      assert (Hin : existsb (step_eqb SMetaWrite) ex = true <-> In SMetaWrite ex).
      { rewrite existsb_exists. split.
        - intros [x [Hx Hb]]. destruct x; simpl in Hb; try discriminate Hb. exact Hx.
        - intros H. exists SMetaWrite. split; [exact H|reflexivity]. }
      rewrite Hin. destruct delta; simpl; [|tauto].
      split; [intros [H1 H2]; split; [right; exact H1|exact H2]|].
      intros [[H1|H1] H2]; [discriminate|]. split; assumption.
Qed.

(* ---- per I/O operation ---- *)
Lemma step_fails_fallible : forall iof s, step_fails iof s = true -> fallible s = true.
Proof. intros iof s H. destruct s; try reflexivity; simpl in H; discriminate H. Qed.

Lemma fallible_iff_io : forall s, fallible s = true <-> ios_of_step s <> [].
Proof. intros s. destruct s; simpl; split; congruence. Qed.

(* for every write, resize, fsync (and the bucket allocation) of every executed step: the commit
   returns an error iff the handle was poisoned or one of them failed *)
Theorem commit_err_iff_io : forall delta iof h,
  result_of (commit_run delta (step_fails iof) h) = RErr <->
  poisoned h = true \/
  exists s o, In s (execd (commit_run delta (step_fails iof) h)) /\ In o (ios_of_step s) /\ iof o = true.
Proof.
  intros delta iof h. rewrite commit_err_iff. split; intros [Hp|H]; auto; right.
  - destruct H as [s [Hin [_ Hfl]]]. unfold step_fails in Hfl. apply existsb_exists in Hfl.
    destruct Hfl as [o [Ho Hio]]. exists s, o. auto.
  - destruct H as [s [o [Hin [Ho Hio]]]].
    assert (Hfl : step_fails iof s = true) by (apply existsb_exists; exists o; auto).
    exists s. split; [exact Hin|]. split; [exact (step_fails_fallible iof s Hfl)|exact Hfl].
Qed.

(* ====================================================================================== *)
(* Part 2: every `?` is needed                                                              *)
(* ====================================================================================== *)

(* the seeded change C14-s5: with the result of rollback.wait_post_meta() ignored the sync returns
   Ok although an executed call reported a failure - [sync_err_iff] is FALSE for that variant *)
Lemma commit_err_iff_s5_refuted :
  ~ (forall fails,
       fst (sync_run_s5 fails) = RErr <->
       exists s, In s (snd (sync_run_s5 fails)) /\ fallible s = true /\ fails s = true).
Proof.
  intros H. specialize (H (fun s => step_eqb s SRollbackWaitPost)).
  assert (E : fst (sync_run_s5 (fun s => step_eqb s SRollbackWaitPost)) = RErr).
  { apply H. exists SRollbackWaitPost. split; [|split; reflexivity].
    vm_compute. repeat (try (left; reflexivity); right). }
  vm_compute in E. discriminate.
Qed.

Lemma sync_s5_swallows : exists fails,
  fst (sync_run_s5 fails) = ROk /\ In SRollbackWaitPost (snd (sync_run_s5 fails)) /\
  fails SRollbackWaitPost = true.
Proof.
  exists (fun s => step_eqb s SRollbackWaitPost). split; [reflexivity|]. split; [|reflexivity].
  vm_compute. repeat (try (left; reflexivity); right).
Qed.

(* the same for EACH of the five checks of Sync::sync: drop any one of them and the statement fails *)
Theorem every_check_needed : forall s0, In s0 sync_steps -> fallible s0 = true ->
  ~ (forall fails,
       fst (run_steps (fun s => negb (step_eqb s s0)) fails sync_steps) = RErr <->
       exists s, In s (snd (run_steps (fun s => negb (step_eqb s s0)) fails sync_steps)) /\
                 fallible s = true /\ fails s = true).
Proof.
  intros s0 Hin Hf H. specialize (H (fun s => step_eqb s s0)).
  assert (Hne : s0 <> SDeltaAppend).
  { intros ->. unfold sync_steps, pre_steps, post_steps in Hin. simpl in Hin. intuition discriminate. }
  assert (E : fst (run_steps (fun s => negb (step_eqb s s0)) (fun s => step_eqb s s0) sync_steps) = RErr).
  { apply H. exists s0. split; [|split; [exact Hf|]].
    - destruct s0; simpl in Hf; try discriminate Hf; try (exfalso; apply Hne; reflexivity);
        vm_compute; repeat (try (left; reflexivity); right).
    - destruct s0; reflexivity. }
  destruct s0; simpl in Hf; try discriminate Hf; vm_compute in E; discriminate E.
Qed.

(* ====================================================================================== *)
(* Part 3: the model consults exactly the calls the translator finds in the source          *)
(* ====================================================================================== *)

(* the model's list of fallible calls of Sync::sync, each examined, = the generated list (names,
   textual order, "followed by `?`") *)
Lemma sync_model_matches_source : model_fallible_calls = sync_fallible_calls.
Proof. vm_compute; reflexivity. Qed.

(* is the result of this call examined, according to the generated facts? (false if not listed) *)
Fixpoint lookup_checked (n : string) (l : list (string * bool)) : bool :=
  match l with
  | [] => false
  | (m, c) :: l' => if String.eqb m n then c else lookup_checked n l'
  end.
Definition src_checked (s : step) : bool := lookup_checked (step_name s) sync_fallible_calls.
Definition sync_run_src (fails : step -> bool) : srun := run_steps src_checked fails sync_steps.

(* the control flow as driven by the generated facts is the model's [sync_run]; with C14-s5
   applied to the source this lemma (and the two above) no longer compile *)
Lemma sync_run_src_eq : forall fails, sync_run_src fails = sync_run fails.
Proof.
  intros fails.
  transitivity (run_steps (fun _ => true) fails sync_steps); [|symmetry; apply sync_run_generic].
  unfold sync_run_src. apply run_steps_ext.
  intros s Hin Hf. unfold sync_steps, pre_steps, post_steps in Hin. simpl in Hin.
  destruct s; simpl in Hf; try discriminate Hf; try (vm_compute; reflexivity).
  exfalso. intuition discriminate.
Qed.

(* ====================================================================================== *)
(* Part 4: the disk                                                                         *)
(* ====================================================================================== *)

Lemma trace_of_app : forall seg a b, trace_of seg (a ++ b) = trace_of seg a ++ trace_of seg b.
Proof. intros seg a b. unfold trace_of. apply flat_map_app. Qed.

Lemma trace_of_cons : forall seg s l, trace_of seg (s :: l) = seg s ++ trace_of seg l.
Proof. reflexivity. Qed.

Lemma firstn_app_exact : forall A (a b : list A), firstn (length a) (a ++ b) = a.
Proof. intros A a b. apply firstn_len_app. Qed.

(* a run that stops after step k has produced a PREFIX of the full run's trace *)
Theorem executed_trace_prefix : forall seg delta fails h,
  seg SDeltaAppend = [] ->
  exists rest,
    trace_of seg sync_steps = trace_of seg (execd (commit_run delta fails h)) ++ rest.
Proof.
  intros seg delta fails h H0.
  assert (Hs : exists rest, trace_of seg sync_steps = trace_of seg (snd (sync_run fails)) ++ rest).
  { destruct (sync_prefix fails) as [rest Hr]. exists (trace_of seg rest).
    rewrite <- trace_of_app, <- Hr. reflexivity. }
  unfold commit_run. destruct (poisoned h) eqn:Hp.
  - simpl. exists (trace_of seg sync_steps). reflexivity.
  - rewrite (store_commit_unpoisoned fails h Hp).
    destruct delta; [destruct (fails SDeltaAppend)|]; cbn [execd].
    + rewrite trace_of_cons, H0. exists (trace_of seg sync_steps). reflexivity.
    + rewrite trace_of_cons, H0. exact Hs.
    + exact Hs.
Qed.

Corollary executed_trace_firstn : forall seg delta fails h,
  seg SDeltaAppend = [] ->
  trace_of seg (execd (commit_run delta fails h)) =
  firstn (length (trace_of seg (execd (commit_run delta fails h)))) (trace_of seg sync_steps).
Proof.
  intros seg delta fails h H0. destruct (executed_trace_prefix seg delta fails h H0) as [rest Hr].
  rewrite Hr. symmetry. apply firstn_app_exact.
Qed.

Section Atomic.
Variable I : inst.
Variable d0 : disk.
Variable seg : step -> list ev.
Hypothesis HI : inst_ok I.
Hypothesis H0 : start_ok I d0.
Hypothesis Hs : wal_safe I d0.
Hypothesis Hseg : seg_ok seg.

Let tr : list ev := trace_of seg sync_steps.
Let iw : nat := length (trace_of seg pre_steps).

Hypothesis Hd : discipline I d0 tr = true.

Lemma tr_split : tr = trace_of seg pre_steps ++ seg SMetaWrite ++ trace_of seg post_steps.
Proof.
  unfold tr, sync_steps. rewrite trace_of_app. f_equal.
Qed.

Lemma iw_index : index_of is_meta_write tr = Some iw.
Proof.
  destruct Hseg as (_ & Hpre & w & s & rest & Hm & Hw).
  rewrite tr_split, Hm. rewrite index_of_app_skip by exact Hpre.
  cbn [app index_of]. rewrite Hw. cbn [option_map]. rewrite Nat.add_0_r. reflexivity.
Qed.

Lemma is_index : index_of is_meta_sync tr = Some (S iw).
Proof.
  pose proof iw_index as Hiw.
  destruct (discipline_shape _ _ _ Hd)
    as [Hw _ _ | pre post _ Hiw' His _ _ _ _ _ _ _ _].
  - rewrite Hw in Hiw. discriminate.
  - rewrite Hiw' in Hiw. inversion Hiw as [E]. rewrite His, E. reflexivity.
Qed.

Lemma meta_len : 2 <= length (seg SMetaWrite).
Proof. destruct Hseg as (_ & _ & w & s & rest & Hm & _). rewrite Hm. simpl. lia. Qed.

(* what crash_atomic gives for this trace, with the two indices resolved *)
Lemma cut_recover : forall n img, crash_image (drun d0 (firstn n tr)) img ->
  (recover I img = ROld \/ recover I img = RNew) /\
  (n <= iw -> recover I img = ROld) /\
  (S iw < n -> recover I img = RNew).
Proof.
  intros n img Himg.
  destruct (crash_atomic I d0 tr HI H0 Hs Hd n img Himg) as (A & B & C).
  split; [exact A|]. split.
  - intros Hn. exact (B iw iw_index Hn).
  - intros Hn. exact (C (S iw) is_index Hn).
Qed.

Ltac len_norm :=
  unfold cut_ok, failed_step, trace_of, sync_steps in *; unfold pre_steps, post_steps in *;
  cbn [app flat_map removelast last step_idx] in *;
  repeat rewrite app_length in *; cbn [length] in *.

(* where the cut lies, by the call that failed *)
Lemma cut_position : forall delta fails h n,
  poisoned h = false ->
  result_of (commit_run delta fails h) = RErr ->
  cut_ok seg (execd (commit_run delta fails h)) n ->
  (step_idx (failed_step (execd (commit_run delta fails h))) < step_idx SMetaWrite -> n <= iw) /\
  (step_idx SMetaWrite < step_idx (failed_step (execd (commit_run delta fails h))) -> S iw < n).
Proof.
  intros delta fails h n Hp Hr Hcut.
  pose proof meta_len as Hml.
  assert (Hz : length (seg SDeltaAppend) = 0).
  { destruct Hseg as (Hz & _). rewrite Hz. reflexivity. }
  unfold iw. clear Hd.
  destruct (commit_run_cases delta fails h Hp) as [(_ & _ & _ & Hex & _)|[ex (Hc & Hex & _ & _)]].
  - rewrite Hex in *. len_norm. split; intros; lia.
  - rewrite Hr in Hc. rewrite Hex in *. clear Hex.
    inversion Hc; subst; destruct delta; len_norm; split; intros; lia.
Qed.

(* C14, second half, for ANY attribution [seg] of the events of a disciplined trace to the calls
   during which they happened: a commit fails at some call; the handle is poisoned and performs no
   further I/O ([err_then_silent]), so the disk stays at a cut [n] inside the failing call
   ([cut_ok]); reopening the directory (a crash image: whatever of the in-flight writes made it)
   shows exactly the old or the new state - the old one if the failure came before Meta::write,
   the new one if it came after *)
Theorem failed_commit_atomic_gen : forall delta fails h n img,
  poisoned h = false ->
  result_of (commit_run delta fails h) = RErr ->
  cut_ok seg (execd (commit_run delta fails h)) n ->
  crash_image (drun d0 (firstn n tr)) img ->
  (recover I img = ROld \/ recover I img = RNew) /\
  (step_idx (failed_step (execd (commit_run delta fails h))) < step_idx SMetaWrite ->
     recover I img = ROld) /\
  (step_idx SMetaWrite < step_idx (failed_step (execd (commit_run delta fails h))) ->
     recover I img = RNew).
Proof.
  intros delta fails h n img Hp Hr Hcut Himg.
  destruct (cut_recover n img Himg) as (A & B & C).
  destruct (cut_position delta fails h n Hp Hr Hcut) as [P1 P2].
  split; [exact A|]. split; intros Hlt; [apply B, P1, Hlt|apply C, P2, Hlt].
Qed.

(* the work spawned by the begin_sync calls may still be running when an early `?` returns (e.g.
   beatree's write-out after bitbox wait_pre_meta failed): whatever more of the pre-manifest events
   reaches the disk, the directory still reopens as the old state *)
Theorem failed_before_meta_any_cut : forall n img,
  n <= iw -> crash_image (drun d0 (firstn n tr)) img -> recover I img = ROld.
Proof. intros n img Hn Himg. destruct (cut_recover n img Himg) as (_ & B & _). exact (B Hn). Qed.

(* a commit that returns Ok has produced the whole trace; the manifest is durable: RNew *)
Theorem ok_commit_durable : forall delta fails h img,
  result_of (commit_run delta fails h) = ROk ->
  trace_of seg (execd (commit_run delta fails h)) = tr /\
  (crash_image (drun d0 tr) img -> recover I img = RNew).
Proof.
  intros delta fails h img Hok.
  destruct (ok_commit_new delta fails h Hok) as (_ & Hex & _).
  split.
  - rewrite Hex, trace_of_app. destruct Hseg as (Hz & _).
    destruct delta; simpl; [rewrite Hz|]; reflexivity.
  - intros Himg. rewrite <- (firstn_all tr) in Himg.
    destruct (cut_recover (length tr) img Himg) as (_ & _ & C). apply C.
    pose proof meta_len as Hml. rewrite tr_split. rewrite !app_length. unfold iw. lia.
Qed.

End Atomic.

(* ---- the planned writes of an instance ---- *)
Lemma wal_writes_not_meta : forall w i, Forall (fun e => is_meta_write e = false) (wal_writes i w).
Proof.
  intros w. induction w as [|c w IH]; intros i; simpl; constructor; [reflexivity|apply IH].
Qed.

Lemma Forall_trace_of : forall (P : ev -> Prop) seg l,
  (forall s, In s l -> Forall P (seg s)) -> Forall P (trace_of seg l).
Proof.
  intros P seg l. induction l as [|s l IH]; intros H; simpl; [constructor|].
  apply Forall_app. split; [apply H; left; reflexivity|].
  apply IH. intros s' Hin. apply H. right. exact Hin.
Qed.

Lemma events_seg_ok : forall I, seg_ok (events_of_step I).
Proof.
  intros I. split; [reflexivity|]. split.
  - apply Forall_trace_of. intros s Hin. unfold pre_steps in Hin. simpl in Hin.
    destruct Hin as [<-|[<-|[<-|[<-|[<-|[]]]]]]; cbn [events_of_step].
    + constructor.
    + constructor.
    + constructor.
    + constructor; [reflexivity|].
      apply Forall_app. split; [apply wal_writes_not_meta|]. constructor; [reflexivity|constructor].
    + apply Forall_app. split; [repeat constructor|].
      apply Forall_app. split.
      * apply Forall_forall. intros e He. apply in_map_iff in He.
        destruct He as [[[f pn] c] [He _]]. subst e. reflexivity.
      * apply Forall_app. split; [|repeat constructor].
        apply Forall_forall. intros e He. apply in_map_iff in He.
        destruct He as [[[f pn] c] [He _]]. subst e. reflexivity.
  - exists (EW FMeta 0 (m_new I)), (EF FMeta), []. split; reflexivity.
Qed.

(* C14 for the planned writes of an instance ([events_of_step], [full_trace]) *)
Theorem failed_commit_atomic : forall I d0 delta fails h n img,
  inst_ok I -> start_ok I d0 -> wal_safe I d0 -> discipline I d0 (full_trace I) = true ->
  poisoned h = false ->
  result_of (commit_run delta fails h) = RErr ->
  cut_ok (events_of_step I) (execd (commit_run delta fails h)) n ->
  crash_image (drun d0 (firstn n (full_trace I))) img ->
  (recover I img = ROld \/ recover I img = RNew) /\
  (step_idx (failed_step (execd (commit_run delta fails h))) < step_idx SMetaWrite ->
     recover I img = ROld) /\
  (step_idx SMetaWrite < step_idx (failed_step (execd (commit_run delta fails h))) ->
     recover I img = RNew).
Proof.
  intros I d0 delta fails h n img HI H0 Hs Hd.
  exact (failed_commit_atomic_gen I d0 (events_of_step I) HI H0 Hs (events_seg_ok I) Hd
           delta fails h n img).
Qed.

Theorem ok_commit_new_durable : forall I d0 delta fails h img,
  inst_ok I -> start_ok I d0 -> wal_safe I d0 -> discipline I d0 (full_trace I) = true ->
  result_of (commit_run delta fails h) = ROk ->
  trace_of (events_of_step I) (execd (commit_run delta fails h)) = full_trace I /\
  (crash_image (drun d0 (full_trace I)) img -> recover I img = RNew).
Proof.
  intros I d0 delta fails h img HI H0 Hs Hd.
  exact (ok_commit_durable I d0 (events_of_step I) HI H0 Hs (events_seg_ok I) Hd delta fails h img).
Qed.

(* ====================================================================================== *)
(* Part 5: the hypotheses are satisfiable                                                   *)
(* ====================================================================================== *)

Module FaultExamples.
  Import Tests.

  (* the planned trace of instance A (two-page WAL blobs, one new page in each value file, two
     hash-table pages) is accepted by the monitor, from the start disk of SyncProto_proofs.v *)
  Example full_trace_IA : full_trace IA =
    [ET FWal 0; EW FWal 0 40; EW FWal 1 41; EF FWal;
     ET FLn 2; ET FBbn 2; ES FLn 1 11; ES FBbn 1 21; EC FLn 1; EC FBbn 1; EF FBbn; EF FLn;
     EW FMeta 0 2; EF FMeta;
     ES FHt 0 60; ES FHt 1 61; EC FHt 0; EC FHt 1; EF FHt; ET FWal 0; EF FWal]%N.
  Proof. vm_compute. reflexivity. Qed.

  Example hyps_satisfiable :
    inst_ok IA /\ start_ok IA dA /\ wal_safe IA dA /\ discipline IA dA (full_trace IA) = true.
  Proof.
    split; [exact Witness.IA_ok|]. split; [exact Witness.dA_ok|]. split; [exact Witness.dA_safe|].
    vm_compute. reflexivity.
  Qed.

  (* independent of the proofs: every power-loss image of every cut of that trace, enumerated *)
  Example full_trace_IA_atomic : check_all IA dA (full_trace IA) = true.
  Proof. vm_compute. reflexivity. Qed.

  (* a commit whose hash-table write-out fails (once): error, poisoned, the manifest step completed,
     the executed calls stop at bitbox post_meta *)
  Definition ht_fails : step -> bool := fun s => step_eqb s SBitboxPost.
  Example ht_failure_run :
    commit_run true ht_fails fresh =
    {| result_of := RErr;
       execd := [SDeltaAppend; SBitboxBegin; SBeatreeBegin; SRollbackBegin; SBitboxWaitPre;
                 SBeatreeWaitPre; SMetaWrite; SRollbackPost; SBitboxPost];
       after := {| poisoned := true; committed := true |} |}.
  Proof. reflexivity. Qed.

  (* the disk stands somewhere inside that call, e.g. after the first hash-table page was submitted
     (cut 15 of 21); every crash image of it reopens as the NEW state *)
  Example ht_failure_cut : cut_ok (events_of_step IA) (execd (commit_run true ht_fails fresh)) 15.
  Proof. unfold cut_ok. vm_compute. split; lia. Qed.

  Example ht_failure_new : forall img,
    crash_image (drun dA (firstn 15 (full_trace IA))) img -> recover IA img = RNew.
  Proof.
    intros img Himg.
    destruct hyps_satisfiable as (HI & H0 & Hs & Hd).
    destruct (failed_commit_atomic IA dA true ht_fails fresh 15 img HI H0 Hs Hd eq_refl eq_refl
                ht_failure_cut Himg) as (_ & _ & C).
    apply C. vm_compute. lia.
  Qed.

  (* a WAL write that fails persistently: the first commit reports it and poisons the handle, the
     later commit and rollback are refused without any call; reopening shows the OLD state *)
  Definition wal_fails : step -> bool := fun s => step_eqb s SBitboxWaitPre.
  Example wal_failure_history :
    run_ops [(OCommit true, wal_fails); (OCommit true, wal_fails); (ORollback, wal_fails)] fresh =
    ([(RErr, [SDeltaAppend; SBitboxBegin; SBeatreeBegin; SRollbackBegin; SBitboxWaitPre]);
      (RErr, []); (RErr, [])],
     {| poisoned := true; committed := false |}).
  Proof. reflexivity. Qed.

  Example wal_failure_old : forall n img, n <= 4 ->
    crash_image (drun dA (firstn n (full_trace IA))) img -> recover IA img = ROld.
  Proof.
    intros n img Hn Himg.
    destruct hyps_satisfiable as (HI & H0 & Hs & Hd).
    assert (Hcut : cut_ok (events_of_step IA) (execd (commit_run true wal_fails fresh)) n).
    { unfold cut_ok. vm_compute. split; [apply Nat.le_0_l|exact Hn]. }
    destruct (failed_commit_atomic IA dA true wal_fails fresh n img HI H0 Hs Hd eq_refl eq_refl
                Hcut Himg) as (_ & B & _).
    apply B. vm_compute. lia.
  Qed.

  (* no failure at all: Ok, everything executed, the handle stays usable *)
  Example no_failure_run :
    commit_run true (fun _ => false) fresh =
    {| result_of := ROk; execd := SDeltaAppend :: sync_steps;
       after := {| poisoned := false; committed := true |} |}.
  Proof. reflexivity. Qed.

  (* an oracle that only "fails" calls that cannot report anything changes nothing *)
  Example infallible_oracle_ignored :
    commit_run false (fun s => negb (fallible s)) fresh = commit_run false (fun _ => false) fresh.
  Proof. reflexivity. Qed.
End FaultExamples.
