(* Wal_proofs: round trip of the WAL blob codec, totality of the decoder, and the redo theorems
   (idempotence, absorption of a partially applied log, repair of a torn hash table). *)
From Coq Require Import List Bool Arith NArith Lia.
From Nomt Require Import Result Wal.
Import ListNotations.
Local Open Scope N_scope.

(* ------------------------------------------------------------------------------------------- *)
(* bytes                                                                                         *)

Lemma lenN_aux_length : forall l acc, lenN_aux l acc = acc + N.of_nat (length l).
Proof.
  induction l as [|x l IH]; intros acc; cbn [lenN_aux length].
  - lia.
  - rewrite IH. lia.
Qed.

Lemma lenN_length : forall l, lenN l = N.of_nat (length l).
Proof. intros l. unfold lenN. rewrite lenN_aux_length. lia. Qed.

Lemma le_bytes_length : forall n x, length (le_bytes n x) = n.
Proof. induction n as [|n IH]; intros x; cbn [le_bytes length]; [reflexivity | now rewrite IH]. Qed.

Lemma le_num_le_bytes : forall n x, x < 256 ^ N.of_nat n -> le_num (le_bytes n x) = x.
Proof.
  induction n as [|n IH]; intros x Hx.
  - cbn in Hx. cbn [le_bytes le_num]. lia.
  - cbn [le_bytes le_num].
    rewrite Nat2N.inj_succ, N.pow_succ_r' in Hx.
    rewrite IH.
    + pose proof (N.div_mod x 256 ltac:(lia)) as Hd. lia.
    + apply N.div_lt_upper_bound; lia.
Qed.

Lemma take_app : forall a r, take (length a) (a ++ r) = Some (a, r).
Proof.
  induction a as [|x a IH]; intros r; cbn [length take app].
  - reflexivity.
  - now rewrite IH.
Qed.

Lemma take_some : forall n l a r, take n l = Some (a, r) -> l = a ++ r /\ length a = n.
Proof.
  induction n as [|n IH]; intros l a r H; cbn [take] in H.
  - inversion H; subst. split; reflexivity.
  - destruct l as [|x l]; [discriminate|].
    destruct (take n l) as [[a' r']|] eqn:E; [|discriminate].
    inversion H; subst. apply IH in E. destruct E as [E1 E2]. subst l.
    split; cbn; congruence.
Qed.

Lemma bytes_eqb_refl : forall a, bytes_eqb a a = true.
Proof. induction a as [|x a IH]; cbn; [reflexivity|]. now rewrite N.eqb_refl. Qed.

Lemma first_diff_none : forall a b off, first_diff a b off = None <-> a = b.
Proof.
  induction a as [|x a IH]; intros [|y b] off; cbn [first_diff]; split; intros H;
    try reflexivity; try discriminate.
  - destruct (N.eqb_spec x y) as [->|Hne]; [|discriminate]. f_equal. now apply (IH b (N.succ off)).
  - inversion H; subst. rewrite N.eqb_refl. now apply IH.
Qed.

(* ------------------------------------------------------------------------------------------- *)
(* readers on what the writer produces                                                           *)

Lemma read_buf_app : forall a r, read_buf (length a) (a ++ r) = Ok (a, r).
Proof. intros a r. unfold read_buf. now rewrite take_app. Qed.

Lemma read_le_app : forall n x r, x < 256 ^ N.of_nat n ->
  read_le n (le_bytes n x ++ r) = Ok (x, r).
Proof.
  intros n x r Hx. unfold read_le.
  rewrite <- (le_bytes_length n x) at 1. rewrite read_buf_app.
  cbn [bind fst snd]. now rewrite le_num_le_bytes.
Qed.

Lemma read_nodes_app : forall ch r, Forall (fun n => length n = 32%nat) ch ->
  read_nodes (length ch) (concat ch ++ r) = Ok (ch, r).
Proof.
  induction ch as [|n ch IH]; intros r H; cbn [length read_nodes concat].
  - reflexivity.
  - inversion H as [|? ? Hn Hch]; subst.
    rewrite <- app_assoc. rewrite <- Hn. rewrite read_buf_app.
    cbn [bind fst snd]. rewrite IH by assumption. reflexivity.
Qed.

Lemma read_entry_end : forall r, read_entry (TAG_END :: r) = Ok (None, r).
Proof. reflexivity. Qed.

Lemma read_entry_enc : forall e r, wf_entry e -> read_entry (enc_entry e ++ r) = Ok (Some e, r).
Proof.
  intros [b | id d ch el b] r Hwf; cbn [wf_entry] in Hwf.
  - cbn [enc_entry app]. unfold read_entry. cbn [read_byte bind fst snd].
    change (TAG_CLEAR =? TAG_END) with false. change (TAG_CLEAR =? TAG_CLEAR) with true. cbv iota.
    rewrite read_le_app by (exact Hwf). reflexivity.
  - destruct Hwf as (Hid & Hd & Hv & Hch & Hn & Hel & Hb).
    cbn [enc_entry app]. unfold read_entry. cbn [read_byte bind fst snd].
    change (TAG_UPDATE =? TAG_END) with false. change (TAG_UPDATE =? TAG_CLEAR) with false.
    change (TAG_UPDATE =? TAG_UPDATE) with true. cbv iota.
    rewrite <- !app_assoc.
    rewrite <- Hid at 1. rewrite read_buf_app. cbn [bind fst snd].
    rewrite <- Hd at 1. rewrite read_buf_app. cbn [bind fst snd].
    rewrite Hv. rewrite <- Hch. rewrite read_nodes_app by assumption. cbn [bind fst snd].
    rewrite read_le_app by (exact Hel). cbn [bind fst snd].
    rewrite read_le_app by (exact Hb). reflexivity.
Qed.

Lemma enc_body_length : forall es t, (length es + length t <= length (enc_body es t))%nat.
Proof.
  induction es as [|e es IH]; intros t; cbn [enc_body fold_right length].
  - lia.
  - rewrite app_length. fold (enc_body es t). specialize (IH t).
    assert (1 <= length (enc_entry e))%nat by (destruct e; cbn; lia). lia.
Qed.

Lemma read_entries_enc : forall es fuel t, wf_entries es -> (length es < length fuel)%nat ->
  read_entries fuel (enc_body es (TAG_END :: t)) = Ok es.
Proof.
  induction es as [|e es IH]; intros fuel t Hwf Hf.
  - destruct fuel as [|x f]; [cbn in Hf; lia|]. reflexivity.
  - destruct fuel as [|x f]; [cbn in Hf; lia|].
    inversion Hwf as [|? ? He Hes]; subst.
    cbn [enc_body fold_right read_entries]. fold (enc_body es (TAG_END :: t)).
    rewrite read_entry_enc by assumption. cbn [bind fst snd].
    rewrite IH; [reflexivity | assumption | cbn in Hf; lia].
Qed.

(* lengths: the blob is a whole number of pages *)

Lemma fold_len_concat : forall ch a,
  fold_left (fun acc n => acc + lenN n) ch a = a + N.of_nat (length (concat ch)).
Proof.
  induction ch as [|n ch IH]; intros a; cbn [fold_left concat length].
  - lia.
  - rewrite IH, app_length, lenN_length. lia.
Qed.

Lemma entry_len_spec : forall e, entry_len e = N.of_nat (length (enc_entry e)).
Proof.
  intros [b | id d ch el b]; cbn [entry_len enc_entry length].
  - rewrite le_bytes_length. reflexivity.
  - rewrite !app_length, !le_bytes_length, fold_len_concat, !lenN_length. lia.
Qed.

Lemma enc_body_app_length : forall es t,
  length (enc_body es t) = (length (enc_body es []) + length t)%nat.
Proof.
  induction es as [|e es IH]; intros t; cbn [enc_body fold_right].
  - reflexivity.
  - fold (enc_body es t). fold (enc_body es []). rewrite !app_length, IH. lia.
Qed.

Lemma fold_blob_len : forall es a,
  fold_left (fun acc e => acc + entry_len e) es a = a + N.of_nat (length (enc_body es [])).
Proof.
  induction es as [|e es IH]; intros a; cbn [fold_left enc_body fold_right length].
  - lia.
  - fold (enc_body es []). rewrite IH, app_length, entry_len_spec. lia.
Qed.

Lemma pad_len_spec : forall len, (len + pad_len len) mod PAGE_SIZE = 0.
Proof.
  intros len. unfold pad_len, PAGE_SIZE.
  pose proof (N.div_mod len 4096 ltac:(lia)) as Hd.
  pose proof (N.mod_lt len 4096 ltac:(lia)) as Hr.
  remember (len / 4096) as q eqn:Eq. remember (len mod 4096) as r eqn:Er. clear Eq.
  destruct (N.eq_dec r 0) as [E|E].
  - rewrite E. change ((4096 - 0) mod 4096) with 0. rewrite N.add_0_r. congruence.
  - rewrite (N.mod_small (4096 - r)) by lia.
    replace (len + (4096 - r)) with ((q + 1) * 4096) by lia.
    apply N.mod_mul. lia.
Qed.

Lemma encode_length : forall s es,
  N.of_nat (length (encode s es)) = blob_len es + pad_len (blob_len es).
Proof.
  intros s es. unfold encode, blob_len.
  cbn [length]. rewrite app_length, le_bytes_length, enc_body_app_length.
  cbn [length]. rewrite repeat_length, fold_blob_len. lia.
Qed.

(* ------------------------------------------------------------------------------------------- *)
(* round trip                                                                                    *)

Theorem decode_encode : forall s es, s < 2 ^ 32 -> wf_entries es ->
  decode (encode s es) = Ok (s, es).
Proof.
  intros s es Hs Hwf. unfold decode.
  rewrite lenN_length, encode_length, pad_len_spec. cbn [N.eqb].
  unfold encode. cbn [read_byte bind fst snd].
  change (TAG_START =? TAG_START) with true. cbv iota.
  rewrite read_le_app by (exact Hs). cbn [bind fst snd].
  rewrite read_entries_enc; [reflexivity | assumption |].
  cbn [length]. pose proof (enc_body_length es (TAG_END :: repeat 0 (N.to_nat (pad_len (blob_len es))))). lia.
Qed.

(* the codec is injective on well-formed input *)
Corollary encode_inj : forall s1 s2 es1 es2,
  s1 < 2 ^ 32 -> s2 < 2 ^ 32 -> wf_entries es1 -> wf_entries es2 ->
  encode s1 es1 = encode s2 es2 -> s1 = s2 /\ es1 = es2.
Proof.
  intros s1 s2 es1 es2 H1 H2 W1 W2 E.
  pose proof (decode_encode s1 es1 H1 W1) as D1. rewrite E, decode_encode in D1 by assumption.
  inversion D1. split; reflexivity.
Qed.

(* ------------------------------------------------------------------------------------------- *)
(* the decoder is total: it answers Ok or Err on every input, never Panic, and the fuel of the   *)
(* entry loop never runs out                                                                     *)

Lemma bind_no_panic : forall (E A B : Type) (r : res E A) (f : A -> res E B),
  r <> Panic -> (forall a, f a <> Panic) -> bind r f <> Panic.
Proof. intros E A B [a|e|] f Hr Hf; cbn [bind]; [apply Hf | discriminate | congruence]. Qed.

Lemma read_byte_np : forall l, read_byte l <> Panic.
Proof. intros [|b r]; discriminate. Qed.

Lemma read_buf_np : forall n l, read_buf n l <> Panic.
Proof. intros n l. unfold read_buf. destruct (take n l); discriminate. Qed.

Lemma read_le_np : forall n l, read_le n l <> Panic.
Proof. intros n l. unfold read_le. apply bind_no_panic; [apply read_buf_np | discriminate]. Qed.

Lemma read_nodes_np : forall k l, read_nodes k l <> Panic.
Proof.
  induction k as [|k IH]; intros l; cbn [read_nodes]; [discriminate|].
  apply bind_no_panic; [apply read_buf_np|]. intros p.
  apply bind_no_panic; [apply IH | discriminate].
Qed.

Lemma read_entry_np : forall l, read_entry l <> Panic.
Proof.
  intros l. unfold read_entry. apply bind_no_panic; [apply read_byte_np|]. intros t.
  destruct (fst t =? TAG_END); [discriminate|].
  destruct (fst t =? TAG_CLEAR).
  { apply bind_no_panic; [apply read_le_np | discriminate]. }
  destruct (fst t =? TAG_UPDATE); [|discriminate].
  apply bind_no_panic; [apply read_buf_np|]. intros id.
  apply bind_no_panic; [apply read_buf_np|]. intros d.
  destruct (diff_valid (fst d)); [|discriminate].
  apply bind_no_panic; [apply read_nodes_np|]. intros ch.
  apply bind_no_panic; [apply read_le_np|]. intros el.
  apply bind_no_panic; [apply read_le_np | discriminate].
Qed.

Lemma read_entries_np : forall fuel l, read_entries fuel l <> Panic.
Proof.
  induction fuel as [|x f IH]; intros l; cbn [read_entries]; [discriminate|].
  apply bind_no_panic; [apply read_entry_np|]. intros p.
  destruct (fst p); [|discriminate].
  apply bind_no_panic; [apply IH | discriminate].
Qed.

Theorem decode_total : forall bytes, decode bytes <> Panic.
Proof.
  intros bytes. unfold decode. destruct (lenN bytes mod PAGE_SIZE =? 0); [|discriminate].
  apply bind_no_panic; [apply read_byte_np|]. intros t.
  destruct (fst t =? TAG_START); [|discriminate].
  apply bind_no_panic; [apply read_le_np|]. intros s.
  apply bind_no_panic; [apply read_entries_np | discriminate].
Qed.

(* inversion of bind *)
Lemma bind_ok : forall (E A B : Type) (r : res E A) (f : A -> res E B) b,
  bind r f = Ok b -> exists a, r = Ok a /\ f a = Ok b.
Proof. intros E A B [a|e|] f b H; cbn [bind] in H; [eauto | discriminate | discriminate]. Qed.

(* consumption: every reader returns a suffix of its input *)
Lemma read_buf_ok : forall n l a r, read_buf n l = Ok (a, r) -> l = a ++ r /\ length a = n.
Proof.
  intros n l a r H. unfold read_buf in H. destruct (take n l) as [[a' r']|] eqn:E; [|discriminate].
  inversion H; subst. now apply take_some.
Qed.

Lemma read_le_ok : forall n l x r, read_le n l = Ok (x, r) -> length l = (n + length r)%nat.
Proof.
  intros n l x r H. unfold read_le in H. apply bind_ok in H. destruct H as ([a r'] & H1 & H2).
  cbn [fst snd] in H2. inversion H2; subst. apply read_buf_ok in H1. destruct H1 as [-> H1].
  rewrite app_length. lia.
Qed.

Lemma read_nodes_ok : forall k l ch r, read_nodes k l = Ok (ch, r) ->
  l = concat ch ++ r /\ length ch = k /\ Forall (fun n => length n = 32%nat) ch.
Proof.
  induction k as [|k IH]; intros l ch r H; cbn [read_nodes] in H.
  - inversion H; subst. repeat split. constructor.
  - apply bind_ok in H. destruct H as ([n r1] & H1 & H). cbn [fst snd] in H.
    apply bind_ok in H. destruct H as ([ns r2] & H2 & H). cbn [fst snd] in H.
    inversion H; subst. apply read_buf_ok in H1. destruct H1 as [-> Hn].
    apply IH in H2. destruct H2 as (-> & Hk & Hf).
    cbn [concat length]. rewrite <- app_assoc. repeat split; [congruence|]. now constructor.
Qed.

(* shape of what the reader returns (the byte lengths [bitbox::recover] relies on; in particular
   its "mismatched number of changed nodes" bail-out is unreachable) *)
Definition shape_entry (e : wal_entry) : Prop :=
  match e with
  | WClear _ => True
  | WUpdate id d ch _ _ =>
      length id = 32%nat /\ length d = 16%nat /\ diff_valid d = true /\
      length ch = popcount d /\ Forall (fun n => length n = 32%nat) ch
  end.

Lemma read_entry_ok : forall l o r, read_entry l = Ok (o, r) ->
  (length r < length l)%nat /\ match o with Some e => shape_entry e | None => True end.
Proof.
  intros l o r H. unfold read_entry in H.
  apply bind_ok in H. destruct H as ([tag r0] & H0 & H). cbn [fst snd] in H.
  destruct l as [|b l']; [discriminate|]. inversion H0; subst.
  destruct (tag =? TAG_END).
  { inversion H; subst. cbn [length]. split; [lia | exact I]. }
  destruct (tag =? TAG_CLEAR).
  { apply bind_ok in H. destruct H as ([x r1] & H1 & H). cbn [fst snd] in H. inversion H; subst.
    apply read_le_ok in H1. cbn [length]. split; [lia | exact I]. }
  destruct (tag =? TAG_UPDATE); [|discriminate].
  apply bind_ok in H. destruct H as ([id r1] & H1 & H). cbn [fst snd] in H.
  apply bind_ok in H. destruct H as ([d r2] & H2 & H). cbn [fst snd] in H.
  destruct (diff_valid d) eqn:Hv; [|discriminate].
  apply bind_ok in H. destruct H as ([ch r3] & H3 & H). cbn [fst snd] in H.
  apply bind_ok in H. destruct H as ([el r4] & H4 & H). cbn [fst snd] in H.
  apply bind_ok in H. destruct H as ([bk r5] & H5 & H). cbn [fst snd] in H.
  inversion H; subst.
  apply read_buf_ok in H1. destruct H1 as [-> Hid].
  apply read_buf_ok in H2. destruct H2 as [-> Hd].
  apply read_nodes_ok in H3. destruct H3 as (-> & Hk & Hf).
  apply read_le_ok in H4. apply read_le_ok in H5.
  split.
  - cbn [length]. rewrite !app_length. lia.
  - cbn [shape_entry]. repeat split; assumption.
Qed.

(* with fuel longer than the input the result does not depend on the fuel: it never runs out *)
Theorem read_entries_fuel : forall f1 f2 l,
  (length l < length f1)%nat -> (length l < length f2)%nat ->
  read_entries f1 l = read_entries f2 l.
Proof.
  induction f1 as [|x f1 IH]; intros f2 l H1 H2; [cbn in H1; lia|].
  destruct f2 as [|y f2]; [cbn in H2; lia|].
  cbn [read_entries]. destruct (read_entry l) as [[o r]|e|] eqn:E; cbn [bind fst snd]; try reflexivity.
  destruct o as [e|]; [|reflexivity].
  apply read_entry_ok in E. destruct E as [E _]. cbn [length] in H1, H2.
  rewrite (IH f2 r); [reflexivity | lia | lia].
Qed.

Lemma read_entries_shape : forall fuel l es, read_entries fuel l = Ok es -> Forall shape_entry es.
Proof.
  induction fuel as [|x f IH]; intros l es H; cbn [read_entries] in H; [discriminate|].
  apply bind_ok in H. destruct H as ([o r] & H1 & H). cbn [fst snd] in H.
  destruct o as [e|].
  - apply bind_ok in H. destruct H as (es' & H2 & H). inversion H; subst.
    apply read_entry_ok in H1. destruct H1 as [_ H1]. constructor; [exact H1 | eapply IH; eassumption].
  - inversion H; subst. constructor.
Qed.

Theorem decode_shape : forall bytes s es, decode bytes = Ok (s, es) -> Forall shape_entry es.
Proof.
  intros bytes s es H. unfold decode in H.
  destruct (lenN bytes mod PAGE_SIZE =? 0); [|discriminate].
  apply bind_ok in H. destruct H as (t & _ & H).
  destruct (fst t =? TAG_START); [|discriminate].
  apply bind_ok in H. destruct H as (sq & _ & H).
  apply bind_ok in H. destruct H as (es' & H1 & H). inversion H; subst.
  eapply read_entries_shape; eassumption.
Qed.

(* ------------------------------------------------------------------------------------------- *)
(* pages: every page transformation of the redo is a constant overwrite of fixed byte positions *)

Local Close Scope N_scope.
Local Open Scope nat_scope.

(* q is p with the bytes at the positions where W is defined replaced by W's constants *)
Definition patched (W : nat -> option N) (p q : list N) : Prop :=
  length q = length p /\
  forall i, i < length p -> nth i q 0%N = match W i with Some c => c | None => nth i p 0%N end.

Definition patch_seq (W1 W2 : nat -> option N) : nat -> option N :=
  fun i => match W2 i with Some c => Some c | None => W1 i end.

Lemma patched_seq : forall W1 W2 p q r, patched W1 p q -> patched W2 q r -> patched (patch_seq W1 W2) p r.
Proof.
  intros W1 W2 p q r [L1 H1] [L2 H2]. split; [congruence|].
  intros i Hi. unfold patch_seq. rewrite H2 by lia. destruct (W2 i); [reflexivity|]. now apply H1.
Qed.

Lemma patched_det : forall W p q q', patched W p q -> patched W p q' -> q = q'.
Proof.
  intros W p q q' [L1 H1] [L2 H2]. apply (nth_ext q q' 0%N 0%N); [congruence|].
  intros i Hi. rewrite H1, H2 by lia. reflexivity.
Qed.

Lemma patched_idem : forall W p q r, patched W p q -> patched W q r -> r = q.
Proof.
  intros W p q r [L1 H1] [L2 H2]. apply (nth_ext r q 0%N 0%N); [congruence|].
  intros i Hi. rewrite H2 by lia. destruct (W i) eqn:E.
  - rewrite H1 by lia. now rewrite E.
  - reflexivity.
Qed.

(* if an overwrite makes two pages equal, it still does after any other overwrite of both *)
Lemma patched_absorb : forall Wf Wg p1 p2 a q1 q2 b1 b2,
  length p1 = length p2 ->
  patched Wf p1 a -> patched Wf p2 a ->
  patched Wg p1 q1 -> patched Wg p2 q2 ->
  patched Wf q1 b1 -> patched Wf q2 b2 -> b1 = b2.
Proof.
  intros Wf Wg p1 p2 a q1 q2 b1 b2 L [La1 Ha1] [La2 Ha2] [Lq1 Hq1] [Lq2 Hq2] [Lb1 Hb1] [Lb2 Hb2].
  apply (nth_ext b1 b2 0%N 0%N); [congruence|].
  intros i Hi. rewrite Hb1, Hb2 by lia. destruct (Wf i) eqn:E; [reflexivity|].
  rewrite Hq1, Hq2 by lia. destruct (Wg i); [reflexivity|].
  specialize (Ha1 i ltac:(lia)). specialize (Ha2 i ltac:(lia)). rewrite E in Ha1, Ha2. congruence.
Qed.

Lemma nth_firstn_lt : forall (l : list N) k i, i < k -> nth i (firstn k l) 0%N = nth i l 0%N.
Proof.
  induction l as [|x l IH]; intros k i H.
  - rewrite firstn_nil. reflexivity.
  - destruct k as [|k]; [lia|]. destruct i as [|i]; cbn [firstn nth]; [reflexivity|]. apply IH. lia.
Qed.

Lemma nth_skipn_add : forall (l : list N) k i, nth i (skipn k l) 0%N = nth (k + i) l 0%N.
Proof.
  induction l as [|x l IH]; intros k i.
  - rewrite skipn_nil. destruct i, k; reflexivity.
  - destruct k as [|k]; cbn [skipn Nat.add nth]; [reflexivity|]. apply IH.
Qed.

(* the positions [unpack] writes and what it writes there *)
Fixpoint unpack_W (bits : list bool) (nodes : list (list N)) (i : nat) : option N :=
  match bits with
  | [] => None
  | b :: bs =>
      if b then
        match nodes with
        | n :: ns => if i <? 32 then Some (nth i n 0%N) else unpack_W bs ns (i - 32)
        | [] => None
        end
      else if i <? 32 then None else unpack_W bs nodes (i - 32)
  end.

Lemma unpack_patched : forall bits nodes p,
  Forall (fun n => length n = 32) nodes -> 32 * length bits <= length p ->
  patched (unpack_W bits nodes) p (unpack bits nodes p).
Proof.
  induction bits as [|b bs IH]; intros nodes p Hn Hl.
  - cbn [unpack unpack_W]. split; [reflexivity|]. intros i _. reflexivity.
  - cbn [length] in Hl. cbn [unpack unpack_W]. destruct b.
    + destruct nodes as [|n ns].
      * split; [reflexivity|]. intros i _. reflexivity.
      * inversion Hn as [|? ? Hn1 Hns]; subst.
        destruct (IH ns (skipn 32 p) Hns) as [L H]; [rewrite skipn_length; lia|].
        rewrite skipn_length in L, H. split.
        { rewrite app_length. lia. }
        intros i Hi. destruct (Nat.ltb_spec i 32) as [Hlt|Hge].
        { rewrite app_nth1 by lia. reflexivity. }
        rewrite app_nth2 by lia. rewrite Hn1. rewrite H by lia.
        destruct (unpack_W bs ns (i - 32)); [reflexivity|].
        rewrite nth_skipn_add. f_equal. lia.
    + destruct (IH nodes (skipn 32 p) Hn) as [L H]; [rewrite skipn_length; lia|].
      rewrite skipn_length in L, H.
      assert (Hf : length (firstn 32 p) = 32) by (apply firstn_length_le; lia).
      split.
      { rewrite app_length. lia. }
      intros i Hi. destruct (Nat.ltb_spec i 32) as [Hlt|Hge].
      { rewrite app_nth1 by lia. now apply nth_firstn_lt. }
      rewrite app_nth2 by lia. rewrite Hf. rewrite H by lia.
      destruct (unpack_W bs nodes (i - 32)); [reflexivity|].
      rewrite nth_skipn_add. f_equal. lia.
Qed.

Lemma elided_off_spec : ELIDED_OFF + 40 = 4096.
Proof. reflexivity. Qed.

Definition label_W (id : list N) (el : N) (i : nat) : option N :=
  if i <? ELIDED_OFF then None else Some (nth (i - ELIDED_OFF) (le_bytes 8 el ++ id) 0%N).

Lemma label_patched : forall id el p, length id = 32 -> length p = 4096 ->
  patched (label_W id el) p (label_page id el p).
Proof.
  intros id el p Hid Hp. pose proof elided_off_spec as Ho. unfold label_page, label_W.
  assert (Hf : length (firstn ELIDED_OFF p) = ELIDED_OFF) by (apply firstn_length_le; lia).
  split.
  - rewrite !app_length, le_bytes_length. lia.
  - intros i Hi. destruct (Nat.ltb_spec i ELIDED_OFF) as [Hlt|Hge].
    + rewrite app_nth1 by lia. now apply nth_firstn_lt.
    + rewrite app_nth2 by lia. rewrite Hf. reflexivity.
Qed.

Lemma byte_bits_length : forall b, length (byte_bits b) = 8.
Proof. reflexivity. Qed.

Lemma diff_bits_length : forall d, length (diff_bits d) = 8 * length d.
Proof.
  induction d as [|b d IH]; cbn [diff_bits length]; [reflexivity|].
  rewrite app_length, byte_bits_length, IH. lia.
Qed.

(* an overwrite of 4096-byte pages *)
Definition ovw (f : list N -> list N) : Prop :=
  exists W, forall p, length p = 4096 -> patched W p (f p).

Lemma redo_page_ovw : forall id d ch el,
  length id = 32 -> length d = 16 -> Forall (fun n => length n = 32) ch ->
  ovw (redo_page id d ch el).
Proof.
  intros id d ch el Hid Hd Hch.
  exists (patch_seq (unpack_W (diff_bits d) ch) (label_W id el)). intros p Hp. unfold redo_page.
  assert (H1 : patched (unpack_W (diff_bits d) ch) p (unpack (diff_bits d) ch p)).
  { apply unpack_patched; [assumption|]. rewrite diff_bits_length. lia. }
  eapply patched_seq; [exact H1|].
  apply label_patched; [assumption|]. destruct H1 as [L _]. congruence.
Qed.

Lemma id_ovw : ovw (fun p => p).
Proof. exists (fun _ => None). intros p _. split; [reflexivity|]. intros i _. reflexivity. Qed.

Lemma ovw_length : forall f p, ovw f -> length p = 4096 -> length (f p) = 4096.
Proof. intros f p [W H] Hp. destruct (H p Hp) as [L _]. congruence. Qed.

Lemma ovw_idem : forall f p, ovw f -> length p = 4096 -> f (f p) = f p.
Proof.
  intros f p [W H] Hp. pose proof (H p Hp) as H1. destruct H1 as [L _].
  eapply patched_idem; [apply (H p Hp) | apply H; congruence].
Qed.

Lemma ovw_absorb : forall f g p1 p2, ovw f -> ovw g -> length p1 = 4096 -> length p2 = 4096 ->
  f p1 = f p2 -> f (g p1) = f (g p2).
Proof.
  intros f g p1 p2 [Wf Hf] [Wg Hg] H1 H2 E.
  pose proof (Hg p1 H1) as G1. pose proof (Hg p2 H2) as G2.
  assert (L1 : length (g p1) = 4096) by (destruct G1 as [L _]; congruence).
  assert (L2 : length (g p2) = 4096) by (destruct G2 as [L _]; congruence).
  eapply (patched_absorb Wf Wg p1 p2 (f p1) (g p1) (g p2)); try eauto; try congruence.
  rewrite E. apply Hf; assumption.
Qed.

(* ------------------------------------------------------------------------------------------- *)
(* the redo on hash tables                                                                       *)

(* the byte lengths are all the redo theorems need: they hold for what the writer is given
   ([wf_entries]) and for everything the reader returns ([decode_shape]) *)
Definition shaped (es : list wal_entry) : Prop := Forall shape_entry es.

Lemma wf_entry_shape : forall e, wf_entry e -> shape_entry e.
Proof.
  intros [b | id d ch el b] H; cbn [wf_entry shape_entry] in *; [exact I|].
  destruct H as (H1 & H2 & H3 & H4 & H5 & _). repeat split; assumption.
Qed.

Lemma wf_entries_shaped : forall es, wf_entries es -> shaped es.
Proof. intros es H. eapply Forall_impl; [|exact H]. exact wf_entry_shape. Qed.

Lemma decode_shaped : forall bytes s es, decode bytes = Ok (s, es) -> shaped es.
Proof. exact decode_shape. Qed.

Section Redo.
Variable tag_of : list N -> N.

Notation redo_entry := (redo_entry tag_of).
Notation redo := (redo tag_of).

(* what an entry does to the page and to the meta byte of ITS bucket; other buckets are untouched *)
Definition pg_tr (e : wal_entry) : list N -> list N :=
  match e with
  | WClear _ => fun p => p
  | WUpdate id d ch el _ => redo_page id d ch el
  end.

Definition mt_tr (e : wal_entry) : N :=
  match e with
  | WClear _ => META_TOMBSTONE
  | WUpdate id _ _ _ _ => full_entry (tag_of id)
  end.

Lemma redo_entry_meta : forall h e x,
  meta (redo_entry h e) x = if N.eqb x (entry_bucket e) then mt_tr e else meta h x.
Proof.
  intros h [b | id d ch el b] x; cbn [Wal.redo_entry meta entry_bucket mt_tr]; unfold upd.
  - reflexivity.
  - destruct (N.eqb_spec (meta h b) (full_entry (tag_of id))) as [E|E].
    + destruct (N.eqb_spec x b) as [->|]; [exact E | reflexivity].
    + reflexivity.
Qed.

Lemma redo_entry_page : forall h e x,
  page (redo_entry h e) x = if N.eqb x (entry_bucket e) then pg_tr e (page h x) else page h x.
Proof.
  intros h [b | id d ch el b] x; cbn [Wal.redo_entry page entry_bucket pg_tr]; unfold upd.
  - destruct (N.eqb x b); reflexivity.
  - destruct (N.eqb_spec x b) as [->|]; reflexivity.
Qed.

Lemma pg_tr_ovw : forall e, shape_entry e -> ovw (pg_tr e).
Proof.
  intros [b | id d ch el b] H; cbn [pg_tr].
  - apply id_ovw.
  - cbn [shape_entry] in H. destruct H as (Hid & Hd & _ & _ & Hn). now apply redo_page_ovw.
Qed.

(* ht_eq is an equivalence and the redo respects it *)
Lemma ht_eq_refl : forall h, ht_eq h h.
Proof. intros h b. split; reflexivity. Qed.

Lemma ht_eq_sym : forall h1 h2, ht_eq h1 h2 -> ht_eq h2 h1.
Proof. intros h1 h2 H b. destruct (H b). split; congruence. Qed.

Lemma ht_eq_trans : forall h1 h2 h3, ht_eq h1 h2 -> ht_eq h2 h3 -> ht_eq h1 h3.
Proof. intros h1 h2 h3 H1 H2 b. destruct (H1 b), (H2 b). split; congruence. Qed.

Lemma wf_ht_eq : forall h1 h2, ht_eq h1 h2 -> wf_ht h1 -> wf_ht h2.
Proof. intros h1 h2 H W b. destruct (H b) as [_ E]. rewrite <- E. apply W. Qed.

Lemma redo_entry_eq : forall h1 h2 e, ht_eq h1 h2 -> ht_eq (redo_entry h1 e) (redo_entry h2 e).
Proof.
  intros h1 h2 e H x. rewrite !redo_entry_meta, !redo_entry_page. destruct (H x) as [Hm Hp].
  destruct (N.eqb x (entry_bucket e)); split; congruence.
Qed.

Lemma redo_eq : forall es h1 h2, ht_eq h1 h2 -> ht_eq (redo h1 es) (redo h2 es).
Proof.
  induction es as [|e es IH]; intros h1 h2 H; cbn [Wal.redo fold_left]; [exact H|].
  apply IH. now apply redo_entry_eq.
Qed.

Lemma redo_cons : forall h e es, redo h (e :: es) = redo (redo_entry h e) es.
Proof. reflexivity. Qed.

Lemma redo_app : forall h es1 es2, redo h (es1 ++ es2) = redo (redo h es1) es2.
Proof. intros h es1 es2. unfold Wal.redo. apply fold_left_app. Qed.

(* pages stay 4096 bytes long *)
Lemma redo_entry_wf : forall h e, wf_ht h -> shape_entry e -> wf_ht (redo_entry h e).
Proof.
  intros h e Wh We x. rewrite redo_entry_page. destruct (N.eqb x (entry_bucket e)); [|apply Wh].
  apply ovw_length; [now apply pg_tr_ovw | apply Wh].
Qed.

Lemma redo_wf : forall es h, wf_ht h -> shaped es -> wf_ht (redo h es).
Proof.
  induction es as [|e es IH]; intros h Wh We; [exact Wh|].
  inversion We; subst. rewrite redo_cons. apply IH; [now apply redo_entry_wf | assumption].
Qed.

(* the redo is local: the new content of a bucket depends on the old content of that bucket only *)
Lemma redo_local_meta : forall es h1 h2 x, meta h1 x = meta h2 x -> meta (redo h1 es) x = meta (redo h2 es) x.
Proof.
  induction es as [|e es IH]; intros h1 h2 x H; [exact H|]. rewrite !redo_cons. apply IH.
  rewrite !redo_entry_meta. destruct (N.eqb x (entry_bucket e)); congruence.
Qed.

Lemma redo_local_page : forall es h1 h2 x, page h1 x = page h2 x -> page (redo h1 es) x = page (redo h2 es) x.
Proof.
  induction es as [|e es IH]; intros h1 h2 x H; [exact H|]. rewrite !redo_cons. apply IH.
  rewrite !redo_entry_page. destruct (N.eqb x (entry_bucket e)); congruence.
Qed.

(* one entry twice is one entry once *)
Lemma redo_entry_idem : forall h e, wf_ht h -> shape_entry e ->
  ht_eq (redo_entry (redo_entry h e) e) (redo_entry h e).
Proof.
  intros h e Wh We x. rewrite !redo_entry_meta, !redo_entry_page.
  destruct (N.eqb x (entry_bucket e)); split; try reflexivity.
  apply ovw_idem; [now apply pg_tr_ovw | apply Wh].
Qed.

(* if entry e makes two tables equal it still does after any other entry was applied to both *)
Lemma redo_entry_absorb : forall h1 h2 e e1, wf_ht h1 -> wf_ht h2 -> shape_entry e -> shape_entry e1 ->
  ht_eq (redo_entry h1 e) (redo_entry h2 e) ->
  ht_eq (redo_entry (redo_entry h1 e1) e) (redo_entry (redo_entry h2 e1) e).
Proof.
  intros h1 h2 e e1 W1 W2 We We1 H x. specialize (H x).
  rewrite !redo_entry_meta, !redo_entry_page in *.
  destruct (N.eqb x (entry_bucket e)); destruct H as [Hm Hp].
  - split; [reflexivity|]. destruct (N.eqb x (entry_bucket e1)); [|exact Hp].
    apply ovw_absorb; try (now apply pg_tr_ovw); auto.
  - destruct (N.eqb x (entry_bucket e1)); split; congruence.
Qed.

(* an entry of the log that makes two tables equal makes the whole log agree on them *)
Lemma redo_member_eq : forall es e h1 h2, In e es -> shaped es -> wf_ht h1 -> wf_ht h2 ->
  ht_eq (redo_entry h1 e) (redo_entry h2 e) -> ht_eq (redo h1 es) (redo h2 es).
Proof.
  induction es as [|e1 es IH]; intros e h1 h2 Hin We W1 W2 H; [destruct Hin|].
  inversion We as [|? ? We1 Wes]; subst. rewrite !redo_cons. destruct Hin as [->|Hin].
  - now apply redo_eq.
  - assert (Wee : shape_entry e) by (eapply Forall_forall; eassumption).
    apply (IH e); try assumption; try (now apply redo_entry_wf).
    now apply redo_entry_absorb.
Qed.

(* an entry of the log that was already applied is absorbed *)
Lemma redo_absorbs_entry : forall es e h, In e es -> shaped es -> wf_ht h ->
  ht_eq (redo (redo_entry h e) es) (redo h es).
Proof.
  intros es e h Hin We Wh.
  assert (Wee : shape_entry e) by (eapply Forall_forall; eassumption).
  apply (redo_member_eq es e); try assumption; [now apply redo_entry_wf|].
  now apply redo_entry_idem.
Qed.

(* ... and so is any sequence of entries of the log, in any order, with repetitions *)
Theorem redo_absorbs_incl : forall es1 es h, incl es1 es -> shaped es -> wf_ht h ->
  ht_eq (redo (redo h es1) es) (redo h es).
Proof.
  induction es1 as [|e es1 IH]; intros es h Hi We Wh; [apply ht_eq_refl|].
  rewrite redo_cons.
  assert (Hin : In e es) by (apply Hi; now left).
  assert (Wee : shape_entry e) by (eapply Forall_forall; eassumption).
  eapply ht_eq_trans.
  - apply IH; [intros y Hy; apply Hi; now right | assumption | now apply redo_entry_wf].
  - now apply redo_absorbs_entry.
Qed.

(* re-applying a WAL to a table that already contains its effects *)
Theorem redo_idempotent : forall es h, shaped es -> wf_ht h ->
  ht_eq (redo (redo h es) es) (redo h es).
Proof. intros es h We Wh. apply redo_absorbs_incl; [apply incl_refl | assumption | assumption]. Qed.

(* ... or only a prefix of its effects (recovery interrupted and started again) *)
Theorem redo_absorbs_partial : forall es1 es2 h, shaped (es1 ++ es2) -> wf_ht h ->
  ht_eq (redo (redo h es1) (es1 ++ es2)) (redo h (es1 ++ es2)).
Proof. intros es1 es2 h We Wh. apply redo_absorbs_incl; [apply incl_appl, incl_refl | assumption | assumption]. Qed.

(* The statement the crash argument needs.  After the manifest is durable the sync writes the final
   bucket pages and meta bytes to the ht file; a crash leaves an ARBITRARY SUBSET of them written
   (each one old or final).  [selm] / [selp] say which meta bytes / bucket pages reached the file.
   Redoing the WAL on that table gives the table of the completed sync.

   No side condition on the buckets is needed: the log may mention a bucket several times and may
   mix CLEAR and UPDATE entries for it, because every entry is a constant overwrite of fixed byte
   positions (lemmas [redo_page_ovw], [ovw_idem], [ovw_absorb]).  What IS needed is that pages are
   4096 bytes long and entries have the byte lengths the reader guarantees ([decode_shape]). *)
Definition torn_table (h hF : ht) (selm selp : N -> bool) : ht :=
  mkHt (fun b => if selm b then meta hF b else meta h b)
       (fun b => if selp b then page hF b else page h b).

Theorem redo_after_any_subset : forall es h selm selp, shaped es -> wf_ht h ->
  ht_eq (redo (torn_table h (redo h es) selm selp) es) (redo h es).
Proof.
  intros es h selm selp We Wh x.
  pose proof (redo_idempotent es h We Wh x) as [Im Ip].
  split.
  - destruct (selm x) eqn:S.
    + rewrite <- Im. apply redo_local_meta. cbn [torn_table meta]. now rewrite S.
    + apply redo_local_meta. cbn [torn_table meta]. now rewrite S.
  - destruct (selp x) eqn:S.
    + rewrite <- Ip. apply redo_local_page. cbn [torn_table page]. now rewrite S.
    + apply redo_local_page. cbn [torn_table page]. now rewrite S.
Qed.

(* The general form: the table was reached from [h] by ANY interleaving of (a) applying entries of
   the log, in any order and any number of times (an interrupted earlier recovery), (b) final pages
   and (c) final meta bytes of the completed sync reaching the file. *)
Inductive torn (es : list wal_entry) (h : ht) : ht -> Prop :=
| torn_start : forall h', ht_eq h' h -> torn es h h'
| torn_entry : forall h' e, torn es h h' -> In e es -> torn es h (redo_entry h' e)
| torn_page : forall h' b, torn es h h' ->
    torn es h (mkHt (meta h') (upd (page h') b (page (redo h es) b)))
| torn_meta : forall h' b, torn es h h' ->
    torn es h (mkHt (upd (meta h') b (meta (redo h es) b)) (page h')).

Theorem redo_after_torn : forall es h h', shaped es -> wf_ht h -> torn es h h' ->
  ht_eq (redo h' es) (redo h es).
Proof.
  intros es h h' We Wh T.
  assert (G : wf_ht h' /\ ht_eq (redo h' es) (redo h es)); [|exact (proj2 G)].
  induction T as [h' E | h' e T [Wh' IH] Hin | h' b T [Wh' IH] | h' b T [Wh' IH]].
  - split; [apply (wf_ht_eq h h'); [now apply ht_eq_sym | assumption] | now apply redo_eq].
  - assert (Wee : shape_entry e) by (eapply Forall_forall; eassumption).
    split; [now apply redo_entry_wf|].
    eapply ht_eq_trans; [now apply redo_absorbs_entry | exact IH].
  - split.
    + intros x. cbn [page]. unfold upd. destruct (N.eqb x b); [|apply Wh']. now apply redo_wf.
    + intros x. pose proof (redo_idempotent es h We Wh x) as [_ Ip]. destruct (IH x) as [IHm IHp]. split.
      * rewrite <- IHm. apply redo_local_meta. reflexivity.
      * destruct (N.eqb_spec x b) as [->|Hne].
        { rewrite <- Ip. apply redo_local_page. cbn [page]. unfold upd. now rewrite N.eqb_refl. }
        rewrite <- IHp. apply redo_local_page. cbn [page]. unfold upd.
        destruct (N.eqb_spec x b); [contradiction | reflexivity].
  - split.
    + intros x. cbn [page]. apply Wh'.
    + intros x. pose proof (redo_idempotent es h We Wh x) as [Im _]. destruct (IH x) as [IHm IHp]. split.
      * destruct (N.eqb_spec x b) as [->|Hne].
        { rewrite <- Im. apply redo_local_meta. cbn [meta]. unfold upd. now rewrite N.eqb_refl. }
        rewrite <- IHm. apply redo_local_meta. cbn [meta]. unfold upd.
        destruct (N.eqb_spec x b); [contradiction | reflexivity].
      * rewrite <- IHp. apply redo_local_page. reflexivity.
Qed.

(* The same for ANY table [hF] of final pages that the redo leaves alone (in the real system the
   pages of the completed sync carry garbage in unreachable slots that the WAL does not describe, so
   they are a fixed point of the redo rather than its result on the old table; the walimg engine
   checks the fixed-point property byte for byte on the real files).  Unconditional. *)
Theorem redo_after_any_subset_gen : forall es h hF selm selp,
  ht_eq (redo hF es) hF ->
  ht_eq (redo (torn_table h hF selm selp) es) (torn_table (redo h es) hF selm selp).
Proof.
  intros es h hF selm selp Fix x. destruct (Fix x) as [Fm Fp]. cbn [torn_table meta page]. split.
  - destruct (selm x) eqn:S.
    + rewrite <- Fm. apply redo_local_meta. cbn [torn_table meta]. now rewrite S.
    + apply redo_local_meta. cbn [torn_table meta]. now rewrite S.
  - destruct (selp x) eqn:S.
    + rewrite <- Fp. apply redo_local_page. cbn [torn_table page]. now rewrite S.
    + apply redo_local_page. cbn [torn_table page]. now rewrite S.
Qed.

(* the driver's exact comparison is sound: no reported difference means the redone table and the
   reference agree on the bucket *)
Lemma cmp_exact_spec : forall h ref es c, In c (redo_compare tag_of h ref es) -> cmp_exact c = true ->
  meta (redo h es) (c_bucket c) = meta ref (c_bucket c) /\
  page (redo h es) (c_bucket c) = page ref (c_bucket c).
Proof.
  intros h ref es c Hin Hok. unfold redo_compare in Hin. apply in_map_iff in Hin.
  destruct Hin as (b & <- & _). unfold cmp_exact in Hok. cbn [c_bucket c_meta_got c_meta_want c_page_diff] in *.
  apply andb_true_iff in Hok. destruct Hok as [H1 H2]. split.
  - now apply N.eqb_eq.
  - destruct (first_diff (page (redo h es) b) (page ref b) 0%N) eqn:E; [discriminate|].
    now apply (first_diff_none _ _ 0%N).
Qed.

End Redo.

(* end to end: whatever blob the reader accepts, redoing it repairs any torn table, and redoing it
   again (a crash during recovery, before the WAL is truncated) changes nothing *)
Corollary recover_repairs : forall tag_of bytes s es h selm selp,
  decode bytes = Ok (s, es) -> wf_ht h ->
  ht_eq (redo tag_of (torn_table h (redo tag_of h es) selm selp) es) (redo tag_of h es) /\
  ht_eq (redo tag_of (redo tag_of h es) es) (redo tag_of h es).
Proof.
  intros tag_of bytes s es h selm selp D Wh. apply decode_shaped in D. split.
  - now apply redo_after_any_subset.
  - now apply redo_idempotent.
Qed.
