(* Mirror of the rollback log's in-memory logic (nomt/src/rollback/mod.rs): a commit records the
   prior value of every written key (ReverseDeltaBuilder::finalize), `truncate n` pops the n
   newest deltas into one map in which later insertions overwrite earlier ones - so the OLDEST
   prior of a key wins - and the result is applied as a batch of writes (Nomt::rollback). *)
From Nomt Require Import Base.

Definition delta := list (key * option value).     (* key -> prior value (None = was absent) *)

(* the priors of the keys a batch writes, taken from the state the session observed *)
Definition delta_of (S : kv) (W : list change) : delta :=
  map (fun c => (fst c, get S (fst c))) W.

(* BTreeMap::insert for every (key, prior) of the delta, in order *)
Fixpoint dm_insert (m : delta) (k : key) (v : option value) : delta :=
  match m with
  | [] => [(k, v)]
  | (k', v') :: m' =>
      if key_ltb k k' then (k, v) :: m
      else if key_eqb k k' then (k, v) :: m'
      else (k', v') :: dm_insert m' k v
  end.

Definition dm_extend (m : delta) (d : delta) : delta :=
  fold_left (fun acc e => dm_insert acc (fst e) (snd e)) d m.

(* Rollback::truncate: deltas are stored newest first; pop n of them, newest first *)
Definition traceback (ds : list delta) (n : nat) : delta :=
  fold_left dm_extend (firstn n ds) [].

(* Nomt::rollback applies the traceback as plain writes *)
Definition rollback_apply (S : kv) (ds : list delta) (n : nat) : kv := apply S (traceback ds n).

(* the log after a sequence of commits, newest first, together with the states *)
Fixpoint run_log (S : kv) (batches : list (list change)) (ds : list delta) : kv * list delta :=
  match batches with
  | [] => (S, ds)
  | W :: bs => run_log (apply S W) bs (delta_of S W :: ds)
  end.
