(* placeholder: being written *)
