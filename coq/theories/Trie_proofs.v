(* Proofs about the canonical trie: history independence of the root, agreement with the
   inductive rules of the specification, lookup semantics of the canonical path walk. *)
From Coq Require Import List Bool Arith NArith Lia Permutation.
From Nomt Require Import Base Hash Trie Base_proofs.
Import ListNotations.

(* keys are distinct and all of length n *)
Definition wf (n : nat) (S : kv) : Prop :=
  NoDup (map fst S) /\ forall k v, In (k, v) S -> length k = n.
(* all keys of S agree on their first d bits *)
Definition agree (d : nat) (S : kv) : Prop :=
  forall k v k' v', In (k, v) S -> In (k', v') S -> firstn d k = firstn d k'.

(* ---------- shape of mk ---------- *)

Lemma mk_nil : forall f d, mk f d [] = E.
Proof. intros [|f] d; reflexivity. Qed.

Lemma mk_single : forall f d k v, mk f d [(k, v)] = Lf k v.
Proof. intros [|f] d k v; reflexivity. Qed.

Lemma kv_cases : forall L : kv,
  L = [] \/ (exists k v, L = [(k, v)]) \/ 2 <= length L.
Proof.
  intros [|[k v] [|p L]].
  - left. reflexivity.
  - right. left. exists k, v. reflexivity.
  - right. right. cbn. lia.
Qed.

Lemma mk_ge2_0 : forall d L, 2 <= length L -> mk 0 d L = E.
Proof.
  intros d [|[k v] [|[k2 v2] L]] Hl; cbn in Hl; try lia. reflexivity.
Qed.

Lemma mk_ge2 : forall f d L, 2 <= length L ->
  mk (S f) d L = Br (mk f (S d) (side false d L)) (mk f (S d) (side true d L)).
Proof.
  intros f d [|[k v] [|[k2 v2] L]] Hl; cbn in Hl; try lia. reflexivity.
Qed.

(* ---------- permutation invariance ---------- *)

Lemma filter_perm : forall (A : Type) (f : A -> bool) l l',
  Permutation l l' -> Permutation (filter f l) (filter f l').
Proof.
  intros A f l l' HP. induction HP as [|x l l' HP IH|x y l|l l' l'' HP1 IH1 HP2 IH2]; cbn [filter].
  - constructor.
  - destruct (f x); [constructor|]; exact IH.
  - destruct (f x), (f y); try apply Permutation_refl. apply perm_swap.
  - eapply perm_trans; eassumption.
Qed.

Lemma mk_perm : forall fuel d S S', Permutation S S' -> mk fuel d S = mk fuel d S'.
Proof.
  induction fuel as [|f IH]; intros d L L' HP;
    destruct (kv_cases L) as [HL|[[k [v HL]]|HL]].
  - subst. apply Permutation_nil in HP. subst. reflexivity.
  - subst. apply Permutation_length_1_inv in HP. subst. reflexivity.
  - rewrite (mk_ge2_0 d L HL).
    rewrite (Permutation_length HP) in HL. rewrite (mk_ge2_0 d L' HL). reflexivity.
  - subst. apply Permutation_nil in HP. subst. reflexivity.
  - subst. apply Permutation_length_1_inv in HP. subst. reflexivity.
  - rewrite (mk_ge2 f d L HL).
    rewrite (Permutation_length HP) in HL. rewrite (mk_ge2 f d L' HL).
    f_equal; apply IH; apply filter_perm; exact HP.
Qed.

(* C02: the root is a function of the key/value SET: any two association lists holding the
   same pairs (whatever order / history produced them) have the same root, for any hasher *)
Theorem root_history_independent : forall (H : Hasher) n S S',
  NoDup (map fst S) -> NoDup (map fst S') -> (forall k, get S k = get S' k) ->
  root_n H n S = root_n H n S'.
Proof.
  intros H n L L' Hnd Hnd' Hg. unfold root_n. f_equal.
  apply mk_perm. apply NoDup_get_perm; assumption.
Qed.

(* ---------- facts about side ---------- *)

Lemma In_side : forall b d L k v,
  In (k, v) (side b d L) <-> In (k, v) L /\ bit k d = b.
Proof.
  intros b d L k v. unfold side. rewrite filter_In. cbn [fst].
  rewrite Bool.eqb_true_iff. tauto.
Qed.

Lemma NoDup_map_filter : forall (f : key * value -> bool) (L : kv),
  NoDup (map fst L) -> NoDup (map fst (filter f L)).
Proof.
  intros f. induction L as [|p L IH]; intros Hnd; cbn [filter map].
  - constructor.
  - cbn [map] in Hnd. inversion Hnd as [|x l Hnin Hnd']; subst.
    destruct (f p).
    + cbn [map]. constructor; [|apply IH; exact Hnd'].
      intros Hin. apply Hnin. apply in_map_iff in Hin.
      destruct Hin as [q [Hq Hin]]. apply filter_In in Hin. destruct Hin as [Hin _].
      apply in_map_iff. exists q. split; assumption.
    + apply IH. exact Hnd'.
Qed.

Lemma NoDup_side : forall b d L, NoDup (map fst L) -> NoDup (map fst (side b d L)).
Proof. intros b d L. unfold side. apply NoDup_map_filter. Qed.

Lemma firstn_S_bit : forall d (k : key), d < length k ->
  firstn (S d) k = firstn d k ++ [bit k d].
Proof.
  induction d as [|d IH]; intros [|x k] Hl; cbn [length] in Hl; try lia.
  - reflexivity.
  - change (firstn (S (S d)) (x :: k)) with (x :: firstn (S d) k).
    rewrite IH by lia. reflexivity.
Qed.

Lemma get_side : forall L k d, get (side (bit k d) d L) k = get L k.
Proof.
  intros L k d. unfold side.
  induction L as [|[k0 v0] L IH]; cbn [filter fst].
  - reflexivity.
  - destruct (Bool.eqb (bit k0 d) (bit k d)) eqn:E; cbn [get].
    + destruct (key_eqb k0 k); [reflexivity|exact IH].
    + destruct (key_eqb k0 k) eqn:E2; [|exact IH].
      apply key_eqb_true_iff in E2. subst. rewrite Bool.eqb_reflx in E. discriminate.
Qed.

Lemma agree_side : forall b d L,
  (forall k v, In (k, v) L -> d < length k) -> agree d L -> agree (S d) (side b d L).
Proof.
  intros b d L Hlen Hag k v k' v' Hin Hin'.
  apply In_side in Hin. destruct Hin as [Hin Hb].
  apply In_side in Hin'. destruct Hin' as [Hin' Hb'].
  rewrite (firstn_S_bit d k) by (eapply Hlen; exact Hin).
  rewrite (firstn_S_bit d k') by (eapply Hlen; exact Hin').
  rewrite Hb, Hb'. f_equal. eapply Hag; eassumption.
Qed.

(* two distinct keys of length d cannot agree on d bits: fuel never runs out *)
Lemma no_fuel0 : forall d (L : kv),
  NoDup (map fst L) -> (forall k v, In (k, v) L -> length k = d) -> agree d L ->
  2 <= length L -> False.
Proof.
  intros d [|[k1 v1] [|[k2 v2] L]] Hnd Hlen Hag Hl; cbn [length] in Hl; try lia.
  assert (H1 : In (k1, v1) ((k1, v1) :: (k2, v2) :: L)) by (left; reflexivity).
  assert (H2 : In (k2, v2) ((k1, v1) :: (k2, v2) :: L)) by (right; left; reflexivity).
  pose proof (Hag _ _ _ _ H1 H2) as Heq.
  rewrite <- (Hlen _ _ H1) in Heq at 1. rewrite <- (Hlen _ _ H2) in Heq.
  rewrite !firstn_all in Heq. subst k2.
  cbn [map fst] in Hnd. inversion Hnd as [|x l Hnin _]; subst.
  apply Hnin. left. reflexivity.
Qed.

(* ---------- the rules of docs/nomt_specification.md as an inductive predicate ---------- *)

Inductive canon : nat -> kv -> trie -> Prop :=
| canon_E : forall d, canon d [] E
| canon_L : forall d k v, canon d [(k, v)] (Lf k v)
| canon_B : forall d S l r, 2 <= length S ->
    canon (Datatypes.S d) (side false d S) l -> canon (Datatypes.S d) (side true d S) r ->
    canon d S (Br l r).

Lemma mk_canon_gen : forall f d (L : kv),
  NoDup (map fst L) -> (forall k v, In (k, v) L -> length k = d + f) -> agree d L ->
  canon d L (mk f d L).
Proof.
  induction f as [|f IH]; intros d L Hnd Hlen Hag;
    destruct (kv_cases L) as [HL|[[k [v HL]]|HL]].
  - subst. rewrite mk_nil. constructor.
  - subst. rewrite mk_single. constructor.
  - exfalso. apply (no_fuel0 d L); try assumption.
    intros k v Hin. rewrite (Hlen k v Hin). lia.
  - subst. rewrite mk_nil. constructor.
  - subst. rewrite mk_single. constructor.
  - rewrite (mk_ge2 f d L HL).
    assert (Hlt : forall k v, In (k, v) L -> d < length k).
    { intros k v Hin. rewrite (Hlen k v Hin). lia. }
    apply canon_B; [exact HL| |].
    + apply IH.
      * apply NoDup_side. exact Hnd.
      * intros k v Hin. apply In_side in Hin. destruct Hin as [Hin _].
        rewrite (Hlen k v Hin). lia.
      * apply agree_side; assumption.
    + apply IH.
      * apply NoDup_side. exact Hnd.
      * intros k v Hin. apply In_side in Hin. destruct Hin as [Hin _].
        rewrite (Hlen k v Hin). lia.
      * apply agree_side; assumption.
Qed.

Theorem mk_canon : forall n d S, wf n S -> agree d S -> d <= n -> canon d S (mk (n - d) d S).
Proof.
  intros n d L [Hnd Hlen] Hag Hle. apply mk_canon_gen; try assumption.
  intros k v Hin. rewrite (Hlen k v Hin). lia.
Qed.

Theorem canon_unique : forall d S t t', canon d S t -> canon d S t' -> t = t'.
Proof.
  intros d L t t' Hc. revert t'.
  induction Hc as [d|d k v|d L l r Hlen Hl IHl Hr IHr]; intros t' Hc';
    inversion Hc' as [d'|d' k' v'|d' L' l' r' Hlen' Hl' Hr']; subst;
    try reflexivity; try (cbn [length] in *; lia).
  f_equal; [apply IHl|apply IHr]; assumption.
Qed.

Corollary root_canonical : forall n S, wf n S -> canon 0 S (mk n 0 S).
Proof.
  intros n L Hwf.
  pose proof (mk_canon n 0 L Hwf) as Hc. rewrite Nat.sub_0_r in Hc.
  apply Hc; [|lia].
  intros k v k' v' _ _. reflexivity.
Qed.

(* ---------- lookup semantics of the canonical trie ---------- *)

Lemma walk_mk_step : forall (H : Hasher) f d (L : kv) k, 2 <= length L ->
  walk H (mk (S f) d L) k d =
  let '(s, tm) := walk H (mk f (S d) (side (bit k d) d L)) k (S d) in
  (hash H (mk f (S d) (side (negb (bit k d)) d L)) :: s, tm).
Proof.
  intros H f d L k HL. rewrite (mk_ge2 f d L HL). cbn [walk].
  destruct (bit k d); reflexivity.
Qed.

Lemma mk_walk_gen : forall (H : Hasher) f d (L : kv) k sibs tm,
  NoDup (map fst L) ->
  (forall k' v', In (k', v') L -> length k' = d + f) ->
  (forall k' v', In (k', v') L -> firstn d k' = firstn d k) ->
  length k = d + f ->
  walk H (mk f d L) k d = (sibs, tm) ->
  length sibs <= f /\
  match tm with
  | TLeaf k' v' => In (k', v') L /\
                   firstn (d + length sibs) k' = firstn (d + length sibs) k /\
                   get L k = (if key_eqb k' k then Some v' else None)
  | TTerm p => p = firstn (d + length sibs) k /\ get L k = None
  end.
Proof.
  intros H. induction f as [|f IH]; intros d L k sibs tm Hnd Hlen Hpre Hk Hw;
    destruct (kv_cases L) as [HL|[[k1 [v1 HL]]|HL]].
  - subst. rewrite mk_nil in Hw. cbn [walk] in Hw. inversion Hw; subst.
    cbn [length]. rewrite Nat.add_0_r. split; [lia|]. split; reflexivity.
  - subst. rewrite mk_single in Hw. cbn [walk] in Hw. inversion Hw; subst.
    cbn [length]. rewrite Nat.add_0_r. split; [lia|].
    split; [left; reflexivity|]. split.
    + apply (Hpre k1 v1). left. reflexivity.
    + reflexivity.
  - exfalso. apply (no_fuel0 d L); try assumption.
    + intros k' v' Hin. rewrite (Hlen k' v' Hin). lia.
    + intros a va b vb Ha Hb. rewrite (Hpre a va Ha), (Hpre b vb Hb). reflexivity.
  - subst. rewrite mk_nil in Hw. cbn [walk] in Hw. inversion Hw; subst.
    cbn [length]. rewrite Nat.add_0_r. split; [lia|]. split; reflexivity.
  - subst. rewrite mk_single in Hw. cbn [walk] in Hw. inversion Hw; subst.
    cbn [length]. rewrite Nat.add_0_r. split; [lia|].
    split; [left; reflexivity|]. split.
    + apply (Hpre k1 v1). left. reflexivity.
    + reflexivity.
  - rewrite (walk_mk_step H f d L k HL) in Hw.
    destruct (walk H (mk f (S d) (side (bit k d) d L)) k (S d)) as [s tm0] eqn:Ew.
    inversion Hw; subst. clear Hw.
    apply IH in Ew.
    + destruct Ew as [Hls Hm]. cbn [length].
      replace (d + S (length s)) with (S d + length s) by lia.
      split; [lia|].
      destruct tm as [k' v'|p].
      * destruct Hm as [Hin [Hf Hg]]. apply In_side in Hin. destruct Hin as [Hin _].
        split; [exact Hin|]. split; [exact Hf|].
        rewrite get_side in Hg. exact Hg.
      * destruct Hm as [Hp Hg]. split; [exact Hp|].
        rewrite get_side in Hg. exact Hg.
    + apply NoDup_side. exact Hnd.
    + intros k' v' Hin. apply In_side in Hin. destruct Hin as [Hin _].
      rewrite (Hlen k' v' Hin). lia.
    + intros k' v' Hin. apply In_side in Hin. destruct Hin as [Hin Hb].
      rewrite (firstn_S_bit d k') by (rewrite (Hlen k' v' Hin); lia).
      rewrite (firstn_S_bit d k) by lia.
      rewrite Hb, (Hpre k' v' Hin). reflexivity.
    + lia.
Qed.

(* lookup semantics of the canonical trie: where the walk for key k ends and what it finds *)
Lemma mk_walk : forall (H : Hasher) n S k sibs tm, wf n S -> length k = n ->
  walk H (mk n 0 S) k 0 = (sibs, tm) ->
  length sibs <= n /\
  match tm with
  | TLeaf k' v' => In (k', v') S /\ firstn (length sibs) k' = firstn (length sibs) k /\
                   get S k = (if key_eqb k' k then Some v' else None)
  | TTerm p => p = firstn (length sibs) k /\ get S k = None
  end.
Proof.
  intros H n L k sibs tm [Hnd Hlen] Hk Hw.
  exact (mk_walk_gen H n 0 L k sibs tm Hnd Hlen
           (fun k' v' _ => eq_refl) Hk Hw).
Qed.
