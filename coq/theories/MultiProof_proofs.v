(* Theorems about the multi-proof mirrors MultiProof.v / MultiUpdate.v (C07, C08, C18). *)
From Coq Require Import List Bool Arith NArith Lia.
From Nomt Require Import Base Hash Trie Result PathProof BuildTrie MultiProof MultiUpdate
  Base_proofs Trie_proofs PathProof_proofs BuildTrie_proofs VerifyUpdate_proofs.
Import ListNotations.

(* ------------------------------------------------------------------------------------------ *)
(* small facts about lists, keys and the panicking primitives                                  *)
(* ------------------------------------------------------------------------------------------ *)

Lemma bind_ok_inv : forall (E A B : Type) (r : res E A) (f : A -> res E B) b,
  bind r f = Ok b -> exists a, r = Ok a /\ f a = Ok b.
Proof. intros E A B [a|e|] f b Hb; cbn in Hb; try discriminate. exists a. split; [reflexivity|exact Hb]. Qed.

Lemma div2_bounds : forall n, 2 <= n -> 1 <= Nat.div2 n /\ Nat.div2 n < n /\ 2 * Nat.div2 n <= n.
Proof.
  intros n Hn. split; [|split].
  - destruct n as [|[|n]]; cbn; lia.
  - apply Nat.lt_div2. lia.
  - pose proof (Nat.div2_odd n) as Ho. destruct (Nat.odd n); cbn [Nat.b2n] in Ho; lia.
Qed.

Lemma nth_error_bit : forall (k : key) d, d < length k -> nth_error k d = Some (bit k d).
Proof. intros k d Hd. unfold bit. apply nth_error_nth'. exact Hd. Qed.

Lemma nth_error_last : forall (A : Type) (l : list A) d, l <> [] ->
  nth_error l (length l - 1) = Some (last l d).
Proof.
  intros A l d. induction l as [|x l IH]; intros Hne; [congruence|].
  destruct l as [|y l].
  - reflexivity.
  - cbn [length] in *. replace (S (S (length l)) - 1) with (S (S (length l) - 1)) by lia.
    cbn [nth_error]. rewrite IH by discriminate. reflexivity.
Qed.

Lemma slice_from_res_ok : forall (E A : Type) (l : list A) a, a <= length l ->
  @slice_from_res E A l a = Ok (skipn a l).
Proof. intros E A l a Ha. unfold slice_from_res. apply Nat.ltb_ge in Ha. rewrite Ha. reflexivity. Qed.

Lemma slice_to_res_ok : forall (E A : Type) (l : list A) b, b <= length l ->
  @slice_to_res E A l b = Ok (firstn b l).
Proof. intros E A l b Hb. unfold slice_to_res. apply Nat.ltb_ge in Hb. rewrite Hb. reflexivity. Qed.

Lemma slice_res_ok : forall (E A : Type) (l : list A) a b, a <= b -> b <= length l ->
  @slice_res E A l a b = Ok (firstn (b - a) (skipn a l)).
Proof.
  intros E A l a b Ha Hb. unfold slice_res.
  apply Nat.ltb_ge in Ha. apply Nat.ltb_ge in Hb. rewrite Ha, Hb. reflexivity.
Qed.

Lemma sub_res_ok : forall (E : Type) a b, b <= a -> @sub_res E a b = Ok (a - b).
Proof. intros E a b Hb. unfold sub_res. apply Nat.ltb_ge in Hb. rewrite Hb. reflexivity. Qed.

Lemma nth_res_ok : forall (E A : Type) (l : list A) i x, nth_error l i = Some x ->
  @nth_res E A l i = Ok x.
Proof. intros E A l i x Hn. unfold nth_res. rewrite Hn. reflexivity. Qed.

Lemma skipn_skipn' : forall (A : Type) (a b : nat) (l : list A), skipn a (skipn b l) = skipn (b + a) l.
Proof.
  intros A a b. induction b as [|b IH]; intros l; [reflexivity|].
  destruct l as [|x l]; cbn [skipn plus]; [destruct a; reflexivity|apply IH].
Qed.

Definition has_pfx (q p : key) : Prop := firstn (length q) p = q.

Lemma has_pfx_length : forall q p, has_pfx q p -> length q <= length p.
Proof.
  intros q p Hp. unfold has_pfx in Hp.
  assert (Hl : length (firstn (length q) p) = length q) by (rewrite Hp; reflexivity).
  rewrite firstn_length in Hl. lia.
Qed.

Lemma has_pfx_nil : forall p, has_pfx [] p.
Proof. intros p. reflexivity. Qed.

Lemma has_pfx_app_l : forall q r p, has_pfx (q ++ r) p -> has_pfx q p.
Proof.
  intros q r p Hp. unfold has_pfx in *.
  assert (Hf : firstn (length q) (firstn (length (q ++ r)) p) = firstn (length q) (q ++ r))
    by (rewrite Hp; reflexivity).
  rewrite firstn_firstn in Hf. rewrite app_length in Hf.
  replace (Nat.min (length q) (length q + length r)) with (length q) in Hf by lia.
  rewrite Hf. rewrite firstn_app. rewrite Nat.sub_diag. cbn [firstn]. rewrite app_nil_r.
  apply firstn_all.
Qed.

Lemma has_pfx_snoc : forall q p b, has_pfx q p -> length q < length p -> bit p (length q) = b ->
  has_pfx (q ++ [b]) p.
Proof.
  intros q p b Hp Hl Hb. unfold has_pfx in *. rewrite app_length. cbn [length].
  rewrite Nat.add_1_r. rewrite firstn_S_bit by exact Hl. rewrite Hp, Hb. reflexivity.
Qed.

Lemma has_pfx_is_prefix : forall q p, has_pfx q p <-> is_prefix q p = true.
Proof. intros q p. unfold has_pfx. symmetry. apply is_prefix_firstn_eq. Qed.

Lemma has_pfx_skipn : forall q p, has_pfx q p -> p = q ++ skipn (length q) p.
Proof. intros q p Hp. unfold has_pfx in Hp. rewrite <- Hp at 1. symmetry. apply firstn_skipn. Qed.

Lemma has_pfx_app_inv : forall q z, has_pfx q (q ++ z).
Proof.
  intros q z. unfold has_pfx. rewrite firstn_app, Nat.sub_diag. cbn [firstn].
  rewrite app_nil_r. apply firstn_all.
Qed.

Lemma has_pfx_bit : forall q b r p, has_pfx (q ++ b :: r) p -> bit p (length q) = b.
Proof.
  intros q b r p Hp. apply has_pfx_skipn in Hp. rewrite Hp. unfold bit.
  rewrite <- app_assoc. rewrite app_nth2 by lia. rewrite Nat.sub_diag. reflexivity.
Qed.

(* common prefix *)
Lemma common_firstn : forall a b : key, firstn (common a b) a = firstn (common a b) b.
Proof.
  induction a as [|x a IH]; intros [|y b]; cbn [common firstn]; try reflexivity.
  destruct (Bool.eqb x y) eqn:E; [|reflexivity].
  apply Bool.eqb_prop in E. subst. cbn [firstn]. f_equal. apply IH.
Qed.

Lemma common_le_l : forall a b : key, common a b <= length a.
Proof. intros a b. rewrite common_comm. apply common_le_r. Qed.

Lemma common_bit_diff : forall a b : key,
  common a b < length a -> common a b < length b -> bit a (common a b) <> bit b (common a b).
Proof.
  induction a as [|x a IH]; intros [|y b]; cbn [common length]; intros Ha Hb; try lia.
  destruct (Bool.eqb x y) eqn:E.
  - unfold bit in *. cbn [nth]. apply IH; lia.
  - unfold bit. cbn [nth]. intros He. subst. rewrite Bool.eqb_reflx in E. discriminate.
Qed.

(* ordering sandwich: what lies between two keys with a common prefix has that prefix *)
Definition key_le (a b : key) : Prop := a = b \/ key_ltb a b = true.

Lemma sandwich : forall n (x y z : key),
  firstn n x = firstn n z -> key_le x y -> key_le y z -> firstn n y = firstn n x.
Proof.
  induction n as [|n IH]; intros x y z Hxz Hxy Hyz; [reflexivity|].
  destruct Hxy as [->|Hxy]; [reflexivity|].
  destruct Hyz as [->|Hyz]; [symmetry; exact Hxz|].
  destruct x as [|a x], y as [|b y], z as [|c z]; cbn [firstn key_ltb] in *;
    try discriminate; try reflexivity.
  injection Hxz as Hac Hxz. subst c.
  destruct (Bool.eqb a b) eqn:Eab.
  - apply Bool.eqb_prop in Eab. subst b. rewrite Bool.eqb_reflx in Hyz.
    f_equal. apply (IH x y z Hxz); right; assumption.
  - destruct a, b; cbn in *; discriminate.
Qed.

Lemma ltb_bit_mono : forall n (x y : key),
  firstn n x = firstn n y -> n < length x -> n < length y -> key_ltb x y = true ->
  bit x n = true -> bit y n = true.
Proof.
  intros n x y Hf Hx Hy Hlt Hb. destruct (bit y n) eqn:Ey; [reflexivity|].
  rewrite (ltb_diverge n x y Hf Hx Hy Hb Ey) in Hlt. discriminate.
Qed.

Lemma max_path_len_In : forall (A : Type) (f : A -> key) (l : list A) x,
  In x l -> length (f x) <= max_path_len f l.
Proof.
  intros A f l x. induction l as [|y l IH]; intros Hin; [destruct Hin|].
  cbn [max_path_len fold_right]. destruct Hin as [->|Hin].
  - apply Nat.le_max_l.
  - etransitivity; [apply IH; exact Hin|]. apply Nat.le_max_r.
Qed.

Lemma max_path_len_le : forall (A : Type) (f : A -> key) (l : list A) m,
  (forall x, In x l -> length (f x) <= m) -> max_path_len f l <= m.
Proof.
  intros A f l m. induction l as [|y l IH]; intros Hall; cbn [max_path_len fold_right]; [lia|].
  apply Nat.max_lub.
  - apply Hall. left. reflexivity.
  - apply IH. intros x Hx. apply Hall. right. exact Hx.
Qed.

(* ------------------------------------------------------------------------------------------ *)
(* binary_search_by                                                                            *)
(* ------------------------------------------------------------------------------------------ *)

Section BinSearch.
  Context {E A : Type}.
  Variable f : A -> res E comparison.
  Variable slice : list A.

  (* totality: the comparison function does not panic on the elements of the slice *)
  Lemma bs_loop_total : forall fuel size base,
    (forall x, In x slice -> exists c, f x = Ok c) ->
    1 <= size -> base + size <= length slice -> size <= fuel ->
    exists b, binary_search_loop f slice fuel size base = Ok b /\ b < length slice.
  Proof.
    induction fuel as [|fuel IH]; intros size base Hf Hs Hb Hfu; [lia|].
    cbn [binary_search_loop].
    destruct (Nat.leb size 1) eqn:E1.
    - exists base. split; [reflexivity|lia].
    - apply Nat.leb_gt in E1.
      destruct (div2_bounds size ltac:(lia)) as [Hd1 [Hd2 Hd3]].
      unfold nth_res.
      destruct (nth_error slice (base + Nat.div2 size)) as [x|] eqn:En.
      2:{ apply nth_error_None in En. lia. }
      cbn [bind]. destruct (Hf x (nth_error_In _ _ En)) as [c Hc]. rewrite Hc. cbn [bind].
      apply IH; try assumption; try lia.
      destruct c; lia.
  Qed.

  Lemma bs_total :
    (forall x, In x slice -> exists c, f x = Ok c) ->
    exists r, binary_search_by f slice = Ok r /\
      match r with Found i => i < length slice | NotFound i => i <= length slice end.
  Proof.
    intros Hf. unfold binary_search_by.
    destruct slice as [|a0 sl] eqn:Es.
    - exists (NotFound 0). split; [reflexivity|cbn; lia].
    - rewrite <- Es in *.
      destruct (bs_loop_total (S (length slice)) (length slice) 0 Hf) as [b [Hb Hlt]];
        try (rewrite Es; cbn [length]; lia).
      rewrite Hb. cbn [bind]. unfold nth_res.
      destruct (nth_error slice b) as [x|] eqn:En.
      2:{ apply nth_error_None in En. lia. }
      cbn [bind]. destruct (Hf x (nth_error_In _ _ En)) as [c Hc]. rewrite Hc. cbn [bind].
      eexists. split; [reflexivity|]. destruct c; lia.
  Qed.

  (* a result Found i points at an element that compares Equal *)
  Lemma bs_found : forall i, binary_search_by f slice = Ok (Found i) ->
    exists x, nth_error slice i = Some x /\ f x = Ok Eq.
  Proof.
    intros i Hb. unfold binary_search_by in Hb.
    destruct slice as [|a0 sl] eqn:Es; [discriminate|]. rewrite <- Es in *.
    apply bind_ok_inv in Hb. destruct Hb as [b [_ Hb]].
    unfold nth_res in Hb. destruct (nth_error slice b) as [x|] eqn:En; [|discriminate].
    cbn [bind] in Hb. destruct (f x) as [c|e|] eqn:Ef; cbn [bind] in Hb; try discriminate.
    destruct c; inversion Hb; subst. exists x. split; assumption.
  Qed.
End BinSearch.

(* partition point of a two-valued comparison *)
Section BinSearchPartition.
  Context {E A : Type}.
  Variable f : A -> res E comparison.
  Variables L R : list A.
  Hypothesis HL : forall x, In x L -> f x = Ok Lt.
  Hypothesis HR : forall x, In x R -> f x = Ok Gt.

  Lemma bs_loop_partition : forall fuel size base,
    1 <= size -> base + size <= length (L ++ R) -> size <= fuel ->
    (base = 0 \/ base < length L) -> length L <= base + size ->
    exists b, binary_search_loop f (L ++ R) fuel size base = Ok b /\
      b < length (L ++ R) /\ (b = 0 \/ b < length L) /\ length L <= b + 1.
  Proof.
    induction fuel as [|fuel IH]; intros size base Hs Hb Hfu H1 H2; [lia|].
    cbn [binary_search_loop].
    destruct (Nat.leb size 1) eqn:E1.
    - apply Nat.leb_le in E1. exists base. split; [reflexivity|]. repeat split; try lia.
    - apply Nat.leb_gt in E1.
      destruct (div2_bounds size ltac:(lia)) as [Hd1 [Hd2 Hd3]].
      unfold nth_res.
      destruct (nth_error (L ++ R) (base + Nat.div2 size)) as [x|] eqn:En.
      2:{ apply nth_error_None in En. lia. }
      cbn [bind].
      destruct (Nat.lt_ge_cases (base + Nat.div2 size) (length L)) as [Hlt|Hge].
      + rewrite nth_error_app1 in En by exact Hlt.
        rewrite (HL x (nth_error_In _ _ En)). cbn [bind].
        apply IH; lia.
      + rewrite nth_error_app2 in En by exact Hge.
        rewrite (HR x (nth_error_In _ _ En)). cbn [bind].
        apply IH; lia.
  Qed.

  Lemma bs_partition : binary_search_by f (L ++ R) = Ok (NotFound (length L)).
  Proof.
    unfold binary_search_by.
    destruct (L ++ R) as [|a0 sl] eqn:Es.
    - apply app_eq_nil in Es. destruct Es as [-> _]. reflexivity.
    - rewrite <- Es.
      destruct (bs_loop_partition (S (length (L ++ R))) (length (L ++ R)) 0) as [b [Hb [Hlt [H1 H2]]]];
        try (rewrite Es; cbn [length]; lia).
      { left. reflexivity. }
      { rewrite app_length. lia. }
      rewrite Hb. cbn [bind]. unfold nth_res.
      destruct (nth_error (L ++ R) b) as [x|] eqn:En.
      2:{ apply nth_error_None in En. lia. }
      cbn [bind].
      destruct (Nat.lt_ge_cases b (length L)) as [Hbl|Hbl].
      + rewrite nth_error_app1 in En by exact Hbl.
        rewrite (HL x (nth_error_In _ _ En)). cbn [bind].
        do 2 f_equal. lia.
      + rewrite nth_error_app2 in En by exact Hbl.
        rewrite (HR x (nth_error_In _ _ En)). cbn [bind].
        do 2 f_equal. lia.
  Qed.
End BinSearchPartition.

(* ------------------------------------------------------------------------------------------ *)
(* The shape of what verify_range accepts                                                      *)
(* ------------------------------------------------------------------------------------------ *)

Definition tpath (p : multi_path_proof) : key := term_path (mpp_terminal p).
Definition vpath (p : verified_multi_path) : key := term_path (vm_terminal p).

(* [VR sibs pfx off used n T B]: a successful verify_range call on a range of paths which all
   start with [pfx] (start_depth = length pfx), given the siblings [skipn off sibs], uses [used]
   of them, computes the node [n] and appends [T] to verified_paths, [B] to verified_bisections.
   A range is either one terminal with its unique siblings, or a bisection: [cb] are the bits
   below [pfx] shared by all paths of the range (common_bits = length cb), the left half
   continues with bit false, the right half with bit true. *)
Section Shape.
  Variable H : Hasher.
  Variable sibs : list (node H).

  Inductive VR : key -> nat -> nat -> node H ->
                 list verified_multi_path -> list verified_bisection -> Prop :=
  | VR_one : forall pfx off t d,
      has_pfx pfx (term_path t) ->
      length pfx <= d -> d <= length (term_path t) ->
      off + (d - length pfx) <= length sibs ->
      VR pfx off (d - length pfx)
         (hash_path H (terminal_node H t)
                    (firstn (d - length pfx) (skipn (length pfx) (term_path t)))
                    (rev (firstn (d - length pfx) (skipn off sibs))))
         [{| vm_terminal := t; vm_depth := d;
             vm_unique_siblings_start := off;
             vm_unique_siblings_end := off + (d - length pfx) |}]
         []
  | VR_split : forall pfx cb off lu ru ln rn TL TR BL BR,
      VR (pfx ++ cb ++ [false]) (off + length cb) lu ln TL BL ->
      VR (pfx ++ cb ++ [true]) (off + length cb + lu) ru rn TR BR ->
      VR pfx off (length cb + lu + ru)
         (hash_path H (hint H ln rn) cb (rev (firstn (length cb) (skipn off sibs))))
         (TL ++ TR)
         ((if Nat.ltb 0 (length cb)
           then [{| vb_start_depth := length pfx;
                    vb_common_siblings_start := off;
                    vb_common_siblings_end := off + length cb |}]
           else []) ++ BL ++ BR).

  Lemma VR_used_le : forall pfx off used n T B, VR pfx off used n T B -> off + used <= length sibs.
  Proof.
    intros pfx off used n T B HV.
    induction HV as [pfx off t d Hp H1 H2 H3|pfx cb off lu ru ln rn TL TR BL BR HL IHL HR IHR]; lia.
  Qed.

  Lemma VR_nonempty : forall pfx off used n T B, VR pfx off used n T B -> T <> [].
  Proof.
    intros pfx off used n T B HV.
    induction HV as [pfx off t d Hp H1 H2 H3|pfx cb off lu ru ln rn TL TR BL BR HL IHL HR IHR].
    - discriminate.
    - intros He. apply app_eq_nil in He. destruct He as [He _]. contradiction.
  Qed.

  Lemma VR_pfx : forall pfx off used n T B, VR pfx off used n T B ->
    forall t, In t T -> has_pfx pfx (vpath t) /\ length pfx <= vm_depth t /\ vm_depth t <= length (vpath t).
  Proof.
    intros pfx off used n T B HV.
    induction HV as [pfx off t d Hp H1 H2 H3|pfx cb off lu ru ln rn TL TR BL BR HL IHL HR IHR];
      intros t0 Hin.
    - destruct Hin as [<-|[]]. cbn. unfold vpath. cbn. auto.
    - apply in_app_or in Hin. destruct Hin as [Hin|Hin].
      + destruct (IHL t0 Hin) as [Hp [Hd1 Hd2]]. split; [|split].
        * eapply has_pfx_app_l. exact Hp.
        * rewrite app_length in Hd1. lia.
        * exact Hd2.
      + destruct (IHR t0 Hin) as [Hp [Hd1 Hd2]]. split; [|split].
        * eapply has_pfx_app_l. exact Hp.
        * rewrite app_length in Hd1. lia.
        * exact Hd2.
  Qed.
End Shape.

Arguments VR {H}.

(* ------------------------------------------------------------------------------------------ *)
(* sorted ranges split at a bit                                                                *)
(* ------------------------------------------------------------------------------------------ *)

Lemma poo_sorted : forall paths prev,
  paths_out_of_order prev paths = false ->
  sorted_keys (match prev with Some q => q :: map tpath paths | None => map tpath paths end) = true.
Proof.
  induction paths as [|p paths IH]; intros prev Ho.
  - destruct prev; reflexivity.
  - cbn [paths_out_of_order] in Ho. cbn [map]. fold (tpath p) in Ho.
    destruct prev as [q|].
    + destruct (key_ltb q (tpath p)) eqn:El; cbn [negb] in Ho; [|discriminate].
      specialize (IH (Some (tpath p)) Ho). cbn beta iota in IH.
      change (sorted_keys (q :: tpath p :: map tpath paths))
        with (key_ltb q (tpath p) && sorted_keys (tpath p :: map tpath paths)).
      rewrite El, IH. reflexivity.
    + exact (IH (Some (tpath p)) Ho).
Qed.

Lemma sorted_app_inv : forall (A B : list key), sorted_keys (A ++ B) = true ->
  sorted_keys A = true /\ sorted_keys B = true /\
  (forall a b, In a A -> In b B -> key_ltb a b = true).
Proof.
  induction A as [|x A IH]; intros B Hs.
  - split; [reflexivity|]. split; [exact Hs|]. intros a b [].
  - cbn [app] in Hs. apply sk_cons_iff in Hs. destruct Hs as [Hlb Hs].
    destruct (IH B Hs) as [HA [HB HAB]].
    split; [|split].
    + apply sk_cons_iff. split; [|exact HA]. intros k Hk. apply Hlb. apply in_or_app. left. exact Hk.
    + exact HB.
    + intros a b [<-|Ha] Hb.
      * apply Hlb. apply in_or_app. right. exact Hb.
      * apply HAB; assumption.
Qed.

(* a sorted range under a common prefix q, all paths longer than q: false bits, then true bits *)
Lemma sorted_bit_split : forall (q : key) (paths : list multi_path_proof),
  sorted_keys (map tpath paths) = true ->
  (forall p, In p paths -> has_pfx q (tpath p) /\ length q < length (tpath p)) ->
  exists L R, paths = L ++ R /\
    (forall p, In p L -> bit (tpath p) (length q) = false) /\
    (forall p, In p R -> bit (tpath p) (length q) = true).
Proof.
  intros q. induction paths as [|p paths IH]; intros Hs Hall.
  - exists [], []. split; [reflexivity|]. split; intros p [].
  - cbn [map] in Hs. apply sk_cons_iff in Hs. destruct Hs as [Hlb Hs].
    destruct (bit (tpath p) (length q)) eqn:Eb.
    + exists [], (p :: paths). split; [reflexivity|]. split; [intros p' []|].
      intros p' [<-|Hin]; [exact Eb|].
      destruct (Hall p (or_introl eq_refl)) as [Hp Hl].
      destruct (Hall p' (or_intror Hin)) as [Hp' Hl'].
      apply (ltb_bit_mono (length q) (tpath p) (tpath p')); try assumption.
      * unfold has_pfx in *. congruence.
      * apply Hlb. apply in_map. exact Hin.
    + destruct (IH Hs) as [L [R [HLR [HL HR]]]].
      { intros p' Hin. apply Hall. right. exact Hin. }
      exists (p :: L), R. split; [rewrite HLR; reflexivity|]. split; [|exact HR].
      intros p' [<-|Hin]; [exact Eb|apply HL; exact Hin].
Qed.

Lemma last_indep : forall (A : Type) (l : list A) d d', l <> [] -> last l d = last l d'.
Proof.
  intros A l d d'. induction l as [|x l IH]; intros Hne; [congruence|].
  destruct l as [|y l]; [reflexivity|].
  change (last (x :: y :: l) d) with (last (y :: l) d).
  change (last (x :: y :: l) d') with (last (y :: l) d').
  apply IH. discriminate.
Qed.

Lemma last_In' : forall (A : Type) (l : list A) d, l <> [] -> In (last l d) l.
Proof.
  intros A l d Hne. destruct (@exists_last _ l Hne) as [l' [a Ha]].
  rewrite Ha. rewrite last_last. apply in_or_app. right. left. reflexivity.
Qed.

(* first and last element of a sorted range bound everything in between *)
Lemma sorted_first_last : forall (p0 : multi_path_proof) paths p,
  sorted_keys (map tpath (p0 :: paths)) = true -> In p (p0 :: paths) ->
  key_le (tpath p0) (tpath p) /\ key_le (tpath p) (tpath (last (p0 :: paths) p0)).
Proof.
  intros p0 paths. revert p0. induction paths as [|p1 paths IH]; intros p0 p Hs Hin.
  - destruct Hin as [<-|[]]. split; left; reflexivity.
  - cbn [map] in Hs. apply sk_cons_iff in Hs. destruct Hs as [Hlb Hs].
    change (last (p0 :: p1 :: paths) p0) with (last (p1 :: paths) p0).
    rewrite (last_indep _ (p1 :: paths) p0 p1) by discriminate.
    destruct Hin as [<-|Hin].
    + split; [left; reflexivity|]. right. apply Hlb.
      change (tpath p1 :: map tpath paths) with (map tpath (p1 :: paths)).
      apply in_map. apply last_In'. discriminate.
    + destruct (IH p1 p Hs Hin) as [H1 H2]. split; [|exact H2].
      right. apply Hlb.
      change (tpath p1 :: map tpath paths) with (map tpath (p1 :: paths)).
      apply in_map. exact Hin.
Qed.

Lemma range_split : forall (pfx : key) (p0 : multi_path_proof) rest,
  let paths := p0 :: rest in
  let a := skipn (length pfx) (tpath p0) in
  let b := skipn (length pfx) (tpath (last paths p0)) in
  let c := common a b in
  let cb := firstn c a in
  sorted_keys (map tpath paths) = true ->
  (forall p, In p paths -> has_pfx pfx (tpath p)) ->
  (forall p, In p paths -> length pfx + c < length (tpath p)) ->
  length cb = c /\
  exists L R, paths = L ++ R /\
    (forall p, In p L -> has_pfx (pfx ++ cb ++ [false]) (tpath p)) /\
    (forall p, In p R -> has_pfx (pfx ++ cb ++ [true]) (tpath p)).
Proof.
  intros pfx p0 rest paths a b c cb Hs Hpfx Hlen.
  assert (Hcb : length cb = c).
  { unfold cb. rewrite firstn_length. apply Nat.min_l. apply common_le_l. }
  split; [exact Hcb|].
  assert (Hin0 : In p0 paths) by (left; reflexivity).
  assert (Hinl : In (last paths p0) paths) by (apply last_In'; discriminate).
  assert (E0 : tpath p0 = pfx ++ a) by (apply has_pfx_skipn; apply Hpfx; exact Hin0).
  assert (El : tpath (last paths p0) = pfx ++ b) by (apply has_pfx_skipn; apply Hpfx; exact Hinl).
  assert (F0 : firstn (length pfx + c) (tpath p0) = pfx ++ cb).
  { rewrite E0. rewrite firstn_app_2. reflexivity. }
  assert (Fl : firstn (length pfx + c) (tpath (last paths p0)) = pfx ++ cb).
  { rewrite El. rewrite firstn_app_2. unfold cb, c. rewrite common_firstn. reflexivity. }
  assert (Hq : forall p, In p paths -> has_pfx (pfx ++ cb) (tpath p)).
  { intros p Hin. unfold has_pfx. rewrite app_length, Hcb.
    destruct (sorted_first_last p0 rest p Hs Hin) as [H1 H2].
    rewrite (sandwich (length pfx + c) (tpath p0) (tpath p) (tpath (last paths p0))); try assumption.
    congruence. }
  destruct (sorted_bit_split (pfx ++ cb) paths Hs) as [L [R [HLR [HL HR]]]].
  { intros p Hin. split; [apply Hq; exact Hin|]. rewrite app_length, Hcb. apply Hlen. exact Hin. }
  exists L, R. split; [exact HLR|]. split.
  - intros p Hin. rewrite app_assoc. apply has_pfx_snoc.
    + apply Hq. rewrite HLR. apply in_or_app. left. exact Hin.
    + rewrite app_length, Hcb. apply Hlen. rewrite HLR. apply in_or_app. left. exact Hin.
    + apply HL. exact Hin.
  - intros p Hin. rewrite app_assoc. apply has_pfx_snoc.
    + apply Hq. rewrite HLR. apply in_or_app. right. exact Hin.
    + rewrite app_length, Hcb. apply Hlen. rewrite HLR. apply in_or_app. right. exact Hin.
    + apply HR. exact Hin.
Qed.

(* the third branch of verify_range *)
Lemma verify_range_eq2 : forall (H : Hasher) fuel' start_depth start_path p1 rest
    (siblings : list (node H)) sibling_offset verified_paths verified_bisections,
  let paths := start_path :: p1 :: rest in
  verify_range H (S fuel') start_depth paths siblings sibling_offset verified_paths verified_bisections =
            do end_path <- nth_res paths (length paths - 1) ;;
            let start_bits := term_path (mpp_terminal start_path) in
            let end_bits := term_path (mpp_terminal end_path) in
            if Nat.ltb (length start_bits) start_depth || Nat.ltb (length end_bits) start_depth
            then Err MultiMalformed
            else
            do a <- slice_from_res start_bits start_depth ;;
            do b <- slice_from_res end_bits start_depth ;;
            let common_bits := common a b in
            let common_len := start_depth + common_bits in
            if existsb (fun path => Nat.leb (length (term_path (mpp_terminal path))) common_len) paths
               || Nat.ltb (length siblings) common_bits
            then Err MultiMalformed
            else
            let uncommon_start_len := common_len + 1 in
            do search_result <-
               binary_search_by
                 (fun item : multi_path_proof =>
                    do bit <- nth_res (term_path (mpp_terminal item)) (uncommon_start_len - 1) ;;
                    Ok (if negb bit then Lt else Gt))
                 paths ;;
            do bisect_idx <- unwrap_err search_result ;;
            if Nat.eqb bisect_idx 0 || Nat.eqb bisect_idx (length paths) then Err MultiMalformed
            else
            let verified_bisections :=
              if Nat.ltb 0 common_bits
              then verified_bisections ++
                   [{| vb_start_depth := start_depth;
                       vb_common_siblings_start := sibling_offset;
                       vb_common_siblings_end := sibling_offset + common_bits |}]
              else verified_bisections in
            do paths_left <- slice_to_res paths bisect_idx ;;
            do siblings_left <- slice_from_res siblings common_bits ;;
            do left_res <- verify_range H fuel' uncommon_start_len paths_left siblings_left
                                        (sibling_offset + common_bits)
                                        verified_paths verified_bisections ;;
            let '(left_node, left_siblings_used, verified_paths, verified_bisections) := left_res in
            do paths_right <- slice_from_res paths bisect_idx ;;
            do siblings_right <- slice_from_res siblings (common_bits + left_siblings_used) ;;
            do right_res <- verify_range H fuel' uncommon_start_len paths_right siblings_right
                                         (sibling_offset + common_bits + left_siblings_used)
                                         verified_paths verified_bisections ;;
            let '(right_node, right_siblings_used, verified_paths, verified_bisections) := right_res in
            let total_siblings_used := common_bits + left_siblings_used + right_siblings_used in
            do bits <- slice_res start_bits start_depth common_len ;;
            do sibs <- slice_to_res siblings common_bits ;;
            let node := hash_path H (hint H left_node right_node) bits (rev sibs) in
            Ok (node, total_siblings_used, verified_paths, verified_bisections).
Proof. reflexivity. Qed.

Definition same_paths (paths : list multi_path_proof) (T : list verified_multi_path) : Prop :=
  map (fun t => (vm_terminal t, vm_depth t)) T = map (fun p => (mpp_terminal p, mpp_depth p)) paths.

Definition vr_post (H : Hasher) (sibs : list (node H)) (paths : list multi_path_proof) (pfx : key) (off : nat)
  (vp : list verified_multi_path) (vb : list verified_bisection)
  (r : res multi_proof_verification_error
           (node H * nat * list verified_multi_path * list verified_bisection)) : Prop :=
  match r with
  | Panic => False
  | Err _ => True
  | Ok (n, used, vp', vb') =>
      exists T B, vp' = vp ++ T /\ vb' = vb ++ B /\ VR sibs pfx off used n T B /\ same_paths paths T
  end.

Lemma verify_range_spec : forall (H : Hasher) (sibs : list (node H)) fuel pfx paths off vp vb,
  paths <> [] -> off <= length sibs ->
  sorted_keys (map tpath paths) = true ->
  (forall p, In p paths -> has_pfx pfx (tpath p)) ->
  1 <= fuel -> max_path_len tpath paths + 2 <= fuel + length pfx ->
  vr_post H sibs paths pfx off vp vb (verify_range H fuel (length pfx) paths (skipn off sibs) off vp vb).
Proof.
  intros H sibs. induction fuel as [|fuel IH]; intros pfx paths off vp vb Hne Hoff Hs Hpfx Hf1 Hf2; [lia|].
  destruct paths as [|p0 [|p1 rest]]; [congruence| |].
  - (* one terminal *)
    cbn [verify_range].
    destruct (Nat.ltb (mpp_depth p0) (length pfx) || Nat.ltb (length (term_path (mpp_terminal p0))) (mpp_depth p0)) eqn:E1;
      [exact I|].
    apply orb_false_iff in E1. destruct E1 as [E1a E1b].
    apply Nat.ltb_ge in E1a. apply Nat.ltb_ge in E1b.
    unfold sub_res. assert (E : Nat.ltb (mpp_depth p0) (length pfx) = false) by (apply Nat.ltb_ge; lia).
    rewrite E. cbn [bind].
    destruct (Nat.ltb (length (skipn off sibs)) (mpp_depth p0 - length pfx)) eqn:E2; [exact I|].
    apply Nat.ltb_ge in E2. rewrite skipn_length in E2.
    unfold slice_res, slice_to_res.
    assert (E3 : Nat.ltb (length pfx + (mpp_depth p0 - length pfx)) (length pfx) = false) by (apply Nat.ltb_ge; lia).
    assert (E4 : Nat.ltb (length (term_path (mpp_terminal p0))) (length pfx + (mpp_depth p0 - length pfx)) = false)
      by (apply Nat.ltb_ge; lia).
    assert (E5 : Nat.ltb (length (skipn off sibs)) (mpp_depth p0 - length pfx) = false)
      by (apply Nat.ltb_ge; rewrite skipn_length; lia).
    rewrite E3, E4, E5. cbn [bind vr_post].
    eexists _, []. split; [reflexivity|]. split; [symmetry; apply app_nil_r|].
    replace (length pfx + (mpp_depth p0 - length pfx) - length pfx) with (mpp_depth p0 - length pfx) by lia.
    split; [|reflexivity].
    apply VR_one; try lia.
    apply (Hpfx p0). left. reflexivity.
  - (* a bisection *)
    rewrite verify_range_eq2.
    set (paths := p0 :: p1 :: rest) in *.
    cbv zeta.
    unfold nth_res at 1. rewrite (nth_error_last _ paths p0) by discriminate. cbn [bind].
    set (pl := last paths p0).
    assert (Hin0 : In p0 paths) by (left; reflexivity).
    assert (Hinl : In pl paths) by (apply last_In'; discriminate).
    fold (tpath p0). fold (tpath pl).
    pose proof (has_pfx_length _ _ (Hpfx p0 Hin0)) as Hl0.
    pose proof (has_pfx_length _ _ (Hpfx pl Hinl)) as Hll.
    destruct (Nat.ltb (length (tpath p0)) (length pfx) || Nat.ltb (length (tpath pl)) (length pfx)); [exact I|].
    rewrite !slice_from_res_ok by lia. cbn [bind].
    set (a := skipn (length pfx) (tpath p0)).
    set (b := skipn (length pfx) (tpath pl)).
    set (c := common a b).
    destruct (existsb (fun path => Nat.leb (length (term_path (mpp_terminal path))) (length pfx + c)) paths
              || Nat.ltb (length (skipn off sibs)) c) eqn:E3; [exact I|].
    apply orb_false_iff in E3. destruct E3 as [E3a E3b].
    apply Nat.ltb_ge in E3b. rewrite skipn_length in E3b.
    assert (Hlen : forall p, In p paths -> length pfx + c < length (tpath p)).
    { intros p Hin. destruct (Nat.leb (length (tpath p)) (length pfx + c)) eqn:El.
      - assert (Hex : existsb (fun path => Nat.leb (length (term_path (mpp_terminal path))) (length pfx + c)) paths = true).
        { apply existsb_exists. exists p. split; [exact Hin|exact El]. }
        rewrite Hex in E3a. discriminate.
      - apply Nat.leb_gt in El. exact El. }
    set (cb := firstn c a).
    assert (Hrs : length cb = c /\
      exists L R, paths = L ++ R /\
        (forall p, In p L -> has_pfx (pfx ++ cb ++ [false]) (tpath p)) /\
        (forall p, In p R -> has_pfx (pfx ++ cb ++ [true]) (tpath p)))
      by (exact (range_split pfx p0 (p1 :: rest) Hs Hpfx Hlen)).
    destruct Hrs as [Hcb [L [R [HLR [HL HR]]]]].
    assert (Hmpl : length pfx + c < max_path_len tpath paths).
    { eapply Nat.lt_le_trans; [apply (Hlen p0 Hin0)|]. apply max_path_len_In. exact Hin0. }
    pose proof (Hlen p0 Hin0) as Hlen0.
    clearbody pl. clearbody paths. subst paths.
    (* the binary search finds the partition point *)
    rewrite (bs_partition _ L R).
    2:{ intros p Hin. replace (length pfx + c + 1 - 1) with (length pfx + c) by lia.
        fold (tpath p). unfold nth_res. rewrite nth_error_bit.
        - cbn [bind]. pose proof (HL p Hin) as Hp. rewrite app_assoc in Hp.
          apply has_pfx_bit in Hp. rewrite app_length, Hcb in Hp. rewrite Hp. reflexivity.
        - apply Hlen. apply in_or_app. left. exact Hin. }
    2:{ intros p Hin. replace (length pfx + c + 1 - 1) with (length pfx + c) by lia.
        fold (tpath p). unfold nth_res. rewrite nth_error_bit.
        - cbn [bind]. pose proof (HR p Hin) as Hp. rewrite app_assoc in Hp.
          apply has_pfx_bit in Hp. rewrite app_length, Hcb in Hp. rewrite Hp. reflexivity.
        - apply Hlen. apply in_or_app. right. exact Hin. }
    cbn [bind unwrap_err].
    destruct (Nat.eqb (length L) 0 || Nat.eqb (length L) (length (L ++ R))) eqn:E4; [exact I|].
    apply orb_false_iff in E4. destruct E4 as [E4a E4b].
    apply Nat.eqb_neq in E4a. apply Nat.eqb_neq in E4b.
    assert (HLne : L <> []) by (intros ->; apply E4a; reflexivity).
    assert (HRne : R <> []).
    { intros ->. apply E4b. rewrite app_nil_r. reflexivity. }
    rewrite (slice_to_res_ok _ _ (L ++ R) (length L)) by (rewrite app_length; lia).
    cbn [bind].
    rewrite (slice_from_res_ok _ _ (skipn off sibs) c) by (rewrite skipn_length; lia).
    cbn [bind].
    rewrite skipn_skipn'.
    assert (HfL : firstn (length L) (L ++ R) = L).
    { rewrite firstn_app, Nat.sub_diag. cbn [firstn]. rewrite app_nil_r. apply firstn_all. }
    assert (HsR : skipn (length L) (L ++ R) = R).
    { rewrite skipn_app, Nat.sub_diag. cbn [skipn]. rewrite skipn_all. reflexivity. }
    rewrite HfL.
    assert (HsLR : sorted_keys (map tpath L) = true /\ sorted_keys (map tpath R) = true).
    { rewrite map_app in Hs. apply sorted_app_inv in Hs. tauto. }
    destruct HsLR as [HsL HsR'].
    assert (HmL : max_path_len tpath L <= max_path_len tpath (L ++ R)).
    { apply max_path_len_le. intros x Hx. apply max_path_len_In. apply in_or_app. left. exact Hx. }
    assert (HmR : max_path_len tpath R <= max_path_len tpath (L ++ R)).
    { apply max_path_len_le. intros x Hx. apply max_path_len_In. apply in_or_app. right. exact Hx. }
    set (vb1 := if Nat.ltb 0 c then vb ++ _ else vb).
    assert (HlenL : length (pfx ++ cb ++ [false]) = length pfx + c + 1).
    { rewrite !app_length, Hcb. cbn [length]. lia. }
    assert (HlenR : length (pfx ++ cb ++ [true]) = length pfx + c + 1).
    { rewrite !app_length, Hcb. cbn [length]. lia. }
    pose proof (IH (pfx ++ cb ++ [false]) L (off + c) vp vb1 HLne ltac:(lia) HsL HL ltac:(lia)
                  ltac:(rewrite HlenL; lia)) as IHl.
    rewrite HlenL in IHl.
    destruct (verify_range H fuel (length pfx + c + 1) L (skipn (off + c) sibs) (off + c) vp vb1)
      as [[[[ln lu] vp2] vb2]|e|]; cbn [bind]; [|exact I|exact IHl].
    cbn [vr_post] in IHl. destruct IHl as [TL [BL [Hvp2 [Hvb2 [HVL HspL]]]]].
    pose proof (VR_used_le H sibs _ _ _ _ _ _ HVL) as HuL.
    rewrite (slice_from_res_ok _ _ (L ++ R) (length L)) by (rewrite app_length; lia).
    cbn [bind]. rewrite HsR.
    rewrite (slice_from_res_ok _ _ (skipn off sibs) (c + lu)) by (rewrite skipn_length; lia).
    cbn [bind]. rewrite skipn_skipn'.
    replace (off + (c + lu)) with (off + c + lu) by lia.
    pose proof (IH (pfx ++ cb ++ [true]) R (off + c + lu) vp2 vb2 HRne ltac:(lia) HsR' HR ltac:(lia)
                  ltac:(rewrite HlenR; lia)) as IHr.
    rewrite HlenR in IHr.
    destruct (verify_range H fuel (length pfx + c + 1) R (skipn (off + c + lu) sibs) (off + c + lu) vp2 vb2)
      as [[[[rn ru] vp3] vb3]|e|]; cbn [bind]; [|exact I|exact IHr].
    cbn [vr_post] in IHr. destruct IHr as [TR [BR [Hvp3 [Hvb3 [HVR HspR]]]]].
    rewrite slice_res_ok by lia.
    rewrite slice_to_res_ok by (rewrite skipn_length; lia).
    cbn [bind vr_post].
    exists (TL ++ TR), ((if Nat.ltb 0 c then [{| vb_start_depth := length pfx;
                                               vb_common_siblings_start := off;
                                               vb_common_siblings_end := off + c |}] else []) ++ BL ++ BR).
    split; [subst; rewrite app_assoc; reflexivity|].
    split.
    { subst vb3 vb2. unfold vb1. destruct (Nat.ltb 0 c); rewrite <- ?app_assoc; reflexivity. }
    replace (length pfx + c - length pfx) with c by lia.
    fold a. fold cb. rewrite <- Hcb.
    rewrite <- Hcb in HVL, HVR.
    split; [apply VR_split; assumption|].
    unfold same_paths in *. rewrite !map_app. congruence.
Qed.

(* ------------------------------------------------------------------------------------------ *)
(* 1. Totality of verify (C18)                                                                 *)
(* ------------------------------------------------------------------------------------------ *)

Definition dummy_path : verified_multi_path :=
  {| vm_terminal := TTerm []; vm_depth := 0; vm_unique_siblings_start := 0; vm_unique_siblings_end := 0 |}.

Lemma verify_range_top : forall (H : Hasher) (mp : multi_proof H),
  paths_out_of_order None (mp_paths mp) = false ->
  match verify_range H (length (mp_paths mp) + max_path_len tpath (mp_paths mp) + 2) 0
                     (mp_paths mp) (mp_siblings mp) 0 [] [] with
  | Panic => False
  | Err _ => True
  | Ok (n, used, vp, vb) =>
      VR (mp_siblings mp) [] 0 used n vp vb /\
      (mp_paths mp = [] -> vp = [dummy_path]) /\
      (mp_paths mp <> [] -> same_paths (mp_paths mp) vp)
  end.
Proof.
  intros H mp Ho. destruct (mp_paths mp) as [|p0 rest] eqn:Ep.
  - cbn. split; [|split; [reflexivity|congruence]].
    exact (VR_one H (mp_siblings mp) [] 0 (TTerm []) 0 eq_refl (le_n 0) (le_n 0) (Nat.le_0_l _)).
  - rewrite <- Ep in *.
    pose proof (verify_range_spec H (mp_siblings mp)
                  (length (mp_paths mp) + max_path_len tpath (mp_paths mp) + 2) [] (mp_paths mp) 0 [] []) as Hsp.
    cbn [length skipn] in Hsp.
    assert (Hne : mp_paths mp <> []) by (rewrite Ep; discriminate).
    specialize (Hsp Hne (Nat.le_0_l _) (poo_sorted _ None Ho) (fun p _ => has_pfx_nil _) ltac:(lia) ltac:(lia)).
    destruct (verify_range H _ 0 (mp_paths mp) (mp_siblings mp) 0 [] []) as [[[[n used] vp] vb]|e|];
      cbn [vr_post] in Hsp; [|exact I|exact Hsp].
    destruct Hsp as [T [B [-> [-> [HV Hsame]]]]]. cbn [app].
    split; [exact HV|]. split; [intros; contradiction|intros _; exact Hsame].
Qed.

Theorem multi_verify_total : forall (H : Hasher) (mp : multi_proof H) root, verify H mp root <> Panic.
Proof.
  intros H mp root. unfold verify.
  destruct (paths_out_of_order None (mp_paths mp)) eqn:Ho; [discriminate|].
  pose proof (verify_range_top H mp Ho) as Ht. unfold tpath in Ht.
  destruct (verify_range H _ 0 (mp_paths mp) (mp_siblings mp) 0 [] []) as [[[[n used] vp] vb]|e|];
    cbn [bind]; [|discriminate|contradiction].
  destruct (negb (node_eqb H root n)); [discriminate|].
  destruct (negb (Nat.eqb used (length (mp_siblings mp)))); discriminate.
Qed.

(* what a successful verify establishes *)
Lemma verify_ok_inv : forall (H : Hasher) (mp : multi_proof H) root v,
  verify H mp root = Ok v ->
  exists n, node_eqb H root n = true /\
    VR (mp_siblings mp) [] 0 (length (mp_siblings mp)) n (vmp_inner v) (vmp_bisections v) /\
    vmp_siblings v = mp_siblings mp /\ vmp_root v = root /\
    sorted_keys (map tpath (mp_paths mp)) = true /\
    (mp_paths mp = [] -> vmp_inner v = [dummy_path]) /\
    (mp_paths mp <> [] -> same_paths (mp_paths mp) (vmp_inner v)).
Proof.
  intros H mp root v Hv. unfold verify in Hv.
  destruct (paths_out_of_order None (mp_paths mp)) eqn:Ho; [discriminate|].
  pose proof (verify_range_top H mp Ho) as Ht. unfold tpath in Ht.
  destruct (verify_range H _ 0 (mp_paths mp) (mp_siblings mp) 0 [] []) as [[[[n used] vp] vb]|e|];
    cbn [bind] in Hv; try discriminate.
  destruct (node_eqb H root n) eqn:En; cbn [negb] in Hv; [|discriminate].
  destruct (Nat.eqb used (length (mp_siblings mp))) eqn:Eu; cbn [negb] in Hv; [|discriminate].
  apply Nat.eqb_eq in Eu. subst used. inversion Hv; subst v; clear Hv. cbn.
  destruct Ht as [HV [H1 H2]].
  exists n. repeat split; try assumption. exact (poo_sorted _ None Ho).
Qed.

(* ------------------------------------------------------------------------------------------ *)
(* 2. Well-formedness of a verified multi-proof                                                *)
(* ------------------------------------------------------------------------------------------ *)

(* The invariant: the terminals, bisections and the sibling vector have the shape of a
   successful verify_range run over the whole sibling vector (all siblings are used).  The
   elementary consequences asked for (ascending paths, depth bounds, sibling ranges tiling the
   sibling vector, prefix-freeness) are derived below in [vmp_wf_facts]. *)
Definition vmp_wf {H : Hasher} (v : verified_multi_proof H) : Prop :=
  exists n, VR (vmp_siblings v) [] 0 (length (vmp_siblings v)) n (vmp_inner v) (vmp_bisections v).

Theorem verify_vmp_wf : forall (H : Hasher) (mp : multi_proof H) root v,
  verify H mp root = Ok v -> vmp_wf v.
Proof.
  intros H mp root v Hv. destruct (verify_ok_inv H mp root v Hv) as [n [_ [HV [Hs _]]]].
  exists n. rewrite Hs. exact HV.
Qed.

Lemma sorted_app : forall (A B : list key), sorted_keys A = true -> sorted_keys B = true ->
  (forall a b, In a A -> In b B -> key_ltb a b = true) -> sorted_keys (A ++ B) = true.
Proof.
  induction A as [|x A IH]; intros B HA HB HAB; [exact HB|].
  cbn [app]. apply sk_cons_iff in HA. destruct HA as [Hlb HA]. apply sk_cons_iff. split.
  - intros k Hk. apply in_app_or in Hk. destruct Hk as [Hk|Hk].
    + apply Hlb. exact Hk.
    + apply HAB; [left; reflexivity|exact Hk].
  - apply IH; try assumption. intros a b Ha Hb. apply HAB; [right; exact Ha|exact Hb].
Qed.

Lemma has_pfx_split_ltb : forall (q a b : key),
  has_pfx (q ++ [false]) a -> has_pfx (q ++ [true]) b -> key_ltb a b = true.
Proof.
  intros q a b Ha Hb. apply has_pfx_skipn in Ha. apply has_pfx_skipn in Hb.
  rewrite Ha, Hb. rewrite <- !app_assoc. cbn [app]. apply key_ltb_app_ft.
Qed.

Lemma has_pfx_split_common : forall (q a b : key) x,
  has_pfx (q ++ [x]) a -> has_pfx (q ++ [negb x]) b -> common a b = length q.
Proof.
  intros q a b x Ha Hb. apply has_pfx_skipn in Ha. apply has_pfx_skipn in Hb.
  rewrite Ha, Hb. rewrite <- !app_assoc. cbn [app]. apply common_app_diff.
Qed.

Lemma is_prefix_common : forall a b : key, is_prefix a b = true -> common a b = length a.
Proof.
  induction a as [|x a IH]; intros [|y b] Hp; cbn [is_prefix common length] in *;
    try reflexivity; try discriminate.
  apply andb_true_iff in Hp. destruct Hp as [H1 H2]. rewrite H1. f_equal. apply IH. exact H2.
Qed.

Section ShapeFacts.
  Variable H : Hasher.
  Variable sibs : list (node H).

  Lemma VR_sorted : forall pfx off used n T B, VR sibs pfx off used n T B ->
    sorted_keys (map vpath T) = true.
  Proof.
    intros pfx off used n T B HV.
    induction HV as [pfx off t d Hp H1 H2 H3|pfx cb off lu ru ln rn TL TR BL BR HL IHL HR IHR].
    - reflexivity.
    - rewrite map_app. apply sorted_app; try assumption.
      intros a b Ha Hb. apply in_map_iff in Ha. destruct Ha as [ta [<- Ha]].
      apply in_map_iff in Hb. destruct Hb as [tb [<- Hb]].
      destruct (VR_pfx H sibs _ _ _ _ _ _ HL ta Ha) as [Hpa _].
      destruct (VR_pfx H sibs _ _ _ _ _ _ HR tb Hb) as [Hpb _].
      rewrite app_assoc in Hpa, Hpb. eapply has_pfx_split_ltb; eassumption.
  Qed.

  (* two different terminals part ways strictly above the depth of either *)
  Lemma VR_common : forall pfx off used n T B, VR sibs pfx off used n T B ->
    forall t1 t2, In t1 T -> In t2 T -> vpath t1 <> vpath t2 ->
    common (vpath t1) (vpath t2) < vm_depth t1.
  Proof.
    intros pfx off used n T B HV.
    induction HV as [pfx off t d Hp H1 H2 H3|pfx cb off lu ru ln rn TL TR BL BR HL IHL HR IHR];
      intros t1 t2 Hi1 Hi2 Hne.
    - destruct Hi1 as [<-|[]]. destruct Hi2 as [<-|[]]. congruence.
    - apply in_app_or in Hi1. apply in_app_or in Hi2.
      destruct Hi1 as [Hi1|Hi1], Hi2 as [Hi2|Hi2].
      + apply IHL; assumption.
      + destruct (VR_pfx H sibs _ _ _ _ _ _ HL t1 Hi1) as [Hp1 [Hd1 _]].
        destruct (VR_pfx H sibs _ _ _ _ _ _ HR t2 Hi2) as [Hp2 _].
        rewrite app_assoc in Hp1, Hp2.
        rewrite (has_pfx_split_common (pfx ++ cb) _ _ false Hp1 Hp2).
        rewrite !app_length in *. cbn [length] in Hd1. lia.
      + destruct (VR_pfx H sibs _ _ _ _ _ _ HR t1 Hi1) as [Hp1 [Hd1 _]].
        destruct (VR_pfx H sibs _ _ _ _ _ _ HL t2 Hi2) as [Hp2 _].
        rewrite app_assoc in Hp1, Hp2.
        rewrite (has_pfx_split_common (pfx ++ cb) _ _ true Hp1 Hp2).
        rewrite !app_length in *. cbn [length] in Hd1. lia.
      + apply IHR; assumption.
  Qed.

  (* sibling ranges *)
  Definition in_rng (i : nat) (r : nat * nat) : bool := Nat.leb (fst r) i && Nat.ltb i (snd r).
  Definition rng_t (t : verified_multi_path) := (vm_unique_siblings_start t, vm_unique_siblings_end t).
  Definition rng_b (b : verified_bisection) := (vb_common_siblings_start b, vb_common_siblings_end b).
  (* number of sibling ranges (of terminals and of bisections) that contain position i *)
  Definition cover (i : nat) (T : list verified_multi_path) (B : list verified_bisection) : nat :=
    length (filter (in_rng i) (map rng_t T)) + length (filter (in_rng i) (map rng_b B)).

  Lemma cover_app : forall i T1 T2 B1 B2,
    cover i (T1 ++ T2) (B1 ++ B2) = cover i T1 B1 + cover i T2 B2.
  Proof.
    intros i T1 T2 B1 B2. unfold cover. rewrite !map_app, !filter_app, !app_length. lia.
  Qed.

  Lemma VR_cover : forall pfx off used n T B, VR sibs pfx off used n T B ->
    forall i, cover i T B = if Nat.leb off i && Nat.ltb i (off + used) then 1 else 0.
  Proof.
    intros pfx off used n T B HV.
    induction HV as [pfx off t d Hp H1 H2 H3|pfx cb off lu ru ln rn TL TR BL BR HL IHL HR IHR];
      intros i.
    - unfold cover, in_rng, rng_t. cbn [map filter fst snd vm_unique_siblings_start vm_unique_siblings_end].
      destruct (Nat.leb off i && Nat.ltb i (off + (d - length pfx))); reflexivity.
    - change (TL ++ TR) with ([] ++ TL ++ TR). rewrite !cover_app. rewrite IHL, IHR.
      unfold cover. cbn [map filter length plus].
      destruct (Nat.ltb 0 (length cb)) eqn:Ec.
      + unfold in_rng, rng_b.
        cbn [map filter fst snd vb_common_siblings_start vb_common_siblings_end].
        apply Nat.ltb_lt in Ec.
        destruct (Nat.leb off i) eqn:E1; destruct (Nat.ltb i (off + length cb)) eqn:E2;
        destruct (Nat.leb (off + length cb) i) eqn:E3; destruct (Nat.ltb i (off + length cb + lu)) eqn:E4;
        destruct (Nat.leb (off + length cb + lu) i) eqn:E5; destruct (Nat.ltb i (off + length cb + lu + ru)) eqn:E6;
        destruct (Nat.ltb i (off + (length cb + lu + ru))) eqn:E7;
        cbn [andb length plus];
        repeat match goal with
        | Hx : Nat.leb _ _ = true |- _ => apply Nat.leb_le in Hx
        | Hx : Nat.leb _ _ = false |- _ => apply Nat.leb_gt in Hx
        | Hx : Nat.ltb _ _ = true |- _ => apply Nat.ltb_lt in Hx
        | Hx : Nat.ltb _ _ = false |- _ => apply Nat.ltb_ge in Hx
        end; lia.
      + apply Nat.ltb_ge in Ec. cbn [map filter length plus].
        destruct (Nat.leb off i) eqn:E1;
        destruct (Nat.leb (off + length cb) i) eqn:E3; destruct (Nat.ltb i (off + length cb + lu)) eqn:E4;
        destruct (Nat.leb (off + length cb + lu) i) eqn:E5; destruct (Nat.ltb i (off + length cb + lu + ru)) eqn:E6;
        destruct (Nat.ltb i (off + (length cb + lu + ru))) eqn:E7;
        cbn [andb length plus];
        repeat match goal with
        | Hx : Nat.leb _ _ = true |- _ => apply Nat.leb_le in Hx
        | Hx : Nat.leb _ _ = false |- _ => apply Nat.leb_gt in Hx
        | Hx : Nat.ltb _ _ = true |- _ => apply Nat.ltb_lt in Hx
        | Hx : Nat.ltb _ _ = false |- _ => apply Nat.ltb_ge in Hx
        end; lia.
  Qed.

  Lemma VR_ranges : forall pfx off used n T B, VR sibs pfx off used n T B ->
    (forall t, In t T ->
       off <= vm_unique_siblings_start t /\ vm_unique_siblings_start t <= vm_unique_siblings_end t /\
       vm_unique_siblings_end t <= off + used /\
       vm_unique_siblings_end t - vm_unique_siblings_start t <= vm_depth t) /\
    (forall b, In b B ->
       off <= vb_common_siblings_start b /\ vb_common_siblings_start b < vb_common_siblings_end b /\
       vb_common_siblings_end b <= off + used /\ length pfx <= vb_start_depth b).
  Proof.
    intros pfx off used n T B HV.
    induction HV as [pfx off t d Hp H1 H2 H3|pfx cb off lu ru ln rn TL TR BL BR HL IHL HR IHR].
    - split; [|intros b []]. intros t0 [<-|[]]. cbn. lia.
    - destruct IHL as [IHL1 IHL2]. destruct IHR as [IHR1 IHR2]. split.
      + intros t Hin. apply in_app_or in Hin. destruct Hin as [Hin|Hin].
        * specialize (IHL1 t Hin). lia.
        * specialize (IHR1 t Hin). lia.
      + intros b Hin. apply in_app_or in Hin. destruct Hin as [Hin|Hin].
        * destruct (Nat.ltb 0 (length cb)) eqn:Ec; [|destruct Hin].
          apply Nat.ltb_lt in Ec. destruct Hin as [<-|[]]. cbn. lia.
        * apply in_app_or in Hin. destruct Hin as [Hin|Hin].
          -- specialize (IHL2 b Hin). rewrite !app_length in IHL2. lia.
          -- specialize (IHR2 b Hin). rewrite !app_length in IHR2. lia.
  Qed.
End ShapeFacts.

Theorem vmp_wf_facts : forall (H : Hasher) (v : verified_multi_proof H), vmp_wf v ->
  (* terminal paths strictly ascending *)
  sorted_keys (map vpath (vmp_inner v)) = true /\
  (* depth within the terminal's path *)
  (forall t, In t (vmp_inner v) -> vm_depth t <= length (vpath t)) /\
  (* unique-sibling ranges lie inside the sibling vector (and are no longer than the depth) *)
  (forall t, In t (vmp_inner v) ->
     vm_unique_siblings_start t <= vm_unique_siblings_end t /\
     vm_unique_siblings_end t <= length (vmp_siblings v) /\
     vm_unique_siblings_end t - vm_unique_siblings_start t <= vm_depth t) /\
  (* bisection ranges are not empty and lie inside the sibling vector *)
  (forall b, In b (vmp_bisections v) ->
     vb_common_siblings_start b < vb_common_siblings_end b /\
     vb_common_siblings_end b <= length (vmp_siblings v)) /\
  (* the ranges tile the sibling vector: every position belongs to exactly one of them *)
  (forall i, i < length (vmp_siblings v) -> cover i (vmp_inner v) (vmp_bisections v) = 1) /\
  (* two different terminals diverge strictly above the depth of either; in particular no
     terminal path is a prefix of another *)
  (forall t1 t2, In t1 (vmp_inner v) -> In t2 (vmp_inner v) -> vpath t1 <> vpath t2 ->
     common (vpath t1) (vpath t2) < vm_depth t1 /\ is_prefix (vpath t1) (vpath t2) = false).
Proof.
  intros H v [n HV].
  split; [eapply VR_sorted; exact HV|].
  split; [intros t Hin; eapply VR_pfx; eassumption|].
  destruct (VR_ranges H _ _ _ _ _ _ _ HV) as [Hr1 Hr2].
  split; [intros t Hin; specialize (Hr1 t Hin); cbn [plus] in Hr1; lia|].
  split; [intros b Hin; specialize (Hr2 b Hin); cbn [plus] in Hr2; lia|].
  split.
  { intros i Hi. rewrite (VR_cover H _ _ _ _ _ _ _ HV i). cbn [Nat.leb plus andb].
    apply Nat.ltb_lt in Hi. rewrite Hi. reflexivity. }
  intros t1 t2 H1 H2 Hne.
  pose proof (VR_common H _ _ _ _ _ _ _ HV t1 t2 H1 H2 Hne) as Hc.
  split; [exact Hc|].
  destruct (is_prefix (vpath t1) (vpath t2)) eqn:Ep; [|reflexivity]. exfalso.
  destruct (VR_pfx H _ _ _ _ _ _ _ HV t1 H1) as [_ [_ Hd]].
  pose proof (is_prefix_common _ _ Ep) as Hcm. lia.
Qed.

(* ------------------------------------------------------------------------------------------ *)
(* 3. Totality of the queries and of the update on verified proofs (C18)                       *)
(* ------------------------------------------------------------------------------------------ *)

(* the type invariants of the Rust terminals: a leaf carries a KeyPath of n = 256 bits, a
   terminator position has at most n bits *)
Definition term_typed (n : nat) (t : terminal) : Prop :=
  match t with TLeaf k _ => length k = n | TTerm p => length p <= n end.

Definition mp_typed {H : Hasher} (n : nat) (mp : multi_proof H) : Prop :=
  forall p, In p (mp_paths mp) -> term_typed n (mpp_terminal p).

Definition vmp_typed {H : Hasher} (n : nat) (v : verified_multi_proof H) : Prop :=
  forall t, In t (vmp_inner v) -> term_typed n (vm_terminal t).

Lemma term_typed_path : forall n t, term_typed n t -> length (term_path t) <= n.
Proof. intros n [k v|p] Ht; cbn in *; lia. Qed.

Theorem verify_vmp_typed : forall (H : Hasher) n (mp : multi_proof H) root v,
  mp_typed n mp -> verify H mp root = Ok v -> vmp_typed n v.
Proof.
  intros H n mp root v Hty Hv.
  destruct (verify_ok_inv H mp root v Hv) as [nd [_ [_ [_ [_ [_ [He Hne]]]]]]].
  intros t Hin. destruct (mp_paths mp) as [|p0 rest] eqn:Ep.
  - rewrite (He eq_refl) in Hin. destruct Hin as [<-|[]]. cbn. lia.
  - rewrite <- Ep in *. assert (Hnn : mp_paths mp <> []) by (rewrite Ep; discriminate).
    specialize (Hne Hnn). unfold same_paths in Hne.
    assert (Hi : In (vm_terminal t, vm_depth t) (map (fun p => (mpp_terminal p, mpp_depth p)) (mp_paths mp))).
    { rewrite <- Hne. apply (in_map (fun t => (vm_terminal t, vm_depth t))). exact Hin. }
    apply in_map_iff in Hi. destruct Hi as [p [Hp Hi]]. injection Hp as Hp1 Hp2.
    rewrite <- Hp1. apply Hty. exact Hi.
Qed.

Theorem multi_find_index_total : forall (H : Hasher) (v : verified_multi_proof H) k,
  vmp_wf v -> vmp_typed 256 v -> length k = 256 ->
  find_index_for H v k <> Panic /\
  (forall i, find_index_for H v k = Ok i -> i < length (vmp_inner v)).
Proof.
  intros H v k [n HV] Hty Hk. unfold find_index_for.
  destruct (bs_total (E := out_of_scope)
              (fun t : verified_multi_path =>
                 do a <- slice_to_res (term_path (vm_terminal t)) (vm_depth t) ;;
                 do b <- slice_to_res k (vm_depth t) ;;
                 Ok (key_cmp a b)) (vmp_inner v)) as [r [Hr Hb]].
  { intros t Hin. destruct (VR_pfx H _ _ _ _ _ _ _ HV t Hin) as [_ [_ Hd]].
    pose proof (term_typed_path _ _ (Hty t Hin)) as Hl. unfold vpath in Hd.
    rewrite slice_to_res_ok by lia. cbn [bind]. rewrite slice_to_res_ok by lia. cbn [bind].
    eexists. reflexivity. }
  rewrite Hr. cbn [bind]. split.
  - destruct r; discriminate.
  - intros i Hi. destruct r; inversion Hi; subst. exact Hb.
Qed.

Theorem multi_confirm_total : forall (H : Hasher) (v : verified_multi_proof H) k x,
  vmp_wf v -> vmp_typed 256 v -> length k = 256 ->
  confirm_value H v (k, x) <> Panic /\ confirm_nonexistence H v k <> Panic.
Proof.
  intros H v k x Hwf Hty Hk.
  destruct (multi_find_index_total H v k Hwf Hty Hk) as [Hnp Hlt].
  unfold confirm_value, confirm_nonexistence. cbn [fst].
  destruct (find_index_for H v k) as [i|e|] eqn:Ef; cbn [bind]; [|split; discriminate|congruence].
  specialize (Hlt i eq_refl).
  unfold confirm_value_inner, confirm_nonexistence_inner, nth_res.
  destruct (nth_error (vmp_inner v) i) as [t|] eqn:En.
  - cbn [bind]. split; discriminate.
  - apply nth_error_None in En. lia.
Qed.

Lemma bind_assoc : forall (E A B C : Type) (r : res E A) (f : A -> res E B) (g : B -> res E C),
  bind (bind r f) g = bind r (fun x => bind (f x) g).
Proof. intros E A B C [a|e|] f g; reflexivity. Qed.

Lemma bind_ret : forall (E A : Type) (r : res E A), bind r (fun x => Ok x) = r.
Proof. intros E A [a|e|]; reflexivity. Qed.

Lemma last_app_ne' : forall (A : Type) (l1 l2 : list A) d, l2 <> [] -> last (l1 ++ l2) d = last l2 d.
Proof.
  intros A l1 l2 d Hne. induction l1 as [|x l1 IH]; [reflexivity|].
  cbn [app]. destruct (l1 ++ l2) eqn:E.
  - apply app_eq_nil in E. destruct E as [_ E]. contradiction.
  - exact IH.
Qed.

Lemma pop_while_id : forall (A : Type) (p : A -> bool) (l : list A),
  Forall (fun x => p x = false) l -> pop_while p l = l.
Proof.
  intros A p l Hf. destruct l as [|x l]; [reflexivity|].
  inversion Hf as [|y l' Hx Hl]; subst. cbn [pop_while]. rewrite Hx. reflexivity.
Qed.

Lemma Forall2_len : forall (A B : Type) (R : A -> B -> Prop) l1 l2, Forall2 R l1 l2 -> length l1 = length l2.
Proof. intros A B R l1 l2 HF. induction HF; cbn [length]; congruence. Qed.

Section UpdateTotal.
  Variable H : Hasher.
  Variable n : nat.                      (* KEYLEN *)
  Variable v : verified_multi_proof H.

  Notation inner := (vmp_inner v).
  Notation bis := (vmp_bisections v).
  Notation sibs := (vmp_siblings v).
  Notation err := multi_verify_update_error.
  Notation cs_t := (common_siblings_t H).
  Notation pend := (list (node H * nat)).

  Definition set_stack (cs : cs_t) (st : list (nat * node H)) : cs_t :=
    {| cs_bisection_stack := cs_bisection_stack cs; cs_stack := st;
       cs_taken_siblings := cs_taken_siblings cs; cs_terminal_index := cs_terminal_index cs;
       cs_bisection_index := cs_bisection_index cs |}.

  (* ---- compact_loop ---- *)

  Lemma compact_loop_app : forall b1 b2 nd L (P : pend) (cs : cs_t),
    compact_loop H (b1 ++ b2) nd L P cs =
    do r <- compact_loop H b1 nd L P cs ;;
    let '(nd', P', cs') := r in compact_loop H b2 nd' (L - length b1) P' cs'.
  Proof.
    induction b1 as [|b b1 IH]; intros b2 nd L P cs.
    - cbn [app compact_loop bind length]. rewrite Nat.sub_0_r. reflexivity.
    - cbn [app compact_loop length].
      rewrite !bind_assoc.
      match goal with |- bind ?x _ = bind ?x _ => destruct x as [[[s P1] cs1]|e|] end;
        cbn [bind]; try reflexivity.
      unfold sub_res. destruct (Nat.ltb L 1) eqn:EL; cbn [bind]; [reflexivity|].
      rewrite IH. replace (L - 1 - length b1) with (L - S (length b1)) by lia. reflexivity.
  Qed.

  Lemma push_enumerated_snoc : forall sl d s (st : list (nat * node H)),
    push_enumerated H d (sl ++ [s]) st = (d + length sl, s) :: push_enumerated H d sl st.
  Proof.
    induction sl as [|x sl IH]; intros d s st; cbn [app push_enumerated length].
    - rewrite Nat.add_0_r. reflexivity.
    - rewrite IH. replace (S d + length sl) with (d + S (length sl)) by lia. reflexivity.
  Qed.

  Lemma push_enumerated_bound : forall sl d (st : list (nat * node H)) m,
    Forall (fun e => fst e < m) st -> d + length sl <= m ->
    Forall (fun e => fst e < m) (push_enumerated H d sl st).
  Proof.
    induction sl as [|x sl IH]; intros d st m Hst Hm; cbn [push_enumerated length] in *; [exact Hst|].
    apply IH; [|lia]. constructor; [cbn; lia|exact Hst].
  Qed.

  (* climbing through the siblings that [extend] pushed: layers base+1 .. base+|sl| *)
  Lemma compact_unique : forall sl bits nd base (P : pend) (cs : cs_t) st0,
    length bits = length sl ->
    Forall (fun p => snd p <= base) P ->
    cs_stack cs = push_enumerated H (S base) sl st0 ->
    exists nd', compact_loop H bits nd (base + length sl) P cs = Ok (nd', P, set_stack cs st0).
  Proof.
    induction sl as [|s sl IH] using rev_ind; intros bits nd base P cs st0 Hl HP Hst.
    - destruct bits; [|discriminate]. cbn [compact_loop]. exists nd.
      cbn [push_enumerated] in Hst. destruct cs; cbn in *; subst; reflexivity.
    - rewrite app_length in *. cbn [length] in *.
      destruct bits as [|b bits]; [cbn in Hl; lia|]. cbn [length] in Hl.
      rewrite push_enumerated_snoc in Hst.
      cbn [compact_loop].
      assert (Hpop : pop_if_at_depth H cs (base + (length sl + 1)) =
                     (Some s, set_stack cs (push_enumerated H (S base) sl st0))).
      { unfold pop_if_at_depth. rewrite Hst.
        replace (S base + length sl) with (base + (length sl + 1)) by lia.
        rewrite Nat.eqb_refl. reflexivity. }
      assert (Hsel : match P with
                     | (s0, l) :: ps =>
                         if Nat.eqb l (base + (length sl + 1))
                         then Ok (s0, ps, snd (pop_if_at_depth H cs (base + (length sl + 1))))
                         else match pop_if_at_depth H cs (base + (length sl + 1)) with
                              | (Some s1, cs') => Ok (s1, P, cs')
                              | (None, _) => Panic
                              end
                     | [] => match pop_if_at_depth H cs (base + (length sl + 1)) with
                             | (Some s1, cs') => Ok (s1, P, cs')
                             | (None, _) => @Panic err _
                             end
                     end = Ok (s, P, set_stack cs (push_enumerated H (S base) sl st0))).
      { rewrite Hpop. destruct P as [|[s0 l] ps]; [reflexivity|].
        inversion HP as [|x l' Hx Hl']; subst. cbn [snd] in Hx.
        assert (E : Nat.eqb l (base + (length sl + 1)) = false) by (apply Nat.eqb_neq; lia).
        rewrite E. reflexivity. }
      rewrite Hsel. cbn [bind].
      rewrite sub_res_ok by lia. cbn [bind].
      replace (base + (length sl + 1) - 1) with (base + length sl) by lia.
      match goal with |- exists nd', compact_loop H bits ?x _ _ _ = _ =>
        destruct (IH bits x base P (set_stack cs (push_enumerated H (S base) sl st0)) st0
                    ltac:(lia) HP eq_refl) as [nd' Hc] end.
      exists nd'. rewrite Hc. reflexivity.
  Qed.

  (* one step through a layer whose sibling is on top of the pending stack *)
  Lemma compact_pending : forall b bits nd L s (P : pend) (cs : cs_t),
    1 <= L ->
    match cs_stack cs with (d, _) :: _ => d <> L | [] => True end ->
    exists nd', compact_loop H (b :: bits) nd L ((s, L) :: P) cs = compact_loop H bits nd' (L - 1) P cs.
  Proof.
    intros b bits nd L s P cs HL Hst. cbn [compact_loop]. rewrite Nat.eqb_refl.
    assert (Hp : snd (pop_if_at_depth H cs L) = cs).
    { unfold pop_if_at_depth. destruct (cs_stack cs) as [|[d x] st]; [reflexivity|].
      apply Nat.eqb_neq in Hst. rewrite Hst. reflexivity. }
    rewrite Hp. cbn [bind]. rewrite sub_res_ok by lia. cbn [bind]. eexists. reflexivity.
  Qed.

  (* ---- advance ---- *)

  Definition adv_rest (fuel : nat) (prune : bool) (nt : verified_multi_path) (cs : cs_t) : res err cs_t :=
    do self <- advance_loop H fuel v nt prune cs ;;
    do terminal_n <- sub_res (vm_unique_siblings_end nt) (vm_unique_siblings_start nt) ;;
    do d <- sub_res (vm_depth nt) terminal_n ;;
    do self <- extend H self (d + 1) (vm_unique_siblings_end nt) sibs ;;
    Ok {| cs_bisection_stack := cs_bisection_stack self;
          cs_stack := cs_stack self;
          cs_taken_siblings := cs_taken_siblings self;
          cs_terminal_index := cs_terminal_index self + 1;
          cs_bisection_index := cs_bisection_index self |}.

  Lemma advance_eq : forall cs : cs_t,
    advance H cs v = do nt <- nth_res inner (cs_terminal_index cs) ;; adv_rest (S (length bis)) true nt cs.
  Proof. reflexivity. Qed.

  Lemma advance_loop_done : forall fuel nt prune (cs : cs_t),
    vm_unique_siblings_start nt = cs_taken_siblings cs ->
    advance_loop H fuel v nt prune cs = Ok cs.
  Proof.
    intros fuel nt prune cs He. destruct fuel; cbn [advance_loop]; rewrite He, Nat.eqb_refl; reflexivity.
  Qed.

  (* one iteration of the loop of advance: a bisection is ingested *)
  Lemma advance_loop_bis : forall fuel nt prune (cs : cs_t) b0 c,
    nth_error bis (cs_bisection_index cs) = Some b0 ->
    vb_common_siblings_start b0 = cs_taken_siblings cs ->
    vb_common_siblings_end b0 = cs_taken_siblings cs + c ->
    cs_taken_siblings cs + c <= length sibs ->
    vm_unique_siblings_start nt <> cs_taken_siblings cs ->
    Forall (fun e => fst e < vb_start_depth b0) (cs_stack cs) ->
    exists cs' : cs_t,
      advance_loop H (S fuel) v nt prune cs = advance_loop H fuel v nt false cs' /\
      cs_stack cs' = push_enumerated H (vb_start_depth b0 + 1)
                       (firstn c (skipn (cs_taken_siblings cs) sibs)) (cs_stack cs) /\
      cs_taken_siblings cs' = cs_taken_siblings cs + c /\
      cs_terminal_index cs' = cs_terminal_index cs /\
      cs_bisection_index cs' = cs_bisection_index cs + 1.
  Proof.
    intros fuel nt prune cs b0 c Hn Hs He Hle Hne Hst.
    cbn [advance_loop]. apply Nat.eqb_neq in Hne. rewrite Hne.
    rewrite (nth_res_ok _ _ _ _ _ Hn). cbn [bind].
    cbn [cs_taken_siblings]. rewrite Hs, Nat.eqb_refl. cbn [negb].
    assert (Hpop : cs_stack (pop_to H
                      {| cs_bisection_stack := cs_bisection_stack cs; cs_stack := cs_stack cs;
                         cs_taken_siblings := cs_taken_siblings cs;
                         cs_terminal_index := cs_terminal_index cs;
                         cs_bisection_index := cs_bisection_index cs + 1 |} (vb_start_depth b0))
                   = cs_stack cs).
    { cbn [pop_to cs_stack]. apply pop_while_id.
      eapply Forall_impl; [|exact Hst]. intros e Hlt. cbn beta in *. apply Nat.leb_gt. exact Hlt. }
    unfold extend.
    destruct prune.
    - cbn [pop_to cs_taken_siblings cs_stack cs_bisection_stack cs_terminal_index cs_bisection_index] in *.
      rewrite He. rewrite slice_res_ok by lia. cbn [bind].
      eexists. split; [reflexivity|].
      cbn [cs_taken_siblings cs_stack cs_bisection_stack cs_terminal_index cs_bisection_index].
      rewrite Hpop. replace (cs_taken_siblings cs + c - cs_taken_siblings cs) with c by lia.
      repeat split; reflexivity.
    - cbn [cs_taken_siblings cs_stack cs_bisection_stack cs_terminal_index cs_bisection_index] in *.
      rewrite He. rewrite slice_res_ok by lia. cbn [bind].
      eexists. split; [reflexivity|].
      cbn [cs_taken_siblings cs_stack cs_bisection_stack cs_terminal_index cs_bisection_index].
      replace (cs_taken_siblings cs + c - cs_taken_siblings cs) with c by lia.
      repeat split; reflexivity.
  Qed.

  (* the rest of advance once the bisections are in: the unique siblings are pushed *)
  Lemma adv_rest_done : forall fuel prune nt (cs : cs_t) base,
    vm_unique_siblings_start nt = cs_taken_siblings cs ->
    vm_unique_siblings_start nt <= vm_unique_siblings_end nt ->
    vm_unique_siblings_end nt <= length sibs ->
    vm_depth nt = base + (vm_unique_siblings_end nt - vm_unique_siblings_start nt) ->
    exists cs' : cs_t,
      adv_rest fuel prune nt cs = Ok cs' /\
      cs_stack cs' = push_enumerated H (S base)
                       (firstn (vm_unique_siblings_end nt - vm_unique_siblings_start nt)
                               (skipn (cs_taken_siblings cs) sibs)) (cs_stack cs) /\
      cs_taken_siblings cs' = vm_unique_siblings_end nt /\
      cs_terminal_index cs' = cs_terminal_index cs + 1 /\
      cs_bisection_index cs' = cs_bisection_index cs.
  Proof.
    intros fuel prune nt cs base Hs Hle Hlen Hd. unfold adv_rest.
    rewrite advance_loop_done by exact Hs. cbn [bind].
    rewrite sub_res_ok by lia. cbn [bind]. rewrite sub_res_ok by lia. cbn [bind].
    unfold extend. rewrite slice_res_ok by lia. cbn [bind].
    eexists. split; [reflexivity|].
    cbn [cs_taken_siblings cs_stack cs_bisection_stack cs_terminal_index cs_bisection_index].
    rewrite <- Hs.
    replace (vm_depth nt - (vm_unique_siblings_end nt - vm_unique_siblings_start nt) + 1) with (S base) by lia.
    repeat split; reflexivity.
  Qed.

  (* ---- hash_and_compact_terminal ---- *)

  (* the operations handed to a terminal: strictly ascending n-bit keys in the terminal's scope *)
  Definition ops_ok (t : verified_multi_path) (ops : list (key * option value)) : Prop :=
    sorted_keys (map fst ops) = true /\
    forall c, In c ops ->
      length (fst c) = n /\ firstn (vm_depth t) (fst c) = firstn (vm_depth t) (vpath t).

  Definition finish (bits : list bool) (e : nat) (x : node H * pend * cs_t) : res err (pend * cs_t) :=
    let '(nd, P, cs) := x in
    do r <- compact_loop H bits nd (e + length bits) P cs ;;
    let '(nd', P', cs') := r in Ok ((nd', e) :: P', cs').

  (* the layer the climb from terminal [t] ends at, given the next terminal *)
  Definition end_layer_ok (t : verified_multi_path) (nx : option verified_multi_path) (e : nat) : Prop :=
    match nx with
    | None => e = 0
    | Some t' => common (vpath t) (vpath t') + 1 = e
    end.

  Lemma build_trie_ok : forall t ops,
    vm_depth t <= n -> term_typed n (vm_terminal t) -> ops_ok t ops ->
    exists sub, build_trie H n (vm_depth t) (leaf_ops_spliced (as_leaf_option (vm_terminal t)) ops) = Ok sub.
  Proof.
    intros t ops Hd Hty [Hs Hops].
    set (X := match as_leaf_option (vm_terminal t) with
              | Some (lk, lv) => splice lk lv ops
              | None => ops
              end).
    assert (Hl : leaf_ops_spliced (as_leaf_option (vm_terminal t)) ops = live_ops X).
    { unfold leaf_ops_spliced, X. destruct (as_leaf_option (vm_terminal t)) as [[lk lv]|]; reflexivity. }
    assert (HsX : sorted_keys (map fst X) = true).
    { unfold X. destruct (as_leaf_option (vm_terminal t)) as [[lk lv]|]; [apply sorted_splice|]; exact Hs. }
    assert (HallX : forall c, In c X ->
              length (fst c) = n /\ firstn (vm_depth t) (fst c) = firstn (vm_depth t) (vpath t)).
    { unfold X. intros c Hin. destruct (as_leaf_option (vm_terminal t)) as [[lk lv]|] eqn:Et.
      - apply In_splice in Hin. destruct Hin as [Heq|Hin]; [|apply Hops; exact Hin].
        subst c. cbn [fst]. unfold vpath. destruct (vm_terminal t) as [k0 v0|p0]; cbn in Et; [|discriminate].
        inversion Et; subst. cbn in Hty. cbn [term_path]. split; [exact Hty|reflexivity].
      - apply Hops. exact Hin. }
    rewrite Hl. eexists. apply build_trie_spec.
    - exact Hd.
    - apply sorted_live. exact HsX.
    - intros k x Hin. apply In_live in Hin. apply (HallX _ Hin).
    - intros k x k' x' Hin Hin'. apply In_live in Hin. apply In_live in Hin'.
      destruct (HallX _ Hin) as [_ P1]. destruct (HallX _ Hin') as [_ P2]. cbn [fst] in P1, P2.
      congruence.
  Qed.

  Lemma hct_eq : forall (P : pend) t nx (cs : cs_t) ops e,
    vm_depth t <= length (vpath t) -> vm_depth t <= n -> term_typed n (vm_terminal t) ->
    ops_ok t ops -> end_layer_ok t nx e -> e <= vm_depth t ->
    exists sub,
      hash_and_compact_terminal H n P t nx cs ops =
      finish (rev (skipn e (firstn (vm_depth t) (vpath t)))) e (sub, P, cs).
  Proof.
    intros P t nx cs ops e Hd Hn Hty Hops He Hed.
    destruct (build_trie_ok t ops Hn Hty Hops) as [sub Hsub].
    exists sub. unfold hash_and_compact_terminal. cbv zeta.
    assert (Hup : match nx with
                  | Some next_terminal =>
                      if Nat.eqb (common (term_path (vm_terminal t)) (term_path (vm_terminal next_terminal)))
                                 (vm_depth t)
                      then Err MultiPathPrefixOfAnother
                      else sub_res (vm_depth t)
                             (common (term_path (vm_terminal t)) (term_path (vm_terminal next_terminal)) + 1)
                  | None => Ok (vm_depth t)
                  end = @Ok err _ (vm_depth t - e)).
    { destruct nx as [t'|]; cbn [end_layer_ok] in He.
      - fold (vpath t) (vpath t').
        assert (E : Nat.eqb (common (vpath t) (vpath t')) (vm_depth t) = false) by (apply Nat.eqb_neq; lia).
        rewrite E. rewrite sub_res_ok by lia. rewrite He. reflexivity.
      - subst e. rewrite Nat.sub_0_r. reflexivity. }
    rewrite Hup. cbn [bind]. rewrite Hsub. cbn [bind].
    fold (vpath t). rewrite slice_to_res_ok by exact Hd. cbn [bind].
    unfold finish.
    rewrite firstn_rev. rewrite firstn_length, Nat.min_l by exact Hd.
    replace (vm_depth t - (vm_depth t - e)) with e by lia.
    rewrite rev_length, skipn_length, firstn_length, Nat.min_l by exact Hd.
    replace (e + (vm_depth t - e)) with (vm_depth t) by lia.
    reflexivity.
  Qed.

  (* ---- processing the terminals in order ---- *)

  Definition stepg (fuel : nat) (prune : bool) (i : nat) (ops : list (key * option value))
             (st : pend * cs_t) : res err (pend * cs_t) :=
    do t <- nth_res inner i ;;
    do cs' <- adv_rest fuel prune t (snd st) ;;
    hash_and_compact_terminal H n (fst st) t (nth_error inner (i + 1)) cs' ops.

  Definition step1 (i : nat) (ops : list (key * option value)) (st : pend * cs_t) : res err (pend * cs_t) :=
    do t <- nth_res inner i ;;
    do cs' <- advance H (snd st) v ;;
    hash_and_compact_terminal H n (fst st) t (nth_error inner (i + 1)) cs' ops.

  Lemma step1_eq : forall i ops st, cs_terminal_index (snd st) = i ->
    step1 i ops st = stepg (S (length bis)) true i ops st.
  Proof.
    intros i ops st Hi. unfold step1, stepg. rewrite advance_eq, Hi.
    destruct (nth_res inner i) as [t|e|]; reflexivity.
  Qed.

  Fixpoint run (i : nat) (opss : list (list (key * option value))) (st : pend * cs_t)
    : res err (pend * cs_t) :=
    match opss with
    | [] => Ok st
    | ops :: rest => do st' <- step1 i ops st ;; run (S i) rest st'
    end.

  Definition rung (fuel : nat) (prune : bool) (i : nat) (opss : list (list (key * option value)))
             (st : pend * cs_t) : res err (pend * cs_t) :=
    match opss with
    | [] => Ok st
    | ops :: rest => do st' <- stepg fuel prune i ops st ;; run (S i) rest st'
    end.

  Lemma run_app : forall A B i st,
    run i (A ++ B) st = do st' <- run i A st ;; run (i + length A) B st'.
  Proof.
    induction A as [|ops A IH]; intros B i st; cbn [app run length bind].
    - rewrite Nat.add_0_r. reflexivity.
    - rewrite bind_assoc. destruct (step1 i ops st) as [st'|e|]; cbn [bind]; try reflexivity.
      rewrite IH. replace (S i + length A) with (i + S (length A)) by lia. reflexivity.
  Qed.

  Lemma rung_app : forall fuel prune A B i st, A <> [] ->
    rung fuel prune i (A ++ B) st = do st' <- rung fuel prune i A st ;; run (i + length A) B st'.
  Proof.
    intros fuel prune [|ops A] B i st Hne; [congruence|]. cbn [app rung length].
    rewrite bind_assoc. destruct (stepg fuel prune i ops st) as [st'|e|]; cbn [bind]; try reflexivity.
    rewrite run_app. replace (S i + length A) with (i + S (length A)) by lia. reflexivity.
  Qed.

  Lemma run_rung : forall i opss st, cs_terminal_index (snd st) = i ->
    run i opss st = rung (S (length bis)) true i opss st.
  Proof.
    intros i [|ops rest] st Hi; [reflexivity|]. cbn [run rung]. rewrite step1_eq by exact Hi. reflexivity.
  Qed.

  Lemma finish_app : forall b1 b2 e nd (P : pend) (cs : cs_t),
    finish (b1 ++ b2) e (nd, P, cs) =
    do r <- compact_loop H b1 nd (e + length b2 + length b1) P cs ;;
    let '(nd', P', cs') := r in finish b2 e (nd', P', cs').
  Proof.
    intros b1 b2 e nd P cs. unfold finish. rewrite compact_loop_app, bind_assoc.
    rewrite app_length. replace (e + (length b1 + length b2)) with (e + length b2 + length b1) by lia.
    destruct (compact_loop H b1 nd (e + length b2 + length b1) P cs) as [[[nd' P'] cs']|x|]; cbn [bind];
      try reflexivity.
    replace (e + length b2 + length b1 - length b1) with (e + length b2) by lia. reflexivity.
  Qed.

  Lemma finish_nil : forall e nd (P : pend) (cs : cs_t), finish [] e (nd, P, cs) = Ok ((nd, e) :: P, cs).
  Proof. reflexivity. Qed.

  Lemma nth_error_mid : forall (A : Type) (pre : list A) x post, nth_error (pre ++ x :: post) (length pre) = Some x.
  Proof. intros A pre x post. rewrite nth_error_app2 by lia. rewrite Nat.sub_diag. reflexivity. Qed.

  Lemma range_run : forall pfx off used nd T B,
    VR sibs pfx off used nd T B ->
    forall preT postT preB postB e opss (P0 : pend) (cs0 : cs_t) fuel prune,
      inner = preT ++ T ++ postT ->
      bis = preB ++ B ++ postB ->
      (forall t, In t T -> term_typed n (vm_terminal t)) ->
      e <= length pfx ->
      end_layer_ok (last T dummy_path) (nth_error inner (length preT + length T)) e ->
      Forall2 ops_ok T opss ->
      Forall (fun p => snd p <= length pfx) P0 ->
      Forall (fun x => fst x < length pfx) (cs_stack cs0) ->
      cs_terminal_index cs0 = length preT ->
      cs_bisection_index cs0 = length preB ->
      cs_taken_siblings cs0 = off ->
      length bis + 1 <= fuel + length preB ->
      exists nd' (cs1 : cs_t),
        rung fuel prune (length preT) opss (P0, cs0) = finish (rev (skipn e pfx)) e (nd', P0, cs1) /\
        cs_stack cs1 = cs_stack cs0 /\ cs_taken_siblings cs1 = off + used /\
        cs_terminal_index cs1 = length preT + length T /\
        cs_bisection_index cs1 = length preB + length B.
  Proof.
    intros pfx off used nd T B HV.
    induction HV as [pfx off t d Hp H1 H2 H3|pfx cb off lu ru ln rn TL TR BL BR HL IHL HR IHR];
      intros preT postT preB postB e opss P0 cs0 fuel prune HiT HiB Hty He Hel Hops HP0 Hst0 Hti Hbi Htk Hfuel.
    - (* one terminal *)
      inversion Hops as [|t' ops T' opss' Hok Hrest]; subst. inversion Hrest; subst. clear Hops Hrest.
      set (tt := {| vm_terminal := t; vm_depth := d; vm_unique_siblings_start := cs_taken_siblings cs0;
                    vm_unique_siblings_end := cs_taken_siblings cs0 + (d - length pfx) |}) in *.
      cbn [rung]. rewrite bind_ret. unfold stepg.
      assert (Hnt : nth_error inner (length preT) = Some tt).
      { rewrite HiT. cbn [app]. apply nth_error_mid. }
      rewrite (nth_res_ok _ _ _ _ _ Hnt). cbn [bind snd fst].
      destruct (adv_rest_done fuel prune tt cs0 (length pfx)) as [cs' [Hadv [Hst' [Htk' [Hti' Hbi']]]]];
        try (cbn; lia).
      rewrite Hadv. cbn [bind].
      unfold tt in Hst', Htk'. cbn [vm_unique_siblings_start vm_unique_siblings_end] in Hst', Htk'.
      replace (cs_taken_siblings cs0 + (d - length pfx) - cs_taken_siblings cs0) with (d - length pfx) in Hst' by lia.
      assert (Htyt : term_typed n t) by (apply (Hty tt); left; reflexivity).
      pose proof (term_typed_path _ _ Htyt) as Hlen.
      cbn [length last] in Hel.
      destruct (hct_eq P0 tt (nth_error inner (length preT + 1)) cs' ops e) as [sub Hh];
        try (cbn; unfold vpath; cbn; lia); try assumption.
      rewrite Hh. unfold vpath, tt. cbn [vm_depth vm_terminal].
      (* the bits: the unique part, then the part within the prefix *)
      assert (Hbits : skipn e (firstn d (term_path t)) =
                      skipn e pfx ++ firstn (d - length pfx) (skipn (length pfx) (term_path t))).
      { rewrite (has_pfx_skipn _ _ Hp) at 1. rewrite firstn_app.
        rewrite (firstn_all2 pfx) by lia. rewrite skipn_app.
        replace (e - length pfx) with 0 by lia. reflexivity. }
      rewrite Hbits, rev_app_distr. rewrite finish_app.
      set (ub := firstn (d - length pfx) (skipn (length pfx) (term_path t))).
      assert (Hub : length ub = d - length pfx).
      { unfold ub. rewrite firstn_length, skipn_length. lia. }
      assert (Hsl : length (firstn (d - length pfx) (skipn (cs_taken_siblings cs0) sibs)) = d - length pfx).
      { rewrite firstn_length, skipn_length. lia. }
      destruct (compact_unique (firstn (d - length pfx) (skipn (cs_taken_siblings cs0) sibs))
                  (rev ub) sub (length pfx) P0 cs' (cs_stack cs0)) as [nd' Hc].
      { rewrite rev_length. lia. }
      { exact HP0. }
      { exact Hst'. }
      rewrite Hsl in Hc.
      rewrite !rev_length, skipn_length, Hub.
      replace (e + (length pfx - e) + (d - length pfx)) with (length pfx + (d - length pfx)) by lia.
      rewrite Hc. cbn [bind].
      exists nd', (set_stack cs' (cs_stack cs0)). split; [reflexivity|].
      cbn [set_stack cs_stack cs_taken_siblings cs_terminal_index cs_bisection_index length].
      repeat split; lia.
    - (* a bisection *)
      apply Forall2_app_inv_l in Hops. destruct Hops as [opssL [opssR [HopsL [HopsR ->]]]].
      pose proof (VR_nonempty H sibs _ _ _ _ _ _ HL) as HneL.
      pose proof (VR_nonempty H sibs _ _ _ _ _ _ HR) as HneR.
      assert (HoL : opssL <> []).
      { intros ->. inversion HopsL; subst. congruence. }
      assert (HlL : length opssL = length TL) by (symmetry; eapply Forall2_len; exact HopsL).
      pose proof (VR_used_le H sibs _ _ _ _ _ _ HL) as HuL.
      pose proof (VR_used_le H sibs _ _ _ _ _ _ HR) as HuR.
      set (sd := length pfx) in *. set (c := length cb) in *.
      assert (HlenL : length (pfx ++ cb ++ [false]) = sd + c + 1).
      { rewrite !app_length. cbn [length]. fold sd c. lia. }
      assert (HlenR : length (pfx ++ cb ++ [true]) = sd + c + 1).
      { rewrite !app_length. cbn [length]. fold sd c. lia. }
      (* ingest the bisection, if it was recorded *)
      assert (Hing : exists (cs0' : cs_t) fuel' prune',
                rung fuel prune (length preT) (opssL ++ opssR) (P0, cs0) =
                rung fuel' prune' (length preT) (opssL ++ opssR) (P0, cs0') /\
                cs_stack cs0' = push_enumerated H (sd + 1) (firstn c (skipn off sibs)) (cs_stack cs0) /\
                cs_taken_siblings cs0' = off + c /\
                cs_terminal_index cs0' = length preT /\
                cs_bisection_index cs0' = length preB + length (if Nat.ltb 0 c then [0] else []) /\
                length bis + 1 <= fuel' + cs_bisection_index cs0').
      { destruct (Nat.ltb 0 c) eqn:Ec.
        - apply Nat.ltb_lt in Ec.
          destruct TL as [|t0 TL']; [congruence|]. destruct opssL as [|ops0 opssL']; [congruence|].
          assert (Hnt : nth_error inner (length preT) = Some t0).
          { rewrite HiT. cbn [app]. apply nth_error_mid. }
          assert (Hnb : nth_error bis (cs_bisection_index cs0) =
                        Some {| vb_start_depth := sd; vb_common_siblings_start := off;
                                vb_common_siblings_end := off + c |}).
          { rewrite HiB, Hbi. cbn [app]. apply nth_error_mid. }
          destruct fuel as [|fuel'].
          { exfalso. rewrite HiB in Hfuel. rewrite !app_length in Hfuel. cbn [length] in Hfuel. lia. }
          destruct (VR_ranges H sibs _ _ _ _ _ _ HL) as [Hr _].
          specialize (Hr t0 (or_introl eq_refl)).
          destruct (advance_loop_bis fuel' t0 prune cs0 _ c Hnb) as [cs0' [Hal [Hs' [Ht' [Hti2 Hbi2]]]]];
            try (cbn; lia).
          { cbn [vb_start_depth]. exact Hst0. }
          exists cs0', fuel', false. split.
          + cbn [app rung]. unfold stepg. rewrite (nth_res_ok _ _ _ _ _ Hnt). cbn [bind snd].
            unfold adv_rest. rewrite Hal. reflexivity.
          + cbn [vb_start_depth] in Hs'. rewrite Htk in Hs', Ht'. cbn [length].
            repeat split; try assumption; lia.
        - apply Nat.ltb_ge in Ec. assert (Hc0 : c = 0) by lia.
          exists cs0, fuel, prune. split; [reflexivity|].
          rewrite Hc0. cbn [firstn push_enumerated length]. repeat split; lia. }
      destruct Hing as [cs0' [fuel' [prune' [Hrun0 [Hst1 [Htk1 [Hti1 [Hbi1 Hfuel1]]]]]]]].
      rewrite Hrun0. rewrite rung_app by exact HoL.
      set (bl := if Nat.ltb 0 c then [{| vb_start_depth := sd; vb_common_siblings_start := off;
                                          vb_common_siblings_end := off + c |}] else []) in *.
      assert (Hbl : length bl = length (if Nat.ltb 0 c then [0] else [])).
      { unfold bl. destruct (Nat.ltb 0 c); reflexivity. }
      (* the stack after the common siblings went in *)
      assert (Hst1b : Forall (fun x => fst x < sd + c + 1) (cs_stack cs0')).
      { rewrite Hst1. apply push_enumerated_bound.
        - eapply Forall_impl; [|exact Hst0]. intros x Hx. cbn beta in *. lia.
        - rewrite firstn_length. lia. }
      assert (HfT : nth_error inner (length preT + length TL) = hd_error TR).
      { rewrite HiT. rewrite nth_error_app2 by lia.
        replace (length preT + length TL - length preT) with (length TL) by lia.
        rewrite <- app_assoc. rewrite nth_error_app2 by lia. rewrite Nat.sub_diag.
        destruct TR as [|tr TR']; [congruence|reflexivity]. }
      (* left half *)
      destruct (IHL preT (TR ++ postT) (preB ++ bl) (BR ++ postB) (sd + c + 1) opssL P0 cs0' fuel' prune')
        as [ndL [cs1 [HrunL [Hst2 [Htk2 [Hti2 Hbi2]]]]]].
      { rewrite HiT. rewrite <- app_assoc. reflexivity. }
      { rewrite HiB. rewrite <- !app_assoc. reflexivity. }
      { intros t Hin. apply Hty. apply in_or_app. left. exact Hin. }
      { rewrite HlenL. lia. }
      { rewrite HfT. destruct TR as [|tr TR']; [congruence|]. cbn [hd_error end_layer_ok].
        destruct (VR_pfx H sibs _ _ _ _ _ _ HL (last TL dummy_path) (last_In' _ _ _ HneL)) as [Hpl _].
        destruct (VR_pfx H sibs _ _ _ _ _ _ HR tr (or_introl eq_refl)) as [Hpr _].
        rewrite app_assoc in Hpl, Hpr.
        rewrite (has_pfx_split_common (pfx ++ cb) _ _ false Hpl Hpr). rewrite app_length. fold sd c. lia. }
      { exact HopsL. }
      { rewrite HlenL. eapply Forall_impl; [|exact HP0]. intros x Hx. cbn beta in *. lia. }
      { rewrite HlenL. exact Hst1b. }
      { exact Hti1. }
      { rewrite app_length, Hbl. exact Hbi1. }
      { exact Htk1. }
      { rewrite app_length, Hbl. rewrite Hbi1 in Hfuel1. exact Hfuel1. }
      rewrite HrunL.
      replace (skipn (sd + c + 1) (pfx ++ cb ++ [false])) with (@nil bool)
        by (symmetry; apply skipn_all2; rewrite HlenL; lia).
      cbn [rev]. rewrite finish_nil. cbn [bind].
      rewrite HlL. rewrite run_rung by (cbn [snd]; exact Hti2).
      (* right half *)
      destruct (IHR (preT ++ TL) postT (preB ++ bl ++ BL) postB e opssR ((ndL, sd + c + 1) :: P0) cs1
                    (S (length bis)) true)
        as [ndR [cs2 [HrunR [Hst3 [Htk3 [Hti3 Hbi3]]]]]].
      { rewrite HiT. rewrite <- !app_assoc. reflexivity. }
      { rewrite HiB. rewrite <- !app_assoc. reflexivity. }
      { intros t Hin. apply Hty. apply in_or_app. right. exact Hin. }
      { rewrite HlenR. lia. }
      { rewrite (last_app_ne' _ TL TR dummy_path HneR) in Hel.
        rewrite app_length in *. rewrite Nat.add_assoc in Hel. exact Hel. }
      { exact HopsR. }
      { rewrite HlenR. constructor; [cbn; lia|].
        eapply Forall_impl; [|exact HP0]. intros x Hx. cbn beta in *. lia. }
      { rewrite HlenR, Hst2. exact Hst1b. }
      { rewrite app_length. exact Hti2. }
      { rewrite !app_length. rewrite Hbi2, app_length. lia. }
      { rewrite Htk2. fold c. lia. }
      { rewrite !app_length. lia. }
      rewrite app_length in HrunR. rewrite HrunR.
      (* the climb of the last terminal continues through this bisection *)
      assert (Hsk : skipn e (pfx ++ cb ++ [true]) = skipn e pfx ++ cb ++ [true]).
      { rewrite skipn_app. replace (e - length pfx) with 0 by (fold sd; lia). reflexivity. }
      rewrite Hsk. rewrite !rev_app_distr. cbn [rev app].
      change (true :: rev cb ++ rev (skipn e pfx)) with ([true] ++ rev cb ++ rev (skipn e pfx)).
      rewrite finish_app. rewrite app_length, !rev_length, skipn_length. cbn [length]. fold sd c.
      replace (e + (c + (sd - e)) + 1) with (sd + c + 1) by lia.
      destruct (compact_pending true [] ndR (sd + c + 1) ndL P0 cs2) as [nd1 Hcp].
      { lia. }
      { rewrite Hst3, Hst2. destruct (cs_stack cs0') as [|[d0 x0] st]; [exact I|].
        inversion Hst1b as [|y l' Hy Hl']; subst. cbn [fst] in Hy. lia. }
      rewrite Hcp. cbn [compact_loop bind].
      rewrite finish_app. rewrite !rev_length, skipn_length. fold sd c.
      replace (e + (sd - e) + c) with (sd + c) by lia.
      destruct (compact_unique (firstn c (skipn off sibs)) (rev cb) nd1 sd P0 cs2 (cs_stack cs0)) as [nd2 Hcu].
      { rewrite rev_length, firstn_length, skipn_length. fold c. lia. }
      { exact HP0. }
      { rewrite Hst3, Hst2, Hst1. replace (sd + 1) with (S sd) by lia. reflexivity. }
      rewrite firstn_length, skipn_length in Hcu.
      replace (Nat.min c (length sibs - off)) with c in Hcu by lia.
      replace (sd + c + 1 - 1) with (sd + c) by lia.
      rewrite Hcu. cbn [bind].
      exists nd2, (set_stack cs2 (cs_stack cs0)). split; [reflexivity|].
      cbn [set_stack cs_stack cs_taken_siblings cs_terminal_index cs_bisection_index].
      rewrite Htk3, Hti3, Hbi3. rewrite !app_length. fold c. fold bl.
      repeat split; lia.
  Qed.

  (* ---- the whole sequence of terminals, and every prefix of it ---- *)

  Hypothesis Hwf : vmp_wf v.
  Hypothesis Hty : vmp_typed n v.

  Definition st_init : pend * cs_t := ([], cs_new H).

  Lemma ops_ok_nil : forall t, ops_ok t [].
  Proof. intros t. split; [reflexivity|intros c []]. Qed.

  Lemma run_all : forall opss, Forall2 ops_ok inner opss -> exists st, run 0 opss st_init = Ok st.
  Proof.
    intros opss Hops. destruct Hwf as [nd HV].
    destruct (range_run [] 0 (length sibs) nd inner bis HV [] [] [] [] 0 opss [] (cs_new H)
                (S (length bis)) true) as [nd' [cs1 [Hr _]]]; try reflexivity.
    - rewrite !app_nil_r. reflexivity.
    - rewrite !app_nil_r. reflexivity.
    - exact Hty.
    - cbn [length plus]. rewrite (proj2 (nth_error_None inner (length inner)) (le_n _)). reflexivity.
    - exact Hops.
    - constructor.
    - constructor.
    - cbn [length]. lia.
    - rewrite run_rung by reflexivity. cbn [length] in Hr. unfold st_init. rewrite Hr.
      cbn. eexists. reflexivity.
  Qed.

  Lemma Forall2_ops_nil : forall l : list verified_multi_path, Forall2 ops_ok l (repeat [] (length l)).
  Proof. induction l as [|t l IH]; cbn [length repeat]; constructor; [apply ops_ok_nil|exact IH]. Qed.

  Lemma run_prefix : forall l post opss, inner = l ++ post -> Forall2 ops_ok l opss ->
    exists st, run 0 opss st_init = Ok st.
  Proof.
    intros l post opss Hi Hops.
    destruct (run_all (opss ++ repeat [] (length post))) as [st Hst].
    { rewrite Hi. apply Forall2_app; [exact Hops|apply Forall2_ops_nil]. }
    rewrite run_app in Hst. destruct (run 0 opss st_init) as [st'|e|]; cbn [bind] in Hst; try discriminate.
    exists st'. reflexivity.
  Qed.

  (* ---- the loops of verify_update are such sequences ---- *)

  Lemma ingest_up_to_current_run : forall m ti (P : pend) (cs : cs_t), ti + m < length inner ->
    ingest_up_to_current H n m ti v P cs = run ti (repeat [] m) (P, cs).
  Proof.
    induction m as [|m IH]; intros ti P cs Hlt; [reflexivity|].
    cbn [ingest_up_to_current repeat run]. unfold step1. cbn [fst snd].
    destruct (nth_error inner (ti + 1)) as [nt|] eqn:En.
    2:{ apply nth_error_None in En. lia. }
    destruct (nth_res inner ti) as [t|e|]; cbn [bind]; try reflexivity.
    rewrite (nth_res_ok _ _ _ _ _ En). cbn [bind].
    destruct (advance H cs v) as [cs'|e|]; cbn [bind]; try reflexivity.
    destruct (hash_and_compact_terminal H n P t (Some nt) cs' []) as [[P' cs'']|e|]; cbn [bind fst snd];
      try reflexivity.
    apply IH. lia.
  Qed.

  Definition end_ops (uti : nat) (working : list (key * option value)) (ti m : nat) :=
    map (fun i => if Nat.eqb i uti then working else []) (seq ti m).

  Lemma ingest_to_end_run : forall m ti uti working (P : pend) (cs : cs_t), ti + m = length inner ->
    ingest_to_end H n m ti v uti working P cs = run ti (end_ops uti working ti m) (P, cs).
  Proof.
    induction m as [|m IH]; intros ti uti working P cs Hlt; [reflexivity|].
    cbn [ingest_to_end end_ops seq map run]. unfold step1. cbn [fst snd].
    destruct (nth_res inner ti) as [t|e|]; cbn [bind]; try reflexivity.
    assert (Hnx : (do next_terminal <-
                     match (if Nat.eqb ti (length inner - 1) then None else Some (ti + 1)) with
                     | None => Ok None
                     | Some n0 => do t0 <- nth_res inner n0 ;; Ok (Some t0)
                     end ;; @Ok err _ next_terminal) = Ok (nth_error inner (ti + 1))).
    { destruct (Nat.eqb ti (length inner - 1)) eqn:Ee.
      - apply Nat.eqb_eq in Ee. cbn [bind].
        rewrite (proj2 (nth_error_None inner (ti + 1))) by lia. reflexivity.
      - apply Nat.eqb_neq in Ee. destruct (nth_error inner (ti + 1)) as [nt|] eqn:En.
        + rewrite (nth_res_ok _ _ _ _ _ En). reflexivity.
        + apply nth_error_None in En. lia. }
    rewrite bind_ret in Hnx. rewrite Hnx. cbn [bind].
    destruct (advance H cs v) as [cs'|e|]; cbn [bind]; try reflexivity.
    destruct (hash_and_compact_terminal H n P t (nth_error inner (ti + 1)) cs'
                (if Nat.eqb ti uti then working else [])) as [[P' cs'']|e|]; cbn [bind fst snd];
      try reflexivity.
    apply IH. lia.
  Qed.

  Lemma Forall2_end_ops : forall uti working m ti,
    ti + m = length inner ->
    (forall t, nth_error inner uti = Some t -> ops_ok t working) ->
    Forall2 ops_ok (skipn ti inner) (end_ops uti working ti m).
  Proof.
    intros uti working. induction m as [|m IH]; intros ti Hlen Hw.
    - rewrite skipn_all2 by lia. constructor.
    - destruct (nth_error inner ti) as [t|] eqn:En.
      2:{ apply nth_error_None in En. lia. }
      assert (Hsk : skipn ti inner = t :: skipn (S ti) inner).
      { clear -En. revert ti En. generalize inner as l. induction l as [|x l IHl]; intros [|ti] En;
          cbn in En; try discriminate.
        - inversion En; subst. reflexivity.
        - cbn [skipn]. rewrite (IHl ti En). reflexivity. }
      rewrite Hsk. unfold end_ops. cbn [seq map]. constructor.
      + destruct (Nat.eqb ti uti) eqn:Ee; [|apply ops_ok_nil].
        apply Nat.eqb_eq in Ee. subst uti. apply Hw. exact En.
      + apply IH; [lia|exact Hw].
  Qed.

  (* ---- the main loop of verify_update ---- *)

  Lemma inner_bounds : forall t, In t inner -> vm_depth t <= length (vpath t) /\ length (vpath t) <= n.
  Proof.
    intros t Hin. destruct Hwf as [nd HV].
    destruct (VR_pfx H _ _ _ _ _ _ _ HV t Hin) as [_ [_ Hd]].
    split; [exact Hd|]. apply term_typed_path. apply Hty. exact Hin.
  Qed.

  Lemma nth_error_skipn : forall (A : Type) a b (l : list A), nth_error (skipn a l) b = nth_error l (a + b).
  Proof.
    intros A a. induction a as [|a IH]; intros b l; [reflexivity|].
    destruct l as [|x l]; cbn [skipn plus nth_error]; [destruct b; reflexivity|apply IH].
  Qed.

  Lemma find_terminal_spec : forall l i key, length key = n ->
    (forall t, In t l -> vm_depth t <= length (vpath t) /\ length (vpath t) <= n) ->
    match find_terminal l i key with
    | Panic => False
    | Err _ => True
    | Ok j => i <= j /\ exists t, nth_error l (j - i) = Some t /\
                firstn (vm_depth t) key = firstn (vm_depth t) (vpath t)
    end.
  Proof.
    induction l as [|t l IH]; intros i key Hk Hall; cbn [find_terminal]; [exact I|].
    destruct (Hall t (or_introl eq_refl)) as [Hd Hl].
    unfold terminal_contains. fold (vpath t).
    rewrite slice_to_res_ok by lia. cbn [bind]. rewrite slice_to_res_ok by lia. cbn [bind].
    destruct (key_eqb (firstn (vm_depth t) key) (firstn (vm_depth t) (vpath t))) eqn:Ek.
    - split; [lia|]. exists t. rewrite Nat.sub_diag. split; [reflexivity|].
      apply key_eqb_true_iff. exact Ek.
    - specialize (IH (S i) key Hk (fun t' Hin => Hall t' (or_intror Hin))).
      destruct (find_terminal l (S i) key) as [j|e|]; try exact IH.
      destruct IH as [Hij [t' [Hn Hf]]]. split; [lia|]. exists t'. split; [|exact Hf].
      replace (j - i) with (S (j - S i)) by lia. exact Hn.
  Qed.

  Lemma split3 : forall (A : Type) (l : list A) s x t, s <= x -> nth_error l x = Some t ->
    l = firstn s l ++ firstn (x - s) (skipn s l) ++ t :: skipn (x + 1) l.
  Proof.
    intros A l s x t Hs Hn.
    rewrite <- (firstn_skipn s l) at 1. f_equal.
    rewrite <- (firstn_skipn (x - s) (skipn s l)) at 1. f_equal.
    rewrite skipn_skipn'. replace (s + (x - s)) with x by lia.
    clear Hs. revert x Hn. induction l as [|y l IH]; intros [|x] Hn; cbn in Hn; try discriminate.
    - inversion Hn; subst. reflexivity.
    - cbn [skipn plus]. apply IH. exact Hn.
  Qed.

  Definition inv (st : vu_state H) : Prop :=
    let s := unwrap_or (st_next_pending_terminal_index H st) 0 in
    (exists opss, Forall2 ops_ok (firstn s inner) opss /\
       run 0 opss st_init = Ok (st_pending_siblings H st, st_common_siblings H st)) /\
    s <= length inner /\
    match st_last_terminal_index H st with
    | None => st_working_ops H st = [] /\ st_next_pending_terminal_index H st = None
    | Some j =>
        s <= j /\
        (exists t, nth_error inner j = Some t /\ ops_ok t (st_working_ops H st)) /\
        (forall c, In c (st_working_ops H st) ->
           exists lk, st_last_key H st = Some lk /\ key_le (fst c) lk)
    end.

  Lemma ops_ok_snoc : forall t ops key op lk,
    ops_ok t ops ->
    (forall c, In c ops -> key_le (fst c) lk) -> key_ltb lk key = true ->
    length key = n -> firstn (vm_depth t) key = firstn (vm_depth t) (vpath t) ->
    ops_ok t (ops ++ [(key, op)]).
  Proof.
    intros t ops key op lk [Hs Hall] Hle Hlt Hk Hf. split.
    - rewrite map_app. apply sorted_app; [exact Hs|reflexivity|].
      intros a b Ha Hb. destruct Hb as [<-|[]]. cbn [fst].
      apply in_map_iff in Ha. destruct Ha as [c [<- Hc]].
      destruct (Hle c Hc) as [->|Hlt']; [exact Hlt|]. eapply key_ltb_trans; eassumption.
    - intros c Hin. apply in_app_or in Hin. destruct Hin as [Hin|[<-|[]]]; [apply Hall; exact Hin|].
      cbn [fst]. split; assumption.
  Qed.

  Lemma step_inv : forall st key op, inv st -> length key = n ->
    match verify_update_step H n v st key op with
    | Panic => False
    | Err _ => True
    | Ok st' => inv st'
    end.
  Proof.
    intros st key op [[opss [Hops Hrun]] [Hs Hlast]] Hk. unfold verify_update_step.
    set (s := unwrap_or (st_next_pending_terminal_index H st) 0) in *.
    destruct (match st_last_key H st with
              | Some last_key => negb (key_ltb last_key key)
              | None => false
              end) eqn:Eord; [exact I|].
    pose proof (find_terminal_spec (skipn (unwrap_or (st_last_terminal_index H st) 0) inner)
                  (unwrap_or (st_last_terminal_index H st) 0) key Hk) as Hft.
    destruct (find_terminal (skipn (unwrap_or (st_last_terminal_index H st) 0) inner)
                (unwrap_or (st_last_terminal_index H st) 0) key) as [j'|e|]; cbn [bind]; [|exact I|].
    2:{ apply Hft. intros t Hin. apply inner_bounds.
        rewrite <- (firstn_skipn (unwrap_or (st_last_terminal_index H st) 0) inner).
        apply in_or_app. right. exact Hin. }
    destruct Hft as [Hge [t' [Hnt' Hsc]]].
    { intros t Hin. apply inner_bounds.
      rewrite <- (firstn_skipn (unwrap_or (st_last_terminal_index H st) 0) inner).
      apply in_or_app. right. exact Hin. }
    rewrite nth_error_skipn in Hnt'.
    replace (unwrap_or (st_last_terminal_index H st) 0 + (j' - unwrap_or (st_last_terminal_index H st) 0))
      with j' in Hnt' by lia.
    assert (Hnew : ops_ok t' [(key, op)]).
    { split; [reflexivity|]. intros c [<-|[]]. cbn [fst]. split; assumption. }
    destruct (st_last_terminal_index H st) as [x|] eqn:Elt.
    - destruct Hlast as [Hsx [[t [Hnt Hw]] Hlk]]. cbn [unwrap_or] in Hge.
      destruct (Nat.eqb x j') eqn:Exj.
      + (* same terminal: the operation joins the working set *)
        apply Nat.eqb_eq in Exj. subst j'.
        unfold inv. cbn [st_next_pending_terminal_index st_pending_siblings st_common_siblings
                         st_last_terminal_index st_working_ops st_last_key].
        fold s. split; [exists opss; split; assumption|]. split; [exact Hs|]. split; [exact Hsx|].
        rewrite Hnt in Hnt'. inversion Hnt'; subst t'. split.
        * exists t. split; [exact Hnt|].
          destruct (st_working_ops H st) as [|c0 w] eqn:Ew.
          { exact Hnew. }
          destruct (Hlk c0 (or_introl eq_refl)) as [lk [Hlk1 _]].
          rewrite Hlk1 in Eord. apply negb_false_iff in Eord.
          apply (ops_ok_snoc t (c0 :: w) key op lk); try assumption.
          intros c Hc. destruct (Hlk c Hc) as [lk' [Hlk2 Hle]]. congruence.
        * intros c Hin. exists key. split; [reflexivity|].
          apply in_app_or in Hin. destruct Hin as [Hin|[<-|[]]]; [|left; reflexivity].
          destruct (Hlk c Hin) as [lk [Hlk1 Hle]]. rewrite Hlk1 in Eord. apply negb_false_iff in Eord.
          right. destruct Hle as [->|Hlt]; [exact Eord|eapply key_ltb_trans; eassumption].
      + (* a new terminal: everything up to the updated one is ingested *)
        apply Nat.eqb_neq in Exj.
        assert (Hxl : x < length inner) by (apply nth_error_Some; congruence).
        pose proof (split3 _ inner s x t Hsx Hnt) as Hsplit.
        set (l := firstn s inner ++ firstn (x - s) (skipn s inner) ++ [t]).
        set (opss' := opss ++ repeat [] (x - s) ++ [st_working_ops H st]).
        assert (Hl : inner = l ++ skipn (x + 1) inner).
        { unfold l. rewrite <- !app_assoc. exact Hsplit. }
        assert (Hll : length l = x + 1).
        { unfold l. rewrite !app_length, !firstn_length, skipn_length. cbn [length]. lia. }
        assert (Hops' : Forall2 ops_ok l opss').
        { unfold l, opss'. apply Forall2_app; [exact Hops|]. apply Forall2_app.
          - pose proof (Forall2_ops_nil (firstn (x - s) (skipn s inner))) as Hmid.
            rewrite firstn_length, skipn_length in Hmid.
            replace (Nat.min (x - s) (length inner - s)) with (x - s) in Hmid by lia. exact Hmid.
          - constructor; [exact Hw|constructor]. }
        destruct (run_prefix l _ opss' Hl Hops') as [stf Hstf].
        pose proof Hstf as Hrun'.
        assert (Hlo : length opss = s).
        { rewrite <- (Forall2_len _ _ _ _ _ Hops). rewrite firstn_length. lia. }
        unfold opss' in Hstf. rewrite run_app, Hrun in Hstf. cbn [bind plus] in Hstf.
        rewrite Hlo in Hstf. rewrite run_app in Hstf. rewrite repeat_length in Hstf.
        replace (s + (x - s)) with x in Hstf by lia.
        cbn [unwrap_or]. fold s.
        rewrite ingest_up_to_current_run by lia.
        destruct (run s (repeat [] (x - s)) (st_pending_siblings H st, st_common_siblings H st))
          as [[P CS]|e|]; cbn [bind] in Hstf |- *; try discriminate.
        cbn [run] in Hstf. rewrite bind_ret in Hstf. unfold step1 in Hstf. cbn [fst snd] in Hstf.
        destruct (nth_res inner x) as [t0|e|]; cbn [bind] in Hstf |- *; try discriminate.
        destruct (advance H CS v) as [CS'|e|]; cbn [bind] in Hstf |- *; try discriminate.
        rewrite Hstf. cbn [bind].
        unfold inv. cbn [st_next_pending_terminal_index st_pending_siblings st_common_siblings
                         st_last_terminal_index st_working_ops st_last_key unwrap_or].
        split; [|split; [lia|]].
        * exists opss'. split.
          -- replace (firstn (x + 1) inner) with l; [exact Hops'|].
             rewrite <- Hll. clear -Hl. clearbody l. rewrite Hl.
             rewrite firstn_app, Nat.sub_diag. cbn [firstn].
             rewrite app_nil_r. symmetry. apply firstn_all.
          -- rewrite Hrun'. destruct stf; reflexivity.
        * split; [lia|]. split; [exists t'; split; assumption|].
          intros c [<-|[]]. exists key. split; [reflexivity|left; reflexivity].
    - (* the first operation *)
      destruct Hlast as [Hw Hnp]. cbn [unwrap_or] in *.
      unfold inv. cbn [st_next_pending_terminal_index st_pending_siblings st_common_siblings
                       st_last_terminal_index st_working_ops st_last_key].
      fold s. split; [exists opss; split; assumption|]. split; [exact Hs|].
      split; [unfold s; rewrite Hnp; cbn; lia|]. rewrite Hw. cbn [app]. split.
      + exists t'. split; assumption.
      + intros c [<-|[]]. exists key. split; [reflexivity|left; reflexivity].
  Qed.


  Lemma loop_inv : forall ops st, inv st -> (forall k o, In (k, o) ops -> length k = n) ->
    match verify_update_loop H n v ops st with
    | Panic => False
    | Err _ => True
    | Ok st' => inv st'
    end.
  Proof.
    induction ops as [|[key op] ops IH]; intros st Hinv Hk; cbn [verify_update_loop]; [exact Hinv|].
    pose proof (step_inv st key op Hinv (Hk key op (or_introl eq_refl))) as Hstep.
    destruct (verify_update_step H n v st key op) as [st'|e|]; cbn [bind]; [|exact I|exact Hstep].
    apply IH; [exact Hstep|]. intros k o Hin. apply (Hk k o). right. exact Hin.
  Qed.

  Lemma last_ok : forall st, inv st -> verify_update_last H n v st <> Panic.
  Proof.
    intros st [[opss [Hops Hrun]] [Hs Hlast]]. unfold verify_update_last.
    set (s := unwrap_or (st_next_pending_terminal_index H st) 0) in *.
    rewrite ingest_to_end_run by lia.
    set (eo := end_ops (unwrap_or (st_last_terminal_index H st) 0) (st_working_ops H st) s (length inner - s)).
    destruct (run_all (opss ++ eo)) as [stf Hstf].
    { rewrite <- (firstn_skipn s inner) at 1. apply Forall2_app; [exact Hops|].
      apply Forall2_end_ops; [lia|].
      intros t Hnt. destruct (st_last_terminal_index H st) as [j|]; cbn [unwrap_or] in Hnt.
      - destruct Hlast as [_ [[t0 [Hnt0 Hw]] _]]. congruence.
      - destruct Hlast as [Hw _]. rewrite Hw. apply ops_ok_nil. }
    assert (Hlo : length opss = s).
    { rewrite <- (Forall2_len _ _ _ _ _ Hops). rewrite firstn_length. lia. }
    rewrite run_app, Hrun in Hstf. cbn [bind plus] in Hstf. rewrite Hlo in Hstf.
    rewrite Hstf. discriminate.
  Qed.

  Theorem verify_update_total_gen : forall ops, (forall k o, In (k, o) ops -> length k = n) ->
    verify_update H n v ops <> Panic.
  Proof.
    intros ops Hk. unfold verify_update. destruct ops as [|c ops]; [discriminate|].
    set (st0 := {| st_pending_siblings := []; st_last_key := None; st_last_terminal_index := None;
                   st_next_pending_terminal_index := None; st_working_ops := [];
                   st_common_siblings := cs_new H |}).
    assert (Hinv0 : inv st0).
    { unfold inv, st0. cbn. split; [|split; [lia|split; reflexivity]].
      exists []. split; [constructor|reflexivity]. }
    pose proof (loop_inv (c :: ops) st0 Hinv0 Hk) as Hl.
    destruct (verify_update_loop H n v (c :: ops) st0) as [st|e|]; cbn [bind]; [|discriminate|contradiction].
    pose proof (last_ok st Hl) as Hlast.
    destruct (verify_update_last H n v st) as [r|e|]; cbn [bind]; [discriminate|discriminate|congruence].
  Qed.
End UpdateTotal.

(* C18: the update verifier is total on every well-formed verified multi-proof whose terminals
   carry 256-bit leaf keys / positions of at most 256 bits (in particular on everything verify
   returns for such inputs), for arbitrary operations over 256-bit keys: none of the index, slice,
   underflow, assert_eq and unwrap sites of CommonSiblings / hash_and_compact_terminal /
   build_trie fires, and no loop runs out of fuel. *)
Theorem multi_verify_update_total : forall (H : Hasher) (v : verified_multi_proof H) ops,
  vmp_wf v -> vmp_typed 256 v -> (forall k o, In (k, o) ops -> length k = 256) ->
  MultiUpdate.verify_update H 256 v ops <> Panic.
Proof. intros H v ops Hwf Hty Hk. exact (verify_update_total_gen H 256 v Hwf Hty ops Hk). Qed.

Corollary multi_verify_then_update_total : forall (H : Hasher) (mp : multi_proof H) root v ops,
  mp_typed 256 mp -> verify H mp root = Ok v -> (forall k o, In (k, o) ops -> length k = 256) ->
  MultiUpdate.verify_update H 256 v ops <> Panic.
Proof.
  intros H mp root v ops Hty Hv Hk. apply multi_verify_update_total; try assumption.
  - eapply verify_vmp_wf. exact Hv.
  - eapply verify_vmp_typed; eassumption.
Qed.

(* ------------------------------------------------------------------------------------------ *)
(* 5. Soundness (C08): a verified multi-proof only confirms true statements                    *)
(* ------------------------------------------------------------------------------------------ *)

Lemma descend_app : forall p1 p2 t,
  descend t (p1 ++ p2) = match descend t p1 with Some t' => descend t' p2 | None => None end.
Proof.
  induction p1 as [|b p1 IH]; intros p2 t; [reflexivity|].
  cbn [app descend]. destruct t as [|k v|l r]; try reflexivity. apply IH.
Qed.

Lemma hash_int_inv : forall (H : Hasher), HasherOK H -> HasherCF H ->
  forall t a b, hash H t = hint H a b -> exists l r, t = Br l r /\ hash H l = a /\ hash H r = b.
Proof.
  intros H OK CF t a b Ht. destruct t as [|k v|l r]; cbn [hash] in Ht.
  - exfalso. symmetry in Ht. exact (hint_ne_term H OK _ _ Ht).
  - exfalso. symmetry in Ht. exact (hint_ne_leaf H OK _ _ _ _ Ht).
  - apply (hint_inj H CF) in Ht. destruct Ht as [<- <-]. exists l, r. repeat split.
Qed.

(* the trie a terminal stands for *)
Definition terminal_trie (t : terminal) : trie :=
  match t with TLeaf k x => Lf k x | TTerm _ => E end.

Lemma terminal_trie_inv : forall (H : Hasher), HasherOK H -> HasherCF H ->
  forall t tm, hash H t = terminal_node H tm -> t = terminal_trie tm.
Proof.
  intros H OK CF t [k x|p] Ht; cbn in *.
  - apply (hash_leaf_inv H OK CF). exact Ht.
  - apply (hash_term_inv H OK). exact Ht.
Qed.

(* a range that hashes to the hash of a trie: each of its terminals is found in that trie by
   following the terminal's path (below the range's prefix) down to the terminal's depth *)
Lemma VR_descend : forall (H : Hasher), HasherOK H -> HasherCF H ->
  forall (sibs : list (node H)) pfx off used nd T B, VR sibs pfx off used nd T B ->
  forall tr, hash H tr = nd ->
  forall t, In t T ->
    descend tr (skipn (length pfx) (firstn (vm_depth t) (vpath t))) = Some (terminal_trie (vm_terminal t)).
Proof.
  intros H OK CF sibs pfx off used nd T B HV.
  induction HV as [pfx off t d Hp H1 H2 H3|pfx cb off lu ru ln rn TL TR BL BR HL IHL HR IHR];
    intros tr Htr t0 Hin.
  - destruct Hin as [<-|[]]. unfold vpath. cbn [vm_depth vm_terminal].
    rewrite skipn_firstn_comm.
    unfold hash_path in Htr. symmetry in Htr.
    apply (hash_up_descend H OK CF) in Htr.
    + destruct Htr as [t' [Hd [Hh _]]]. rewrite Hd. f_equal.
      apply (terminal_trie_inv H OK CF). exact Hh.
    + rewrite !firstn_length, !skipn_length. lia.
  - unfold hash_path in Htr. symmetry in Htr.
    apply (hash_up_descend H OK CF) in Htr.
    2:{ rewrite firstn_length, skipn_length.
        pose proof (VR_used_le H sibs _ _ _ _ _ _ HL). lia. }
    destruct Htr as [t' [Hd [Hh _]]].
    destruct (hash_int_inv H OK CF t' ln rn Hh) as [l [r [-> [Hl Hr]]]].
    assert (Hgen : forall (b : bool) T' B' u o x, VR sibs (pfx ++ cb ++ [b]) o u x T' B' -> In t0 T' ->
              skipn (length pfx) (firstn (vm_depth t0) (vpath t0)) =
              cb ++ [b] ++ skipn (length (pfx ++ cb ++ [b])) (firstn (vm_depth t0) (vpath t0))).
    { intros b T' B' u o x HV' Hin'.
      destruct (VR_pfx H sibs _ _ _ _ _ _ HV' t0 Hin') as [Hp0 [Hd1 Hd2]].
      assert (Hpf : has_pfx (pfx ++ cb ++ [b]) (firstn (vm_depth t0) (vpath t0))).
      { unfold has_pfx in *. rewrite firstn_firstn. rewrite Nat.min_l by exact Hd1. exact Hp0. }
      rewrite (has_pfx_skipn _ _ Hpf) at 1.
      rewrite <- !app_assoc. rewrite skipn_app, Nat.sub_diag, skipn_all. reflexivity. }
    apply in_app_or in Hin. destruct Hin as [Hin|Hin].
    + rewrite (Hgen false _ _ _ _ _ HL Hin). rewrite descend_app, Hd. cbn [app descend].
      apply (IHL l Hl t0 Hin).
    + rewrite (Hgen true _ _ _ _ _ HR Hin). rewrite descend_app, Hd. cbn [app descend].
      apply (IHR r Hr t0 Hin).
Qed.

(* positions of [Trie.terminals] *)
Lemma descend_terminals : forall p t pos,
  descend t p = Some E -> In (pos ++ p, None) (terminals t pos).
Proof.
  induction p as [|b p IH]; intros t pos Hd.
  - cbn in Hd. inversion Hd; subst. rewrite app_nil_r. left. reflexivity.
  - cbn [descend] in Hd. destruct t as [|k v|l r]; try discriminate.
    cbn [terminals]. apply in_or_app.
    replace (pos ++ b :: p) with ((pos ++ [b]) ++ p) by (rewrite <- app_assoc; reflexivity).
    destruct b; [right|left]; apply IH; exact Hd.
Qed.

Lemma descend_terminals_leaf : forall p t pos k x,
  descend t p = Some (Lf k x) -> In (pos ++ p, Some (k, x)) (terminals t pos).
Proof.
  induction p as [|b p IH]; intros t pos k x Hd.
  - cbn in Hd. inversion Hd; subst. rewrite app_nil_r. left. reflexivity.
  - cbn [descend] in Hd. destruct t as [|k0 v0|l r]; try discriminate.
    cbn [terminals]. apply in_or_app.
    replace (pos ++ b :: p) with ((pos ++ [b]) ++ p) by (rewrite <- app_assoc; reflexivity).
    destruct b; [right|left]; apply IH; exact Hd.
Qed.

(* every (terminal, depth) of a multi-proof verified against the root of S is a real terminal of
   the canonical trie of S at that depth *)
Theorem multi_sound_terminals : forall (H : Hasher), HasherOK H -> HasherCF H ->
  forall n S (mp : multi_proof H) v,
  verify H mp (root_n H n S) = Ok v ->
  forall t, In t (vmp_inner v) ->
    descend (mk n 0 S) (firstn (vm_depth t) (vpath t)) = Some (terminal_trie (vm_terminal t)) /\
    In (firstn (vm_depth t) (vpath t), as_leaf_option (vm_terminal t)) (terminals (mk n 0 S) []).
Proof.
  intros H OK CF n S mp v Hv t Hin.
  destruct (verify_ok_inv H mp _ v Hv) as [nd [Heq [HV _]]].
  apply (eqb_ok H OK) in Heq. unfold root_n in Heq.
  pose proof (VR_descend H OK CF _ _ _ _ _ _ _ HV (mk n 0 S) Heq t Hin) as Hd.
  cbn [length skipn] in Hd. split; [exact Hd|].
  destruct (vm_terminal t) as [k x|p]; cbn [terminal_trie as_leaf_option] in *.
  - apply (descend_terminals_leaf _ _ []). exact Hd.
  - apply (descend_terminals _ _ []). exact Hd.
Qed.

Lemma find_index_inv : forall (H : Hasher) (v : verified_multi_proof H) k i,
  find_index_for H v k = Ok i ->
  exists t, nth_error (vmp_inner v) i = Some t /\
    vm_depth t <= length k /\
    firstn (vm_depth t) (vpath t) = firstn (vm_depth t) k.
Proof.
  intros H v k i Hf. unfold find_index_for in Hf.
  apply bind_ok_inv in Hf. destruct Hf as [r [Hb Hr]].
  destruct r as [j|j]; inversion Hr; subst j.
  apply bs_found in Hb. destruct Hb as [t [Hn Ht]]. exists t. split; [exact Hn|].
  unfold slice_to_res in Ht. fold (vpath t) in Ht.
  destruct (Nat.ltb (length (vpath t)) (vm_depth t)); cbn [bind] in Ht; [discriminate|].
  destruct (Nat.ltb (length k) (vm_depth t)) eqn:E2; cbn [bind] in Ht; [discriminate|].
  apply Nat.ltb_ge in E2. split; [exact E2|].
  inversion Ht as [Hc]. unfold key_cmp in Hc.
  destruct (key_eqb (firstn (vm_depth t) (vpath t)) (firstn (vm_depth t) k)) eqn:Ek.
  - apply key_eqb_true_iff. exact Ek.
  - destruct (key_ltb _ _); discriminate.
Qed.

(* the lookup a found terminal answers *)
Lemma multi_sound_get : forall (H : Hasher), HasherOK H -> HasherCF H ->
  forall n S (mp : multi_proof H) v, wf n S ->
  verify H mp (root_n H n S) = Ok v ->
  forall k i, length k = n -> find_index_for H v k = Ok i ->
  exists t, nth_error (vmp_inner v) i = Some t /\
    get S k = match vm_terminal t with
              | TLeaf a b => if key_eqb a k then Some b else None
              | TTerm _ => None
              end.
Proof.
  intros H OK CF n S mp v Hwf Hv k i Hk Hf.
  destruct (find_index_inv H v k i Hf) as [t [Hn [Hdk Hpre]]].
  exists t. split; [exact Hn|].
  destruct (multi_sound_terminals H OK CF n S mp v Hv t (nth_error_In _ _ Hn)) as [Hd _].
  rewrite Hpre in Hd.
  assert (Hlen : length (firstn (vm_depth t) k) = vm_depth t) by (rewrite firstn_length; lia).
  pose proof (descend_walk H (firstn (vm_depth t) k) (mk n 0 S) _ k 0 Hd) as Hw.
  rewrite Hlen in Hw. specialize (Hw eq_refl). cbn [plus] in Hw.
  destruct (vm_terminal t) as [a b|p]; cbn [terminal_trie walk] in Hw.
  - destruct (mk_walk H n S k _ _ Hwf Hk Hw) as [_ [_ [_ Hg]]]. exact Hg.
  - destruct (mk_walk H n S k _ _ Hwf Hk Hw) as [_ [_ Hg]]. exact Hg.
Qed.

Theorem multi_sound : forall (H : Hasher), HasherOK H -> HasherCF H ->
  forall n S (mp : multi_proof H) v, wf n S ->
  verify H mp (root_n H n S) = Ok v ->
  forall k, length k = n ->
    (forall x, confirm_value H v (k, x) = Ok true -> get S k = Some x) /\
    (forall x, confirm_value H v (k, x) = Ok false -> get S k <> Some x) /\
    (confirm_nonexistence H v k = Ok true -> get S k = None) /\
    (confirm_nonexistence H v k = Ok false -> get S k <> None).
Proof.
  intros H OK CF n S mp v Hwf Hv k Hk.
  unfold confirm_value, confirm_nonexistence. cbn [fst].
  destruct (find_index_for H v k) as [i|e|] eqn:Ef; cbn [bind];
    [|repeat split; intros; discriminate|repeat split; intros; discriminate].
  destruct (multi_sound_get H OK CF n S mp v Hwf Hv k i Hk Ef) as [t [Hn Hg]].
  unfold confirm_value_inner, confirm_nonexistence_inner.
  rewrite (nth_res_ok _ _ _ _ _ Hn). cbn [bind fst snd]. rewrite Hg.
  destruct (vm_terminal t) as [a b|p].
  - destruct (key_eqb a k) eqn:Ek; cbn [andb negb].
    + split; [|split; [|split]].
      * intros x Hc. inversion Hc as [Hc']. apply N.eqb_eq in Hc'. subst. reflexivity.
      * intros x Hc. inversion Hc as [Hc']. apply N.eqb_neq in Hc'. congruence.
      * intros Hc. discriminate.
      * intros _. discriminate.
    + split; [|split; [|split]].
      * intros x Hc. discriminate.
      * intros x _. discriminate.
      * intros _. reflexivity.
      * intros Hc. discriminate.
  - split; [|split; [|split]].
    + intros x Hc. discriminate.
    + intros x _. discriminate.
    + intros _. reflexivity.
    + intros Hc. discriminate.
Qed.

(* ------------------------------------------------------------------------------------------ *)
(* 4. Completeness (C07)                                                                        *)
(* ------------------------------------------------------------------------------------------ *)

(* 4a. Multi-proofs of the right shape verify.  [MPS pfx paths ss nd]: the paths (all below
   [pfx]) together with exactly the siblings [ss] hash up to [nd] at depth [length pfx]. *)
Section Complete.
  Variable H : Hasher.

  Definition mkp (t : terminal) (d : nat) : multi_path_proof := {| mpp_terminal := t; mpp_depth := d |}.

  Inductive MPS : key -> list multi_path_proof -> list (node H) -> node H -> Prop :=
  | MPS_one : forall pfx t d ss,
      has_pfx pfx (term_path t) -> length pfx <= d -> d <= length (term_path t) ->
      length ss = d - length pfx ->
      MPS pfx [mkp t d] ss
          (hash_path H (terminal_node H t)
                     (firstn (d - length pfx) (skipn (length pfx) (term_path t))) (rev ss))
  | MPS_split : forall pfx cb sc PL sl ln PR sr rn,
      length sc = length cb ->
      MPS (pfx ++ cb ++ [false]) PL sl ln ->
      MPS (pfx ++ cb ++ [true]) PR sr rn ->
      MPS pfx (PL ++ PR) (sc ++ sl ++ sr) (hash_path H (hint H ln rn) cb (rev sc)).

  Lemma MPS_nonempty : forall pfx P ss nd, MPS pfx P ss nd -> P <> [].
  Proof.
    intros pfx P ss nd HM. induction HM as [pfx t d ss Hp H1 H2 H3|pfx cb sc PL sl ln PR sr rn Hsc HL IHL HR IHR].
    - discriminate.
    - intros He. apply app_eq_nil in He. destruct He as [He _]. contradiction.
  Qed.

  Lemma MPS_pfx : forall pfx P ss nd, MPS pfx P ss nd -> forall p, In p P -> has_pfx pfx (tpath p).
  Proof.
    intros pfx P ss nd HM. induction HM as [pfx t d ss Hp H1 H2 H3|pfx cb sc PL sl ln PR sr rn Hsc HL IHL HR IHR];
      intros p Hin.
    - destruct Hin as [<-|[]]. exact Hp.
    - apply in_app_or in Hin. destruct Hin as [Hin|Hin].
      + eapply has_pfx_app_l. apply IHL. exact Hin.
      + eapply has_pfx_app_l. apply IHR. exact Hin.
  Qed.

  Lemma MPS_sorted : forall pfx P ss nd, MPS pfx P ss nd -> sorted_keys (map tpath P) = true.
  Proof.
    intros pfx P ss nd HM. induction HM as [pfx t d ss Hp H1 H2 H3|pfx cb sc PL sl ln PR sr rn Hsc HL IHL HR IHR].
    - reflexivity.
    - rewrite map_app. apply sorted_app; try assumption.
      intros a b Ha Hb. apply in_map_iff in Ha. destruct Ha as [pa [<- Ha]].
      apply in_map_iff in Hb. destruct Hb as [pb [<- Hb]].
      pose proof (MPS_pfx _ _ _ _ HL pa Ha) as Hpa. pose proof (MPS_pfx _ _ _ _ HR pb Hb) as Hpb.
      rewrite app_assoc in Hpa, Hpb. eapply has_pfx_split_ltb; eassumption.
  Qed.

  Lemma existsb_false : forall (A : Type) (f : A -> bool) l, (forall x, In x l -> f x = false) -> existsb f l = false.
  Proof.
    intros A f l. induction l as [|x l IH]; intros Hall; [reflexivity|].
    cbn [existsb]. rewrite (Hall x (or_introl eq_refl)). cbn [orb]. apply IH.
    intros y Hy. apply Hall. right. exact Hy.
  Qed.

  Lemma sorted_poo : forall paths prev,
    sorted_keys (match prev with Some q => q :: map tpath paths | None => map tpath paths end) = true ->
    paths_out_of_order prev paths = false.
  Proof.
    induction paths as [|p paths IH]; intros prev Hs; [reflexivity|].
    cbn [paths_out_of_order]. fold (tpath p). destruct prev as [q|].
    - cbn [map] in Hs. apply sk_cons_iff in Hs. destruct Hs as [Hlb Hs].
      rewrite (Hlb (tpath p) (or_introl eq_refl)). cbn [negb]. apply IH. exact Hs.
    - apply IH. exact Hs.
  Qed.

  Lemma verify_range_complete : forall pfx P ss nd, MPS pfx P ss nd ->
    forall fuel rest off vp vb, 1 <= fuel -> max_path_len tpath P + 2 <= fuel + length pfx ->
    exists T B, verify_range H fuel (length pfx) P (ss ++ rest) off vp vb = Ok (nd, length ss, vp ++ T, vb ++ B).
  Proof.
    intros pfx P ss nd HM.
    induction HM as [pfx t d ss Hp H1 H2 H3|pfx cb sc PL sl ln PR sr rn Hsc HL IHL HR IHR];
      intros fuel rest off vp vb Hf1 Hf2; (destruct fuel as [|fuel]; [lia|]).
    - cbn [verify_range mkp mpp_depth mpp_terminal].
      assert (E1 : Nat.ltb d (length pfx) || Nat.ltb (length (term_path t)) d = false).
      { apply orb_false_iff. split; apply Nat.ltb_ge; lia. }
      rewrite E1. rewrite sub_res_ok by lia. cbn [bind].
      assert (E2 : Nat.ltb (length (ss ++ rest)) (d - length pfx) = false).
      { apply Nat.ltb_ge. rewrite app_length. lia. }
      rewrite E2. rewrite slice_res_ok by lia. rewrite slice_to_res_ok by (rewrite app_length; lia).
      cbn [bind]. replace (length pfx + (d - length pfx) - length pfx) with (d - length pfx) by lia.
      rewrite <- H3. rewrite firstn_app, Nat.sub_diag. cbn [firstn]. rewrite app_nil_r, firstn_all.
      eexists [_], []. rewrite (app_nil_r vb). reflexivity.
    - pose proof (MPS_nonempty _ _ _ _ HL) as HneL. pose proof (MPS_nonempty _ _ _ _ HR) as HneR.
      set (c := length cb) in *.
      assert (HlenL : length (pfx ++ cb ++ [false]) = length pfx + c + 1).
      { rewrite !app_length. cbn [length]. fold c. lia. }
      assert (HlenR : length (pfx ++ cb ++ [true]) = length pfx + c + 1).
      { rewrite !app_length. cbn [length]. fold c. lia. }
      assert (HpL : forall p, In p PL -> has_pfx ((pfx ++ cb) ++ [false]) (tpath p)).
      { intros p Hin. rewrite <- app_assoc. eapply MPS_pfx; eassumption. }
      assert (HpR : forall p, In p PR -> has_pfx ((pfx ++ cb) ++ [true]) (tpath p)).
      { intros p Hin. rewrite <- app_assoc. eapply MPS_pfx; eassumption. }
      assert (Hlen : forall p, In p (PL ++ PR) -> length pfx + c < length (tpath p)).
      { intros p Hin. apply in_app_or in Hin. destruct Hin as [Hin|Hin].
        - pose proof (has_pfx_length _ _ (HpL p Hin)) as Hl. rewrite !app_length in Hl. cbn [length] in Hl. fold c in Hl. lia.
        - pose proof (has_pfx_length _ _ (HpR p Hin)) as Hl. rewrite !app_length in Hl. cbn [length] in Hl. fold c in Hl. lia. }
      destruct (PL ++ PR) as [|p0 [|p1 prest]] eqn:EP.
      { apply app_eq_nil in EP. destruct EP as [EP _]. contradiction. }
      { exfalso. destruct PL as [|x [|y PL']]; [congruence| |cbn in EP; destruct PL'; discriminate].
        destruct PR; [congruence|discriminate]. }
      rewrite verify_range_eq2. cbv zeta. rewrite <- EP.
      assert (Hp0 : In p0 PL).
      { destruct PL as [|x PL']; [congruence|]. cbn [app] in EP. inversion EP; subst. left. reflexivity. }
      assert (Hlast : nth_error (PL ++ PR) (length (PL ++ PR) - 1) = Some (last PR p0)).
      { rewrite (nth_error_last _ (PL ++ PR) p0) by (rewrite EP; discriminate).
        rewrite last_app_ne' by exact HneR. reflexivity. }
      rewrite (nth_res_ok _ _ _ _ _ Hlast). cbn [bind].
      set (pl := last PR p0).
      assert (Hpl : In pl PR) by (apply last_In'; exact HneR).
      fold (tpath p0) (tpath pl).
      pose proof (HpL p0 Hp0) as Hq0. pose proof (HpR pl Hpl) as Hql.
      pose proof (has_pfx_length _ _ Hq0) as Hl0. pose proof (has_pfx_length _ _ Hql) as Hll.
      rewrite !app_length in Hl0, Hll. cbn [length] in Hl0, Hll. fold c in Hl0, Hll.
      assert (E1 : Nat.ltb (length (tpath p0)) (length pfx) || Nat.ltb (length (tpath pl)) (length pfx) = false).
      { apply orb_false_iff. split; apply Nat.ltb_ge; lia. }
      rewrite E1. rewrite !slice_from_res_ok by lia. cbn [bind].
      (* the common bits of the first and the last path *)
      assert (Ha : skipn (length pfx) (tpath p0) = cb ++ false :: skipn (length pfx + c + 1) (tpath p0)).
      { rewrite (has_pfx_skipn _ _ Hq0) at 1. rewrite <- !app_assoc.
        rewrite skipn_app, Nat.sub_diag, skipn_all. cbn [skipn app].
        rewrite !app_length. cbn [length]. fold c. rewrite Nat.add_assoc. reflexivity. }
      assert (Hb : skipn (length pfx) (tpath pl) = cb ++ true :: skipn (length pfx + c + 1) (tpath pl)).
      { rewrite (has_pfx_skipn _ _ Hql) at 1. rewrite <- !app_assoc.
        rewrite skipn_app, Nat.sub_diag, skipn_all. cbn [skipn app].
        rewrite !app_length. cbn [length]. fold c. rewrite Nat.add_assoc. reflexivity. }
      assert (Hc : common (skipn (length pfx) (tpath p0)) (skipn (length pfx) (tpath pl)) = c).
      { rewrite Ha, Hb. apply (common_app_diff cb _ _ false). }
      rewrite Hc.
      assert (E2 : existsb (fun path => Nat.leb (length (term_path (mpp_terminal path))) (length pfx + c)) (PL ++ PR)
                   || Nat.ltb (length ((sc ++ sl ++ sr) ++ rest)) c = false).
      { apply orb_false_iff. split.
        - apply existsb_false. intros p Hin. apply Nat.leb_gt. rewrite <- EP in Hlen. apply (Hlen p Hin).
        - apply Nat.ltb_ge. rewrite !app_length. lia. }
      rewrite E2.
      rewrite (bs_partition _ PL PR).
      2:{ intros p Hin. replace (length pfx + c + 1 - 1) with (length pfx + c) by lia.
          fold (tpath p). unfold nth_res. rewrite nth_error_bit.
          - cbn [bind]. pose proof (has_pfx_bit _ _ _ _ (HpL p Hin)) as Hbit.
            rewrite app_length in Hbit. fold c in Hbit. rewrite Hbit. reflexivity.
          - rewrite <- EP in Hlen. apply Hlen. apply in_or_app. left. exact Hin. }
      2:{ intros p Hin. replace (length pfx + c + 1 - 1) with (length pfx + c) by lia.
          fold (tpath p). unfold nth_res. rewrite nth_error_bit.
          - cbn [bind]. pose proof (has_pfx_bit _ _ _ _ (HpR p Hin)) as Hbit.
            rewrite app_length in Hbit. fold c in Hbit. rewrite Hbit. reflexivity.
          - rewrite <- EP in Hlen. apply Hlen. apply in_or_app. right. exact Hin. }
      cbn [bind unwrap_err].
      assert (E3 : Nat.eqb (length PL) 0 || Nat.eqb (length PL) (length (PL ++ PR)) = false).
      { apply orb_false_iff. rewrite app_length. split; apply Nat.eqb_neq.
        - destruct PL; [congruence|cbn; lia].
        - destruct PR; [congruence|cbn [length]; lia]. }
      rewrite E3.
      rewrite (slice_to_res_ok _ _ (PL ++ PR) (length PL)) by (rewrite app_length; lia).
      rewrite (slice_from_res_ok _ _ ((sc ++ sl ++ sr) ++ rest) c) by (rewrite !app_length; lia).
      cbn [bind].
      rewrite firstn_app, Nat.sub_diag. cbn [firstn]. rewrite app_nil_r, firstn_all.
      rewrite <- !app_assoc.
      assert (Hsk0 : skipn c (sc ++ sl ++ sr ++ rest) = sl ++ sr ++ rest).
      { rewrite <- Hsc. rewrite skipn_app, Nat.sub_diag, skipn_all. reflexivity. }
      assert (Hfs0 : firstn c (sc ++ sl ++ sr ++ rest) = sc).
      { rewrite <- Hsc. rewrite firstn_app, Nat.sub_diag. cbn [firstn]. rewrite app_nil_r. apply firstn_all. }
      rewrite Hsk0.
      assert (Hmpl : length pfx + c < max_path_len tpath (PL ++ PR)).
      { eapply Nat.lt_le_trans; [|apply (max_path_len_In _ tpath (PL ++ PR) p0)].
        - rewrite <- EP in Hlen. apply Hlen. apply in_or_app. left. exact Hp0.
        - apply in_or_app. left. exact Hp0. }
      rewrite <- EP in Hf2.
      assert (HmL : max_path_len tpath PL <= max_path_len tpath (PL ++ PR)).
      { apply max_path_len_le. intros x Hx. apply max_path_len_In. apply in_or_app. left. exact Hx. }
      assert (HmR : max_path_len tpath PR <= max_path_len tpath (PL ++ PR)).
      { apply max_path_len_le. intros x Hx. apply max_path_len_In. apply in_or_app. right. exact Hx. }
      remember (if Nat.ltb 0 c
                then vb ++ [{| vb_start_depth := length pfx; vb_common_siblings_start := off;
                               vb_common_siblings_end := off + c |}]
                else vb) as vb1 eqn:Evb1.
      destruct (IHL fuel (sr ++ rest) (off + c) vp vb1 ltac:(lia) ltac:(rewrite HlenL; lia)) as [TL [BL HvL]].
      rewrite HlenL in HvL. rewrite HvL. cbn [bind].
      rewrite (slice_from_res_ok _ _ (PL ++ PR) (length PL)) by (rewrite app_length; lia).
      rewrite (slice_from_res_ok _ _ (sc ++ sl ++ sr ++ rest) (c + length sl)) by (rewrite !app_length; lia).
      cbn [bind].
      rewrite skipn_app, Nat.sub_diag, skipn_all. cbn [skipn app].
      assert (Hsk : skipn (c + length sl) (sc ++ sl ++ sr ++ rest) = sr ++ rest).
      { rewrite app_assoc. rewrite skipn_app. rewrite app_length, Hsc. fold c.
        rewrite Nat.sub_diag, skipn_all2 by (rewrite app_length, Hsc; fold c; lia). reflexivity. }
      rewrite Hsk.
      destruct (IHR fuel rest (off + c + length sl) (vp ++ TL) (vb1 ++ BL) ltac:(lia) ltac:(rewrite HlenR; lia))
        as [TR [BR HvR]].
      rewrite HlenR in HvR. rewrite HvR. cbn [bind].
      rewrite slice_res_ok by lia.
      rewrite (slice_to_res_ok _ _ (sc ++ sl ++ sr ++ rest) c) by (rewrite !app_length; lia).
      cbn [bind].
      replace (length pfx + c - length pfx) with c by lia.
      rewrite Ha, Hfs0.
      assert (Hfc : firstn c (cb ++ false :: skipn (length pfx + c + 1) (tpath p0)) = cb).
      { unfold c. rewrite firstn_app, Nat.sub_diag. cbn [firstn]. rewrite app_nil_r. apply firstn_all. }
      rewrite Hfc.
      exists (TL ++ TR), ((if Nat.ltb 0 c
                            then [{| vb_start_depth := length pfx; vb_common_siblings_start := off;
                                     vb_common_siblings_end := off + c |}]
                            else []) ++ BL ++ BR).
      rewrite !app_length. rewrite Hsc. rewrite (app_assoc vp TL TR). rewrite Nat.add_assoc.
      replace ((vb1 ++ BL) ++ BR) with (vb ++ (if Nat.ltb 0 c
                            then [{| vb_start_depth := length pfx; vb_common_siblings_start := off;
                                     vb_common_siblings_end := off + c |}]
                            else []) ++ BL ++ BR); [reflexivity|].
      subst vb1. destruct (Nat.ltb 0 c); rewrite <- ?app_assoc; reflexivity.
  Qed.
End Complete.

Lemma verify_MPS : forall (H : Hasher), HasherOK H ->
  forall P ss nd, MPS H [] P ss nd ->
  exists v, verify H {| mp_paths := P; mp_siblings := ss |} nd = Ok v /\
            vmp_siblings v = ss /\ vmp_root v = nd /\ same_paths P (vmp_inner v).
Proof.
  intros H OK P ss nd HM. unfold verify. cbn [mp_paths mp_siblings].
  rewrite (sorted_poo P None (MPS_sorted H _ _ _ _ HM)).
  destruct (verify_range_complete H [] P ss nd HM
              (length P + max_path_len (fun p => term_path (mpp_terminal p)) P + 2) [] 0 [] [])
    as [T [B Hv]].
  { lia. }
  { cbn [length]. unfold tpath. lia. }
  rewrite app_nil_r in Hv. cbn [length app] in Hv.
  pose proof (verify_range_spec H ss
                (length P + max_path_len (fun p => term_path (mpp_terminal p)) P + 2) [] P 0 [] []
                (MPS_nonempty H _ _ _ _ HM) (Nat.le_0_l _) (MPS_sorted H _ _ _ _ HM)
                (fun p _ => has_pfx_nil _)) as Hsp.
  cbn [length skipn] in Hsp. specialize (Hsp ltac:(lia) ltac:(unfold tpath; lia)).
  rewrite Hv in *. cbn [bind vr_post] in *.
  destruct Hsp as [T' [B' [HT [HB [_ Hsame]]]]]. cbn [app] in HT, HB. subst T' B'.
  assert (E : node_eqb H nd nd = true) by (apply (eqb_ok H OK); reflexivity).
  rewrite E, Nat.eqb_refl. cbn [negb]. eexists. split; [reflexivity|]. cbn. repeat split. exact Hsame.
Qed.

(* 4b. from_path_proofs on a coherent list of path proofs.  [CR pps pfx lo hi P ss nd cost]: the
   path proofs number lo .. hi-1 all lie below [pfx], share their first [length pfx] siblings,
   and are turned by the loop (in [cost] iterations) into the paths [P] and siblings [ss]. *)
Section FromPathProofs.
  Variable H : Hasher.
  Variable pps : list (path_proof H).

  Definition ptp (pp : path_proof H) : key := term_path (pp_terminal pp).

  Inductive CR : key -> nat -> nat -> list multi_path_proof -> list (node H) -> node H -> nat -> Prop :=
  | CR_one : forall pfx lo pp,
      nth_error pps lo = Some pp -> has_pfx pfx (ptp pp) ->
      length pfx <= length (pp_siblings pp) -> length (pp_siblings pp) <= length (ptp pp) ->
      CR pfx lo (lo + 1) [mkp (pp_terminal pp) (length (pp_siblings pp))]
         (skipn (length pfx) (pp_siblings pp))
         (hash_path H (terminal_node H (pp_terminal pp))
            (firstn (length (pp_siblings pp) - length pfx) (skipn (length pfx) (ptp pp)))
            (rev (skipn (length pfx) (pp_siblings pp)))) 1
  | CR_split : forall pfx cb lo mid hi pl PL sl ln cL PR sr rn cR,
      nth_error pps lo = Some pl ->
      length pfx + length cb <= length (pp_siblings pl) ->
      CR (pfx ++ cb ++ [false]) lo mid PL sl ln cL ->
      CR (pfx ++ cb ++ [true]) mid hi PR sr rn cR ->
      CR pfx lo hi (PL ++ PR)
         (firstn (length cb) (skipn (length pfx) (pp_siblings pl)) ++ sl ++ sr)
         (hash_path H (hint H ln rn) cb (rev (firstn (length cb) (skipn (length pfx) (pp_siblings pl)))))
         (length cb + 1 + cL + cR).

  Lemma CR_bounds : forall pfx lo hi P ss nd cost, CR pfx lo hi P ss nd cost ->
    lo < hi /\ hi <= length pps /\ 1 <= cost.
  Proof.
    intros pfx lo hi P ss nd cost HC.
    induction HC as [pfx lo pp Hn Hp H1 H2|pfx cb lo mid hi pl PL sl ln cL PR sr rn cR Hn Hl HL IHL HR IHR].
    - assert (lo < length pps) by (apply nth_error_Some; congruence). lia.
    - lia.
  Qed.

  Lemma CR_pfx : forall pfx lo hi P ss nd cost, CR pfx lo hi P ss nd cost ->
    forall i, lo <= i -> i < hi -> exists pp, nth_error pps i = Some pp /\ has_pfx pfx (ptp pp).
  Proof.
    intros pfx lo hi P ss nd cost HC.
    induction HC as [pfx lo pp Hn Hp H1 H2|pfx cb lo mid hi pl PL sl ln cL PR sr rn cR Hn Hl HL IHL HR IHR];
      intros i Hi1 Hi2.
    - assert (i = lo) by lia. subst i. exists pp. split; assumption.
    - destruct (Nat.lt_ge_cases i mid) as [Hlt|Hge].
      + destruct (IHL i Hi1 Hlt) as [pp [Hn' Hp']]. exists pp. split; [exact Hn'|].
        eapply has_pfx_app_l. exact Hp'.
      + destruct (IHR i Hge Hi2) as [pp [Hn' Hp']]. exists pp. split; [exact Hn'|].
        eapply has_pfx_app_l. exact Hp'.
  Qed.

  Lemma CR_MPS : forall pfx lo hi P ss nd cost, CR pfx lo hi P ss nd cost -> MPS H pfx P ss nd.
  Proof.
    intros pfx lo hi P ss nd cost HC.
    induction HC as [pfx lo pp Hn Hp H1 H2|pfx cb lo mid hi pl PL sl ln cL PR sr rn cR Hn Hl HL IHL HR IHR].
    - apply MPS_one; try assumption. rewrite skipn_length. reflexivity.
    - apply MPS_split; try assumption. rewrite firstn_length, skipn_length. lia.
  Qed.

  Notation loop := (from_path_proofs_loop H).
  Definition rng (lo hi idx : nat) : path_proof_range :=
    {| ppr_lower := lo; ppr_upper := hi; ppr_path_bit_index := idx |}.

  Lemma loop_one : forall f lo idx pp paths sibs stack,
    nth_error pps lo = Some pp ->
    loop (S f) pps paths sibs (rng lo (lo + 1) idx) [] stack =
    match stack with
    | v :: stack' =>
        loop f pps (paths ++ [mkp (pp_terminal pp) (idx + length (skipn idx (pp_siblings pp)))])
             (sibs ++ skipn idx (pp_siblings pp)) v [] stack'
    | [] => Ok {| mp_paths := paths ++ [mkp (pp_terminal pp) (idx + length (skipn idx (pp_siblings pp)))];
                  mp_siblings := sibs ++ skipn idx (pp_siblings pp) |}
    end.
  Proof.
    intros f lo idx pp paths sibs stack Hn. cbn [from_path_proofs_loop].
    unfold prove_unique_path_remainder, rng. cbn [ppr_lower ppr_upper ppr_path_bit_index].
    rewrite sub_res_ok by lia. cbn [bind]. replace (lo + 1 - 1) with lo by lia.
    rewrite Nat.eqb_refl. cbn [negb]. rewrite (nth_res_ok _ _ _ _ _ Hn). cbn [bind]. reflexivity.
  Qed.

  Lemma loop_advance : forall f lo hi idx pl pu b s paths sibs common stack,
    lo + 2 <= hi -> nth_error pps lo = Some pl -> nth_error pps (hi - 1) = Some pu ->
    nth_error (ptp pl) idx = Some b -> nth_error (ptp pu) idx = Some b ->
    nth_error (pp_siblings pl) idx = Some s ->
    loop (S f) pps paths sibs (rng lo hi idx) common stack =
    loop f pps paths sibs (rng lo hi (idx + 1)) (common ++ [s]) stack.
  Proof.
    intros f lo hi idx pl pu b s paths sibs common stack Hlh Hl Hu Hbl Hbu Hs.
    cbn [from_path_proofs_loop].
    unfold prove_unique_path_remainder, rng. cbn [ppr_lower ppr_upper ppr_path_bit_index].
    rewrite sub_res_ok by lia. cbn [bind].
    assert (E : Nat.eqb lo (hi - 1) = false) by (apply Nat.eqb_neq; lia).
    rewrite E. cbn [negb bind].
    unfold step. cbn [ppr_lower ppr_upper ppr_path_bit_index].
    rewrite (nth_res_ok _ _ _ _ _ Hl). cbn [bind]. rewrite sub_res_ok by lia. cbn [bind].
    rewrite (nth_res_ok _ _ _ _ _ Hu). cbn [bind].
    fold (ptp pl) (ptp pu).
    rewrite (nth_res_ok _ _ _ _ _ Hbl), (nth_res_ok _ _ _ _ _ Hbu). cbn [bind].
    rewrite Bool.eqb_reflx. cbn [negb].
    rewrite (nth_res_ok _ _ _ _ _ Hs). cbn [bind]. reflexivity.
  Qed.

  Lemma firstn_add : forall (A : Type) a b (l : list A), firstn (a + b) l = firstn a l ++ firstn b (skipn a l).
  Proof.
    intros A a. induction a as [|a IH]; intros b l; [reflexivity|].
    destruct l as [|x l]; cbn [plus firstn skipn app]; [rewrite firstn_nil; reflexivity|].
    rewrite IH. reflexivity.
  Qed.

  Lemma nth_error_firstn' : forall (A : Type) m j (l : list A), j < m ->
    nth_error (firstn m l) j = nth_error l j.
  Proof.
    intros A m. induction m as [|m IH]; intros j l Hj; [lia|].
    destruct l as [|x l]; [destruct j; reflexivity|]. destruct j as [|j]; [reflexivity|].
    cbn [firstn nth_error]. apply IH. lia.
  Qed.

  Lemma In_slice : forall (A : Type) m a (l : list A) x, In x (firstn m (skipn a l)) ->
    exists i, a <= i /\ i < a + m /\ nth_error l i = Some x.
  Proof.
    intros A m a l x Hin. apply In_nth_error in Hin. destruct Hin as [j Hj].
    assert (Hjm : j < m).
    { assert (Hlt : j < length (firstn m (skipn a l))) by (apply nth_error_Some; congruence).
      rewrite firstn_length in Hlt. lia. }
    rewrite nth_error_firstn' in Hj by exact Hjm.
    exists (a + j). split; [lia|]. split; [lia|].
    rewrite <- Hj. clear. revert l. induction a as [|a IH]; intros l; [reflexivity|].
    destruct l as [|y l]; cbn [skipn plus nth_error]; [destruct j; reflexivity|apply IH].
  Qed.

  Lemma loop_bisect : forall f lo mid hi idx pl pu paths sibs common stack,
    lo < mid -> mid < hi -> hi <= length pps ->
    nth_error pps lo = Some pl -> nth_error pps (hi - 1) = Some pu ->
    (forall i pp, lo <= i -> i < mid -> nth_error pps i = Some pp -> nth_error (ptp pp) idx = Some false) ->
    (forall i pp, mid <= i -> i < hi -> nth_error pps i = Some pp -> nth_error (ptp pp) idx = Some true) ->
    loop (S f) pps paths sibs (rng lo hi idx) common stack =
    loop f pps paths (sibs ++ common) (rng lo mid (idx + 1)) [] (rng mid hi (idx + 1) :: stack).
  Proof.
    intros f lo mid hi idx pl pu paths sibs common stack H1 H2 H3 Hl Hu HbL HbR.
    cbn [from_path_proofs_loop].
    unfold prove_unique_path_remainder, rng. cbn [ppr_lower ppr_upper ppr_path_bit_index].
    rewrite sub_res_ok by lia. cbn [bind].
    assert (E : Nat.eqb lo (hi - 1) = false) by (apply Nat.eqb_neq; lia).
    rewrite E. cbn [negb bind].
    unfold step. cbn [ppr_lower ppr_upper ppr_path_bit_index].
    rewrite (nth_res_ok _ _ _ _ _ Hl). cbn [bind]. rewrite sub_res_ok by lia. cbn [bind].
    rewrite (nth_res_ok _ _ _ _ _ Hu). cbn [bind].
    fold (ptp pl) (ptp pu).
    rewrite (nth_res_ok _ _ _ _ _ (HbL lo pl (le_n _) H1 Hl)).
    rewrite (nth_res_ok _ _ _ _ _ (HbR (hi - 1) pu ltac:(lia) ltac:(lia) Hu)). cbn [bind Bool.eqb negb].
    rewrite slice_res_ok by lia. cbn [bind].
    replace (hi - lo) with ((mid - lo) + (hi - mid)) by lia.
    rewrite firstn_add. rewrite skipn_skipn'. replace (lo + (mid - lo)) with mid by lia.
    rewrite (bs_partition _ (firstn (mid - lo) (skipn lo pps)) (firstn (hi - mid) (skipn mid pps))).
    2:{ intros x Hin. apply In_slice in Hin. destruct Hin as [i [Hi1 [Hi2 Hn]]].
        fold (ptp x). rewrite (nth_res_ok _ _ _ _ _ (HbL i x Hi1 ltac:(lia) Hn)). reflexivity. }
    2:{ intros x Hin. apply In_slice in Hin. destruct Hin as [i [Hi1 [Hi2 Hn]]].
        fold (ptp x). rewrite (nth_res_ok _ _ _ _ _ (HbR i x Hi1 ltac:(lia) Hn)). reflexivity. }
    cbn [bind unwrap_err]. rewrite firstn_length, skipn_length.
    replace (lo + Nat.min (mid - lo) (length pps - lo)) with mid by lia.
    reflexivity.
  Qed.

  Lemma has_pfx_nth : forall (q p : key) i, has_pfx q p -> i < length q -> nth_error p i = nth_error q i.
  Proof.
    intros q p i Hp Hi. rewrite (has_pfx_skipn _ _ Hp). apply nth_error_app1. exact Hi.
  Qed.

  Lemma firstn_snoc_nth : forall (A : Type) (l : list A) j s, nth_error l j = Some s ->
    firstn (S j) l = firstn j l ++ [s].
  Proof.
    intros A l. induction l as [|x l IH]; intros [|j] s Hn; cbn in Hn; try discriminate.
    - inversion Hn; subst. reflexivity.
    - cbn [firstn app]. f_equal. apply IH. exact Hn.
  Qed.

  Lemma loop_chain : forall k j f paths sibs stack lo hi pfx cb pl pu,
    lo + 2 <= hi -> nth_error pps lo = Some pl -> nth_error pps (hi - 1) = Some pu ->
    has_pfx (pfx ++ cb) (ptp pl) -> has_pfx (pfx ++ cb) (ptp pu) ->
    length pfx + length cb <= length (pp_siblings pl) ->
    j + k = length cb ->
    loop (k + f) pps paths sibs (rng lo hi (length pfx + j))
         (firstn j (firstn (length cb) (skipn (length pfx) (pp_siblings pl)))) stack =
    loop f pps paths sibs (rng lo hi (length pfx + length cb))
         (firstn (length cb) (skipn (length pfx) (pp_siblings pl))) stack.
  Proof.
    induction k as [|k IH]; intros j f paths sibs stack lo hi pfx cb pl pu Hlh Hl Hu Hpl Hpu Hsl Hjk.
    - cbn [plus]. replace j with (length cb) by lia.
      rewrite (firstn_all2 (n := length cb)) by (rewrite firstn_length; lia). reflexivity.
    - assert (Hjc : j < length cb) by lia.
      destruct (nth_error cb j) as [b|] eqn:Eb.
      2:{ apply nth_error_None in Eb. lia. }
      assert (Hq : forall p, has_pfx (pfx ++ cb) p -> nth_error p (length pfx + j) = Some b).
      { intros p Hp. rewrite (has_pfx_nth _ _ _ Hp) by (rewrite app_length; lia).
        rewrite nth_error_app2 by lia. replace (length pfx + j - length pfx) with j by lia. exact Eb. }
      destruct (nth_error (pp_siblings pl) (length pfx + j)) as [s|] eqn:Es.
      2:{ apply nth_error_None in Es. lia. }
      cbn [plus].
      rewrite (loop_advance (k + f) lo hi (length pfx + j) pl pu b s); try assumption; try (apply Hq; assumption).
      replace (length pfx + j + 1) with (length pfx + S j) by lia.
      rewrite <- (IH (S j) f paths sibs stack lo hi pfx cb pl pu); try assumption; try lia.
      f_equal. symmetry. apply firstn_snoc_nth.
      rewrite nth_error_firstn' by exact Hjc. rewrite nth_error_skipn. exact Es.
  Qed.

  Lemma loop_CR : forall pfx lo hi P ss nd cost, CR pfx lo hi P ss nd cost ->
    forall f paths sibs stack,
    loop (cost + f) pps paths sibs (rng lo hi (length pfx)) [] stack =
    match stack with
    | [] => Ok {| mp_paths := paths ++ P; mp_siblings := sibs ++ ss |}
    | v :: stack' => loop f pps (paths ++ P) (sibs ++ ss) v [] stack'
    end.
  Proof.
    intros pfx lo hi P ss nd cost HC.
    induction HC as [pfx lo pp Hn Hp H1 H2|pfx cb lo mid hi pl PL sl ln cL PR sr rn cR Hn Hl HL IHL HR IHR];
      intros f paths sibs stack.
    - cbn [plus]. rewrite (loop_one f lo (length pfx) pp) by exact Hn.
      rewrite skipn_length. replace (length pfx + (length (pp_siblings pp) - length pfx)) with (length (pp_siblings pp)) by lia.
      reflexivity.
    - destruct (CR_bounds _ _ _ _ _ _ _ HL) as [Hb1 [Hb2 _]].
      destruct (CR_bounds _ _ _ _ _ _ _ HR) as [Hb3 [Hb4 _]].
      destruct (CR_pfx _ _ _ _ _ _ _ HR (hi - 1) ltac:(lia) ltac:(lia)) as [pu [Hu Hpu]].
      destruct (CR_pfx _ _ _ _ _ _ _ HL lo ltac:(lia) ltac:(lia)) as [pl' [Hl' Hpl]].
      rewrite Hn in Hl'. inversion Hl'; subst pl'. clear Hl'.
      rewrite app_assoc in Hpl, Hpu.
      replace (length cb + 1 + cL + cR + f) with (length cb + S (cL + (cR + f))) by lia.
      pose proof (loop_chain (length cb) 0 (S (cL + (cR + f))) paths sibs stack lo hi pfx cb pl pu
                    ltac:(lia) Hn Hu (has_pfx_app_l _ _ _ Hpl) (has_pfx_app_l _ _ _ Hpu) Hl eq_refl) as Hch.
      cbn [firstn] in Hch. rewrite Nat.add_0_r in Hch. rewrite Hch.
      assert (Hbit : forall (b : bool) p, has_pfx ((pfx ++ cb) ++ [b]) p ->
                nth_error p (length pfx + length cb) = Some b).
      { intros b p Hq. rewrite (has_pfx_nth _ _ _ Hq) by (rewrite !app_length; cbn [length]; lia).
        rewrite <- app_length. rewrite nth_error_app2 by lia. rewrite Nat.sub_diag. reflexivity. }
      rewrite (loop_bisect (cL + (cR + f)) lo mid hi (length pfx + length cb) pl pu); try assumption.
      2:{ intros i pp Hi1 Hi2 Hni. destruct (CR_pfx _ _ _ _ _ _ _ HL i Hi1 Hi2) as [pp' [Hn' Hp']].
          rewrite Hni in Hn'. inversion Hn'; subst pp'. rewrite app_assoc in Hp'. apply Hbit. exact Hp'. }
      2:{ intros i pp Hi1 Hi2 Hni. destruct (CR_pfx _ _ _ _ _ _ _ HR i Hi1 Hi2) as [pp' [Hn' Hp']].
          rewrite Hni in Hn'. inversion Hn'; subst pp'. rewrite app_assoc in Hp'. apply Hbit. exact Hp'. }
      assert (HlenL : length (pfx ++ cb ++ [false]) = length pfx + length cb + 1).
      { rewrite !app_length. cbn [length]. lia. }
      assert (HlenR : length (pfx ++ cb ++ [true]) = length pfx + length cb + 1).
      { rewrite !app_length. cbn [length]. lia. }
      specialize (IHL (cR + f) paths (sibs ++ firstn (length cb) (skipn (length pfx) (pp_siblings pl)))
                      (rng mid hi (length pfx + length cb + 1) :: stack)).
      rewrite HlenL in IHL. rewrite IHL.
      specialize (IHR f (paths ++ PL) ((sibs ++ firstn (length cb) (skipn (length pfx) (pp_siblings pl))) ++ sl) stack).
      rewrite HlenR in IHR. rewrite IHR.
      rewrite <- !app_assoc. reflexivity.
  Qed.

  (* the whole conversion *)
  Lemma from_path_proofs_CR : forall P ss nd cost,
    CR [] 0 (length pps) P ss nd cost ->
    cost <= S (length pps) * (max_path_len (fun p : path_proof H => term_path (pp_terminal p)) pps + 3) ->
    from_path_proofs H pps = Ok {| mp_paths := P; mp_siblings := ss |}.
  Proof.
    intros P ss nd cost HC Hcost. unfold from_path_proofs.
    destruct pps as [|p0 rest] eqn:Ep.
    - destruct (CR_bounds _ _ _ _ _ _ _ HC) as [Hb _]. cbn in Hb. lia.
    - rewrite <- Ep in *.
      set (fuel := S (length pps) * (max_path_len (fun p : path_proof H => term_path (pp_terminal p)) pps + 3)) in *.
      replace fuel with (cost + (fuel - cost)) by lia.
      pose proof (loop_CR _ _ _ _ _ _ _ HC (fuel - cost) [] [] []) as Hloop.
      cbn [length app] in Hloop. exact Hloop.
  Qed.

  (* ---- 4c. the canonical path proofs of a sorted key list form a coherent range ---- *)

  Lemma skipn_nth_cons : forall (A : Type) (l : list A) i x, nth_error l i = Some x ->
    skipn i l = x :: skipn (S i) l.
  Proof.
    intros A l. induction l as [|y l IH]; intros [|i] x Hn; cbn in Hn; try discriminate.
    - inversion Hn; subst. reflexivity.
    - cbn [skipn]. rewrite (IH i x Hn). reflexivity.
  Qed.

  Lemma NoDup_app_inv' : forall (A : Type) (l1 l2 : list A), NoDup (l1 ++ l2) -> NoDup l1 /\ NoDup l2.
  Proof.
    intros A l1 l2. induction l1 as [|x l1 IH]; intros Hnd; [split; [constructor|exact Hnd]|].
    cbn [app] in Hnd. inversion Hnd as [|y l Hnin Hnd']; subst.
    destruct (IH Hnd') as [H1 H2]. split; [|exact H2].
    constructor; [|exact H1]. intros Hin. apply Hnin. apply in_or_app. left. exact Hin.
  Qed.

  Lemma sorted_bit_split_keys : forall (q : key) (ks : list key),
    sorted_keys ks = true ->
    (forall k, In k ks -> has_pfx q k /\ length q < length k) ->
    exists K0 K1, ks = K0 ++ K1 /\
      (forall k, In k K0 -> bit k (length q) = false) /\
      (forall k, In k K1 -> bit k (length q) = true).
  Proof.
    intros q. induction ks as [|k ks IH]; intros Hs Hall.
    - exists [], []. split; [reflexivity|]. split; intros k [].
    - apply sk_cons_iff in Hs. destruct Hs as [Hlb Hs].
      destruct (bit k (length q)) eqn:Eb.
      + exists [], (k :: ks). split; [reflexivity|]. split; [intros k' []|].
        intros k' [<-|Hin]; [exact Eb|].
        destruct (Hall k (or_introl eq_refl)) as [Hp Hl].
        destruct (Hall k' (or_intror Hin)) as [Hp' Hl'].
        apply (ltb_bit_mono (length q) k k'); try assumption.
        * unfold has_pfx in *. congruence.
        * apply Hlb. exact Hin.
      + destruct (IH Hs) as [K0 [K1 [HK [H0 H1]]]].
        { intros k' Hin. apply Hall. right. exact Hin. }
        exists (k :: K0), K1. split; [rewrite HK; reflexivity|]. split; [|exact H1].
        intros k' [<-|Hin]; [exact Eb|apply H0; exact Hin].
  Qed.

  Lemma CR_one' : forall pfx lo hi pp P ss nd,
    nth_error pps lo = Some pp -> has_pfx pfx (ptp pp) ->
    length pfx <= length (pp_siblings pp) -> length (pp_siblings pp) <= length (ptp pp) ->
    hi = lo + 1 ->
    P = [mkp (pp_terminal pp) (length (pp_siblings pp))] ->
    ss = skipn (length pfx) (pp_siblings pp) ->
    nd = hash_path H (terminal_node H (pp_terminal pp))
           (firstn (length (pp_siblings pp) - length pfx) (skipn (length pfx) (ptp pp)))
           (rev (skipn (length pfx) (pp_siblings pp))) ->
    CR pfx lo hi P ss nd 1.
  Proof. intros; subst; apply CR_one; assumption. Qed.

  Lemma CR_split' : forall pfx cb lo mid hi pl PL sl ln cL PR sr rn cR P ss nd cost,
    nth_error pps lo = Some pl ->
    length pfx + length cb <= length (pp_siblings pl) ->
    CR (pfx ++ cb ++ [false]) lo mid PL sl ln cL ->
    CR (pfx ++ cb ++ [true]) mid hi PR sr rn cR ->
    P = PL ++ PR ->
    ss = firstn (length cb) (skipn (length pfx) (pp_siblings pl)) ++ sl ++ sr ->
    nd = hash_path H (hint H ln rn) cb (rev (firstn (length cb) (skipn (length pfx) (pp_siblings pl)))) ->
    cost = length cb + 1 + cL + cR ->
    CR pfx lo hi P ss nd cost.
  Proof. intros; subst; eapply CR_split; eassumption. Qed.

  (* one more common bit above a range of two or more path proofs *)
  Lemma CR_adv : forall pfx b lo hi P ss nd cost pl s,
    CR (pfx ++ [b]) lo hi P ss nd cost -> lo + 2 <= hi ->
    nth_error pps lo = Some pl -> nth_error (pp_siblings pl) (length pfx) = Some s ->
    CR pfx lo hi P (s :: ss) (if b then hint H s nd else hint H nd s) (cost + 1).
  Proof.
    intros pfx b lo hi P ss nd cost pl s HC Hlh Hl Hs.
    remember (pfx ++ [b]) as q eqn:Eq.
    destruct HC as [q lo pp Hn Hp H1 H2|q cb lo mid hi pl0 PL sl ln cL PR sr rn cR Hn Hlen HL HR]; [lia|].
    subst q. rewrite Hl in Hn. inversion Hn; subst pl0. clear Hn.
    rewrite app_length in Hlen. cbn [length] in Hlen.
    assert (Hsk : skipn (length pfx) (pp_siblings pl) = s :: skipn (length (pfx ++ [b])) (pp_siblings pl)).
    { rewrite app_length. cbn [length]. rewrite Nat.add_1_r. apply skipn_nth_cons. exact Hs. }
    apply (CR_split' pfx (b :: cb) lo mid hi pl PL sl ln cL PR sr rn cR).
    - exact Hl.
    - cbn [length]. lia.
    - rewrite <- app_assoc in HL. exact HL.
    - rewrite <- app_assoc in HR. exact HR.
    - reflexivity.
    - cbn [length]. rewrite Hsk. reflexivity.
    - cbn [length]. rewrite Hsk. cbn [firstn].
      unfold hash_path. rewrite hash_up_cons_rev.
      + destruct b; reflexivity.
      + rewrite firstn_length, skipn_length, app_length. cbn [length]. lia.
    - cbn [length]. lia.
  Qed.

  Definition gpp (gt : key -> terminal) (gs : key -> list (node H)) (k : key) : path_proof H :=
    {| pp_terminal := gt k; pp_siblings := gs k |}.

  Lemma canon_CR_one : forall f d (L : kv) pfx upper k lo (gt : key -> terminal) (gs : key -> list (node H)),
    NoDup (map fst L) ->
    (forall k v, In (k, v) L -> length k = d + f) ->
    (forall k v, In (k, v) L -> firstn d k = pfx) ->
    length pfx = d -> length upper = d ->
    length k = d + f -> firstn d k = pfx ->
    gs k = upper ++ fst (walk H (mk f d L) k d) -> gt k = snd (walk H (mk f d L) k d) ->
    nth_error pps lo = Some (gpp gt gs k) ->
    CR pfx lo (lo + 1) [mkp (gt k) (length (gs k))] (skipn (length pfx) (gs k)) (hash H (mk f d L)) 1 /\
    d <= length (term_path (gt k)).
  Proof.
    intros f d L pfx upper k lo gt gs Hnd HlenL HpL Hpfx Hup Hk Hkp Hgs Hgt Hn.
    destruct (walk H (mk f d L) k d) as [s tm] eqn:Ew. cbn [fst snd] in Hgs, Hgt.
    assert (HLp : forall k' v', In (k', v') L -> firstn d k' = firstn d k).
    { intros k' v' Hin. rewrite (HpL k' v' Hin). symmetry. exact Hkp. }
    destruct (mk_walk_gen H f d L k s tm Hnd HlenL HLp Hk Ew) as [Hsl Htm].
    assert (Hpath : firstn (d + length s) (term_path tm) = firstn (d + length s) k /\
                    d + length s <= length (term_path tm)).
    { destruct tm as [k' v'|p]; cbn [term_path].
      - destruct Htm as [Hin [Hf _]]. split; [exact Hf|]. rewrite (HlenL k' v' Hin). lia.
      - destruct Htm as [-> _]. rewrite firstn_firstn, Nat.min_id. split; [reflexivity|].
        rewrite firstn_length. lia. }
    destruct Hpath as [Hpf Hpl].
    split; [|rewrite Hgt; lia].
    apply (CR_one' pfx lo (lo + 1) (gpp gt gs k)); try exact Hn; try reflexivity;
      unfold ptp, gpp; cbn [pp_terminal pp_siblings]; rewrite ?Hgs, ?Hgt, ?app_length, ?Hup, ?Hpfx.
    - unfold has_pfx. rewrite Hpfx. rewrite <- Hkp.
      assert (Hd : firstn d (firstn (d + length s) (term_path tm)) = firstn d (firstn (d + length s) k))
        by (rewrite Hpf; reflexivity).
      rewrite !firstn_firstn in Hd. rewrite Nat.min_l in Hd by lia. exact Hd.
    - lia.
    - exact Hpl.
    - rewrite skipn_app, Hup, Nat.sub_diag.
      replace (skipn d upper) with (@nil (node H)) by (symmetry; apply skipn_all2; lia).
      cbn [skipn app].
      replace (d + length s - d) with (length s) by lia.
      rewrite (firstn_skipn_comm (length s) d), Hpf, <- (firstn_skipn_comm (length s) d).
      symmetry. unfold hash_path. apply (walk_hash_up H _ k d s tm Ew). lia.
  Qed.

  Lemma canon_CR : forall M f d (L : kv) pfx upper ks lo (gt : key -> terminal) (gs : key -> list (node H)),
    (forall k, In k ks -> length (term_path (gt k)) <= M) ->
    NoDup (map fst L) ->
    (forall k v, In (k, v) L -> length k = d + f) ->
    (forall k v, In (k, v) L -> firstn d k = pfx) ->
    length pfx = d -> length upper = d ->
    ks <> [] -> sorted_keys ks = true ->
    (forall k, In k ks -> length k = d + f /\ firstn d k = pfx) ->
    (forall k, In k ks -> gs k = upper ++ fst (walk H (mk f d L) k d) /\ gt k = snd (walk H (mk f d L) k d)) ->
    NoDup (map gt ks) ->
    (forall i k, nth_error ks i = Some k -> nth_error pps (lo + i) = Some (gpp gt gs k)) ->
    exists P ss cost,
      CR pfx lo (lo + length ks) P ss (hash H (mk f d L)) cost /\ cost + 1 <= length ks * (M + 2 - d) /\ d <= M.
  Proof.
    intros M. induction f as [|f IH]; intros d L pfx upper ks lo gt gs HM Hnd HlenL HpL Hpfx Hup Hne Hs Hks Hg Hndt Hpps.
    all: destruct ks as [|k1 [|k2 ks']]; [congruence| |].
    1,3: (destruct (Hks k1 (or_introl eq_refl)) as [Hk1 Hk1p];
          destruct (Hg k1 (or_introl eq_refl)) as [Hgs Hgt];
          pose proof (Hpps 0 k1 eq_refl) as Hn; rewrite Nat.add_0_r in Hn;
          pose proof (HM k1 (or_introl eq_refl)) as HM1;
          destruct (canon_CR_one _ d L pfx upper k1 lo gt gs Hnd HlenL HpL Hpfx Hup Hk1 Hk1p Hgs Hgt Hn) as [HC1 Hd1];
          eexists _, _, 1; split; [exact HC1|cbn [length]; lia]).
    all: set (ks := k1 :: k2 :: ks') in *.
    all: assert (HL2 : 2 <= length L) by
      (destruct (kv_cases L) as [HL|[[k0 [v0 HL]]|HL]]; [| |exact HL]; exfalso;
       (assert (He : gt k2 = gt k1) by
          (destruct (Hg k2 (or_intror (or_introl eq_refl))) as [_ G];
           destruct (Hg k1 (or_introl eq_refl)) as [_ G1];
           rewrite G, G1; subst L; rewrite ?mk_nil, ?mk_single; cbn [walk snd]; try reflexivity;
           destruct (Hks k2 (or_intror (or_introl eq_refl))) as [_ E1];
           destruct (Hks k1 (or_introl eq_refl)) as [_ E2]; congruence));
       cbn [map ks] in Hndt; inversion Hndt as [|x l Hnin _]; subst; apply Hnin; left; exact He).
    - (* no fuel left: two keys of length d agreeing on d bits *)
      exfalso. apply (no_fuel0 d L Hnd); [| |exact HL2].
      + intros k v Hin. rewrite (HlenL k v Hin). lia.
      + intros a va b vb Ha Hb. rewrite (HpL a va Ha), (HpL b vb Hb). reflexivity.
    - rewrite (mk_ge2 f d L HL2) in *.
      set (tl := mk f (S d) (side false d L)) in *. set (tr := mk f (S d) (side true d L)) in *.
      destruct (sorted_bit_split_keys pfx ks Hs) as [K0 [K1 [HK [HK0 HK1]]]].
      { intros k Hin. destruct (Hks k Hin) as [E1 E2]. split; [unfold has_pfx; rewrite Hpfx; exact E2|lia]. }
      rewrite Hpfx in HK0, HK1.
      assert (Hside : forall (b : bool) Kb lob,
                (forall k, In k Kb -> In k ks /\ bit k d = b) -> Kb <> [] -> sorted_keys Kb = true ->
                NoDup (map gt Kb) ->
                (forall i k, nth_error Kb i = Some k -> nth_error pps (lob + i) = Some (gpp gt gs k)) ->
                exists P ss cost,
                  CR (pfx ++ [b]) lob (lob + length Kb) P ss (hash H (if b then tr else tl)) cost /\
                  cost + 1 <= length Kb * (M + 2 - S d) /\ S d <= M).
      { intros b Kb lob HKb HneK HsK HndK HppK.
        assert (Hmk : (if b then tr else tl) = mk f (S d) (side b d L)) by (destruct b; reflexivity).
        rewrite Hmk.
        apply (IH (S d) (side b d L) (pfx ++ [b]) (upper ++ [hash H (if b then tl else tr)]) Kb lob gt gs).
        - intros k Hin. apply HM. apply (HKb k Hin).
        - apply NoDup_side. exact Hnd.
        - intros k v Hin. apply In_side in Hin. destruct Hin as [Hin _]. rewrite (HlenL k v Hin). lia.
        - intros k v Hin. apply In_side in Hin. destruct Hin as [Hin Hb].
          rewrite (firstn_S_bit d k) by (rewrite (HlenL k v Hin); lia). rewrite (HpL k v Hin), Hb. reflexivity.
        - rewrite app_length. cbn [length]. lia.
        - rewrite app_length. cbn [length]. lia.
        - exact HneK.
        - exact HsK.
        - intros k Hin. destruct (HKb k Hin) as [Hin' Hb]. destruct (Hks k Hin') as [E1 E2].
          split; [lia|]. rewrite (firstn_S_bit d k) by lia. rewrite E2, Hb. reflexivity.
        - intros k Hin. destruct (HKb k Hin) as [Hin' Hb]. destruct (Hg k Hin') as [G1 G2].
          cbn [walk] in G1, G2. rewrite Hb in G1, G2. rewrite <- Hmk.
          destruct b.
          + destruct (walk H tr k (S d)) as [s' tm']. cbn [fst snd] in *.
            rewrite <- app_assoc. split; assumption.
          + destruct (walk H tl k (S d)) as [s' tm']. cbn [fst snd] in *.
            rewrite <- app_assoc. split; assumption.
        - exact HndK.
        - exact HppK. }
      assert (HsK : sorted_keys K0 = true /\ sorted_keys K1 = true).
      { rewrite HK in Hs. apply sorted_app_inv in Hs. tauto. }
      assert (HndK : NoDup (map gt K0) /\ NoDup (map gt K1)).
      { rewrite HK, map_app in Hndt. apply NoDup_app_inv'. exact Hndt. }
      assert (Hin0 : forall k, In k K0 -> In k ks /\ bit k d = false).
      { intros k Hin. split; [rewrite HK; apply in_or_app; left; exact Hin|apply HK0; exact Hin]. }
      assert (Hin1 : forall k, In k K1 -> In k ks /\ bit k d = true).
      { intros k Hin. split; [rewrite HK; apply in_or_app; right; exact Hin|apply HK1; exact Hin]. }
      assert (Hpp0 : forall i k, nth_error K0 i = Some k -> nth_error pps (lo + i) = Some (gpp gt gs k)).
      { intros i k Hn. apply Hpps. rewrite HK. rewrite nth_error_app1; [exact Hn|].
        apply nth_error_Some. congruence. }
      assert (Hpp1 : forall i k, nth_error K1 i = Some k ->
                nth_error pps (lo + length K0 + i) = Some (gpp gt gs k)).
      { intros i k Hn. rewrite <- Nat.add_assoc. apply Hpps. rewrite HK.
        rewrite nth_error_app2 by lia. replace (length K0 + i - length K0) with i by lia. exact Hn. }
      assert (Hlks : length ks = length K0 + length K1) by (rewrite HK, app_length; reflexivity).
      assert (Hl2 : 2 <= length ks) by (unfold ks; cbn [length]; lia).
      pose proof (Hpps 0 k1 eq_refl) as Hn1. rewrite Nat.add_0_r in Hn1.
      destruct (Hg k1 (or_introl eq_refl)) as [Hgs1 _].
      (* the sibling of the first key at depth d *)
      assert (Hsib : nth_error (pp_siblings (gpp gt gs k1)) (length pfx) =
                     Some (hash H (if bit k1 d then tl else tr))).
      { cbn [gpp pp_siblings]. rewrite Hgs1. cbn [walk].
        destruct (bit k1 d).
        - destruct (walk H tr k1 (S d)) as [s' tm']. cbn [fst].
          rewrite Hpfx, <- Hup. apply nth_error_mid.
        - destruct (walk H tl k1 (S d)) as [s' tm']. cbn [fst].
          rewrite Hpfx, <- Hup. apply nth_error_mid. }
      cbn [hash].
      destruct (list_eq_dec (list_eq_dec Bool.bool_dec) K0 []) as [E0|N0];
        [|destruct (list_eq_dec (list_eq_dec Bool.bool_dec) K1 []) as [E1|N1]].
      + (* all keys go right *)
        subst K0. cbn [app] in HK. subst K1.
        destruct (Hside true ks lo Hin1 Hne (proj2 HsK) (proj2 HndK) Hpps) as [P [ss [cost [HC [Hcost HdM]]]]].
        exists P, (hash H tl :: ss), (cost + 1).
        replace (M + 2 - d) with (M + 2 - S d + 1) by lia. split; [|split; [nia|lia]].
        destruct (Hin1 k1 (or_introl eq_refl)) as [_ Hb1]. rewrite Hb1 in Hsib.
        exact (CR_adv pfx true lo (lo + length ks) P ss (hash H tr) cost (gpp gt gs k1) (hash H tl) HC
                 ltac:(lia) Hn1 Hsib).
      + (* all keys go left *)
        subst K1. rewrite app_nil_r in HK. subst K0.
        destruct (Hside false ks lo Hin0 Hne (proj1 HsK) (proj1 HndK) Hpps) as [P [ss [cost [HC [Hcost HdM]]]]].
        exists P, (hash H tr :: ss), (cost + 1).
        replace (M + 2 - d) with (M + 2 - S d + 1) by lia. split; [|split; [nia|lia]].
        destruct (Hin0 k1 (or_introl eq_refl)) as [_ Hb1]. rewrite Hb1 in Hsib.
        exact (CR_adv pfx false lo (lo + length ks) P ss (hash H tl) cost (gpp gt gs k1) (hash H tr) HC
                 ltac:(lia) Hn1 Hsib).
      + (* a bisection right here *)
        destruct (Hside false K0 lo Hin0 N0 (proj1 HsK) (proj1 HndK) Hpp0) as [PL [sl [cL [HCL [HcL HdM]]]]].
        destruct (Hside true K1 (lo + length K0) Hin1 N1 (proj2 HsK) (proj2 HndK) Hpp1) as [PR [sr [cR [HCR [HcR _]]]]].
        exists (PL ++ PR), (sl ++ sr), (1 + cL + cR).
        replace (M + 2 - d) with (M + 2 - S d + 1) by lia. split; [|split; [nia|lia]].
        apply (CR_split' pfx [] lo (lo + length K0) (lo + length ks) (gpp gt gs k1)
                 PL sl (hash H tl) cL PR sr (hash H tr) cR).
        * exact Hn1.
        * cbn [length gpp pp_siblings]. rewrite Hgs1, app_length. lia.
        * exact HCL.
        * rewrite Hlks, Nat.add_assoc. exact HCR.
        * reflexivity.
        * reflexivity.
        * reflexivity.
        * cbn [length]. lia.
  Qed.

  Lemma CR_paths : forall pfx lo hi P ss nd cost, CR pfx lo hi P ss nd cost ->
    map (fun p => (mpp_terminal p, mpp_depth p)) P =
    map (fun p => (pp_terminal p, length (pp_siblings p))) (firstn (hi - lo) (skipn lo pps)).
  Proof.
    intros pfx lo hi P ss nd cost HC.
    induction HC as [pfx lo pp Hn Hp H1 H2|pfx cb lo mid hi pl PL sl ln cL PR sr rn cR Hn Hl HL IHL HR IHR].
    - replace (lo + 1 - lo) with 1 by lia. rewrite (skipn_nth_cons _ _ _ _ Hn). reflexivity.
    - destruct (CR_bounds _ _ _ _ _ _ _ HL) as [B1 _]. destruct (CR_bounds _ _ _ _ _ _ _ HR) as [B2 _].
      rewrite map_app, IHL, IHR. rewrite <- map_app. f_equal.
      replace (hi - lo) with ((mid - lo) + (hi - mid)) by lia.
      rewrite firstn_add. rewrite skipn_skipn'. replace (lo + (mid - lo)) with mid by lia. reflexivity.
  Qed.
End FromPathProofs.

(* C07: a multi-proof assembled by from_path_proofs from the canonical path proofs of a
   non-empty, strictly ascending list of keys with pairwise distinct terminals verifies against
   the root (for any key length n; the implementation has n = 256), and carries the terminals of
   the path proofs, in order, at the depth given by their sibling count. *)
Theorem multi_complete_n : forall (H : Hasher), HasherOK H ->
  forall n S ks, wf n S ->
  ks <> [] -> sorted_keys ks = true -> (forall k, In k ks -> length k = n) ->
  NoDup (map (fun k => pp_terminal (canonical_proof H n S k)) ks) ->
  let pps := map (canonical_proof H n S) ks in
  exists mp v,
    from_path_proofs H pps = Ok mp /\
    verify H mp (root_n H n S) = Ok v /\
    map (fun t => (vm_terminal t, vm_depth t)) (vmp_inner v) =
    map (fun p => (pp_terminal p, length (pp_siblings p))) pps.
Proof.
  intros H OK n S ks [Hnd Hlen] Hne Hs Hk Hndt pps.
  set (gt := fun k => pp_terminal (canonical_proof H n S k)).
  set (gs := fun k => pp_siblings (canonical_proof H n S k)).
  assert (Hgpp : forall k, canonical_proof H n S k = gpp H gt gs k).
  { intros k. unfold gpp, gt, gs. destruct (canonical_proof H n S k). reflexivity. }
  set (M := max_path_len (fun p : path_proof H => term_path (pp_terminal p)) pps).
  destruct (canon_CR H pps M n 0 S [] [] ks 0 gt gs) as [P [ss [cost [HC [Hcost _]]]]]; try assumption; try reflexivity.
  - intros k Hin. unfold M.
    apply (max_path_len_In _ (fun p : path_proof H => term_path (pp_terminal p)) pps (canonical_proof H n S k)).
    unfold pps. apply in_map. exact Hin.
  - intros k Hin. split; [apply Hk; exact Hin|reflexivity].
  - intros k Hin. unfold gs, gt, canonical_proof.
    destruct (walk H (mk n 0 S) k 0) as [s tm]. split; reflexivity.
  - intros i k Hn. cbn [plus]. unfold pps. rewrite nth_error_map, Hn. cbn [option_map].
    rewrite Hgpp. reflexivity.
  - assert (Hlp : length ks = length pps) by (unfold pps; rewrite map_length; reflexivity).
    cbn [plus] in HC. rewrite Hlp in HC.
    pose proof (from_path_proofs_CR H pps P ss _ cost HC) as Hfp.
    fold M in Hfp. rewrite Hlp in Hcost.
    specialize (Hfp ltac:(nia)).
    destruct (verify_MPS H OK P ss _ (CR_MPS H pps _ _ _ _ _ _ _ HC)) as [v [Hv [_ [_ Hsame]]]].
    exists {| mp_paths := P; mp_siblings := ss |}, v. split; [exact Hfp|]. split; [exact Hv|].
    unfold same_paths in Hsame. rewrite Hsame.
    (* the paths are the terminals with their sibling counts *)
    rewrite (CR_paths H pps _ _ _ _ _ _ _ HC).
    rewrite Nat.sub_0_r. cbn [skipn]. rewrite firstn_all. reflexivity.
Qed.

Theorem multi_complete : forall (H : Hasher), HasherOK H ->
  forall S ks, wf 256 S ->
  ks <> [] -> sorted_keys ks = true -> (forall k, In k ks -> length k = 256) ->
  NoDup (map (fun k => pp_terminal (canonical_proof H 256 S k)) ks) ->
  exists mp v,
    from_path_proofs H (map (canonical_proof H 256 S) ks) = Ok mp /\
    verify H mp (root_n H 256 S) = Ok v.
Proof.
  intros H OK S ks Hwf Hne Hs Hk Hnd.
  destruct (multi_complete_n H OK 256 S ks Hwf Hne Hs Hk Hnd) as [mp [v [H1 [H2 _]]]].
  exists mp, v. split; assumption.
Qed.

(* ------------------------------------------------------------------------------------------ *)
(* assumptions of the main statements (all closed under the global context)                     *)
(* ------------------------------------------------------------------------------------------ *)
Print Assumptions multi_verify_total.
Print Assumptions verify_vmp_wf.
Print Assumptions vmp_wf_facts.
Print Assumptions multi_confirm_total.
Print Assumptions multi_verify_update_total.
Print Assumptions multi_complete_n.
Print Assumptions multi_sound_terminals.
Print Assumptions multi_sound.

(* ------------------------------------------------------------------------------------------ *)
(* small executable instances (free hasher, 3-bit keys): the hypotheses are satisfiable         *)
(* ------------------------------------------------------------------------------------------ *)
Module MultiProofProofsExamples.
  Definition S3 : kv := [([false; false; true], 1%N); ([false; true; false], 2%N); ([true; true; false], 3%N)].
  Definition ks3 : list key := [[false; false; false]; [false; true; false]; [true; false; true]].

  Example complete_small :
    match from_path_proofs FreeH (map (canonical_proof FreeH 3 S3) ks3) with
    | Ok mp =>
        match verify FreeH mp (root_n FreeH 3 S3) with
        | Ok v =>
            (map (fun t => vm_depth t) (vmp_inner v),
             confirm_nonexistence FreeH v [false; false; false],
             confirm_value FreeH v ([false; true; false], 2%N),
             confirm_nonexistence FreeH v [true; false; true],
             MultiUpdate.verify_update FreeH 3 v [([false; false; false], Some 7%N); ([true; false; true], Some 8%N)])
            = ([2; 2; 1], Ok true, Ok true, Ok true,
               Ok (root_n FreeH 3 [([false; false; false], 7%N); ([false; false; true], 1%N);
                                   ([false; true; false], 2%N); ([true; false; true], 8%N);
                                   ([true; true; false], 3%N)]))
        | _ => False
        end
    | _ => False
    end.
  Proof. vm_compute. reflexivity. Qed.

  (* the same instance through the theorem *)
  Example complete_small_thm :
    exists mp v, from_path_proofs FreeH (map (canonical_proof FreeH 3 S3) ks3) = Ok mp /\
                 verify FreeH mp (root_n FreeH 3 S3) = Ok v.
  Proof.
    destruct (multi_complete_n FreeH FreeH_OK 3 S3 ks3) as [mp [v [H1 [H2 _]]]].
    - split.
      + vm_compute. repeat constructor; intros Hin; cbn in Hin; intuition discriminate.
      + intros k v [Heq|[Heq|[Heq|[]]]]; inversion Heq; reflexivity.
    - discriminate.
    - reflexivity.
    - intros k [<-|[<-|[<-|[]]]]; reflexivity.
    - vm_compute. repeat constructor; intros Hin; cbn in Hin; intuition discriminate.
    - exists mp, v. split; assumption.
  Qed.
End MultiProofProofsExamples.
