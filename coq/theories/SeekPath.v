(* SeekPath: a mirror of NOMT's merkle read path - what [Session::prove] does to answer a key - over
   the merkle pages and the key/value pairs that Image.v decoded (properties C05 / C16).

   Image.v checks the stored merkle pages against the reference trie ([wf_merkle]).  This file
   mirrors what NOMT ITSELF does to produce a path proof, step by step:

     node_kind       core/src/hasher.rs:37-45  node_kind_by_msb (core/src/trie.rs:39-51 is_leaf /
                     is_internal / is_terminator = NodeHasher::node_kind; both shipped hashers use
                     the MSB labelling): first byte >> 7 == 1 -> Leaf, all 32 bytes zero ->
                     Terminator, otherwise Internal
     step            nomt/src/merkle/seek.rs:138-157  the body of `for bit in bits` in
                     SeekRequest::continue_seek: position.down(bit) (core/src/trie_pos.rs:115-131:
                     node_index = bit at the top of a page, 2 * node_index + 2 + bit below),
                     cur_node = page.node(node_index), siblings.push(page.node(sibling_index))
                     (trie_pos.rs:304-310: index +1 / -1 by parity), then leaf -> leaf fetch,
                     terminator -> Completed(None)
     leaf_fetch      seek.rs:415-452 begin_leaf_fetch + 194-264 continue_leaf_fetch (no overlay):
                     the FIRST item the beatree iterator yields in range_bounds(position)
                     (seek.rs:473-498: the keys that start with the position's bits)
     seek_pages      seek.rs:114-192 continue_seek and 93-101 next_query: six bits per page; at the
                     bottom layer the child page index is node_index - 62 (trie_pos.rs:207-210,
                     299-301), the child page id is page_id.child_page_id(index)
                     (core/src/page_id.rs:169-177; as a label: Image.child_label); the parent's
                     elided-children bit is looked at FIRST (seek.rs:168-171,
                     merkle/mod.rs:84-86): if set the pages below are rebuilt, else the child page
                     is loaded (page set / page cache / PageLoader::probe; a page that does not
                     exist is `unreachable!()`, seek.rs:683)
     rebuild         seek.rs:185-190, 266-392 continue_leaves_fetch: all items of the beatree in
                     range_bounds(position) are collected and page_walker.rs:1000-1025
                     reconstruct_pages / 526-591 reconstruct builds every page below the position
                     from them; `assert_eq!(root, subtree_root)` (page_walker.rs:1013) compares the
                     rebuilt sub-trie's root with the node stored at the position; the seek then
                     resumes through the rebuilt pages (seek.rs:391, 698-728)
     seek_with       nomt/src/merkle/mod.rs:327-367 Updater::prove, seek.rs:49-78
                     SeekRequest::new on the root that nomt/src/lib.rs:960-1018 compute_root_node
                     derives from the root page and the beatree (three cases)

   What is abstracted:
   * loading a page by its id is a lookup in the label map of the decoded hash table
     ([Image.label_map]); the probing that finds the bucket is mirrored and proved separately
     ([Image.probe], [probe_sound]); page cache, page set and I/O multiplexing are not modelled.
   * the beatree iterator over range_bounds(position) is the decoded key/value list restricted to
     the keys that start with the position's bits ([under]); the B-tree read path proper is
     ReadPath.v.
   * the pages rebuilt below an elided position are not materialised: the sub-trie the page walker
     builds from the collected leaves is the specification's [mk] over those pairs, and the seek
     through the rebuilt pages is the walk down that sub-trie ([seek_trie]).
   * HASH VALUES COME FROM THE ORACLE.  Coq cannot evaluate blake3 / sha2.  The 32 bytes of the
     rebuilt nodes (the siblings collected below an elided position, and the rebuilt root that is
     compared with the stored node) are [hash_of id], where [id] is the number the node has in the
     annotated reference trie [rt] ([Emit.annotate], the numbering under which the harness uploads
     the hashes it computes with the real hasher).  The ids are read off [rt] at the same position
     ([asub]); the SHAPE of the rebuilt sub-trie (where the walk ends, how many siblings there are,
     the terminal) comes from [mk] over the restricted pairs, not from [rt]: where the two shapes
     differ [seek_trie] gives up.  Nodes read from STORED pages are the page bytes themselves.

   SeekPath_proofs.v proves [seek_refines]: on an image whose [wf_merkle] verdict passes, with an
   oracle that is consistent with the annotation, the seek returns the byte encodings of the
   siblings of [PathProof.canonical_proof], in the same order, and the canonical terminal. *)
From Coq Require Import List Bool Arith NArith Lia.
From Nomt Require Import Base Hash Trie Emit Image.
Import ListNotations.
Local Open Scope N_scope.

(* core/src/hasher.rs:37-45
     if node[0] >> 7 == 1 { Leaf } else if node == &TERMINATOR { Terminator } else { Internal } *)
Definition node_kind (nd : list N) : nkind :=
  match nd with
  | b0 :: _ => if 128 <=? b0 then KLeaf else if bytes_eqb nd ZERO_NODE then KTerm else KInt
  | [] => KInt
  end.

(* the pairs whose keys start with the bits [p]: the items of the beatree iterator over
   range_bounds(position), in order *)
Definition under (p : list bool) (S : kv) : kv := filter (fun e => is_prefix p (fst e)) S.

(* continue_leaf_fetch: the first item in range is the leaf's data; "leaf must exist" panics
   otherwise.  The value hash is the opaque id of the value (its position in the image). *)
Definition leaf_fetch (p : list bool) (S : kv) : option terminal :=
  match under p S with
  | (k', v) :: _ => Some (TLeaf k' v)
  | [] => None
  end.

(* the sub-trie of an annotated trie at a position (None: the path leaves the trie) *)
Fixpoint asub (t : atrie) (p : list bool) {struct p} : option atrie :=
  match p with
  | [] => Some t
  | b :: p' =>
      match t with
      | AB _ l r => asub (if b then r else l) p'
      | _ => None
      end
  end.

(* trie_pos.rs:304-310 *)
Definition sibling_index (ix : N) : N := if N.even ix then ix + 1 else ix - 1.

Definition bitN (b : bool) : N := if b then 1 else 0.

(* the result: siblings from the root down (PathProof.siblings: "in ascending order by depth"),
   and the terminal (a leaf's key and value id, or the position of the terminator) *)
Definition sres := option (list (list N) * terminal).

Section Seek.
  Variable hash_of : N -> option (list N).      (* node id of [rt] -> 32 bytes: the ORACLE *)
  Variable pages : pmap mpage.                   (* stored merkle pages by label *)
  Variable kvs : kv.                             (* the decoded pairs, in image order *)
  Variable rt : atrie.                           (* the annotated reference trie: ids for [hash_of] *)
  Variable k : key.

  (* the walk through the pages REBUILT below an elided position: [t] is the rebuilt sub-trie at
     depth [d], [a] the reference sub-trie at the same position (ids only).  A sibling's 32 bytes
     are the oracle's. *)
  Fixpoint seek_trie (t : trie) (a : atrie) (d : nat) (sibs : list (list N)) : sres :=
    match t with
    | E => Some (rev sibs, TTerm (firstn d k))
    | Lf k' v => Some (rev sibs, TLeaf k' v)
    | Br l r =>
        match a with
        | AB _ al ar =>
            if bit k d
            then match expected_node hash_of (aid al) with
                 | Some h => seek_trie r ar (S d) (h :: sibs)
                 | None => None
                 end
            else match expected_node hash_of (aid ar) with
                 | Some h => seek_trie l al (S d) (h :: sibs)
                 | None => None
                 end
        | _ => None
        end
    end.

  (* one bit inside the page [pg]: [j] bits of the page are consumed (0..5), [ni] is the node index
     of the current (internal) node when j > 0 *)
  Definition step (rec : mpage -> N -> N -> N -> nat -> list (list N) -> sres)
             (pg : mpage) (lab j ni : N) (d : nat) (sibs : list (list N)) : sres :=
    let b := bit k d in
    let ni' := if j =? 0 then bitN b else 2 * ni + 2 + bitN b in
    match nthN ni' (p_nodes pg), nthN (sibling_index ni') (p_nodes pg) with
    | Some cur, Some sib =>
        let sibs' := sib :: sibs in
        match node_kind cur with
        | KLeaf =>
            match leaf_fetch (firstn (S d) k) kvs with
            | Some tm => Some (rev sibs', tm)
            | None => None
            end
        | KTerm => Some (rev sibs', TTerm (firstn (S d) k))
        | KInt => rec pg lab (j + 1) ni' (S d) sibs'
        end
    | _, _ => None
    end.

  (* the position at depth [d] holds an internal node; it lies in page [pg] (label [lab]) after [j]
     bits of that page.  [fuel] = 256 - d: `down` asserts depth != 256. *)
  Fixpoint seek_pages (fuel : nat) (pg : mpage) (lab j ni : N) (d : nat) (sibs : list (list N)) : sres :=
    match fuel with
    | O => None
    | S f =>
        if j <? 6 then step (seek_pages f) pg lab j ni d sibs
        else
          let idx := ni - 62 in
          let lab' := child_label lab idx in
          if N.testbit (p_elided pg) idx then
            (* rebuild: the sub-trie of the pairs under the position; its root must be the stored
               node (assert_eq! in reconstruct_pages) *)
            match nthN ni (p_nodes pg), asub rt (firstn d k) with
            | Some stored, Some a =>
                match expected_node hash_of (aid a) with
                | Some h =>
                    if bytes_eqb stored h
                    then seek_trie (mk (KEY_LEN - d) d (under (firstn d k) kvs)) a d sibs
                    else None
                | None => None
                end
            | _, _ => None
            end
          else
            match nfind lab' pages with
            | Some c => step (seek_pages f) c lab' 0 0 d sibs
            | None => None                       (* unreachable!() in submit_idle_page_load *)
            end
    end.

  (* compute_root_node + SeekRequest::new.  Case 3: one of the two top nodes of the root page is not
     the terminator: the root is internal and the seek starts in the root page.  Cases 1 / 2: no
     item in the beatree: terminator; otherwise the root is the leaf of the first item. *)
  Definition seek_with : sres :=
    let small :=
      match leaf_fetch [] kvs with
      | Some tm => Some ([], tm)
      | None => Some ([], TTerm [])
      end in
    match nfind 0 pages with
    | Some pg =>
        match nthN 0 (p_nodes pg), nthN 1 (p_nodes pg) with
        | Some l, Some r =>
            if bytes_eqb l ZERO_NODE && bytes_eqb r ZERO_NODE then small
            else seek_pages KEY_LEN pg 0 0 0 0%nat []
        | _, _ => None
        end
    | None => small
    end.
End Seek.

(* the seek over key/value pairs alone: the ids are those of the annotated canonical trie *)
Definition seek (hash_of : N -> option (list N)) (pages : pmap mpage) (kvs : kv) (k : key) : sres :=
  seek_with hash_of pages kvs (fst (annotate (mk KEY_LEN 0 kvs) 1)) k.

Definition img_pages (img : image) : pmap mpage := fst (label_map (h_pages (i_ht img))).

(* ... and over a decoded image *)
Definition seek_img (hash_of : N -> option (list N)) (img : image) (k : key) : sres :=
  seek_with hash_of (img_pages img) (abs_kv img) (ref_trie img) k.

(* [wf_merkle] looks at the pages only when the reference trie has an internal root.  With fewer
   than two pairs compute_root_node still reads the root page: the seek is the canonical one iff
   the root page is absent or its two top nodes are terminators. *)
Definition root_page_clean (pages : pmap mpage) : bool :=
  match nfind 0 pages with
  | None => true
  | Some pg =>
      match nthN 0 (p_nodes pg), nthN 1 (p_nodes pg) with
      | Some l, Some r => bytes_eqb l ZERO_NODE && bytes_eqb r ZERO_NODE
      | _, _ => false
      end
  end.

Definition wf_root (img : image) : bool :=
  match abs_kv img with
  | [] | [_] => root_page_clean (img_pages img)
  | _ => true
  end.

(* ------------------------------------------------------------------------------------------- *)
(* statistics for the driver (no part of any statement)                                          *)

(* the number of consecutive STORED pages on the key's page path, the root page first *)
Fixpoint sextet (bits : list bool) (n : nat) (acc : N) : N * list bool :=
  match n with
  | O => (acc, bits)
  | S m => match bits with
           | [] => (acc, [])
           | b :: r => sextet r m (2 * acc + bitN b)
           end
  end.

Fixpoint stored_depth_aux (fuel : nat) (pages : pmap mpage) (lab : N) (bits : list bool) : N :=
  match fuel with
  | O => 0
  | S f =>
      match nfind lab pages with
      | None => 0
      | Some _ => let '(ix, rest) := sextet bits 6 0 in
                  1 + stored_depth_aux f pages (child_label lab ix) rest
      end
  end.

Definition stored_depth (pages : pmap mpage) (k : key) : N := stored_depth_aux 43 pages 0 k.

(* the terminal of [k] in the reference trie lies below the last stored page of its page path *)
Definition under_elided (pages : pmap mpage) (rt : atrie) (k : key) : bool :=
  6 * stored_depth pages k <? lenN (fst (awalk rt k 0)).

(* ------------------------------------------------------------------------------------------- *)
(* a hand-made store: four pairs, three merkle pages in the reference trie, one of them elided   *)

Section Example.

  (* a toy 32-byte encoding of FreeH nodes with the MSB labelling: NOT a hash function, but it
     satisfies everything the theorem asks of the oracle (kinds by MSB, terminator = zeros) *)
  Fixpoint fsize (n : fnode) : N :=
    match n with
    | FT => 0
    | FL _ v => 3 * v + 1
    | FI l r => 7 * fsize l + 11 * fsize r + 5
    | FO _ i => i
    end.

  Definition toy_enc (n : fnode) : list N :=
    match fkind n with
    | KTerm => ZERO_NODE
    | KLeaf => 128 + fsize n mod 100 :: repeatN (fsize n mod 256) 31
    | KInt => 1 + fsize n mod 100 :: repeatN (fsize n mod 256) 31
    end.

  Fixpoint anode' (t : atrie) : fnode :=
    match t with
    | AE => FT
    | AL _ k v => FL k v
    | AB _ l r => FI (anode' l) (anode' r)
    end.

  Fixpoint find_id (t : atrie) (i : N) : option fnode :=
    match t with
    | AE => None
    | AL id _ _ => if id =? i then Some (anode' t) else None
    | AB id l r =>
        if id =? i then Some (anode' t)
        else match find_id l i with Some n => Some n | None => find_id r i end
    end.

  Definition toy_oracle (rt : atrie) (i : N) : option (list N) := option_map toy_enc (find_id rt i).

  (* the page writer of the example: slot (j, acc) of the page whose two top sub-tries are l and r *)
  Fixpoint slot_node (ho : N -> option (list N)) (t : atrie) (path : list bool) : list N :=
    match path with
    | [] => match expected_node ho (aid t) with Some h => h | None => ZERO_NODE end
    | b :: p => match t with
                | AB _ l r => slot_node ho (if b then r else l) p
                | _ => ZERO_NODE
                end
    end.

  Fixpoint bits_be (n : nat) (x : N) : list bool :=
    match n with
    | O => []
    | S m => bits_be m (x / 2) ++ [N.odd x]
    end.

  Definition layer (ho : N -> option (list N)) (top : atrie) (j : nat) : list (list N) :=
    map (fun acc => slot_node ho top (bits_be j (N.of_nat acc))) (seq 0 (2 ^ j)).

  Definition page_of (ho : N -> option (list N)) (bucket lab elided : N) (top : atrie) : mpage :=
    mkMpage bucket 200 lab [] elided (flat_map (layer ho top) [1; 2; 3; 4; 5; 6]%nat).

  Definition kx (bs : list bool) : key := pad256 bs.
  Let o := false.
  Let i := true.

  (* A, B share 7 bits (000000 0): internal nodes down to depth 7, their leaves at depth 8 in child
     page 0, which is STORED.  C, D share 6 bits (111111): the internal node at depth 6 is the
     bottom of the root page, their leaves sit at depth 7 in child page 63, which is ELIDED. *)
  Definition ex_kvs : kv :=
    [ (kx [o; o; o; o; o; o; o; o], 1); (kx [o; o; o; o; o; o; o; i], 2);
      (kx [i; i; i; i; i; i; o], 3); (kx [i; i; i; i; i; i; i], 4) ].

  Definition ex_rt : atrie := fst (annotate (mk KEY_LEN 0 ex_kvs) 1).
  Definition ex_ho : N -> option (list N) := toy_oracle ex_rt.

  Definition ex_root_page : mpage := page_of ex_ho 0 0 (2 ^ 63) ex_rt.
  Definition ex_child0 : mpage :=
    match asub ex_rt [o; o; o; o; o; o] with
    | Some a => page_of ex_ho 1 (child_label 0 0) 0 a
    | None => page_of ex_ho 1 (child_label 0 0) 0 AE
    end.

  Definition ex_pages : pmap mpage := nadd (child_label 0 0) ex_child0 (nadd 0 ex_root_page PL).

  Definition ex_entry (e : key * value) : entry := mkEntry (fst e) [snd e] 1 None.
  Definition ex_image : image :=
    mkImage (mkManifest MAGIC 1 0 2 0 2 1 8 [] 0 0) [] [] []
            [mkLeaf 1 zero_key (map ex_entry ex_kvs)]
            (mkHt 8 [] PL [ex_root_page; ex_child0]).

  Example ex_image_is : (kv_eqb (abs_kv ex_image) ex_kvs, wf_merkle ex_ho ex_image, wf_root ex_image,
                         all_len 256 (abs_kv ex_image)) = (true, true, true, true).
  Proof. vm_compute. reflexivity. Qed.

  (* [wf_merkle] sees three needed pages: two stored, one absent and marked elided *)
  Example ex_image_pages :
    let r := merkle_result ex_ho ex_image in
    (mw_needed r, mw_stored r, mw_elided r, mw_below r) = (3, 2, 1, 0).
  Proof. vm_compute. reflexivity. Qed.

  Definition shape (r : sres) : option (nat * list N * option (key * value) * nat) :=
    match r with
    | None => None
    | Some (sibs, tm) =>
        Some (length sibs, map (fun s => hd 0 s) sibs,
              match tm with TLeaf k' v => Some (k', v) | TTerm _ => None end,
              match tm with TLeaf _ _ => 0%nat | TTerm p => length p end)
    end.

  Definition ex_seek (bs : list bool) : sres := seek_img ex_ho ex_image (kx bs).

  (* present keys: two through the stored child page (8 siblings), two through the rebuilt one (7) *)
  Example ex_seek_present :
    map (fun bs => match ex_seek bs with
                   | Some (sibs, TLeaf k' v) => (length sibs, v)
                   | _ => (0%nat, 0)
                   end)
        [[o; o; o; o; o; o; o; o]; [o; o; o; o; o; o; o; i]; [i; i; i; i; i; i; o]; [i; i; i; i; i; i; i]]
    = [(8%nat, 1); (8%nat, 2); (7%nat, 3); (7%nat, 4)].
  Proof. vm_compute. reflexivity. Qed.

  (* absent keys: leaving the path in the root page (terminator at depth 2 and 4), in the stored
     child page (terminator at depth 7), ending in a foreign leaf below the stored page and below
     the elided one *)
  Example ex_seek_absent :
    map (fun bs => match ex_seek bs with
                   | Some (sibs, TTerm p) => (length sibs, length p, 0)
                   | Some (sibs, TLeaf _ v) => (length sibs, 0%nat, v)
                   | None => (0%nat, 0%nat, 99)
                   end)
        [[o; i]; [i; i; i; o]; [o; o; o; o; o; o; i]; [o; o; o; o; o; o; o; o; i]; [i; i; i; i; i; i; o; i]]
    = [(2%nat, 2%nat, 0); (4%nat, 4%nat, 0); (7%nat, 7%nat, 0); (8%nat, 0%nat, 1); (7%nat, 0%nat, 3)].
  Proof. vm_compute. reflexivity. Qed.

  Example ex_under_elided :
    map (fun bs => (stored_depth ex_pages (kx bs), under_elided ex_pages ex_rt (kx bs)))
        [[o; o; o; o; o; o; o; o]; [i; i; i; i; i; i; i]; [i; i; i; o]]
    = [(2, false); (1, true); (1, false)].
  Proof. vm_compute. reflexivity. Qed.

  (* a damaged store is noticed by the seek itself: child page 63 neither stored nor marked elided *)
  Example ex_seek_unmarked :
    seek_with ex_ho (nadd (child_label 0 0) ex_child0 (nadd 0 (page_of ex_ho 0 0 0 ex_rt) PL))
              ex_kvs ex_rt (kx [i; i; i; i; i; i; i]) = None.
  Proof. vm_compute. reflexivity. Qed.

End Example.
