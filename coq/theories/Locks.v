(* C15: the readers/writer discipline of the public API (lib.rs): sessions hold the access lock
   in read mode from begin_session until they are dropped or finished; commit and rollback hold
   it in write mode around the previous-root check and the store commit; the non-blocking
   flavours use try_write.  Small-step semantics over any number of threads; the observable
   labels carry what a session read and what each commit attempt returned. *)
From Nomt Require Import Base.

Inductive tst :=
| TIdle
| TSession (snap : kv)                  (* holds the read guard; snap = committed state at begin *)
| TFinished (base result : kv)          (* a FinishedSession: no guard held *)
| TWriting (base result : kv).          (* inside the critical section of a commit: write guard held *)

Record lstate := {
  lcur : kv;                            (* committed state *)
  readers : nat;                        (* read guards held on the access lock *)
  writer : bool;                        (* write guard held *)
  threads : list tst                    (* thread i is [nth i threads TIdle] *)
}.

Inductive label :=
| LBegin (t : nat)
| LRead (t : nat) (k : key) (v : option value)
| LEnd (t : nat)
| LFinish (t : nat)
| LAcquire (t : nat)
| LCommitOk (t : nat)
| LCommitStale (t : nat)
| LDeferred (t : nat).

Fixpoint set_nth (l : list tst) (i : nat) (x : tst) : list tst :=
  match l, i with
  | [], _ => []
  | _ :: l', O => x :: l'
  | y :: l', S i' => y :: set_nth l' i' x
  end.

Definition with_thread (s : lstate) (t : nat) (x : tst) (c : kv) (r : nat) (w : bool) : lstate :=
  {| lcur := c; readers := r; writer := w; threads := set_nth (threads s) t x |}.

Inductive lstep : lstate -> label -> lstate -> Prop :=
(* begin_session: RwLock::read_arc - only while no writer holds the lock *)
| st_begin : forall s t, t < length (threads s) -> nth t (threads s) TIdle = TIdle -> writer s = false ->
    lstep s (LBegin t) (with_thread s t (TSession (lcur s)) (lcur s) (S (readers s)) false)
(* Session::read / prove: answered from the store, which nobody may change meanwhile *)
| st_read : forall s t snap k, nth t (threads s) TIdle = TSession snap ->
    lstep s (LRead t k (get (lcur s) k)) s
(* dropping the session releases the read guard *)
| st_end : forall s t snap, nth t (threads s) TIdle = TSession snap ->
    lstep s (LEnd t) (with_thread s t TIdle (lcur s) (pred (readers s)) (writer s))
(* Session::finish consumes the session: the guard is released, the change set keeps its base *)
| st_finish : forall s t snap (batch : list change), nth t (threads s) TIdle = TSession snap ->
    lstep s (LFinish t) (with_thread s t (TFinished snap (apply snap batch)) (lcur s) (pred (readers s)) (writer s))
(* blocking commit / successful try_write: needs no reader and no writer *)
| st_acquire : forall s t b r, nth t (threads s) TIdle = TFinished b r -> readers s = 0 -> writer s = false ->
    lstep s (LAcquire t) (with_thread s t (TWriting b r) (lcur s) 0 true)
(* non-blocking commit while the lock is taken: the change set is handed back, nothing changes *)
| st_deferred : forall s t b r, nth t (threads s) TIdle = TFinished b r -> (readers s <> 0 \/ writer s = true) ->
    lstep s (LDeferred t) s
(* inside the critical section: previous-root check, then the store commit, then release *)
| st_commit_ok : forall s t b r, nth t (threads s) TIdle = TWriting b r -> kv_eqb (lcur s) b = true ->
    lstep s (LCommitOk t) (with_thread s t TIdle r 0 false)
| st_commit_stale : forall s t b r, nth t (threads s) TIdle = TWriting b r -> kv_eqb (lcur s) b = false ->
    lstep s (LCommitStale t) (with_thread s t TIdle (lcur s) 0 false).

Inductive lrun : lstate -> list label -> lstate -> Prop :=
| run_nil : forall s, lrun s [] s
| run_cons : forall s l s' ls s'', lstep s l s' -> lrun s' ls s'' -> lrun s (l :: ls) s''.

Definition linit (c : kv) (n : nat) : lstate :=
  {| lcur := c; readers := 0; writer := false; threads := repeat TIdle n |}.

Definition count_sessions (l : list tst) : nat :=
  length (filter (fun x => match x with TSession _ => true | _ => false end) l).
Definition count_writing (l : list tst) : nat :=
  length (filter (fun x => match x with TWriting _ _ => true | _ => false end) l).
