(* C15: the readers/writer discipline of the public API (lib.rs): sessions hold the access lock
   in read mode from begin_session until they are dropped or finished; commit and rollback hold
   it in write mode around the previous-root check and the store commit; the non-blocking
   flavours use try_write.  Small-step semantics over any number of threads; the observable
   labels carry what a session read and what each commit attempt returned.

   The previous-root check of a (parent-less) session compares TWO things under the write guard:
   the committed root with the session's previous root, and the store's commit count with the
   count sampled by begin_session (`shared.commit_count` / `base_commit_count` in lib.rs).  The
   same key/value set can come back (write then delete) while the pages behind it have changed, so
   equality of the states alone does not make a change set valid: [lver] is that count. *)
From Nomt Require Import Base.

Inductive tst :=
| TIdle
| TSession (snap : kv) (ver : N)        (* holds the read guard; snap, ver = committed state and
                                           commit count at begin *)
| TFinished (base result : kv) (ver : N)  (* a FinishedSession: no guard held *)
| TWriting (base result : kv) (ver : N).  (* inside the critical section of a commit: write guard held *)

Record lstate := {
  lcur : kv;                            (* committed state *)
  lver : N;                             (* number of successful commits so far *)
  readers : nat;                        (* read guards held on the access lock *)
  writer : bool;                        (* write guard held *)
  threads : list tst                    (* thread i is [nth i threads TIdle] *)
}.

Inductive label :=
| LBegin (t : nat)
| LRead (t : nat) (k : key) (v : option value)
| LEnd (t : nat)
| LFinish (t : nat)
| LAcquire (t : nat)
| LCommitOk (t : nat)
| LCommitStale (t : nat)
| LDeferred (t : nat).

Fixpoint set_nth (l : list tst) (i : nat) (x : tst) : list tst :=
  match l, i with
  | [], _ => []
  | _ :: l', O => x :: l'
  | y :: l', S i' => y :: set_nth l' i' x
  end.

Definition with_thread (s : lstate) (t : nat) (x : tst) (c : kv) (r : nat) (w : bool) : lstate :=
  {| lcur := c; lver := lver s; readers := r; writer := w; threads := set_nth (threads s) t x |}.

(* a successful commit is counted *)
Definition bump (s : lstate) : lstate :=
  {| lcur := lcur s; lver := (lver s + 1)%N; readers := readers s; writer := writer s;
     threads := threads s |}.

(* the check made under the write guard: the change set was prepared on the committed state AND
   no commit has succeeded since its session began *)
Definition fresh (s : lstate) (base : kv) (ver : N) : bool :=
  kv_eqb (lcur s) base && N.eqb (lver s) ver.

Inductive lstep : lstate -> label -> lstate -> Prop :=
(* begin_session: RwLock::read_arc - only while no writer holds the lock; then the root and the
   commit count are sampled together *)
| st_begin : forall s t, t < length (threads s) -> nth t (threads s) TIdle = TIdle -> writer s = false ->
    lstep s (LBegin t) (with_thread s t (TSession (lcur s) (lver s)) (lcur s) (S (readers s)) false)
(* Session::read / prove: answered from the store, which nobody may change meanwhile *)
| st_read : forall s t snap v k, nth t (threads s) TIdle = TSession snap v ->
    lstep s (LRead t k (get (lcur s) k)) s
(* dropping the session releases the read guard *)
| st_end : forall s t snap v, nth t (threads s) TIdle = TSession snap v ->
    lstep s (LEnd t) (with_thread s t TIdle (lcur s) (pred (readers s)) (writer s))
(* Session::finish consumes the session: the guard is released, the change set keeps its base and
   the commit count it was taken on *)
| st_finish : forall s t snap v (batch : list change), nth t (threads s) TIdle = TSession snap v ->
    lstep s (LFinish t) (with_thread s t (TFinished snap (apply snap batch) v) (lcur s) (pred (readers s)) (writer s))
(* blocking commit / successful try_write: needs no reader and no writer *)
| st_acquire : forall s t b r v, nth t (threads s) TIdle = TFinished b r v -> readers s = 0 -> writer s = false ->
    lstep s (LAcquire t) (with_thread s t (TWriting b r v) (lcur s) 0 true)
(* non-blocking commit while the lock is taken: the change set is handed back, nothing changes *)
| st_deferred : forall s t b r v, nth t (threads s) TIdle = TFinished b r v -> (readers s <> 0 \/ writer s = true) ->
    lstep s (LDeferred t) s
(* inside the critical section: previous-root and commit-count check, then the store commit, then
   release *)
| st_commit_ok : forall s t b r v, nth t (threads s) TIdle = TWriting b r v -> fresh s b v = true ->
    lstep s (LCommitOk t) (bump (with_thread s t TIdle r 0 false))
| st_commit_stale : forall s t b r v, nth t (threads s) TIdle = TWriting b r v -> fresh s b v = false ->
    lstep s (LCommitStale t) (with_thread s t TIdle (lcur s) 0 false).

Inductive lrun : lstate -> list label -> lstate -> Prop :=
| run_nil : forall s, lrun s [] s
| run_cons : forall s l s' ls s'', lstep s l s' -> lrun s' ls s'' -> lrun s (l :: ls) s''.

Definition linit (c : kv) (n : nat) : lstate :=
  {| lcur := c; lver := 0%N; readers := 0; writer := false; threads := repeat TIdle n |}.

Definition count_sessions (l : list tst) : nat :=
  length (filter (fun x => match x with TSession _ _ => true | _ => false end) l).
Definition count_writing (l : list tst) : nat :=
  length (filter (fun x => match x with TWriting _ _ _ => true | _ => false end) l).
