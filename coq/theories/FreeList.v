(* FreeList: executable mirror of NOMT's page allocator (properties C19 and C17).

   Mirrors, function by function,
     /repo/nomt/src/beatree/allocator/free_list.rs   FreeList::{read, pop, discard, commit, preallocate,
                                                     push_and_encode, push, encode_head}, len_and_fragmented,
                                                     CleanFreeList::get_nth_pop, encode_free_list_page
     /repo/nomt/src/beatree/allocator/mod.rs         SyncAllocator::allocate, SyncFinisher::finish
   and the encoder of a free list into the portion pages that [Image.free_walk] reads back.

   Orientation.  The code keeps [portions : Vec<(PageNumber, Vec<PageNumber>)>] with the HEAD LAST and
   pops the LAST item of the head portion.  Here the list of portions is kept HEAD FIRST and the
   items of a portion TOP FIRST (the reverse of the order on disk), so that [stack] - the
   concatenation of the item lists - is exactly the order in which the code pops.  [to_disk] gives
   the form [Image.free_walk] returns (head portion first, items in disk order).  Vec indexing of
   the code is mirrored through [vec_at] (index k of the Vec whose reverse the list is).

   [option] results: [None] = the Rust code would panic at this point (unwrap of None, failed
   assert!, index out of bounds, usize underflow).  u32 overflow of page numbers is not modelled
   (page numbers are [N]).  Everything is parametric in [cap] = MAX_PNS_PER_PAGE (1022). *)
From Coq Require Import List Bool Arith NArith Lia.
From Nomt Require Import Image.
Import ListNotations.

Definition CAP : nat := 1022.

Definition portion := (N * list N)%type.          (* page number hosting it, items TOP FIRST *)

Record flist := mkFl {
  fl_portions : list portion;                      (* HEAD FIRST *)
  fl_pop : bool;                                   (* something was popped since the last commit *)
  fl_len : nat;
  fl_frag : bool;
  fl_released : list N                             (* released_portions, LAST PUSHED FIRST *)
}.

Definition stack (ps : list portion) : list N := flat_map snd ps.       (* pop order *)
Definition heads (ps : list portion) : list N := map fst ps.            (* portion page numbers *)
Definition tracked (ps : list portion) : list N := heads ps ++ stack ps.

Definition to_disk (ps : list portion) : list (N * list N) := map (fun p => (fst p, rev (snd p))) ps.
Definition of_disk (d : list (N * list N)) : list portion := map (fun p => (fst p, rev (snd p))) d.

(* linear-time variants for the executable checks (Coq's [rev] is quadratic); equal to the plain
   ones (FreeList_proofs: frev_rev, to_disk_f_eq, of_disk_f_eq) *)
Definition frev {A} (l : list A) : list A := rev_append l [].
Definition to_disk_f (ps : list portion) : list (N * list N) := map (fun p => (fst p, frev (snd p))) ps.
Definition of_disk_f (d : list (N * list N)) : list portion := map (fun p => (fst p, frev (snd p))) d.

Definition is_nil {A} (l : list A) : bool := match l with [] => true | _ => false end.

(* usize subtraction *)
Definition csub (a b : nat) : option nat := if b <=? a then Some (a - b) else None.

(* v[k] where the list is the reverse of the Vec v *)
Definition vec_at {A} (l : list A) (k : nat) : option A :=
  if k <? length l then nth_error l (length l - 1 - k) else None.

Fixpoint seqN (start : N) (k : nat) : list N :=
  match k with O => [] | S k' => start :: seqN (N.succ start) k' end.

Section Model.

  Variable cap : nat.

  (* len_and_fragmented (free_list.rs:393) *)
  Definition len_frag (ps : list portion) : nat * bool :=
    match ps with
    | [] => (0, false)
    | (_, its) :: r =>
        match r with
        | (_, pits) :: r' =>
            if length its =? 1
            then (length r' * cap + length pits + 1, negb (length pits =? cap))
            else (length r * cap + length its, false)
        | [] => (length its, false)
        end
    end.

  (* FreeList::read (free_list.rs:30), from the decoded walk (head first, disk order) *)
  Definition fl_read (d : list (N * list N)) : flist :=
    let ps := of_disk d in
    mkFl ps false (fst (len_frag ps)) (snd (len_frag ps)) [].
  Definition fl_read_f (d : list (N * list N)) : flist :=
    let ps := of_disk_f d in
    let lf := len_frag ps in
    mkFl ps false (fst lf) (snd lf) [].

  (* FreeList::pop (free_list.rs:90) on (portions, released_portions) *)
  Definition pop_ps (ps : list portion) (rel : list N)
    : option (option (N * list portion * list N)) :=
    match ps with
    | [] => Some None
    | (hpn, its) :: rest =>
        match its with
        | [] => None                                               (* head.1.pop().unwrap() *)
        | [x] => Some (Some (x, rest, hpn :: rel))                 (* head emptied: released *)
        | x :: its' => Some (Some (x, (hpn, its') :: rest, rel))
        end
    end.

  (* FreeList::discard (free_list.rs:117): (discarded, portions, released, the loop body ran) *)
  Fixpoint discard (n : nat) (ps : list portion) (rel : list N)
    : nat * list portion * list N * bool :=
    match n with
    | O => (0, ps, rel, false)
    | S _ =>
        match ps with
        | [] => (0, [], rel, false)
        | (hpn, its) :: rest =>
            let k := Nat.min (length its) n in
            match skipn k its with
            | [] =>
                let '(d, ps', rel', _) := discard (n - k) rest (hpn :: rel) in
                (k + d, ps', rel', true)
            | its' => (k, (hpn, its') :: rest, rel, true)
            end
        end
    end.

  (* CleanFreeList::get_nth_pop (free_list.rs:449) *)
  Definition obind {A B} (o : option A) (f : A -> option B) : option B :=
    match o with Some a => f a | None => None end.

  Definition get_nth_pop (s : flist) (n : nat) : option N :=
    let ps := fl_portions s in
    let np := length ps in
    if fl_frag s then
      if n =? 0 then
        obind (csub np 1) (fun k => obind (vec_at ps k) (fun p => vec_at (snd p) 0))
      else if n <? cap then
        obind (csub np 2) (fun k => obind (vec_at ps k) (fun p =>
        obind (csub cap n) (fun a => obind (csub a 1) (fun j => vec_at (snd p) j))))
      else
        let off := 2 + n / cap in
        let n' := n mod cap in
        obind (csub np off) (fun k => obind (vec_at ps k) (fun p =>
        obind (csub cap n') (fun a => obind (csub a 1) (fun j => vec_at (snd p) j))))
    else
      obind (csub np 1) (fun k => obind (vec_at ps k) (fun hp =>
      let hl := length (snd hp) in
      if n <? hl then
        obind (csub hl n) (fun a => obind (csub a 1) (fun j => vec_at (snd hp) j))
      else
        let n1 := n - hl in
        let off := 2 + n1 / cap in
        let n2 := n1 mod cap in
        obind (csub np off) (fun k' => obind (vec_at ps k') (fun p =>
        obind (csub cap n2) (fun a => obind (csub a 1) (fun j => vec_at (snd p) j)))))).

  (* SyncAllocator::allocate (mod.rs:194) for allocation index [idx]; file growth is not modelled *)
  Definition allocate (s : flist) (bump : N) (idx : nat) : option N :=
    if fl_pop s then None                                          (* as_clean: assert!(!self.pop) *)
    else if fl_len s <=? idx then Some (bump + N.of_nat (idx - fl_len s))%N
    else get_nth_pop s idx.

  (* ------------------------------------------------------------------------------------------ *)
  (* FreeList::preallocate (free_list.rs:205) *)

  Record pre := mkPre {
    p_ps : list portion;
    p_rel : list N;
    p_push : list N;                                 (* to_push, in order *)
    p_new : list N;                                  (* new_pages, in order *)
    p_bump : N;
    p_i : nat;
    p_nfp : bool                                     (* new_full_portion *)
  }.

  (* lines 212-258 *)
  Definition pre_first (ps : list portion) (rel push : list N) (bump : N) : option pre :=
    match pop_ps ps rel with
    | None => None
    | Some None => Some (mkPre ps rel push [] bump 0 true)
    | Some (Some (pn, ps1, rel1)) =>
        match rel1 with
        | x :: rel2 =>
            match ps1 with
            | (nh, nits) :: r =>
                if length nits =? cap - 1 then
                  obind (csub cap (length nits)) (fun i =>
                  Some (mkPre ((pn, nits) :: r) rel2 (push ++ [nh; x]) [] bump i false))
                else Some (mkPre ps1 rel2 (push ++ [x]) [pn] bump cap true)
            | [] => Some (mkPre ps1 rel2 (push ++ [x]) [pn] bump cap true)
            end
        | [] =>
            match ps1 with
            | (h, its) :: r =>
                obind (csub cap (length its)) (fun i =>
                Some (mkPre ((pn, its) :: r) [] (push ++ [h]) [] bump i false))
            | [] => None                                           (* last_mut().unwrap() *)
            end
        end
    end.

  (* the while loop, lines 263-310; what the loop leaves decides head_untouched (line 315) *)
  Fixpoint pre_loop (fuel : nat) (st : pre) : option pre :=
    if p_i st <? length (p_push st) then
      match fuel with
      | O => None
      | S f =>
          match (if p_nfp st then p_ps st else []) with
          | (h, its) :: r =>
              match its with
              | [] => None                                         (* head_pns.pop().unwrap() *)
              | y :: its' =>
                  pre_loop f (mkPre ((y, its') :: r) (p_rel st) (p_push st ++ [h]) (p_new st)
                                    (p_bump st) (S (p_i st)) false)
              end
          | [] =>
              match pop_ps (p_ps st) (p_rel st) with
              | None => None
              | Some (Some (pn, ps1, rel1)) =>
                  match rel1 with
                  | x :: rel2 =>
                      pre_loop f (mkPre ps1 rel2 (p_push st) (p_new st ++ [pn; x]) (p_bump st)
                                        (S (p_i st) + cap) true)
                  | [] =>
                      pre_loop f (mkPre ps1 [] (p_push st) (p_new st ++ [pn]) (p_bump st)
                                        (S (p_i st) + cap) (p_nfp st))
                  end
              | Some None =>
                  pre_loop f (mkPre (p_ps st) (p_rel st) (p_push st) (p_new st ++ [p_bump st])
                                    (N.succ (p_bump st)) (p_i st + cap) (p_nfp st))
              end
          end
      end
    else Some st.

  Definition pre_fuel (push : list N) : nat := 2 * length push + 4.

  Definition preallocate (ps : list portion) (rel push : list N) (bump : N) : option pre :=
    obind (pre_first ps rel push bump) (fun st => pre_loop (pre_fuel (p_push st)) st).

  (* ------------------------------------------------------------------------------------------ *)
  (* FreeList::push_and_encode (free_list.rs:320) *)

  Definition wpage := (N * N * list N)%type.       (* page number, prev, items in DISK order *)

  (* encode_head (free_list.rs:375) *)
  Definition encode_head (ps : list portion) : list wpage :=
    match ps with
    | [] => []
    | (h, its) :: r => [(h, match r with [] => 0%N | (q, _) :: _ => q end, rev its)]
    end.

  (* head_untouched (free_list.rs:315): the loop ended on a full portion that was never prepared
     for a rewrite; its page belongs to the previous state and is not written *)
  Definition head_untouched (st : pre) : bool := p_nfp st && negb (is_nil (p_ps st)).

  (* [clean] is head_clean: the head portion is identical to its page on disk; both encode_head
     calls are skipped while it holds, every push clears it *)
  Fixpoint push_enc (ps : list portion) (push new : list N) (clean : bool) (enc : list wpage)
    : option (list portion * list wpage) :=
    match push with
    | [] =>
        match new with
        | [] => Some (ps, if clean then enc else enc ++ encode_head ps)
        | _ :: _ => None                                           (* assert!(new_pages.next().is_none()) *)
        end
    | pn :: rest =>
        let head_full := match ps with [] => true | (_, its) :: _ => length its =? cap end in
        let frag := match ps with [] => false | (_, its) :: _ => length its =? cap - 1 end
                    && negb (is_nil new) && is_nil rest in
        if head_full || frag then
          match new with
          | [] => None                                             (* new_pages.next().unwrap() *)
          | np :: new' =>
              push_enc ((np, [pn]) :: ps) rest new' false (if clean then enc else enc ++ encode_head ps)
          end
        else
          match ps with
          | (h, its) :: r =>
              if length its <? cap then push_enc ((h, pn :: its) :: r) rest new false enc
              else None                                            (* push: assert!(len < MAX) *)
          | [] => None
          end
    end.

  (* FreeList::commit (free_list.rs:175): new list, new bump, pages to write *)
  Definition commit (s : flist) (freed : list N) (bump : N) : option (flist * N * list wpage) :=
    if negb (fl_pop s) && is_nil freed then
      Some (mkFl (fl_portions s) false (fl_len s) (fl_frag s) (fl_released s), bump, [])
    else
      let push0 := freed ++ rev (fl_released s) in
      obind (preallocate (fl_portions s) [] push0 bump) (fun st =>
      obind (push_enc (p_ps st) (p_push st) (p_new st) (head_untouched st) []) (fun r =>
      let ps' := fst r in
      Some (mkFl ps' false (fst (len_frag ps')) (snd (len_frag ps')) (p_rel st), p_bump st, snd r))).

  (* SyncFinisher::finish (mod.rs:294) after [allocations] calls of allocate *)
  Definition finish (s : flist) (bump : N) (allocations : nat) (freed : list N)
    : option (flist * N * list wpage) :=
    let '(d, ps, rel, popped) := discard allocations (fl_portions s) (fl_released s) in
    let bumps := allocations - d in
    commit (mkFl ps (fl_pop s || popped) (fl_len s) (fl_frag s) rel) freed (bump + N.of_nat bumps)%N.

  Definition head_pn (s : flist) : N :=
    match fl_portions s with [] => 0%N | (h, _) :: _ => h end.

  (* ------------------------------------------------------------------------------------------ *)
  (* one sync: the stages call allocate / free in some order, then finish *)

  Inductive op := OAlloc | ORelease (pn : N).

  Record sync := mkSync {
    sy_fl : flist;
    sy_bump : N;
    sy_allocs : nat;                                 (* the fetch_add counter *)
    sy_freed : list N;                               (* the vector handed to finish, in order *)
    sy_got : list N                                  (* pages handed out, in allocation order *)
  }.

  Definition sync_start (s : flist) (bump : N) : sync := mkSync s bump 0 [] [].

  Definition sync_step (y : sync) (o : op) : option sync :=
    match o with
    | OAlloc =>
        obind (allocate (sy_fl y) (sy_bump y) (sy_allocs y)) (fun pn =>
        Some (mkSync (sy_fl y) (sy_bump y) (S (sy_allocs y)) (sy_freed y) (sy_got y ++ [pn])))
    | ORelease pn =>
        Some (mkSync (sy_fl y) (sy_bump y) (sy_allocs y) (sy_freed y ++ [pn]) (sy_got y))
    end.

  Fixpoint sync_run (y : sync) (ops : list op) : option sync :=
    match ops with
    | [] => Some y
    | o :: r => obind (sync_step y o) (fun y' => sync_run y' r)
    end.

  Definition sync_finish (y : sync) : option (flist * N * list wpage) :=
    finish (sy_fl y) (sy_bump y) (sy_allocs y) (sy_freed y).

  (* the whole sync: (pages handed out, new free list, new bump, pages written) *)
  Definition sync_all (s : flist) (bump : N) (ops : list op)
    : option (list N * flist * N * list wpage) :=
    obind (sync_run (sync_start s bump) ops) (fun y =>
    obind (sync_finish y) (fun r => Some (sy_got y, fst (fst r), snd (fst r), snd r))).


  (* ------------------------------------------------------------------------------------------ *)
  (* the shape the code relies on (doc comment of commit): every portion below the head is full,
     except that the second one may hold cap-1 items when the head holds exactly one *)

  Definition shape_b (ps : list portion) : bool :=
    match ps with
    | [] => true
    | (_, its) :: r =>
        (1 <=? length its) && (length its <=? cap) &&
        match r with
        | [] => true
        | (_, pits) :: r' =>
            ((length pits =? cap) || ((length pits =? cap - 1) && (length its =? 1)))
            && forallb (fun p => length (snd p) =? cap) r'
        end
    end.

  (* what FreeList::read / commit establish about the bookkeeping fields *)
  Definition clean_b (s : flist) : bool :=
    negb (fl_pop s) && is_nil (fl_released s)
    && (fl_len s =? fst (len_frag (fl_portions s)))
    && Bool.eqb (fl_frag s) (snd (len_frag (fl_portions s)))
    && shape_b (fl_portions s).

End Model.

(* ---------------------------------------------------------------------------------------------- *)
(* the vocabulary of the conservation theorems (FreeList_proofs.v)                                *)

(* [l] holds every page number of [1, bump) exactly once (what Image.pages_exact establishes) *)
Definition covers (l : list N) (bump : N) : Prop :=
  NoDup l /\ forall pn, In pn l <-> (1 <= pn /\ pn < bump)%N.

Fixpoint remove1 (x : N) (l : list N) : list N :=
  match l with [] => [] | y :: r => if (x =? y)%N then r else y :: remove1 x r end.

(* the live set along the operations of a sync: an allocation adds the page handed out ([got] is
   the list of pages handed out, in order), a release takes the page out *)
Fixpoint live_after (live : list N) (ops : list op) (got : list N) : list N :=
  match ops with
  | [] => live
  | OAlloc :: r =>
      match got with
      | g :: got' => live_after (g :: live) r got'
      | [] => live_after live r []
      end
  | ORelease pn :: r => live_after (remove1 pn live) r got
  end.

(* only pages that are live at that moment are released (pages of the old tree, or pages
   allocated earlier in this sync and discarded again: NodesTracker::extra_freed) *)
Fixpoint ops_ok (live : list N) (ops : list op) (got : list N) : Prop :=
  match ops with
  | [] => True
  | OAlloc :: r =>
      match got with
      | g :: got' => ops_ok (g :: live) r got'
      | [] => ops_ok live r []
      end
  | ORelease pn :: r => In pn live /\ ops_ok (remove1 pn live) r got
  end.

Definition released_of (ops : list op) : list N :=
  flat_map (fun o => match o with ORelease pn => [pn] | OAlloc => [] end) ops.

Definition n_allocs (ops : list op) : nat :=
  length (filter (fun o => match o with OAlloc => true | ORelease _ => false end) ops).

(* ---------------------------------------------------------------------------------------------- *)
(* encoder: encode_free_list_page (free_list.rs:424).  The page buffer comes from the page pool
   with UNDEFINED content (io/page_pool.rs: "The contents of the page are undefined"), so only
   the first 6 + 4 * n bytes of a portion page are determined. *)

Definition encode_prefix (prev : N) (items : list N) : list N :=
  le_bytes 4 prev ++ le_bytes 2 (lenN items) ++ flat_map (le_bytes 4) items.

Definition encode_page (prev : N) (items : list N) : list N := pad_page (encode_prefix prev items).

(* which page hosts which portion and where it links to: (pn, prev, items) head first *)
Fixpoint layout (d : list (N * list N)) : list wpage :=
  match d with
  | [] => []
  | (pn, its) :: r => (pn, match r with [] => 0%N | (q, _) :: _ => q end, its) :: layout r
  end.

Definition encode_fl (d : list (N * list N)) : list (N * list N) :=
  map (fun w => (fst (fst w), encode_page (snd (fst w)) (snd w))) (layout d).

Definition disk_head (d : list (N * list N)) : N := match d with [] => 0%N | (h, _) :: _ => h end.

Definition rd_of (pages : list (N * list N)) (pn : N) : option (list N) :=
  option_map snd (find (fun p => (fst p =? pn)%N) pages).

(* the defined prefix of the page at [pn] is what the encoder produces *)
Definition page_matches (rd : N -> option (list N)) (w : wpage) : bool :=
  match rd (fst (fst w)) with
  | Some pg =>
      let e := encode_prefix (snd (fst w)) (snd w) in
      match split_exact (lenN e) pg with
      | Some (a, _) => bytes_eqb a e
      | None => false
      end
  | None => false
  end.

(* ---------------------------------------------------------------------------------------------- *)
(* transition check between two decoded images (driver commands flsnap / flcheck)               *)

Inductive tcode :=
| TShapeOld | TShapeNew | TModelPanic | TPortions | TBump | TAllocSet | TFreedSet | TFreedDup
| TWritten | TReencode | TAllocPanic | TInPlace.

Definition tverdict := option (tcode * N * N).

Definition set_of (l : list N) : pmap unit := fold_left (fun m x => nadd x tt m) l PL.
Definition diff (l : list N) (m : pmap unit) : list N := filter (fun x => negb (nmem x m)) l.
Definition subset (l : list N) (m : pmap unit) : option N := find (fun x => negb (nmem x m)) l.

(* length of the longest common prefix *)
Fixpoint lcp (a b : list N) : nat :=
  match a, b with
  | x :: a', y :: b' => if (x =? y)%N then S (lcp a' b') else O
  | _, _ => O
  end.

Fixpoint portions_eqb (a b : list (N * list N)) : bool :=
  match a, b with
  | [], [] => true
  | (p, x) :: a', (q, y) :: b' => (p =? q)%N && bytes_eqb x y && portions_eqb a' b'
  | _, _ => false
  end.

Fixpoint alloc_all (cap : nat) (s : flist) (bump : N) (idx n : nat) : option (list N) :=
  match n with
  | O => Some []
  | S n' =>
      match allocate cap s bump idx with
      | None => None
      | Some pn => option_map (cons pn) (alloc_all cap s bump (S idx) n')
      end
  end.

(* the same list, computed without the index arithmetic when the list is clean
   (FreeList_proofs.alloc_pages_spec: equal to alloc_all) *)
Definition alloc_pages (cap : nat) (s : flist) (bump : N) (n : nat) : option (list N) :=
  if clean_b cap s
  then Some (firstn n (stack (fl_portions s)) ++ seqN bump (n - length (stack (fl_portions s))))
  else alloc_all cap s bump 0 n.

Record transition := mkTr {
  t_allocs : nat;                                    (* allocations of the sync (inferred) *)
  t_freed : list N;                                  (* the vector handed to finish (inferred, in order) *)
  t_got : list N;                                    (* the pages the model hands out *)
  t_written : list wpage;                            (* the pages the model writes *)
  t_verdict : tverdict
}.

(* One candidate: the bottom [m] items of the old stack survive.  Everything the code pushed is
   above them in the new stack, in push order: first the vector [freed] handed to finish (pages
   that are not portion pages of the old list), then old portion pages.  The number of
   allocations follows from the accounting: every page handed out is live afterwards or was
   handed back through [freed]. *)
Definition try_transition (cap : nat) (d0 : list (N * list N)) (bump0 : N) (live0 : list N)
           (d1 : list (N * list N)) (bump1 : N) (live1 : list N) (m : nat) : transition :=
  let s0 := fl_read_f cap d0 in
  let s1 := fl_read_f cap d1 in
  let l0 := set_of live0 in
  let l1 := set_of live1 in
  let released := diff live0 l1 in
  let allocated := diff live1 l0 in
  let old_heads := set_of (heads (fl_portions s0)) in
  let pushed := skipn m (frev (stack (fl_portions s1))) in
  let freed := diff pushed old_heads in
  let n := length allocated + length freed - length released in
  match alloc_pages cap s0 bump0 n with
  | None => mkTr n freed [] [] (Some (TAllocPanic, N.of_nat n, 0%N))
  | Some got =>
      match finish cap s0 bump0 n freed with
      | None => mkTr n freed got [] (Some (TModelPanic, N.of_nat n, N.of_nat (length freed)))
      | Some (s', bump', written) =>
          let gs := set_of got in
          let fs := set_of freed in
          let v :=
            if negb (portions_eqb (to_disk_f (fl_portions s')) d1)
            then Some (TPortions, N.of_nat (length (fl_portions s')), N.of_nat (length d1))
            else if negb (bump' =? bump1)%N then Some (TBump, bump', bump1)
            else match subset allocated gs with Some x => Some (TAllocSet, x, 0%N) | None =>
                 match subset (diff got fs) l1 with Some x => Some (TAllocSet, x, 1%N) | None =>
                 match subset released fs with Some x => Some (TFreedSet, x, 0%N) | None =>
                 match subset (diff freed l0) gs with Some x => Some (TFreedSet, x, 1%N) | None =>
                 match snd (add_all freed PL) with Some x => Some (TFreedDup, x, 0%N) | None => None
                 end end end end end in
          mkTr n freed got written v
      end
  end.

Definition fl_transition (cap : nat) (d0 : list (N * list N)) (bump0 : N) (live0 : list N)
           (d1 : list (N * list N)) (bump1 : N) (live1 : list N) : transition :=
  let b0 := frev (stack (of_disk_f d0)) in
  let b1 := frev (stack (of_disk_f d1)) in
  let m := lcp b0 b1 in
  let t := try_transition cap d0 bump0 live0 d1 bump1 live1 m in
  match t_verdict t with
  | None => t
  | Some _ =>
      match m with
      | O => t
      | S _ =>
          let t' := try_transition cap d0 bump0 live0 d1 bump1 live1 0 in
          match t_verdict t' with None => t' | Some _ => t end
      end
  end.

(* order-independent statement: same set of tracked pages up to the operations, same frontier
   arithmetic: every page below the new frontier that is neither live nor tracked by the new list
   would be an orphan; checked per image by Image.wf_pages_*; here: the new tracked set is
   (old tracked + released + fresh) - allocated *)
Definition fl_transition_sets (d0 : list (N * list N)) (bump0 : N) (live0 : list N)
           (d1 : list (N * list N)) (bump1 : N) (live1 : list N) : tverdict :=
  let l0 := set_of live0 in
  let l1 := set_of live1 in
  let t0 := set_of (free_tracked d0) in
  let t1 := set_of (free_tracked d1) in
  (* a page tracked afterwards was tracked before, or was live before (released), or is fresh *)
  match find (fun x => negb (nmem x t0 || nmem x l0 || (bump0 <=? x)%N)) (free_tracked d1) with
  | Some x => Some (TFreedSet, x, 2%N)
  | None =>
      (* a page tracked before is tracked afterwards or live afterwards (allocated) *)
      match find (fun x => negb (nmem x t1 || nmem x l1)) (free_tracked d0) with
      | Some x => Some (TAllocSet, x, 2%N)
      | None =>
          (* a page live before is live or tracked afterwards *)
          match find (fun x => negb (nmem x t1 || nmem x l1)) live0 with
          | Some x => Some (TFreedSet, x, 3%N)
          | None => if (bump0 <=? bump1)%N then None else Some (TBump, bump0, bump1)
          end
      end
  end.

(* every portion page of the decoded list carries exactly the bytes the encoder produces (defined
   prefix), and every page the model writes is on disk *)
Definition reencode_v (rd : N -> option (list N)) (d : list (N * list N)) : tverdict :=
  match find (fun w => negb (page_matches rd w)) (layout d) with
  | Some w => Some (TReencode, fst (fst w), snd (fst w))
  | None => None
  end.

Definition written_v (rd : N -> option (list N)) (ws : list wpage) : tverdict :=
  match find (fun w => negb (page_matches rd w)) ws with
  | Some w => Some (TWritten, fst (fst w), snd (fst w))
  | None => None
  end.

(* no page the commit writes is a portion page of the old list (FreeList_proofs.sync_cow: never,
   for the mirrored code; an in-place rewrite would violate C17) *)
Definition inplace_v (d0 : list (N * list N)) (ws : list wpage) : tverdict :=
  let old_heads := set_of (map fst d0) in
  match find (fun w => nmem (fst (fst w)) old_heads) ws with
  | Some w => Some (TInPlace, fst (fst w), snd (fst w))
  | None => None
  end.

Definition shape_v (cap : nat) (d : list (N * list N)) (c : tcode) : tverdict :=
  if shape_b cap (of_disk_f d) then None else Some (c, disk_head d, N.of_nat (length d)).

(* live page numbers of a decoded image *)
Definition ln_live (img : image) : list N := map l_pn (i_leaves img) ++ overflow_pages img.
Definition bbn_live (img : image) : list N := map b_pn (i_branches img).

(* ---------------------------------------------------------------------------------------------- *)
(* examples: the unit tests of free_list.rs, evaluated on the mirror with cap = 1022              *)

Section Examples.

  Definition mk_clean (ps : list portion) : flist :=
    mkFl ps false (fst (len_frag CAP ps)) (snd (len_frag CAP ps)) [].

  Definition summary (r : option (flist * N * list wpage)) :=
    match r with
    | Some (s, b, w) =>
        Some (map (fun p => (fst p, length (snd p))) (rev (fl_portions s)),
              map (fun x => fst (fst x)) w, fl_len s, fl_frag s, b)
    | None => None
    end.

  (* pop_into_next_portion_one_page_needed *)
  Example ex_one_page_needed :
    option_map (fun r => (to_disk (fl_portions (fst (fst r))), snd r, fl_len (fst (fst r))))
      (commit CAP (mk_clean [(1, [2])]%N) [3%N] 10000%N)
    = Some ([(2, [3; 1])]%N, [(2, 0, [3; 1])]%N, 2).
  Proof. vm_compute. reflexivity. Qed.

  (* pop_into_next_portion_fragmentation *)
  Example ex_fragmentation :
    summary (commit CAP (mk_clean [(1, [3; 2])]%N) (seqN 4 (CAP - 1)) 10000%N)
    = Some ([(2%N, CAP - 1); (3%N, 1)], [2; 3]%N, CAP, true, 10000%N).
  Proof. vm_compute. reflexivity. Qed.

  (* pop_into_next_portion_without_fragmentation *)
  Example ex_without_fragmentation :
    summary (commit CAP (mk_clean [(1, [3; 2])]%N) (seqN 4 CAP) 10000%N)
    = Some ([(2%N, CAP); (3%N, 1)], [2; 3]%N, S CAP, false, 10000%N).
  Proof. vm_compute. reflexivity. Qed.

  (* fragmentation_handled *)
  Example ex_fragmentation_handled :
    summary (commit CAP (mk_clean [(4%N, [5%N]); (1%N, [3; 2]%N ++ rev (seqN 10000 (CAP - 2)))])
                    (seqN 20000 CAP) 100000%N)
    = Some ([(3%N, CAP); (5%N, CAP - 1); (2%N, 1)], [3; 5; 2]%N, 2 * CAP, true, 100000%N).
  Proof. vm_compute. reflexivity. Qed.

  (* clean_up_fragmentation *)
  Example ex_clean_up_fragmentation :
    summary (commit CAP (mkFl [(4%N, [5%N]); (1%N, [3; 2]%N ++ rev (seqN 10000 (CAP - 3)))] false CAP true [])
                    [6%N] 10000%N)
    = Some ([(5%N, CAP); (3%N, 1)], [5; 3]%N, S CAP, false, 10000%N).
  Proof. vm_compute. reflexivity. Qed.

  (* rewrite_head_after_pop_only *)
  Example ex_rewrite_head_after_pop_only :
    option_map (fun r => snd r) (commit CAP (mkFl [(1, [2])]%N true 1 false []) [] 10000%N)
    = Some [(2, 0, [1])]%N.
  Proof. vm_compute. reflexivity. Qed.

  (* the repaired case (page size 3): the head's only item is used up, the full portion 21 below
     becomes the head untouched: it is NOT re-encoded, the only page written is the new head 7 *)
  Example ex_untouched_head_not_rewritten :
    option_map (fun r => (to_disk (fl_portions (fst (fst r))), snd r))
      (commit 3 (fl_read 3 [(20, [7]); (21, [6; 5; 4])]%N) [30%N] 100%N)
    = Some ([(7, [30; 20]); (21, [6; 5; 4])]%N, [(7, 21, [30; 20])]%N).
  Proof. vm_compute. reflexivity. Qed.

  (* clean_nth_pop / clean_nth_pop_fragmented: get_nth_pop i = the i-th pop *)
  Definition nth_pops (s : flist) : list (option N) :=
    map (fun i => get_nth_pop CAP s i) (seq 0 (fl_len s)).

  Example ex_clean_nth_pop :
    let s := mk_clean [(3%N, rev (seqN 10000 (CAP / 2))); (2%N, rev (seqN 5000 CAP)); (1%N, rev (seqN 1000 CAP))] in
    fl_len s = 2 * CAP + CAP / 2 /\ nth_pops s = map Some (stack (fl_portions s)).
  Proof. vm_compute. split; reflexivity. Qed.

  Example ex_clean_nth_pop_fragmented :
    let s := mk_clean [(6%N, [7%N]); (5%N, [3; 2]%N ++ rev (seqN 10000 (CAP - 3)));
                       (4%N, rev (seqN 5000 CAP)); (1%N, rev (seqN 1000 CAP))] in
    fl_len s = 3 * CAP /\ fl_frag s = true /\ nth_pops s = map Some (stack (fl_portions s)).
  Proof. vm_compute. repeat split; reflexivity. Qed.

  (* one sync on a small page size (cap = 3): two allocations from the list, one from the
     frontier, two pages released; the new list and frontier *)
  Example ex_sync_small :
    option_map (fun r => (fst (fst (fst r)), to_disk (fl_portions (snd (fst (fst r)))), snd (fst r)))
      (sync_all 3 (fl_read 3 [(9, [5; 6])]%N) 10%N [OAlloc; ORelease 2%N; OAlloc; OAlloc; ORelease 3%N])
    = Some ([6; 5; 10]%N, [(11, [2; 3; 9])]%N, 12%N).
  Proof. vm_compute. reflexivity. Qed.

  (* encoder round trip through Image.free_walk on a two-portion list *)
  Example ex_encode_walk :
    free_walk 5 EReadLn (rd_of (encode_fl [(7, [11; 12]); (3, [4; 5; 6])]%N)) 7%N []
    = Ok [(7, [11; 12]); (3, [4; 5; 6])]%N.
  Proof. vm_compute. reflexivity. Qed.

End Examples.
