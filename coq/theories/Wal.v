(* Wal: mirror of bitbox's write-ahead-log blob codec (bitbox/wal/{mod,read,write}.rs), of the page
   diff it embeds (page_diff.rs) and of the redo step of [bitbox::recover] (bitbox/mod.rs), over an
   abstract hash table.  Properties C03 / C04 (the crash argument needs "redo repairs any partially
   written hash table") and C16 (the decoder is total and is validated against the real files).

   Blob layout (all integers little endian):
     START(1)  sync_seqn:u32
     { CLEAR(3)  bucket:u64
     | UPDATE(4) page_id:[u8;32] page_diff:[u8;16] changed_nodes:[[u8;32]; popcount(page_diff)]
                 elided_children:u64 bucket:u64 }*
     END(2)    zero padding up to the next multiple of 4096.

   Bytes are [N] (0..255), blobs and pages are [list N].  Nothing here can panic: the reader of the
   implementation bails with an error on every malformed input, and so does [decode] (theorem
   [decode_total] in Wal_proofs.v).

   Lists of several hundred thousand bytes go through these functions in the extracted code, so the
   functions that walk a whole blob are tail recursive or recurse once per ENTRY, never once per
   byte of the blob ([lenN], [bytes_eqb], [read_entries], [enc_body]). *)
From Coq Require Import List Bool Arith NArith Lia.
From Nomt Require Import Result.
Import ListNotations.
Local Open Scope N_scope.

(* ------------------------------------------------------------------------------------------- *)
(* entries and errors                                                                            *)

Inductive wal_entry :=
| WClear (bucket : N)
| WUpdate (page_id : list N)          (* 32 bytes *)
          (diff : list N)             (* 16 bytes: the raw PageDiff *)
          (changed : list (list N))   (* popcount(diff) nodes of 32 bytes *)
          (elided : N)                (* ElidedChildren, a u64 *)
          (bucket : N).

Inductive wal_err :=
| WSize                               (* "WAL file size is not a multiple of the page size" *)
| WBadStart (tag : N)                 (* "unexpected WAL entry tag at start" *)
| WUnknownTag (tag : N)               (* "unknown WAL entry tag" *)
| WUnexpectedEnd                      (* "Unexpected end of WAL file" *)
| WInvalidDiff.                       (* "Invalid page diff" *)

Definition TAG_START : N := 1.
Definition TAG_END : N := 2.
Definition TAG_CLEAR : N := 3.
Definition TAG_UPDATE : N := 4.
Definition PAGE_SIZE : N := 4096.

Definition entry_bucket (e : wal_entry) : N :=
  match e with WClear b => b | WUpdate _ _ _ _ b => b end.

(* ------------------------------------------------------------------------------------------- *)
(* bytes                                                                                         *)

Fixpoint lenN_aux (l : list N) (acc : N) : N :=
  match l with [] => acc | _ :: r => lenN_aux r (N.succ acc) end.
Definition lenN (l : list N) : N := lenN_aux l 0.

Fixpoint bytes_eqb (a b : list N) : bool :=
  match a, b with
  | [], [] => true
  | x :: a', y :: b' => if x =? y then bytes_eqb a' b' else false
  | _, _ => false
  end.

(* to_le_bytes / from_le_bytes *)
Fixpoint le_bytes (n : nat) (x : N) : list N :=
  match n with O => [] | S k => (x mod 256) :: le_bytes k (x / 256) end.

Fixpoint le_num (l : list N) : N :=
  match l with [] => 0 | b :: r => b + 256 * le_num r end.

(* exactly the first n bytes and the rest; None when l is shorter (n is at most 32 here) *)
Fixpoint take (n : nat) (l : list N) : option (list N * list N) :=
  match n with
  | O => Some ([], l)
  | S k =>
      match l with
      | [] => None
      | x :: r => match take k r with Some (a, t) => Some (x :: a, t) | None => None end
      end
  end.

(* ------------------------------------------------------------------------------------------- *)
(* PageDiff: 128 bits, bit i of the little-endian u64 pair = node slot i                         *)

Definition byte_bits (b : N) : list bool :=
  [N.testbit b 0; N.testbit b 1; N.testbit b 2; N.testbit b 3;
   N.testbit b 4; N.testbit b 5; N.testbit b 6; N.testbit b 7].

(* slot order: what [iter_ones] enumerates, as a bit vector *)
Fixpoint diff_bits (d : list N) : list bool :=
  match d with [] => [] | b :: r => byte_bits b ++ diff_bits r end.

Fixpoint count_true (l : list bool) : nat :=
  match l with [] => O | b :: r => if b then S (count_true r) else count_true r end.

(* PageDiff::count *)
Definition popcount (d : list N) : nat := count_true (diff_bits d).

(* PageDiff::from_bytes: slots 126 and 127 are reserved *)
Definition diff_valid (d : list N) : bool :=
  negb (nth 126 (diff_bits d) false) && negb (nth 127 (diff_bits d) false).

(* PageDiff::unpack_changed_nodes: the i-th set bit's slot receives the i-th node
   ([iter_ones().zip(nodes)]); one pass over the page in 32-byte slots *)
Fixpoint unpack (bits : list bool) (nodes : list (list N)) (pg : list N) : list N :=
  match bits with
  | [] => pg
  | b :: bs =>
      if b then
        match nodes with
        | n :: ns => n ++ unpack bs ns (skipn 32 pg)
        | [] => pg
        end
      else firstn 32 pg ++ unpack bs nodes (skipn 32 pg)
  end.

(* ------------------------------------------------------------------------------------------- *)
(* WalBlobBuilder                                                                                *)

Definition enc_entry (e : wal_entry) : list N :=
  match e with
  | WClear b => TAG_CLEAR :: le_bytes 8 b
  | WUpdate id d ch el b =>
      TAG_UPDATE :: id ++ d ++ concat ch ++ le_bytes 8 el ++ le_bytes 8 b
  end.

(* the entries followed by [tail] *)
Definition enc_body (es : list wal_entry) (tail : list N) : list N :=
  fold_right (fun e acc => enc_entry e ++ acc) tail es.

Definition entry_len (e : wal_entry) : N :=
  match e with
  | WClear _ => 9
  | WUpdate id d ch _ _ =>
      1 + lenN id + lenN d + fold_left (fun acc n => acc + lenN n) ch 0 + 16
  end.

(* START + seqn + entries + END *)
Definition blob_len (es : list wal_entry) : N :=
  fold_left (fun acc e => acc + entry_len e) es 6.

(* finalize: zero fill up to the next page multiple *)
Definition pad_len (len : N) : N := (PAGE_SIZE - len mod PAGE_SIZE) mod PAGE_SIZE.

Definition encode (seqn : N) (es : list wal_entry) : list N :=
  TAG_START :: le_bytes 4 seqn
    ++ enc_body es (TAG_END :: repeat 0 (N.to_nat (pad_len (blob_len es)))).

(* ------------------------------------------------------------------------------------------- *)
(* WalBlobReader: every reader returns the value and the remaining bytes                         *)

Definition rd (A : Type) : Type := res wal_err (A * list N).

Definition read_byte (l : list N) : rd N :=
  match l with [] => Err WUnexpectedEnd | b :: r => Ok (b, r) end.

Definition read_buf (n : nat) (l : list N) : rd (list N) :=
  match take n l with Some p => Ok p | None => Err WUnexpectedEnd end.

Definition read_le (n : nat) (l : list N) : rd N :=
  bind (read_buf n l) (fun p => Ok (le_num (fst p), snd p)).

Fixpoint read_nodes (k : nat) (l : list N) : rd (list (list N)) :=
  match k with
  | O => Ok ([], l)
  | S k' =>
      bind (read_buf 32 l) (fun p =>
      bind (read_nodes k' (snd p)) (fun q =>
      Ok (fst p :: fst q, snd q)))
  end.

(* read_entry: None at the END tag *)
Definition read_entry (l : list N) : rd (option wal_entry) :=
  bind (read_byte l) (fun t =>
  let tag := fst t in
  if tag =? TAG_END then Ok (None, snd t)
  else if tag =? TAG_CLEAR then
    bind (read_le 8 (snd t)) (fun b => Ok (Some (WClear (fst b)), snd b))
  else if tag =? TAG_UPDATE then
    bind (read_buf 32 (snd t)) (fun id =>
    bind (read_buf 16 (snd id)) (fun d =>
    if diff_valid (fst d) then
      bind (read_nodes (popcount (fst d)) (snd d)) (fun ch =>
      bind (read_le 8 (snd ch)) (fun el =>
      bind (read_le 8 (snd el)) (fun b =>
      Ok (Some (WUpdate (fst id) (fst d) (fst ch) (fst el) (fst b)), snd b))))
    else Err WInvalidDiff))
  else Err (WUnknownTag tag)).

(* the [while let Some(entry) = read_entry()?] loop.  Every entry consumes at least one byte, so a
   list at least as long as the remaining input is enough fuel (its elements are not looked at);
   [read_entries_fuel] in Wal_proofs.v shows that the fuel never runs out *)
Fixpoint read_entries (fuel : list N) (l : list N) : res wal_err (list wal_entry) :=
  match fuel with
  | [] => Err WUnexpectedEnd
  | _ :: f =>
      bind (read_entry l) (fun p =>
      match fst p with
      | None => Ok []
      | Some e => bind (read_entries f (snd p)) (fun es => Ok (e :: es))
      end)
  end.

(* WalBlobReader::new (size check, read_start) followed by the loop *)
Definition decode (bytes : list N) : res wal_err (N * list wal_entry) :=
  if lenN bytes mod PAGE_SIZE =? 0 then
    bind (read_byte bytes) (fun t =>
    if fst t =? TAG_START then
      bind (read_le 4 (snd t)) (fun s =>
      bind (read_entries (0 :: snd s) (snd s)) (fun es => Ok (fst s, es)))
    else Err (WBadStart (fst t)))
  else Err WSize.

(* ------------------------------------------------------------------------------------------- *)
(* the hash table and the redo of bitbox::recover                                                *)

(* one meta byte and one 4096-byte page per bucket *)
Record ht := mkHt { meta : N -> N; page : N -> list N }.

Definition upd {A} (f : N -> A) (k : N) (v : A) : N -> A :=
  fun x => if x =? k then v else f x.

Definition META_TOMBSTONE : N := 127.
Definition FULL_MASK : N := 128.
(* meta_map::full_entry, with the 7 bits [hash >> 57] supplied by the oracle *)
Definition full_entry (tag : N) : N := FULL_MASK + tag.

(* offset of the elided-children bitfield; the page id label follows it at 4096 - 32 *)
Definition ELIDED_OFF : nat := N.to_nat 4056.

(* "Label the page" + "Write elided children bitfield" *)
Definition label_page (id : list N) (el : N) (pg : list N) : list N :=
  firstn ELIDED_OFF pg ++ le_bytes 8 el ++ id.

(* what recover does to the page of the bucket of an UPDATE *)
Definition redo_page (id d : list N) (ch : list (list N)) (el : N) (pg : list N) : list N :=
  label_page id el (unpack (diff_bits d) ch pg).

Definition redo_entry (tag_of : list N -> N) (h : ht) (e : wal_entry) : ht :=
  match e with
  | WClear b => mkHt (upd (meta h) b META_TOMBSTONE) (page h)
  | WUpdate id d ch el b =>
      let fe := full_entry (tag_of id) in
      mkHt (if meta h b =? fe then meta h else upd (meta h) b fe)     (* hint_not_match / set_full *)
           (upd (page h) b (redo_page id d ch el (page h b)))
  end.

Definition redo (tag_of : list N -> N) (h : ht) (es : list wal_entry) : ht :=
  fold_left (redo_entry tag_of) es h.

(* pointwise equality of hash tables (the fields are functions) *)
Definition ht_eq (h1 h2 : ht) : Prop :=
  forall b, meta h1 b = meta h2 b /\ page h1 b = page h2 b.

(* the table stored in an ht file of [buckets] buckets, reached through a page reader: the meta
   bytes fill the first ceil(buckets / 4096) pages, the bucket pages follow (bitbox/ht_file.rs).
   Out-of-range buckets and unreadable pages read as 0 / the empty page. *)
Definition num_meta_pages (buckets : N) : N := (buckets + 4095) / PAGE_SIZE.

Definition ht_of_file (rd : N -> option (list N)) (buckets : N) : ht :=
  mkHt (fun b =>
          if b <? buckets then
            match rd (b / PAGE_SIZE) with
            | Some pg => nth (N.to_nat (b mod PAGE_SIZE)) pg 0
            | None => 0
            end
          else 0)
       (fun b =>
          if b <? buckets then
            match rd (num_meta_pages buckets + b) with Some pg => pg | None => [] end
          else []).

Definition buckets_in_range (buckets : N) (es : list wal_entry) : bool :=
  forallb (fun e => entry_bucket e <? buckets) es.

(* ------------------------------------------------------------------------------------------- *)
(* well-formed entries: what the writer produces and what the reader returns                     *)

Definition wf_entry (e : wal_entry) : Prop :=
  match e with
  | WClear b => b < 2 ^ 64
  | WUpdate id d ch el b =>
      length id = 32%nat /\ length d = 16%nat /\ diff_valid d = true /\
      length ch = popcount d /\ Forall (fun n => length n = 32%nat) ch /\
      el < 2 ^ 64 /\ b < 2 ^ 64
  end.

Definition wf_entries (es : list wal_entry) : Prop := Forall wf_entry es.

Definition wf_ht (h : ht) : Prop := forall b, length (page h b) = 4096%nat.

(* ------------------------------------------------------------------------------------------- *)
(* comparisons the driver prints (decisions stay in extracted code)                              *)

(* first offset at which two byte strings differ (or the length of the shorter one) *)
Fixpoint first_diff (a b : list N) (off : N) : option N :=
  match a, b with
  | [], [] => None
  | x :: a', y :: b' => if x =? y then first_diff a' b' (N.succ off) else Some off
  | _, _ => Some off
  end.

(* re-encoding of a decoded blob against the bytes it was decoded from *)
Definition reencode_check (bytes : list N) : option (option N) :=
  match decode bytes with
  | Ok (s, es) => Some (first_diff (encode s es) bytes 0)
  | _ => None
  end.

(* What a reader of the page tree can see of a page.  The in-memory pages the sync writes come from
   a pool that is not zeroed (page_cache.rs, [PageMut::pristine_empty]): slots below a terminator
   or a leaf hold garbage that the WAL does not carry, so the page a redo produces and the page the
   completed sync wrote agree on the REACHABLE slots, the elided-children bitfield and the label,
   not byte for byte.  Node kinds follow the MSB labelling of nomt_core's BinaryHasher: all zero =
   terminator, first bit set = leaf, otherwise internal.  The children of slot i are 2i+2, 2i+3;
   slots 62..125 are the bottom layer. *)
Fixpoint chunks (n : nat) (l : list N) : list (list N) :=
  match n with O => [] | S k => firstn 32 l :: chunks k (skipn 32 l) end.

Definition node_is_internal (n : list N) : bool :=
  match n with
  | [] => false
  | b :: _ => (b <? 128) && negb (forallb (N.eqb 0) n)
  end.

Fixpoint reach_diff (fuel : nat) (a b : list (list N)) (i : nat) : option N :=
  match fuel with
  | O => None
  | S f =>
      let x := nth i a [] in
      let y := nth i b [] in
      if bytes_eqb x y then
        if node_is_internal x && Nat.ltb i 62 then
          match reach_diff f a b (2 * i + 2) with
          | Some d => Some d
          | None => reach_diff f a b (2 * i + 3)
          end
        else None
      else Some (N.of_nat i)
  end.

(* first reachable slot at which two pages differ; 126 = elided children, 127 = label *)
Definition page_view_diff (p q : list N) : option N :=
  let a := chunks 128 p in
  let b := chunks 128 q in
  match reach_diff 7 a b 0 with
  | Some d => Some d
  | None =>
      match reach_diff 7 a b 1 with
      | Some d => Some d
      | None =>
          if bytes_eqb (skipn 24 (nth 126 a [])) (skipn 24 (nth 126 b [])) then
            if bytes_eqb (nth 127 a []) (nth 127 b []) then None else Some 127
          else Some 126
      end
  end.

Record bucket_cmp := mkCmp {
  c_bucket : N; c_meta_got : N; c_meta_want : N;
  c_page_diff : option N;             (* first differing byte offset *)
  c_view_diff : option N              (* first differing reachable slot *)
}.

(* the buckets an entry list mentions, once each, in order of first mention *)
Fixpoint mentioned (es : list wal_entry) (seen : list N) : list N :=
  match es with
  | [] => rev' seen
  | e :: r =>
      let b := entry_bucket e in
      if existsb (N.eqb b) seen then mentioned r seen else mentioned r (b :: seen)
  end.

(* redo applied to [h], compared with the reference table on every mentioned bucket *)
Definition redo_compare (tag_of : list N -> N) (h ref : ht) (es : list wal_entry) : list bucket_cmp :=
  let h' := redo tag_of h es in
  map (fun b => mkCmp b (meta h' b) (meta ref b)
                      (first_diff (page h' b) (page ref b) 0)
                      (page_view_diff (page h' b) (page ref b)))
      (mentioned es []).

(* same meta byte and same visible page *)
Definition cmp_ok (c : bucket_cmp) : bool :=
  (c_meta_got c =? c_meta_want c) && match c_view_diff c with None => true | Some _ => false end.

(* same meta byte and the same page byte for byte *)
Definition cmp_exact (c : bucket_cmp) : bool :=
  (c_meta_got c =? c_meta_want c) && match c_page_diff c with None => true | Some _ => false end.

Record wal_stats := mkWalStats { ws_entries : N; ws_clears : N; ws_updates : N; ws_nodes : N }.

Definition stats_of (es : list wal_entry) : wal_stats :=
  fold_left (fun s e =>
               match e with
               | WClear _ => mkWalStats (ws_entries s + 1) (ws_clears s + 1) (ws_updates s) (ws_nodes s)
               | WUpdate _ _ ch _ _ =>
                   mkWalStats (ws_entries s + 1) (ws_clears s) (ws_updates s + 1) (ws_nodes s + lenN (concat ch) / 32)
               end) es (mkWalStats 0 0 0 0).
