(* Theorems about page-cache sharding and the split of a batch between workers (property C13). *)
From Coq Require Import List Bool Arith Lia.
From Nomt Require Import Base Base_proofs Shards.
Import ListNotations.

(* ====================================================================================== *)
(* Part 1: the regions partition the 64 root children (finite check, lifted)               *)
(* ====================================================================================== *)

Definition in_shard (n i c : nat) : bool :=
  (shard_start n i <=? c) && (c <? shard_start n i + shard_count n i).

Definition shards_check (n : nat) : bool :=
  (length (shard_regions n) =? n)
  && forallb (fun i => (1 <=? shard_count n i) && (shard_last n i <? NUM_CHILDREN)) (seq 0 n)
  && (shard_start n 0 =? 0)
  && forallb (fun i => shard_start n (S i) =? shard_start n i + shard_count n i) (seq 0 (n - 1))
  && (shard_start n (n - 1) + shard_count n (n - 1) =? NUM_CHILDREN)
  && forallb (fun i => forallb (fun j => (j <=? i) || (shard_start n i + shard_count n i <=? shard_start n j))
                         (seq 0 n)) (seq 0 n)
  && forallb (fun c => (shard_index_for n c <? n) && in_shard n (shard_index_for n c) c)
       (seq 0 NUM_CHILDREN)
  && forallb (fun c => forallb (fun i => negb (in_shard n i c) || (shard_index_for n c =? i))
                         (seq 0 n)) (seq 0 NUM_CHILDREN).

Lemma shards_check_all : forallb shards_check (seq 1 64) = true.
Proof. vm_compute. reflexivity. Qed.

Lemma shards_check_n : forall n, 1 <= n <= 64 -> shards_check n = true.
Proof.
  intros n Hn. pose proof shards_check_all as H. rewrite forallb_forall in H.
  apply H. apply in_seq. lia.
Qed.

Ltac split_andb H :=
  repeat match type of H with
  | (_ && _) = true => let H1 := fresh H in apply andb_true_iff in H; destruct H as [H H1]
  end.

Theorem shards_partition : forall n, 1 <= n <= 64 ->
  (* one region per shard *)
  length (shard_regions n) = n /\
  (* every region is a non-empty run of root children below 64 *)
  (forall i, i < n -> 1 <= shard_count n i /\ shard_start n i + shard_count n i <= 64) /\
  (* contiguous, in order, from child 0 to child 63 *)
  shard_start n 0 = 0 /\
  (forall i, S i < n -> shard_start n (S i) = shard_start n i + shard_count n i) /\
  shard_start n (n - 1) + shard_count n (n - 1) = 64 /\
  (* pairwise disjoint *)
  (forall i j, i < j -> j < n -> shard_start n i + shard_count n i <= shard_start n j) /\
  (* shard_index_for is the index of THE region containing the child *)
  (forall c, c < 64 ->
     shard_index_for n c < n /\
     shard_start n (shard_index_for n c) <= c
       < shard_start n (shard_index_for n c) + shard_count n (shard_index_for n c)) /\
  (forall c i, c < 64 -> i < n ->
     shard_start n i <= c < shard_start n i + shard_count n i -> shard_index_for n c = i).
Proof.
  intros n Hn. pose proof (shards_check_n n Hn) as H. unfold shards_check in H.
  apply andb_true_iff in H. destruct H as [H H8].
  apply andb_true_iff in H. destruct H as [H H7].
  apply andb_true_iff in H. destruct H as [H H6].
  apply andb_true_iff in H. destruct H as [H H5].
  apply andb_true_iff in H. destruct H as [H H4].
  apply andb_true_iff in H. destruct H as [H H3].
  apply andb_true_iff in H. destruct H as [H1 H2].
  rewrite forallb_forall in H2, H4, H6, H7, H8.
  unfold NUM_CHILDREN in *.
  split; [apply Nat.eqb_eq; exact H1|].
  split.
  { intros i Hi. specialize (H2 i ltac:(apply in_seq; lia)).
    apply andb_true_iff in H2. destruct H2 as [Ha Hb].
    apply Nat.leb_le in Ha. apply Nat.ltb_lt in Hb. unfold shard_last in Hb. lia. }
  split; [apply Nat.eqb_eq; exact H3|].
  split.
  { intros i Hi. specialize (H4 i ltac:(apply in_seq; lia)). apply Nat.eqb_eq. exact H4. }
  split; [apply Nat.eqb_eq; exact H5|].
  split.
  { intros i j Hij Hj. specialize (H6 i ltac:(apply in_seq; lia)).
    rewrite forallb_forall in H6. specialize (H6 j ltac:(apply in_seq; lia)).
    apply orb_true_iff in H6. destruct H6 as [H6|H6].
    - apply Nat.leb_le in H6. lia.
    - apply Nat.leb_le in H6. exact H6. }
  split.
  { intros c Hc. specialize (H7 c ltac:(apply in_seq; lia)).
    apply andb_true_iff in H7. destruct H7 as [Ha Hb]. unfold in_shard in Hb.
    apply andb_true_iff in Hb. destruct Hb as [Hb Hc'].
    apply Nat.ltb_lt in Ha. apply Nat.leb_le in Hb. apply Nat.ltb_lt in Hc'. lia. }
  { intros c i Hc Hi [Ha Hb]. specialize (H8 c ltac:(apply in_seq; lia)).
    rewrite forallb_forall in H8. specialize (H8 i ltac:(apply in_seq; lia)).
    apply orb_true_iff in H8. destruct H8 as [H8|H8].
    - apply negb_true_iff in H8. unfold in_shard in H8.
      apply andb_false_iff in H8. destruct H8 as [H8|H8].
      + apply Nat.leb_gt in H8. lia.
      + apply Nat.ltb_ge in H8. lia.
    - apply Nat.eqb_eq. exact H8. }
Qed.

(* ====================================================================================== *)
(* Part 2: keys, children and the order                                                    *)
(* ====================================================================================== *)

Lemma key_ltb_app : forall p q t u, length p = length q ->
  key_ltb (p ++ t) (q ++ u) = if key_eqb p q then key_ltb t u else key_ltb p q.
Proof.
  induction p as [|x p IH]; intros [|y q] t u Hl; cbn in *; try discriminate; [reflexivity|].
  destruct (Bool.eqb x y); cbn; [apply IH; lia|reflexivity].
Qed.

Lemma key_ltb_zeros_r : forall t n, length t = n -> key_ltb t (repeat false n) = false.
Proof.
  induction t as [|x t IH]; intros n Hn; subst n; cbn; [reflexivity|].
  destruct x; cbn; [reflexivity|]. apply IH. reflexivity.
Qed.

Lemma key_ltb_ones_l : forall t n, length t = n -> key_ltb (repeat true n) t = false.
Proof.
  induction t as [|x t IH]; intros n Hn; subst n; cbn; [reflexivity|].
  destruct x; cbn; [|reflexivity]. apply IH. reflexivity.
Qed.

(* every 6-bit list is the encoding of its number *)
Lemma six_bits : forall p, length p = 6 ->
  nat_of_bits p < 64 /\ p = child_bits (nat_of_bits p).
Proof.
  intros p Hp.
  destruct p as [|b1 [|b2 [|b3 [|b4 [|b5 [|b6 [|b7 p]]]]]]]; cbn in Hp; try discriminate.
  destruct b1, b2, b3, b4, b5, b6; (split; [vm_compute; lia|vm_compute; reflexivity]).
Qed.

Lemma child_bits_facts : forall c d, c < 64 -> d < 64 ->
  length (child_bits c) = 6 /\
  nat_of_bits (child_bits c) = c /\
  key_eqb (child_bits c) (child_bits d) = (c =? d) /\
  key_ltb (child_bits c) (child_bits d) = (c <? d).
Proof.
  intros c d Hc Hd.
  assert (Hall : forallb (fun c => forallb (fun d =>
            (length (child_bits c) =? 6) && (nat_of_bits (child_bits c) =? c)
            && Bool.eqb (key_eqb (child_bits c) (child_bits d)) (c =? d)
            && Bool.eqb (key_ltb (child_bits c) (child_bits d)) (c <? d))
            (seq 0 64)) (seq 0 64) = true) by (vm_compute; reflexivity).
  rewrite forallb_forall in Hall. specialize (Hall c ltac:(apply in_seq; lia)).
  rewrite forallb_forall in Hall. specialize (Hall d ltac:(apply in_seq; lia)).
  apply andb_true_iff in Hall. destruct Hall as [Hall H4].
  apply andb_true_iff in Hall. destruct Hall as [Hall H3].
  apply andb_true_iff in Hall. destruct Hall as [H1 H2].
  apply Nat.eqb_eq in H1, H2. apply Bool.eqb_prop in H3, H4. auto.
Qed.

(* a 256-bit key is the bits of its root child followed by 250 bits *)
Lemma key_decompose : forall k, length k = 256 ->
  child_of k < 64 /\
  exists t, length t = 250 /\ k = child_bits (child_of k) ++ t.
Proof.
  intros k Hk. unfold child_of.
  assert (H6 : length (firstn 6 k) = 6) by (rewrite firstn_length; lia).
  destruct (six_bits _ H6) as [Hlt Heq]. split; [exact Hlt|].
  exists (skipn 6 k). split; [rewrite skipn_length; lia|].
  rewrite <- Heq. symmetry. apply firstn_skipn.
Qed.

(* key < min_key c  <->  its child is below c *)
Lemma key_ltb_min_key : forall k c, length k = 256 -> c < 64 ->
  key_ltb k (min_key c) = (child_of k <? c).
Proof.
  intros k c Hk Hc. destruct (key_decompose k Hk) as [Hlt [t [Ht Heq]]].
  destruct (child_bits_facts (child_of k) c Hlt Hc) as [Hl [_ [He Hb]]].
  destruct (child_bits_facts c c Hc Hc) as [Hl' _].
  rewrite Heq at 1. unfold min_key. rewrite key_ltb_app by congruence.
  rewrite He, Hb. destruct (child_of k =? c) eqn:E; [|reflexivity].
  apply Nat.eqb_eq in E. rewrite E, Nat.ltb_irrefl. apply key_ltb_zeros_r. exact Ht.
Qed.

(* key <= max_key c  <->  its child is at most c *)
Lemma key_leb_max_key : forall k c, length k = 256 -> c < 64 ->
  negb (key_ltb (max_key c) k) = (child_of k <=? c).
Proof.
  intros k c Hk Hc. destruct (key_decompose k Hk) as [Hlt [t [Ht Heq]]].
  destruct (child_bits_facts c (child_of k) Hc Hlt) as [Hl [_ [He Hb]]].
  destruct (child_bits_facts (child_of k) c Hlt Hc) as [Hl' _].
  rewrite Heq at 1. unfold max_key. rewrite key_ltb_app by congruence.
  rewrite He, Hb. destruct (c =? child_of k) eqn:E.
  - apply Nat.eqb_eq in E. rewrite <- E, Nat.leb_refl.
    rewrite key_ltb_ones_l by exact Ht. reflexivity.
  - apply Nat.eqb_neq in E.
    destruct (c <? child_of k) eqn:E1; destruct (child_of k <=? c) eqn:E2; try reflexivity.
    + apply Nat.ltb_lt in E1. apply Nat.leb_le in E2. lia.
    + apply Nat.ltb_ge in E1. apply Nat.leb_gt in E2. lia.
Qed.

(* the order of keys refines the order of their root children *)
Lemma key_ltb_child_le : forall a b, length a = 256 -> length b = 256 ->
  key_ltb a b = true -> child_of a <= child_of b.
Proof.
  intros a b Ha Hb Hlt.
  destruct (key_decompose a Ha) as [Hla [ta [Hta Ea]]].
  destruct (key_decompose b Hb) as [Hlb [tb [Htb Eb]]].
  destruct (child_bits_facts (child_of a) (child_of b) Hla Hlb) as [Hl [_ [He Hc]]].
  destruct (child_bits_facts (child_of b) (child_of b) Hlb Hlb) as [Hl' _].
  rewrite Ea, Eb in Hlt. rewrite key_ltb_app in Hlt by congruence.
  rewrite He, Hc in Hlt.
  destruct (child_of a =? child_of b) eqn:E.
  - apply Nat.eqb_eq in E. lia.
  - apply Nat.ltb_lt in Hlt. lia.
Qed.

(* ====================================================================================== *)
(* Part 3: partition_point                                                                  *)
(* ====================================================================================== *)

Lemma pp_ext : forall p q ks, (forall k, In k ks -> p k = q k) ->
  partition_point p ks = partition_point q ks.
Proof.
  induction ks as [|k ks IH]; intros H; cbn; [reflexivity|].
  rewrite <- (H k (or_introl eq_refl)). destruct (p k); [|reflexivity].
  f_equal. apply IH. intros k' Hk'. apply H. right. exact Hk'.
Qed.

Lemma pp_all_false : forall p ks, (forall k, In k ks -> p k = false) -> partition_point p ks = 0.
Proof.
  intros p [|k ks] H; cbn; [reflexivity|]. rewrite (H k (or_introl eq_refl)). reflexivity.
Qed.

Lemma pp_all_true : forall p ks, (forall k, In k ks -> p k = true) ->
  partition_point p ks = length ks.
Proof.
  induction ks as [|k ks IH]; intros H; cbn; [reflexivity|].
  rewrite (H k (or_introl eq_refl)). f_equal. apply IH. intros k' Hk'. apply H. right. exact Hk'.
Qed.

Lemma pp_le_length : forall p ks, partition_point p ks <= length ks.
Proof.
  induction ks as [|k ks IH]; cbn; [lia|]. destruct (p k); lia.
Qed.

Lemma pp_mono : forall p q ks, (forall k, In k ks -> p k = true -> q k = true) ->
  partition_point p ks <= partition_point q ks.
Proof.
  induction ks as [|k ks IH]; intros H; cbn; [lia|].
  destruct (p k) eqn:Ep; [|lia]. rewrite (H k (or_introl eq_refl) Ep).
  apply le_n_S. apply IH. intros k' Hk'. apply H. right. exact Hk'.
Qed.

(* the index stops at or before an element that fails the predicate *)
Lemma pp_le_of_false : forall p ks j d, j < length ks -> p (nth j ks d) = false ->
  partition_point p ks <= j.
Proof.
  induction ks as [|k ks IH]; intros j d Hj Hp; cbn in *; [lia|].
  destruct j as [|j].
  - rewrite Hp. lia.
  - destruct (p k); [|lia]. apply le_n_S. apply (IH j d); [lia|exact Hp].
Qed.

(* every element before the index satisfies the predicate *)
Lemma pp_lt_true : forall p ks j d, j < partition_point p ks -> p (nth j ks d) = true.
Proof.
  induction ks as [|k ks IH]; intros j d Hj; cbn in *; [lia|].
  destruct (p k) eqn:Ep; [|lia].
  destruct j as [|j]; [exact Ep|]. apply IH. lia.
Qed.

(* the index is beyond j when everything up to j satisfies the predicate *)
Lemma pp_gt_of_true : forall p ks j d, j < length ks ->
  (forall i, i <= j -> p (nth i ks d) = true) -> j < partition_point p ks.
Proof.
  induction ks as [|k ks IH]; intros j d Hj Hp; cbn in *; [lia|].
  rewrite (Hp 0 ltac:(lia)).
  destruct j as [|j]; [lia|]. apply -> Nat.succ_lt_mono.
  apply (IH j d); [lia|]. intros i Hi. apply (Hp (S i)). lia.
Qed.

(* ====================================================================================== *)
(* Part 4: sorted batches                                                                   *)
(* ====================================================================================== *)

Definition keys256 (ks : list key) : Prop := forall k, In k ks -> length k = 256.

Lemma sorted_head_child_le : forall k ks, sorted_keys (k :: ks) = true -> keys256 (k :: ks) ->
  forall x, In x ks -> child_of k <= child_of x.
Proof.
  intros k ks. revert k.
  induction ks as [|k' ks IH]; intros k Hs Hl x Hx; [destruct Hx|].
  cbn [sorted_keys] in Hs. apply andb_true_iff in Hs. destruct Hs as [Hlt Hs].
  assert (Hkk : child_of k <= child_of k').
  { apply key_ltb_child_le; [apply Hl; left; reflexivity|apply Hl; right; left; reflexivity|exact Hlt]. }
  destruct Hx as [->|Hx]; [exact Hkk|].
  assert (Hl' : keys256 (k' :: ks)) by (intros y Hy; apply Hl; right; exact Hy).
  specialize (IH k' Hs Hl' x Hx). lia.
Qed.

Lemma sorted_tail : forall k ks, sorted_keys (k :: ks) = true -> sorted_keys ks = true.
Proof.
  intros k [|k' ks] H; [reflexivity|].
  cbn [sorted_keys] in H. apply andb_true_iff in H. destruct H as [_ H]. exact H.
Qed.

Lemma sorted_child_mono : forall ks, sorted_keys ks = true -> keys256 ks ->
  forall i j d, i <= j -> j < length ks -> child_of (nth i ks d) <= child_of (nth j ks d).
Proof.
  induction ks as [|k ks IH]; intros Hs Hl i j d Hij Hj; cbn in Hj; [lia|].
  assert (Hl' : keys256 ks) by (intros y Hy; apply Hl; right; exact Hy).
  destruct i as [|i]; destruct j as [|j]; cbn [nth]; try lia.
  - apply (sorted_head_child_le k ks Hs Hl). apply nth_In. lia.
  - apply IH; [eapply sorted_tail; exact Hs|exact Hl'|lia|lia].
Qed.

(* ====================================================================================== *)
(* Part 5: the workers' ranges partition the batch                                          *)
(* ====================================================================================== *)

Lemma nth_map_seq : forall (A : Type) (f : nat -> A) n i d, i < n ->
  nth i (map f (seq 0 n)) d = f i.
Proof.
  intros A f n i d Hi.
  rewrite (nth_indep _ d (f 0)) by (rewrite map_length, seq_length; exact Hi).
  rewrite (map_nth f). rewrite seq_nth by exact Hi. reflexivity.
Qed.

Lemma nth_shard_regions : forall n i, i < n ->
  nth i (shard_regions n) dummy_region =
  (min_key (shard_start n i), max_key (shard_last n i), shard_count n i).
Proof.
  intros n i Hi. unfold shard_regions. rewrite nth_map_seq by exact Hi. reflexivity.
Qed.

Lemma range_start_child : forall ks n i, 1 <= n <= 64 -> i < n -> keys256 ks ->
  range_start ks n i = partition_point (fun k => child_of k <? shard_start n i) ks.
Proof.
  intros ks n i Hn Hi Hl. unfold range_start, range_start_for.
  rewrite nth_shard_regions by exact Hi. cbn [fst snd].
  destruct (shards_partition n Hn) as [_ [Hb _]]. specialize (Hb i Hi).
  apply pp_ext. intros k Hk. apply key_ltb_min_key; [apply Hl; exact Hk|lia].
Qed.

Lemma range_end_child : forall ks n i, 1 <= n <= 64 -> i < n -> keys256 ks ->
  range_end ks n i = partition_point (fun k => child_of k <=? shard_last n i) ks.
Proof.
  intros ks n i Hn Hi Hl. unfold range_end, range_end_for.
  rewrite nth_shard_regions by exact Hi. cbn [fst snd].
  destruct (shards_partition n Hn) as [_ [Hb _]]. specialize (Hb i Hi).
  apply pp_ext. intros k Hk. apply key_leb_max_key; [apply Hl; exact Hk|].
  unfold shard_last. lia.
Qed.

Theorem ranges_partition : forall (ks : list key) n,
  1 <= n <= 64 ->
  sorted_keys ks = true ->
  (forall k, In k ks -> length k = 256) ->
  (* one [start, end) interval per worker, computed as in RangeUpdater::new *)
  ranges ks n = map (fun i => (range_start ks n i, range_end ks n i)) (seq 0 n) /\
  (* the intervals are consecutive, start at 0 and end at the batch length *)
  range_start ks n 0 = 0 /\
  (forall i, S i < n -> range_end ks n i = range_start ks n (S i)) /\
  range_end ks n (n - 1) = length ks /\
  (forall i, i < n -> range_start ks n i <= range_end ks n i <= length ks) /\
  (* every key lies in the interval of the shard selected by its top 6 bits ... *)
  (forall j d, j < length ks ->
     let s := shard_index_for n (child_of (nth j ks d)) in
     s < n /\ range_start ks n s <= j < range_end ks n s) /\
  (* ... and an interval holds only keys of its shard *)
  (forall i j d, i < n -> range_start ks n i <= j < range_end ks n i ->
     shard_index_for n (child_of (nth j ks d)) = i).
Proof.
  intros ks n Hn Hs Hl.
  destruct (shards_partition n Hn) as [Hlen [Hb [H0 [Hnext [Hlast [_ [Hidx Huniq]]]]]]].
  assert (Hchild : forall k, In k ks -> child_of k < 64).
  { intros k Hk. apply key_decompose. apply Hl. exact Hk. }
  split.
  { unfold ranges, range_start, range_end.
    apply (nth_ext _ _ (0, 0) (0, 0)).
    - rewrite !map_length, seq_length. exact Hlen.
    - intros i Hi. rewrite map_length, Hlen in Hi.
      rewrite nth_map_seq by exact Hi.
      set (g := fun r => (range_start_for ks r, range_end_for ks r)).
      rewrite (nth_indep _ (0, 0) (g dummy_region)) by (rewrite map_length, Hlen; exact Hi).
      rewrite (map_nth g). reflexivity. }
  split.
  { rewrite range_start_child by (try assumption; lia). rewrite H0.
    apply pp_all_false. intros k _. reflexivity. }
  split.
  { intros i Hi. rewrite range_end_child, range_start_child by (try assumption; lia).
    apply pp_ext. intros k _. rewrite (Hnext i Hi).
    destruct (Hb i ltac:(lia)) as [Hc _]. unfold shard_last.
    destruct (child_of k <=? shard_start n i + shard_count n i - 1) eqn:E1;
      destruct (child_of k <? shard_start n i + shard_count n i) eqn:E2; try reflexivity.
    - apply Nat.leb_le in E1. apply Nat.ltb_ge in E2. lia.
    - apply Nat.leb_gt in E1. apply Nat.ltb_lt in E2. lia. }
  split.
  { rewrite range_end_child by (try assumption; lia).
    apply pp_all_true. intros k Hk. apply Nat.leb_le. unfold shard_last.
    specialize (Hchild k Hk). lia. }
  split.
  { intros i Hi. rewrite range_start_child, range_end_child by assumption.
    split; [|apply pp_le_length].
    apply pp_mono. intros k _ Hk. apply Nat.ltb_lt in Hk. apply Nat.leb_le.
    destruct (Hb i Hi) as [Hc _]. unfold shard_last. lia. }
  split.
  { intros j d Hj s.
    assert (Hin : In (nth j ks d) ks) by (apply nth_In; exact Hj).
    destruct (Hidx _ (Hchild _ Hin)) as [Hsn [Hlo Hhi]]. fold s in Hsn, Hlo, Hhi.
    split; [exact Hsn|].
    rewrite range_start_child, range_end_child by assumption. split.
    - apply (pp_le_of_false _ ks j d Hj). apply Nat.ltb_ge. exact Hlo.
    - apply (pp_gt_of_true _ ks j d Hj). intros i Hi. apply Nat.leb_le.
      pose proof (sorted_child_mono ks Hs Hl i j d Hi Hj) as Hm.
      unfold shard_last. lia. }
  { intros i j d Hi [Hlo Hhi].
    rewrite range_start_child in Hlo by assumption.
    rewrite range_end_child in Hhi by assumption.
    assert (Hj : j < length ks).
    { pose proof (pp_le_length (fun k => child_of k <=? shard_last n i) ks). lia. }
    assert (Hin : In (nth j ks d) ks) by (apply nth_In; exact Hj).
    apply Huniq; [apply Hchild; exact Hin|exact Hi|].
    destruct (Hb i Hi) as [Hc _].
    split.
    - destruct (Nat.lt_ge_cases (child_of (nth j ks d)) (shard_start n i)) as [Hlt|Hge];
        [|exact Hge].
      exfalso.
      assert (j < partition_point (fun k => child_of k <? shard_start n i) ks).
      { apply (pp_gt_of_true _ ks j d Hj). intros i' Hi'. apply Nat.ltb_lt.
        pose proof (sorted_child_mono ks Hs Hl i' j d Hi' Hj). lia. }
      lia.
    - apply (pp_lt_true _ ks j d) in Hhi. apply Nat.leb_le in Hhi.
      unfold shard_last in Hhi. lia. }
Qed.
