(* Corollaries for C10: what a handle reads from the files is a function of the abstraction of the
   image alone - the reads and proofs of a handle that reopens a directory depend on nothing but
   the key/value pairs the image represents. *)
From Coq Require Import List NArith.
From Nomt Require Import Base Hash Trie Result PathProof Image ReadPath ReadPath_proofs SeekPath SeekPath_proofs.

(* two well-formed decoded images (e.g. the files before closing and whatever a later handle finds
   after reopening, or the files written by two different configurations) with the same abstraction
   answer every lookup identically *)
Lemma same_abs_same_lookup : forall fs1 img1 fs2 img2,
  decode_image fs1 = Image.Ok img1 -> decode_image fs2 = Image.Ok img2 ->
  wf_leaf_order img1 = true -> wf_branches img1 = true -> passes (wf_pages_ln_v img1) = true ->
  wf_leaf_order img2 = true -> wf_branches img2 = true -> passes (wf_pages_ln_v img2) = true ->
  abs img1 = abs img2 ->
  forall k, lookup img1 k = lookup img2 k.
Proof.
  intros fs1 img1 fs2 img2 D1 D2 A1 B1 C1 A2 B2 C2 E k.
  rewrite (readpath_refines fs1 img1 D1 A1 B1 C1 k), (readpath_refines fs2 img2 D2 A2 B2 C2 k), E.
  reflexivity.
Qed.

(* ... and yield the same proof for every key (given hash oracles consistent with their own
   reference tries) *)
Lemma same_abs_same_seek : forall (H : Hasher) (enc : node H -> list N) h1 h2 fs1 img1 fs2 img2,
  decode_image fs1 = Image.Ok img1 -> decode_image fs2 = Image.Ok img2 ->
  HasherOK H -> enc (TERM H) = ZERO_NODE -> (forall n, node_kind (enc n) = kind H n) ->
  oracle_ok H enc h1 (ref_trie img1) -> oracle_ok H enc h2 (ref_trie img2) ->
  wf_merkle h1 img1 = true -> wf_root img1 = true ->
  wf_merkle h2 img2 = true -> wf_root img2 = true ->
  abs_kv img1 = abs_kv img2 ->
  forall k, length k = 256 -> seek_img h1 img1 k = seek_img h2 img2 k.
Proof.
  intros H enc h1 h2 fs1 img1 fs2 img2 D1 D2 OK ET EK O1 O2 M1 R1 M2 R2 E k Hk.
  rewrite (seek_refines_decoded H enc h1 fs1 img1 D1 OK ET EK O1 M1 R1 k Hk).
  rewrite (seek_refines_decoded H enc h2 fs2 img2 D2 OK ET EK O2 M2 R2 k Hk).
  rewrite E. reflexivity.
Qed.
