(* C20: theorems about the directory-lock protocol model of OpenLock.v *)
From Coq Require Import List Bool Arith Lia.
Import ListNotations.
From Nomt Require Import Base OpenLock.

(* every process obeys the discipline *)
Definition all_disciplined (g : list gev) : Prop := forall p, open_discipline (proj p g) = true.

(* ---------- auxiliary lemmas ---------- *)

Lemma prun_app : forall a b s,
  prun s (a ++ b) = match prun s a with Some s' => prun s' b | None => None end.
Proof.
  induction a as [|e a IH]; intros b s; cbn [app prun].
  - reflexivity.
  - destruct (pstep s e) as [s'|]; [apply IH | reflexivity].
Qed.

Lemma proj_app : forall p g1 g2, proj p (g1 ++ g2) = proj p g1 ++ proj p g2.
Proof.
  intros p g1 g2. unfold proj. rewrite filter_app, map_app. reflexivity.
Qed.

Lemma proj_single : forall p q e,
  proj p [(q, e)] = if Nat.eqb q p then [e] else [].
Proof.
  intros p q e. unfold proj. cbn [filter fst]. destruct (Nat.eqb q p); reflexivity.
Qed.

Lemma open_discipline_prefix : forall a b,
  open_discipline (a ++ b) = true -> open_discipline a = true.
Proof.
  intros a b. unfold open_discipline. rewrite prun_app.
  destruct (prun pst0 a); [reflexivity | intro H; exact H].
Qed.

Lemma all_disciplined_prefix : forall g1 g2,
  all_disciplined (g1 ++ g2) -> all_disciplined g1.
Proof.
  intros g1 g2 H p. specialize (H p). rewrite proj_app in H.
  eapply open_discipline_prefix; eassumption.
Qed.

Lemma flock_consistent_app : forall g1 g2 h,
  flock_consistent h (g1 ++ g2) <->
  flock_consistent h g1 /\ flock_consistent (fold_left kstep g1 h) g2.
Proof.
  induction g1 as [|[p e] g1 IH]; intros g2 h.
  - cbn [app flock_consistent fold_left]. tauto.
  - change (((p, e) :: g1) ++ g2) with ((p, e) :: (g1 ++ g2)).
    cbn [flock_consistent fold_left]. rewrite IH. tauto.
Qed.

Lemma holder_snoc : forall g x, holder (g ++ [x]) = kstep (holder g) x.
Proof.
  intros g x. unfold holder. rewrite fold_left_app. reflexivity.
Qed.

(* ---------- holding_is_holder ---------- *)

Theorem holding_is_holder : forall g p s,
  all_disciplined g -> flock_consistent None g ->
  prun pst0 (proj p g) = Some s -> holding s = true -> holder g = Some p.
Proof.
  induction g as [|[q e] g IH] using rev_ind; intros p s Hd Hc Hr Hh.
  - cbn in Hr. injection Hr as <-. cbn in Hh. discriminate.
  - pose proof (all_disciplined_prefix _ _ Hd) as Hd1.
    apply flock_consistent_app in Hc. destruct Hc as [Hc1 Hc2].
    fold (holder g) in Hc2. cbn [flock_consistent] in Hc2. destruct Hc2 as [Hc2 _].
    rewrite holder_snoc.
    rewrite proj_app, proj_single in Hr.
    destruct (Nat.eqb q p) eqn:Eqp.
    + apply Nat.eqb_eq in Eqp. subst q.
      rewrite prun_app in Hr.
      destruct (prun pst0 (proj p g)) as [s0|] eqn:Hr0; [|discriminate].
      specialize (IH p s0 Hd1 Hc1 Hr0).
      cbn [prun] in Hr.
      destruct (pstep s0 e) as [s1|] eqn:Hs; [|discriminate].
      injection Hr as ->.
      unfold pstep in Hs.
      destruct (dead s0); [discriminate|].
      destruct e as [| [|] | | | | | ]; cbn [kstep].
      * injection Hs as <-. auto.
      * reflexivity.
      * destruct (holding s0); [discriminate|]. injection Hs as <-. cbn in Hh. discriminate.
      * destruct (holding s0); [|discriminate]. auto.
      * destruct (holding s0); [|discriminate]. auto.
      * destruct (inflight s0); [discriminate|]. injection Hs as <-. cbn in Hh. auto.
      * destruct (holding s0) eqn:Hh0.
        -- destruct (Nat.eqb (inflight s0) 0); [|discriminate].
           injection Hs as <-. cbn in Hh. discriminate.
        -- injection Hs as <-. congruence.
      * injection Hs as <-. cbn in Hh. discriminate.
    + rewrite app_nil_r in Hr.
      specialize (IH p s Hd1 Hc1 Hr Hh). rewrite IH in *.
      destruct e as [| [|] | | | | | ]; cbn [kstep]; try reflexivity.
      * destruct Hc2 as [Hc2 _]. specialize (Hc2 eq_refl). discriminate.
      * rewrite Nat.eqb_sym, Eqp. reflexivity.
      * rewrite Nat.eqb_sym, Eqp. reflexivity.
Qed.

(* ---------- one_holder ---------- *)

Theorem one_holder : forall g1 p e g2,
  all_disciplined (g1 ++ (p, e) :: g2) -> flock_consistent None (g1 ++ (p, e) :: g2) ->
  (e = OMut \/ e = OSubmit) -> holder g1 = Some p.
Proof.
  intros g1 p e g2 Hd Hc He.
  pose proof (all_disciplined_prefix _ _ Hd) as Hd1.
  apply flock_consistent_app in Hc. destruct Hc as [Hc1 _].
  specialize (Hd p). rewrite proj_app in Hd.
  change ((p, e) :: g2) with ([(p, e)] ++ g2) in Hd.
  rewrite proj_app, proj_single, Nat.eqb_refl in Hd.
  rewrite app_assoc in Hd. apply open_discipline_prefix in Hd.
  unfold open_discipline in Hd. rewrite prun_app in Hd.
  destruct (prun pst0 (proj p g1)) as [s0|] eqn:Hr0; [|discriminate].
  apply (holding_is_holder g1 p s0 Hd1 Hc1 Hr0).
  cbn [prun] in Hd. unfold pstep in Hd.
  destruct (dead s0); [discriminate|].
  destruct He as [-> | ->]; destruct (holding s0); try reflexivity; discriminate.
Qed.

(* ---------- refused_touches_nothing ---------- *)

Lemma refused_inv : forall tr s s',
  (forall b, In (OLock b) tr -> b = false) ->
  holding s = false -> prun s tr = Some s' ->
  ~ In OMut tr /\ ~ In OSubmit tr.
Proof.
  induction tr as [|e tr IH]; intros s s' Hl Hh Hr.
  - split; intros [].
  - cbn [prun] in Hr.
    destruct (pstep s e) as [s1|] eqn:Hs; [|discriminate].
    assert (Hl' : forall b, In (OLock b) tr -> b = false)
      by (intros b Hb; apply Hl; right; exact Hb).
    assert (Hne : e <> OMut /\ e <> OSubmit /\ holding s1 = false).
    { unfold pstep in Hs. destruct (dead s); [discriminate|].
      destruct e as [| [|] | | | | | ]; rewrite ?Hh in Hs.
      - injection Hs as <-. repeat split; try discriminate; try exact Hh.
      - specialize (Hl true (or_introl eq_refl)). discriminate.
      - injection Hs as <-. repeat split; discriminate.
      - discriminate.
      - discriminate.
      - destruct (inflight s); [discriminate|]. injection Hs as <-.
        repeat split; try discriminate; try exact Hh.
      - injection Hs as <-. repeat split; try discriminate; try exact Hh.
      - injection Hs as <-. repeat split; discriminate. }
    destruct Hne as (H1 & H2 & H3).
    destruct (IH s1 s' Hl' H3 Hr) as [I1 I2].
    split; intros [E|E]; auto.
Qed.

Theorem refused_touches_nothing : forall tr,
  open_discipline tr = true -> (forall b, In (OLock b) tr -> b = false) ->
  ~ In OMut tr /\ ~ In OSubmit tr.
Proof.
  intros tr Hd Hl. unfold open_discipline in Hd.
  destruct (prun pst0 tr) as [s'|] eqn:Hr; [|discriminate].
  exact (refused_inv tr pst0 s' Hl eq_refl Hr).
Qed.

(* ---------- release_after_drain ---------- *)

Theorem release_after_drain : forall tr1 tr2 s,
  prun pst0 tr1 = Some s -> holding s = true ->
  open_discipline (tr1 ++ OUnlock :: tr2) = true -> inflight s = 0.
Proof.
  intros tr1 tr2 s Hr Hh Hd.
  unfold open_discipline in Hd. rewrite prun_app, Hr in Hd.
  cbn [prun] in Hd. unfold pstep in Hd.
  destruct (dead s); [discriminate|].
  rewrite Hh in Hd.
  destruct (Nat.eqb (inflight s) 0) eqn:E; [|discriminate].
  apply Nat.eqb_eq in E. exact E.
Qed.

(* ---------- reopen_after_end ---------- *)

Theorem reopen_after_end : forall g p q g',
  flock_consistent None (g ++ (q, OLock true) :: g') \/ True ->
  holder g = Some p -> forall e, (e = OUnlock \/ e = ODie) ->
  holder (g ++ [(p, e)]) = None.
Proof.
  intros g p q g' _ Hh e He.
  rewrite holder_snoc, Hh.
  destruct He as [-> | ->]; cbn [kstep]; rewrite Nat.eqb_refl; reflexivity.
Qed.
