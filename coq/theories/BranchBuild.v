(* BranchBuild: mirror of the code that REBUILDS branch nodes of the beatree (properties C01 / C16),

     beatree/ops/update/branch_updater.rs   BranchGauge (ingest_key, ingest_chunk, stop_prefix_compression,
                                            body_size, body_size_after, body_size_after_chunk),
                                            BranchUpdater (ingest, keep_up_to, digest, try_split),
                                            build_branch (apply_chunk and the merging of Update / KeepChunk)
     beatree/ops/update/branch_ops.rs       BranchOpsTracker (push_insert, push_update, push_chunk,
                                            replace_with_insert, extract_insert_from_keep_chunk,
                                            try_split_keep_chunk, extract_ops_until, prepare_merge_ops)
     beatree/branch/node.rs                 body_size, compressed_separator_range_size,
                                            uncompressed_separator_range_size,
                                            BranchNodeBuilder::{new, push, push_chunk}

   in terms of SIZES: a node is its prefix length, the number of prefix-compressed separators and,
   per separator, the key, the stored bit length (the difference of two cells) and the node pointer.
   The bits themselves are not modelled (NodeCodec.v has the encoder; the engine `nv bb` decodes the
   real pages with Image.decode_branch).  Positions and counts are [nat], bit and byte sizes [N].

   The obligation (BranchBuild_proofs.v): the size the gauge computes for the operations of a node
   equals the size of what the builder then writes, a node the updater decides to build fits into the
   page, and the built node is again a node of the shape the argument starts from.

   [fix12] selects BranchNodeBuilder::push_chunk with (true) or without (false) the repair a637aba
   (defect N12): a first separator shorter than the base's prefix is pushed as a standalone item.

   Not modelled: the `Ordering::Less => (false, 0)` shortcut of find_key_pos (a key whose first
   prefix_len bits are below the node's prefix; the updater is only fed keys not below the first
   separator of its base), arithmetic wrap-around (a usize subtraction that would underflow is a
   truncated subtraction here; BranchBuild_proofs shows the gauge's subtraction does not underflow
   under the invariant), u16 overflow of a cell. *)
From Coq Require Import List Bool Arith NArith Lia.
From Nomt Require Import Base Image.
From Nomt Require BitOps NodeCodec.
Import ListNotations.
Local Open Scope N_scope.

(* ------------------------------------------------------------------------------------------- *)
(* constants (branch/node.rs, ops/update/mod.rs)                                                 *)

Definition BODY : N := 4086.            (* BRANCH_NODE_BODY_SIZE = 4096 - 10 *)
Definition MERGE : N := 2043.           (* BRANCH_MERGE_THRESHOLD = BODY / 2 *)
Definition BULK_THRESHOLD : N := 7354.  (* BRANCH_BULK_SPLIT_THRESHOLD = BODY * 9 / 5 *)
Definition BULK_TARGET : N := 3064.     (* BRANCH_BULK_SPLIT_TARGET = BODY * 3 / 4 *)

(* separator_len(key): one plus the position of the last set bit, 1 for the all-zero key.  Computed
   in one pass; BranchBuild_proofs.sl_spec: for a key of 256 bits this is BitOps.separator_len *)
Fixpoint last_one (k : key) (i acc : N) : N :=
  match k with
  | [] => acc
  | b :: r => last_one r (N.succ i) (if b then N.succ i else acc)
  end.
Definition sl (k : key) : N := N.max 1 (last_one k 0 0).
Definition pl (a b : key) : N := N.of_nat (BitOps.prefix_len a b).

Fixpoint sumN (l : list N) : N := match l with [] => 0 | x :: r => x + sumN r end.

(* ------------------------------------------------------------------------------------------- *)
(* nodes                                                                                         *)

Record bitem := mkItem { it_key : key; it_len : N; it_pn : N }.
Record bnode := mkNode { bn_plen : N; bn_pc : nat; bn_items : list bitem }.

Definition ditem : bitem := mkItem [] 0 0.
Definition empty_node : bnode := mkNode 0 0 [].
Definition bitem_at (b : bnode) (i : nat) : bitem := nth i (bn_items b) ditem.
Definition bkey (b : bnode) (i : nat) : key := it_key (bitem_at b i).     (* get_key(&base.node, i) *)
Definition bpn (b : bnode) (i : nat) : N := it_pn (bitem_at b i).         (* node_pointer(i) *)
Definition bn_n (b : bnode) : nat := length (bn_items b).

(* BranchNodeView::separator_range_len(from, to) = cell(to - 1) - cell(from - 1) *)
Definition range_len (b : bnode) (s e : nat) : N :=
  sumN (map it_len (firstn (e - s) (skipn s (bn_items b)))).

(* node::body_size *)
Definition body_size (p t : N) (n : nat) : N :=
  2 * N.of_nat n + (p + t + 7) / 8 + 4 * N.of_nat n.

(* node::compressed_separator_range_size *)
Definition csize (first_len : N) (items : nat) (sum p : N) : N :=
  (first_len - p) + sum - N.of_nat (items - 1) * p.

(* node::uncompressed_separator_range_size *)
Definition usize (p clen : N) (n : nat) (first_len : N) : N :=
  clen + p * N.of_nat n - (p - first_len).

(* the body size of a node: cells, prefix + stored bits rounded up to bytes, node pointers *)
Definition node_body (b : bnode) : N :=
  body_size (bn_plen b) (sumN (map it_len (bn_items b))) (bn_n b).

(* ------------------------------------------------------------------------------------------- *)
(* operations                                                                                    *)

Inductive bop :=
| OIns (k : key) (pn : N)
| OUpd (pos : nat) (pn : N)
| OKeep (s e : nat) (sum : N).

Definition op_size (o : bop) : nat :=
  match o with OIns _ _ => 1 | OUpd _ _ => 1 | OKeep s e _ => e - s end%nat.

Fixpoint inserts_of (b : bnode) (s cnt : nat) : list bop :=
  match cnt with
  | O => []
  | S c => OIns (bkey b s) (bpn b s) :: inserts_of b (S s) c
  end.

(* what replace_with_insert puts in the place of an operation *)
Definition expand (b : bnode) (o : bop) : list bop :=
  match o with
  | OIns _ _ => [o]
  | OUpd pos pn => [OIns (bkey b pos) pn]
  | OKeep s e _ => inserts_of b s (e - s)
  end.

(* ------------------------------------------------------------------------------------------- *)
(* BranchGauge                                                                                   *)

Record gauge := mkG {
  g_first : option (key * N);
  g_plen : N;
  g_sum : N;
  g_pc : option nat;
  g_n : nat
}.

Definition g0 : gauge := mkG None 0 0 None 0.

Definition is_some {A} (o : option A) : bool := match o with Some _ => true | None => false end.

Definition ingest_key (g : gauge) (k : key) (len : N) : gauge :=
  match g_first g with
  | None => mkG (Some (k, len)) len (g_sum g) (g_pc g) 1
  | Some (f, _) =>
      mkG (g_first g) (match g_pc g with None => pl f k | Some _ => g_plen g end)
          (g_sum g + len) (g_pc g) (S (g_n g))
  end.

Definition ingest_chunk (g : gauge) (b : bnode) (s e : nat) (sum : N) : gauge :=
  match g_first g with
  | Some (f, _) =>
      mkG (g_first g) (match g_pc g with None => pl f (bkey b (e - 1)) | Some _ => g_plen g end)
          (g_sum g + sum) (g_pc g) (g_n g + (e - s))
  | None =>
      let fk := bkey b s in
      let lk := bkey b (e - 1) in
      mkG (Some (fk, sl fk)) (pl fk lk) (sum - sl fk) (g_pc g) (e - s)
  end.

Definition ingest_op (g : gauge) (b : bnode) (o : bop) : gauge :=
  match o with
  | OIns k _ => ingest_key g k (sl k)
  | OUpd pos _ => ingest_key g (bkey b pos) (sl (bkey b pos))
  | OKeep s e sum => ingest_chunk g b s e sum
  end.

Definition stop_compression (g : gauge) : gauge :=
  mkG (g_first g) (g_plen g) (g_sum g) (Some (g_n g)) (g_n g).

Definition pc_items (g : gauge) : nat := match g_pc g with Some c => c | None => g_n g end.

Definition total_len (g : gauge) (p : N) : N :=
  match g_first g with
  | Some (_, fl) => csize fl (pc_items g) (g_sum g) p
  | None => 0
  end.

Definition g_body (g : gauge) : N := body_size (g_plen g) (total_len g (g_plen g)) (g_n g).

Definition body_after (g : gauge) (k : key) (len : N) : N :=
  match g_first g with
  | Some (f, fl) =>
      let p := match g_pc g with None => pl f k | Some _ => g_plen g end in
      let t := csize fl (match g_pc g with Some c => c | None => S (g_n g) end) (g_sum g + len) p in
      body_size p t (S (g_n g))
  | None => body_size len 0 (S (g_n g))
  end.

Definition body_after_chunk (g : gauge) (b : bnode) (s e : nat) (sum : N) : N :=
  match g_first g with
  | Some (f, fl) =>
      let p := match g_pc g with None => pl f (bkey b (e - 1)) | Some _ => g_plen g end in
      let t := csize fl (match g_pc g with Some c => c | None => g_n g + (e - s) end)%nat (g_sum g + sum) p in
      body_size p t (g_n g + (e - s))
  | None =>
      let fk := bkey b s in
      let fl := sl fk in
      let p := pl fk (bkey b (e - 1)) in
      let t := csize fl (g_n g + (e - s)) (sum - fl) p in
      body_size p t (g_n g + (e - s))
  end.

(* ------------------------------------------------------------------------------------------- *)
(* BranchOpsTracker                                                                              *)

Record tracker := mkT { t_ops : list bop; t_g : gauge }.
Definition t0 : tracker := mkT [] g0.

Definition push_insert (t : tracker) (k : key) (pn : N) : tracker :=
  mkT (t_ops t ++ [OIns k pn]) (ingest_key (t_g t) k (sl k)).

Definition push_update (t : tracker) (b : bnode) (pos : nat) (pn : N) : tracker :=
  let k := bkey b pos in
  let g := ingest_key (t_g t) k (sl k) in
  let op := if (bn_pc b <=? pos)%nat || is_some (g_pc g) then OIns k pn else OUpd pos pn in
  mkT (t_ops t ++ [op]) g.

Fixpoint push_inserts (t : tracker) (b : bnode) (s cnt : nat) : tracker :=
  match cnt with
  | O => t
  | S c => push_inserts (push_insert t (bkey b s) (bpn b s)) b (S s) c
  end.

(* push_chunk, with the repair 9ca41c2 (defect N10): the range may begin in the uncompressed tail *)
Definition push_chunk (t : tracker) (b : bnode) (s e : nat) : tracker :=
  let bce := Nat.min e (bn_pc b) in
  let t1 :=
    if (s <? bce)%nat then
      let sum := usize (bn_plen b) (range_len b s bce) (bce - s) (sl (bkey b s)) in
      let g := ingest_chunk (t_g t) b s bce sum in
      mkT (t_ops t ++ (if is_some (g_pc g) then inserts_of b s (bce - s) else [OKeep s bce sum])) g
    else t in
  let s2 := Nat.max s bce in
  push_inserts t1 b s2 (e - s2).

(* extract_insert_from_keep_chunk *)
Definition extract_first (b : bnode) (s e : nat) (sum : N) : list bop :=
  if (s =? e - 1)%nat then [OIns (bkey b s) (bpn b s)]
  else [OIns (bkey b s) (bpn b s); OKeep (S s) e (sum - sl (bkey b s))].

(* the loop of try_split_keep_chunk: (left_chunk_n_items, left_chunk_sum_separator_lengths) *)
Fixpoint split_scan (b : bnode) (g : gauge) (target limit : N) (i cnt ln : nat) (lsum : N) : nat * N :=
  match cnt with
  | O => (ln, lsum)
  | S c =>
      let k := bkey b i in
      let l := sl k in
      let bsa := body_after g k l in
      if target <=? bsa then
        if limit <? bsa then (ln, lsum) else (S ln, lsum + l)
      else split_scan b (ingest_key g k l) target limit (S i) c (S ln) (lsum + l)
  end.

(* try_split_keep_chunk: the number of items of the left chunk and what stands in the place of the
   chunk afterwards *)
Definition try_split (b : bnode) (g : gauge) (s e : nat) (sum target limit : N) : nat * list bop :=
  let '(ln, lsum) := split_scan b g target limit s (e - s) 0 0 in
  if negb (ln =? 0)%nat && negb (e - s =? ln)%nat
  then (ln, [OKeep s (s + ln) lsum; OKeep (s + ln) e (sum - lsum)])
  else (ln, [OKeep s e sum]).

Inductive xres :=
| XSome (ops : list bop) (g : gauge) (rest : list bop)   (* Some((ops[..pos], gauge)), ops[pos..] stay *)
| XNone (ops : list bop) (g : gauge)                     (* None: self.gauge = gauge *)
| XFuel.

Definition xfinish (done todo : list bop) (g : gauge) (target : N) : xres :=
  if target <=? g_body g then XSome done g todo else XNone (done ++ todo) g.

(* extract_ops_until: [done] = ops[..pos], [todo] = ops[pos..] *)
Fixpoint xloop (fuel : nat) (b : bnode) (done todo : list bop) (g : gauge) (target : N) : xres :=
  match fuel with
  | O => XFuel
  | S f =>
      match todo with
      | [] => xfinish done todo g target
      | op :: rest =>
          if target <=? g_body g then xfinish done todo g target
          else
            let ing := fun (g' : gauge) (target' : N) (op' : bop) (rest' : list bop) =>
              let g2 := ingest_op g' b op' in
              xloop f b (done ++ (if is_some (g_pc g2) then expand b op' else [op'])) rest' g2 target' in
            match op with
            | OIns k _ =>
                if BODY <? body_after g k (sl k) then
                  if g_body g <? MERGE then ing (stop_compression g) MERGE op rest
                  else xfinish done todo g MERGE
                else ing g target op rest
            | OUpd pos pn =>
                let k := bkey b pos in
                if BODY <? body_after g k (sl k) then
                  if g_body g <? MERGE then xloop f b done (OIns k pn :: rest) g target
                  else xfinish done todo g MERGE
                else ing g target op rest
            | OKeep s e sum =>
                if target <? body_after_chunk g b s e sum then
                  let '(ln, repl) := try_split b g s e sum target BODY in
                  if (ln =? 0)%nat then xloop f b done (extract_first b s e sum ++ rest) g target
                  else
                    match repl with
                    | op' :: more => ing g target op' (more ++ rest)
                    | [] => XFuel
                    end
                else ing g target op rest
            end
      end
  end.

Definition ops_items (ops : list bop) : nat := fold_right (fun o a => op_size o + a)%nat 0%nat ops.
Definition xfuel (ops : list bop) : nat := (2 * ops_items ops + length ops + 2)%nat.

Definition extract_ops_until (b : bnode) (ops : list bop) (target : N) : xres :=
  xloop (xfuel ops) b [] ops g0 target.

(* ------------------------------------------------------------------------------------------- *)
(* BranchNodeBuilder                                                                             *)

Record builder := mkB {
  bd_n : nat; bd_pc : nat; bd_plen : N;      (* BranchNodeBuilder::new *)
  bd_keys : list key;                         (* the keys whose bits were stored, in order *)
  bd_lens : list N;                           (* stored bit lengths (cell differences), in order *)
  bd_pns : list N                             (* the node pointer array, n slots *)
}.

Definition bd_index (bd : builder) : nat := length (bd_lens bd).

Fixpoint set_nth {A} (i : nat) (x : A) (l : list A) : list A :=
  match l with
  | [] => []
  | y :: r => match i with O => x :: r | S j => y :: set_nth j x r end
  end.

Definition builder_new (n pc : nat) (plen : N) : builder :=
  mkB n pc plen [] [] (repeat 0 n).

(* push; None = `assert!(self.index < self.branch.n())` *)
Definition bpush (bd : builder) (k : key) (len pn : N) : option builder :=
  let i := bd_index bd in
  if (i <? bd_n bd)%nat then
    let stored := if (i <? bd_pc bd)%nat then len - bd_plen bd else len in
    Some (mkB (bd_n bd) (bd_pc bd) (bd_plen bd) (bd_keys bd ++ [k]) (bd_lens bd ++ [stored])
              (set_nth i pn (bd_pns bd)))
  else None.

(* the length push_chunk derives for a separator of the chunk from the cell of the base *)
Definition shifted_len (base_plen new_plen len : N) : N :=
  if new_plen <? base_plen then len + (base_plen - new_plen) else len - (new_plen - base_plen).

Fixpoint set_pns (l : list N) (at_ : nat) (upd : list (nat * N)) : list N :=
  match upd with
  | [] => l
  | (i, pn) :: r => set_pns (set_nth (at_ + i) pn l) at_ r
  end.

Fixpoint copy_pns (l : list N) (at_ : nat) (src : list N) : list N :=
  match src with
  | [] => l
  | pn :: r => copy_pns (set_nth at_ pn l) (S at_) r
  end.

(* push_chunk(base, from, to, updated); None = an assertion of the builder fails *)
Definition bpush_chunk (fix12 : bool) (bd : builder) (b : bnode) (from to : nat) (upd : list (nat * N))
  : option builder :=
  let n_items := (to - from)%nat in
  if negb (bd_index bd + n_items <=? bd_pc bd)%nat then None
  else
    let chunk_index := bd_index bd in
    let pre :=
      if fix12 && (from =? 0)%nat && negb (n_items =? 0)%nat && (sl (bkey b 0) <? bn_plen b)
      then match bpush bd (bkey b 0) (sl (bkey b 0)) (bpn b 0) with
           | Some bd' => Some (bd', 1%nat)
           | None => None
           end
      else Some (bd, from) in
    match pre with
    | None => None
    | Some (bd1, from1) =>
        let items := firstn (to - from1) (skipn from1 (bn_items b)) in
        let lens := map (fun it => shifted_len (bn_plen b) (bd_plen bd1) (it_len it)) items in
        let pns1 := copy_pns (bd_pns bd1) (bd_index bd1) (map it_pn items) in
        let pns2 := set_pns pns1 chunk_index upd in
        Some (mkB (bd_n bd1) (bd_pc bd1) (bd_plen bd1) (bd_keys bd1 ++ map it_key items)
                  (bd_lens bd1 ++ lens) pns2)
    end.

Fixpoint bpush_range (bd : builder) (b : bnode) (s cnt : nat) : option builder :=
  match cnt with
  | O => Some bd
  | S c =>
      match bpush bd (bkey b s) (sl (bkey b s)) (bpn b s) with
      | Some bd' => bpush_range bd' b (S s) c
      | None => None
      end
  end.

(* the closure apply_chunk of build_branch *)
Definition apply_chunk (fix12 : bool) (gpc : nat) (bd : builder) (b : bnode) (s e : nat) (upd : list (nat * N))
  : option builder :=
  let n_left := (gpc - bd_index bd)%nat in
  let cend := Nat.min (s + n_left) e in
  match bpush_chunk fix12 bd b s cend upd with
  | Some bd' => bpush_range bd' b cend (e - cend)
  | None => None
  end.

Definition pending := option (nat * nat * list (nat * N)).

Definition build_fresh (bd : builder) (o : bop) : option (builder * pending) :=
  match o with
  | OIns k pn => match bpush bd k (sl k) pn with Some bd' => Some (bd', None) | None => None end
  | OKeep s e _ => Some (bd, Some (s, e, []))
  | OUpd pos pn => Some (bd, Some (pos, S pos, [(0%nat, pn)]))
  end.

Definition build_step (fix12 : bool) (gpc : nat) (b : bnode) (st : builder * pending) (o : bop)
  : option (builder * pending) :=
  let '(bd, pend) := st in
  match pend with
  | None => build_fresh bd o
  | Some (s, e, upd) =>
      let flush := match apply_chunk fix12 gpc bd b s e upd with
                   | Some bd' => build_fresh bd' o
                   | None => None
                   end in
      match o with
      | OIns _ _ => flush
      | OKeep cs ce _ => if (e =? cs)%nat then Some (bd, Some (s, ce, upd)) else flush
      | OUpd pos pn => if (e =? pos)%nat then Some (bd, Some (s, S e, upd ++ [((pos - s)%nat, pn)])) else flush
      end
  end.

Fixpoint build_ops (fix12 : bool) (gpc : nat) (b : bnode) (st : builder * pending) (ops : list bop)
  : option (builder * pending) :=
  match ops with
  | [] => Some st
  | o :: r => match build_step fix12 gpc b st o with Some st' => build_ops fix12 gpc b st' r | None => None end
  end.

Fixpoint zip_items (ks : list key) (ls ps : list N) : list bitem :=
  match ks, ls, ps with
  | k :: ks', l :: ls', p :: ps' => mkItem k l p :: zip_items ks' ls' ps'
  | _, _, _ => []
  end.

(* a node the updater built, with what the gauge had computed for it *)
Record built := mkBuilt {
  bo_gauge_body : N;
  bo_node : bnode;
  bo_n : nat;             (* gauge.n: the n of the header *)
  bo_pushed : nat         (* separators pushed by the builder *)
}.

Definition all_inserts (ops : list bop) : bool :=
  forallb (fun o => match o with OIns _ _ => true | _ => false end) ops.

(* build_branch(base, ops, gauge); None = a panic of the builder *)
Definition build_branch (fix12 : bool) (ob : option bnode) (ops : list bop) (g : gauge) : option built :=
  let bd0 := builder_new (g_n g) (pc_items g) (g_plen g) in
  let fin := fun bd : builder =>
    Some (mkBuilt (g_body g)
                  (mkNode (bd_plen bd) (bd_pc bd) (zip_items (bd_keys bd) (bd_lens bd) (bd_pns bd)))
                  (bd_n bd) (bd_index bd)) in
  match ob with
  | None =>
      if all_inserts ops then
        match build_ops fix12 (pc_items g) empty_node (bd0, None) ops with
        | Some (bd, _) => fin bd
        | None => None
        end
      else None
  | Some b =>
      match build_ops fix12 (pc_items g) b (bd0, None) ops with
      | Some (bd, None) => fin bd
      | Some (bd, Some (s, e, upd)) =>
          match apply_chunk fix12 (pc_items g) bd b s e upd with
          | Some bd' => fin bd'
          | None => None
          end
      | None => None
      end
  end.

(* ------------------------------------------------------------------------------------------- *)
(* BranchUpdater                                                                                 *)

Record updater := mkU { u_base : option bnode; u_low : nat; u_t : tracker }.
Definition u0 : updater := mkU None 0 t0.

Definition reset_base (u : updater) (ob : option bnode) : updater := mkU ob 0 (u_t u).

(* find_key_pos(node, key, Some(low)) on an ascending node: the first position from [low] on whose
   key is not below [k], and whether it holds [k] *)
Fixpoint find_from (items : list bitem) (k : key) (i : nat) : bool * nat :=
  match items with
  | [] => (false, i)
  | it :: r =>
      if key_eqb (it_key it) k then (true, i)
      else if key_ltb k (it_key it) then (false, i)
      else find_from r k (S i)
  end.

(* keep_up_to(Some(key)): (position where the key was found, updater) *)
Definition keep_up_to_key (u : updater) (k : key) : option nat * updater :=
  match u_base u with
  | None => (None, u)
  | Some b =>
      let from := u_low u in
      if (from =? bn_n b)%nat then (None, u)
      else
        let '(found, pos) := find_from (skipn from (bn_items b)) k from in
        if found then
          (Some pos, mkU (u_base u) (S pos) (if (from =? pos)%nat then u_t u else push_chunk (u_t u) b from pos))
        else if (pos =? from)%nat then (None, u)
        else (None, mkU (u_base u) pos (push_chunk (u_t u) b from pos))
  end.

(* keep_up_to(None) *)
Definition keep_up_to_end (u : updater) : updater :=
  match u_base u with
  | None => u
  | Some b =>
      let from := u_low u in
      if (from =? bn_n b)%nat then u
      else mkU (u_base u) (bn_n b) (push_chunk (u_t u) b from (bn_n b))
  end.

Definition base_or_empty (u : updater) : bnode := match u_base u with Some b => b | None => empty_node end.

(* ingest(key, pn) *)
Definition u_ingest (u : updater) (k : key) (pn : option N) : updater :=
  let '(res, u1) := keep_up_to_key u k in
  match pn with
  | None => u1
  | Some p =>
      match res with
      | Some pos => mkU (u_base u1) (u_low u1) (push_update (u_t u1) (base_or_empty u1) pos p)
      | None => mkU (u_base u1) (u_low u1) (push_insert (u_t u1) k p)
      end
  end.

(* try_split: extract_ops_until in a loop, every extracted run of operations is built *)
Fixpoint split_loop (fuel : nat) (fix12 : bool) (ob : option bnode) (ops : list bop) (target : N)
         (acc : list built) : option (list built * tracker) :=
  match fuel with
  | O => None
  | S f =>
      let b := match ob with Some b => b | None => empty_node end in
      match extract_ops_until b ops target with
      | XSome done g rest =>
          match build_branch fix12 ob done g with
          | Some node => split_loop f fix12 ob rest target (acc ++ [node])
          | None => None
          end
      | XNone ops' g => Some (acc, mkT ops' g)
      | XFuel => None
      end
  end.

Definition try_split_all (fix12 : bool) (ob : option bnode) (t : tracker) (target : N) (acc : list built)
  : option (list built * tracker) :=
  split_loop (S (ops_items (t_ops t))) fix12 ob (t_ops t) target acc.

(* digest: (nodes built, updater afterwards, NeedsMerge); None = a panic *)
Definition digest (fix12 : bool) (u : updater) (cutoff_none : bool) : option (list built * updater * bool) :=
  let u1 := keep_up_to_end u in
  let ob := u_base u1 in
  match (if BULK_THRESHOLD <? g_body (t_g (u_t u1)) then try_split_all fix12 ob (u_t u1) BULK_TARGET []
         else Some ([], u_t u1)) with
  | None => None
  | Some (n1, t1) =>
      match (if BODY <? g_body (t_g t1) then try_split_all fix12 ob t1 (g_body (t_g t1) / 2) n1
             else Some (n1, t1)) with
      | None => None
      | Some (n2, t2) =>
          if g_body (t_g t2) =? 0 then Some (n2, mkU ob (u_low u1) t2, false)
          else if (MERGE <=? g_body (t_g t2)) || cutoff_none then
            match build_branch fix12 ob (t_ops t2) (t_g t2) with
            | Some node => Some (n2 ++ [node], mkU ob (u_low u1) t0, false)
            | None => None
            end
          else
            Some (n2, mkU ob (u_low u1) (mkT (flat_map (expand (base_or_empty u1)) (t_ops t2)) (t_g t2)), true)
      end
  end.

(* one base node as branch_stage drives the updater: reset_base, ingest.., digest *)
Record stage := mkStage { sg_base : option bnode; sg_ops : list (key * option N); sg_cutoff_none : bool }.

Definition run_stage (fix12 : bool) (u : updater) (sg : stage) : option (list built * updater * bool) :=
  let u1 := reset_base u (sg_base sg) in
  let u2 := fold_left (fun u kp => u_ingest u (fst kp) (snd kp)) (sg_ops sg) u1 in
  digest fix12 u2 (sg_cutoff_none sg).

(* per stage: the nodes built, NeedsMerge, the gauge's body size of what is left in the tracker *)
Fixpoint run_stages (fix12 : bool) (u : updater) (sgs : list stage)
  : option (list (list built * bool * N)) :=
  match sgs with
  | [] => Some []
  | sg :: r =>
      match run_stage fix12 u sg with
      | Some (nodes, u', nm) =>
          match run_stages fix12 u' r with
          | Some rest => Some ((nodes, nm, g_body (t_g (u_t u'))) :: rest)
          | None => None
          end
      | None => None
      end
  end.

(* ------------------------------------------------------------------------------------------- *)
(* real pages                                                                                    *)

Fixpoint cell_lens (prev : N) (cells : list N) : list N :=
  match cells with [] => [] | c :: r => (c - prev) :: cell_lens c r end.

(* the node a page holds, by Image's decoder; the stored lengths are the differences of the cells *)
Definition bnode_of_page (pg : list N) : option bnode :=
  match decode_branch 0 pg, NodeCodec.raw_cells pg with
  | Ok b, Some cells =>
      Some (mkNode (b_prefix_len b) (N.to_nat (b_prefix_compressed b))
                   (zip_items (b_seps b) (cell_lens 0 cells) (b_lns b)))
  | _, _ => None
  end.

(* the stored length the update path accounts for: separator_len minus the prefix (saturating) for a
   prefix-compressed separator, separator_len for the others (NodeCodec.canonical_len) *)
Definition canon_len (plen : N) (compressed : bool) (k : key) : N :=
  if compressed then sl k - plen else sl k.

Fixpoint canon_from (plen : N) (pc i : nat) (items : list bitem) : bool :=
  match items with
  | [] => true
  | it :: r => (it_len it =? canon_len plen (i <? pc)%nat (it_key it)) && canon_from plen pc (S i) r
  end.

Definition canonical (b : bnode) : bool := canon_from (bn_plen b) (bn_pc b) 0 (bn_items b).

Fixpoint ascending (ks : list key) : bool :=
  match ks with
  | a :: (b :: _) as r => key_ltb a b && ascending r
  | _ => true
  end.

(* the first [pc] keys share the first [plen] bits of the first one *)
Definition shares_prefix (b : bnode) : bool :=
  match bn_items b with
  | [] => true
  | it0 :: _ =>
      forallb (fun it => bn_plen b <=? pl (it_key it0) (it_key it)) (firstn (bn_pc b) (bn_items b))
  end.

Definition keys256 (b : bnode) : bool :=
  forallb (fun it => Nat.eqb (length (it_key it)) 256) (bn_items b).

(* the shape of a node the argument of BranchBuild_proofs starts from and ends with *)
Definition node_wf (b : bnode) : bool :=
  (1 <=? bn_pc b)%nat && (bn_pc b <=? bn_n b)%nat && (bn_plen b <=? 256)
  && keys256 b && ascending (map it_key (bn_items b)) && shares_prefix b && canonical b.

(* checks of a real page against what the real gauge said: (code, expected, found) *)
Inductive vcode :=
| VcDecode        (* the page does not decode (separator bits reach into the node pointers, ...) *)
| VcHdrN | VcHdrPc | VcHdrPlen   (* header fields differ from the gauge's *)
| VcGaugeBody     (* gauge.body_size() differs from the body size of the page *)
| VcTooBig        (* the body size of the page exceeds BRANCH_NODE_BODY_SIZE *)
| VcNonCanon      (* stored lengths that are not the canonical ones *)
| VcShape         (* the decoded node is not node_wf *)
| VcMPanic        (* the mirror panics / runs out of fuel where the real code did not *)
| VcMCount | VcMGauge | VcMN | VcMPc | VcMPlen | VcMKeys | VcMLens | VcMPns | VcMStage.

Definition vlist := list (vcode * N * N).

Definition vif (c : bool) (code : vcode) (x y : N) : vlist := if c then [] else [(code, x, y)].

Definition noncanon_count (b : bnode) : N :=
  let fix go (i : nat) (items : list bitem) : N :=
    match items with
    | [] => 0
    | it :: r => (if it_len it =? canon_len (bn_plen b) (i <? bn_pc b)%nat (it_key it) then 0 else 1) + go (S i) r
    end in
  go 0%nat (bn_items b).

Definition check_page (gbody : N) (gn gpc : nat) (gplen : N) (pg : list N) : vlist :=
  match bnode_of_page pg with
  | None =>
      [(VcDecode, match decode_branch 0 pg with Err _ x _ => x | Ok _ => 0 end,
        match decode_branch 0 pg with Err _ _ y => y | Ok _ => 0 end)]
  | Some b =>
      vif (bn_n b =? gn)%nat VcHdrN (N.of_nat gn) (N.of_nat (bn_n b))
      ++ vif (bn_pc b =? gpc)%nat VcHdrPc (N.of_nat gpc) (N.of_nat (bn_pc b))
      ++ vif (bn_plen b =? gplen) VcHdrPlen gplen (bn_plen b)
      ++ vif (node_body b =? gbody) VcGaugeBody gbody (node_body b)
      ++ vif (node_body b <=? BODY) VcTooBig BODY (node_body b)
      ++ vif (noncanon_count b =? 0) VcNonCanon 0 (noncanon_count b)
      ++ vif (node_wf b) VcShape 0 0
  end.

Fixpoint keys_eqb (a b : list key) : bool :=
  match a, b with
  | [], [] => true
  | x :: a', y :: b' => key_eqb x y && keys_eqb a' b'
  | _, _ => false
  end.

(* the mirror's node against the real gauge values and the real page *)
Definition check_model (m : built) (gbody : N) (gn gpc : nat) (gplen : N) (pg : list N) : vlist :=
  let mb := bo_node m in
  vif (bo_gauge_body m =? gbody) VcMGauge (bo_gauge_body m) gbody
  ++ vif (bo_n m =? gn)%nat VcMN (N.of_nat (bo_n m)) (N.of_nat gn)
  ++ vif (bn_pc mb =? gpc)%nat VcMPc (N.of_nat (bn_pc mb)) (N.of_nat gpc)
  ++ vif (bn_plen mb =? gplen) VcMPlen (bn_plen mb) gplen
  ++ match bnode_of_page pg with
     | None => []
     | Some b =>
         vif (keys_eqb (map it_key (bn_items mb)) (map it_key (bn_items b))) VcMKeys
             (N.of_nat (bn_n mb)) (N.of_nat (bn_n b))
         ++ vif (bytes_eqb (map it_len (bn_items mb)) (map it_len (bn_items b))) VcMLens
                (sumN (map it_len (bn_items mb))) (sumN (map it_len (bn_items b)))
         ++ vif (bytes_eqb (map it_pn (bn_items mb)) (map it_pn (bn_items b))) VcMPns 0 0
     end.

(* ------------------------------------------------------------------------------------------- *)
(* examples                                                                                      *)

Section Examples.

  Definition kbits (l : list bool) : key := pad256 l.
  (* first separator all zero (separator_len 1), two more sharing 0001 *)
  Definition ex_k0 : key := kbits [].
  Definition ex_k1 : key := kbits [false; false; false; true; false; true].
  Definition ex_k2 : key := kbits [false; false; false; true; true].
  Definition ex_k3 : key := kbits [true; true].

  (* the base: prefix 000 (prefix_len(k0, k2) = 3), k0 stores 0 bits, k1 3, k2 2 *)
  Definition ex_base : bnode :=
    mkNode 3 3 [mkItem ex_k0 0 10; mkItem ex_k1 3 11; mkItem ex_k2 2 12].

  Example ex_base_wf : node_wf ex_base = true.
  Proof. vm_compute. reflexivity. Qed.

  (* keep everything, insert k3 behind: the prefix collapses to 0 bits.  The gauge accounts
     1 + 6 + 5 + 2 = 14 bits *)
  Definition ex_stage : stage := mkStage (Some ex_base) [(ex_k3, Some 13)] true.

  Example ex_rebuild :
    match run_stage true u0 ex_stage with
    | Some ([m], _, false) =>
        (bo_gauge_body m, bn_plen (bo_node m), map it_len (bn_items (bo_node m)),
         map it_pn (bn_items (bo_node m)), node_body (bo_node m), node_wf (bo_node m))
    | _ => (0, 0, [], [], 0, false)
    end = (26, 0, [1; 6; 5; 2], [10; 11; 12; 13], 26, true).
  Proof. vm_compute. reflexivity. Qed.

  (* without the repair of N12 the builder stores 3 bits for k0, the gauge accounts 1 *)
  Example ex_rebuild_unfixed :
    match run_stage false u0 ex_stage with
    | Some ([m], _, false) => (bo_gauge_body m, map it_len (bn_items (bo_node m)), canonical (bo_node m))
    | _ => (0, [], true)
    end = (26, [3; 6; 5; 2], false).
  Proof. vm_compute. reflexivity. Qed.

End Examples.
