(* DeltaCodec: mirror of the codec of the rollback log's records, nomt/src/rollback/delta.rs
   ([Delta::encode], lines 26-69, and [Delta::decode], lines 72-109).  Properties C09 / C10: what the
   rollback log stores for a commit is the reverse delta of that commit, and reading it back
   (Rollback::read -> seglog::open -> Delta::decode, rollback/mod.rs:137-141) yields the same delta.

   Byte layout of one record payload, as [encode] writes it (all integers little endian):

     erase_count     : u32                         delta.rs:52-54   (to_erase.len() as u32)
     erase_count   x { key : [u8; 32] }            delta.rs:55-57   keys whose prior is None
     reinstate_count : u32                         delta.rs:59-60   (to_reinstate.len() as u32)
     reinstate_count x { key   : [u8; 32]          delta.rs:62
                         vlen  : u32               delta.rs:63-64   (value.len() as u32)
                         value : [u8; vlen] }      delta.rs:65      keys whose prior is Some(value)

   Nothing follows the second group; nothing precedes the first count.  A prior [Some(vec![])]
   (the key held the EMPTY value) is a reinstate entry with vlen = 0; a prior [None] (the key did
   not exist) is an erase entry: the two are different records.

   [Delta] holds a [HashMap]: the order in which [encode] visits the entries (delta.rs:45) is not
   determined by the delta.  The encoder below therefore takes the entries as a LIST, in the order
   of the iteration; every theorem of DeltaCodec_proofs.v holds for every order.  The decoder
   returns the two groups in the order of the bytes and, as [delta_decode], the association list
   key -> prior that [Delta::decode] builds in its [HashMap] (no key occurs twice in it).

   Where can the Rust code fail?
     decode: every [read_exact] on the [Cursor] returns [UnexpectedEof] on short input (-> [DShort],
       with the place); a key that is already in the map -> "duplicate key path" (-> [DDupErase] /
       [DDupReinstate]).  The reinstate loop inserts the key AFTER it has read the value
       (delta.rs:103), so a short value wins over a duplicate key; the model keeps that order.
       There is NO panicking operation in [decode]: no indexing, no unwrap, no arithmetic that can
       overflow ([0..len] ranges over u32, [value_len as usize] widens).  [Panic] is therefore never
       returned ([delta_decode_total]).  Bytes behind the second group are not looked at
       ([delta_decode_ignores_trailing]).
       Not modelled (no value level meaning): [value.resize(value_len as usize, 0)] (delta.rs:101)
       allocates [value_len] bytes BEFORE the bytes are known to exist; a record whose length field
       is corrupt makes the reader allocate up to 4 GiB (an allocation failure aborts the process,
       it does not unwind).
     encode: cannot fail, but the three [as u32] casts truncate silently: 2^32 or more entries in a
       group, or a value of 2^32 or more bytes, are written with a wrong count / length (-> [u32]
       below).  The round-trip theorems assume counts and lengths below 2^32; the maximal record
       payload of the seglog is far below that.

   Bytes are [N]; byte strings, keys and values are [list N].  Lists of tens of thousands of bytes
   go through the extracted code: the functions that walk a VALUE ([takeN], [nlen]) are tail
   recursive, the others recurse once per ENTRY.  Counts and lengths stay in [N] (a corrupt length
   field of 4 * 10^9 must not be turned into a unary number). *)
From Coq Require Import List Bool Arith NArith Lia.
From Nomt Require Import Result Wal.
Import ListNotations.
Local Open Scope N_scope.

(* ------------------------------------------------------------------------------------------- *)
(* deltas                                                                                        *)

(* one entry of [Delta::priors]: key path and the prior value ([None]: the key did not exist) *)
Definition prior := (list N * option (list N))%type.

(* the two arrays of the serialisation, in the order of the bytes *)
Record groups := mkGroups {
  g_erase : list (list N);                 (* keys to erase *)
  g_reinstate : list (list N * list N)     (* keys to reinstate, with the value *)
}.

(* the map the groups denote (what [decode] inserts, in the order of the insertions) *)
Definition priors_of (g : groups) : list prior :=
  map (fun k => (k, None)) (g_erase g) ++ map (fun kv => (fst kv, Some (snd kv))) (g_reinstate g).

(* delta.rs:43-50: "Sort the keys into two groups", in the order of the iteration over the map *)
Fixpoint split_priors (p : list prior) : list (list N) * list (list N * list N) :=
  match p with
  | [] => ([], [])
  | (k, None) :: r => let '(e, s) := split_priors r in (k :: e, s)
  | (k, Some v) :: r => let '(e, s) := split_priors r in (e, (k, v) :: s)
  end.

Definition groups_of (p : list prior) : groups :=
  let '(e, s) := split_priors p in mkGroups e s.

(* HashMap lookup *)
Fixpoint alookup (k : list N) (p : list prior) : option (option (list N)) :=
  match p with
  | [] => None
  | (k', v) :: r => if bytes_eqb k k' then Some v else alookup k r
  end.

(* ------------------------------------------------------------------------------------------- *)
(* encode                                                                                        *)

(* [x as u32] of a usize *)
Definition u32 (x : N) : N := x mod 2 ^ 32.

(* Vec::len *)
Fixpoint nlen_aux {A : Type} (l : list A) (acc : N) : N :=
  match l with [] => acc | _ :: r => nlen_aux r (N.succ acc) end.
Definition nlen {A : Type} (l : list A) : N := nlen_aux l 0.

(* delta.rs:55-57, followed by [tail] *)
Definition enc_erase (ks : list (list N)) (tail : list N) : list N :=
  fold_right (fun k acc => k ++ acc) tail ks.

(* delta.rs:61-66, followed by [tail] *)
Definition enc_reinstate (kvs : list (list N * list N)) (tail : list N) : list N :=
  fold_right (fun kv acc => fst kv ++ le_bytes 4 (u32 (nlen (snd kv))) ++ snd kv ++ acc) tail kvs.

Definition encode_groups_tl (g : groups) (tail : list N) : list N :=
  le_bytes 4 (u32 (nlen (g_erase g)))
    ++ enc_erase (g_erase g) (le_bytes 4 (u32 (nlen (g_reinstate g))) ++ enc_reinstate (g_reinstate g) tail).

Definition encode_groups (g : groups) : list N := encode_groups_tl g [].

(* Delta::encode, the map visited in the order [p] *)
Definition delta_encode (p : list prior) : list N := encode_groups (groups_of p).

(* ------------------------------------------------------------------------------------------- *)
(* decode                                                                                        *)

(* the [read_exact] that hit the end of the input *)
Inductive dstage :=
| SEraseCount        (* delta.rs:77 *)
| SEraseKey          (* delta.rs:82 *)
| SReinstateCount    (* delta.rs:90 *)
| SReinstateKey      (* delta.rs:96 *)
| SValueLen          (* delta.rs:99 *)
| SValue.            (* delta.rs:102 *)

Inductive delta_err :=
| DShort (st : dstage)              (* io::ErrorKind::UnexpectedEof from read_exact *)
| DDupErase (k : list N)            (* "duplicate key path (erase)", delta.rs:85 *)
| DDupReinstate (k : list N).       (* "duplicate key path (reinstate)", delta.rs:105 *)

Definition rd (A : Type) : Type := res delta_err (A * list N).

(* read_exact into a buffer of n bytes (n = 4 or 32) *)
Definition read_buf (st : dstage) (n : nat) (l : list N) : rd (list N) :=
  match take n l with Some p => Ok p | None => Err (DShort st) end.

(* read_exact into [buf; 4] + u32::from_le_bytes *)
Definition read_u32 (st : dstage) (l : list N) : rd N :=
  bind (read_buf st 4 l) (fun p => Ok (le_num (fst p), snd p)).

(* exactly the first n bytes (behind the reversed accumulator) and the rest; None when l is shorter *)
Fixpoint takeN (l : list N) (n : N) (acc : list N) : option (list N * list N) :=
  if n =? 0 then Some (rev_append acc [], l)
  else match l with
       | [] => None
       | x :: r => takeN r (N.pred n) (x :: acc)
       end.

(* value.resize(value_len) + read_exact(&mut value) *)
Definition read_val (n : N) (l : list N) : rd (list N) :=
  match takeN l n [] with Some p => Ok p | None => Err (DShort SValue) end.

(* HashMap::contains_key on the keys inserted so far *)
Definition mem (k : list N) (seen : list (list N)) : bool := existsb (bytes_eqb k) seen.

(* the loop of delta.rs:80-87.  [n] iterations are asked for; every iteration consumes 32 bytes, so
   a list longer than the remaining input is enough fuel (its elements are not looked at;
   [read_erase_fuel] in DeltaCodec_proofs.v: the fuel never runs out) *)
Fixpoint read_erase (fuel : list N) (n : N) (seen : list (list N)) (l : list N) : rd (list (list N)) :=
  if n =? 0 then Ok ([], l)
  else match fuel with
       | [] => Err (DShort SEraseKey)
       | _ :: f =>
           bind (read_buf SEraseKey 32 l) (fun k =>
           if mem (fst k) seen then Err (DDupErase (fst k))
           else bind (read_erase f (N.pred n) (fst k :: seen) (snd k)) (fun q =>
                Ok (fst k :: fst q, snd q)))
       end.

(* the loop of delta.rs:93-107: key, length, value, THEN the insertion into the map *)
Fixpoint read_reinstate (fuel : list N) (n : N) (seen : list (list N)) (l : list N)
  : rd (list (list N * list N)) :=
  if n =? 0 then Ok ([], l)
  else match fuel with
       | [] => Err (DShort SReinstateKey)
       | _ :: f =>
           bind (read_buf SReinstateKey 32 l) (fun k =>
           bind (read_u32 SValueLen (snd k)) (fun vl =>
           bind (read_val (fst vl) (snd vl)) (fun v =>
           if mem (fst k) seen then Err (DDupReinstate (fst k))
           else bind (read_reinstate f (N.pred n) (fst k :: seen) (snd v)) (fun q =>
                Ok ((fst k, fst v) :: fst q, snd q)))))
       end.

(* Delta::decode: the groups in the order of the bytes, and what the cursor has not consumed *)
Definition decode_groups (bytes : list N) : rd groups :=
  bind (read_u32 SEraseCount bytes) (fun c1 =>
  bind (read_erase (0 :: snd c1) (fst c1) [] (snd c1)) (fun er =>
  bind (read_u32 SReinstateCount (snd er)) (fun c2 =>
  bind (read_reinstate (0 :: snd c2) (fst c2) (fst er) (snd c2)) (fun re =>
  Ok (mkGroups (fst er) (fst re), snd re))))).

(* Delta::decode: the map *)
Definition delta_decode (bytes : list N) : res delta_err (list prior) :=
  bind (decode_groups bytes) (fun g => Ok (priors_of (fst g))).

(* what the harness asks for every record of a real rollback log (ocaml/delta_cmds.ml): the decoded
   groups, and whether encoding them again, in the decoded order, gives the payload back *)
Definition reencodes (bytes : list N) (g : groups) : bool := bytes_eqb (encode_groups g) bytes.
