(* C09 / C10: the BOOKKEEPING of the rollback log (nomt/src/rollback/mod.rs over nomt/src/seglog/mod.rs),
   as an executable model that follows the code line by line.

   Three pieces of state have to agree with each other at every moment, and three defects were found
   where they did not (F7a = c43d073, F7b = 49bf966, N8 = fddc5b8):
     * the in-memory log  InMemory { log: VecDeque<(RecordId, Delta)>, pending_truncate }   [b_mem, b_pend]
     * the segmented log  SegmentedLog { start_live, end_live, segments: Vec<Segment{id,min,max}> } plus what
       is PHYSICALLY in the segment files (a record survives as long as its segment file does and the
       file has not been cut in front of it)                                              [b_log]
     * the manifest fields rollback_start_live / rollback_end_live, written at every sync BEFORE the
       pruning (writeout_start -> manifest -> writeout_end)                                [b_man]
   and Rollback::read rebuilds the first two from the third and the files.

   Units: record lengths in 4 KiB blocks (RECORD_ALIGNMENT; a record of payload n bytes occupies
   ceil((12 + n) / 4096) blocks), max_segment_size in bytes.  Record ids start at 1 (0 = nil).
   The model is crash-free (power loss is RbProto.v's subject): [b_reopen] is a clean close + open.

   Ghost data: every record carries the number of the commit that appended it ([br_tag], a global
   counter [b_tag]).  Record ids are NOT unique over time - after a rollback that empties the log
   end_live is 0 again and the next record is number 1 again - the tags are, and the abstraction to the
   snapshot stack of Store.v goes through them.  No decision of the model looks at a tag.

   [variant]: VCur is the current (repaired) code; the other three revert exactly one of the repairs.
   Everything here is executable and extracted (coq/extract/Extract.v); the rbtrace engine replays every
   generated history in it and compares manifest range, physically present records and the outcome of
   every rollback with the real run (ocaml/rbbook_cmds.ml).  Theorems: RbBook_proofs.v. *)
From Coq Require Import List Bool Arith NArith Lia.
Import ListNotations.

Inductive variant :=
| VCur       (* the code as it is *)
| VPreF7a    (* before c43d073: a truncation publishes [min(start, pending), pending] *)
| VPreF7b    (* before 49bf966: Rollback::read keeps every delta of the manifest's range *)
| VPreN8.    (* before fddc5b8: "the truncation empties the log" decided by pending < start_live *)

(* ---- the segmented log ------------------------------------------------------------------------- *)
Record brec := { br_id : N; br_tag : N; br_len : N }.        (* record id, ghost commit number, blocks *)
Record bseg := { sg_id : N; sg_min : N; sg_max : N; sg_recs : list brec }.
   (* Segment { id, min, max } + the records physically in rollback.<id>.log, in file order *)
Record slog := { l_start : N; l_end : N; l_segs : list bseg }.   (* segments oldest first; the last one is the head *)

Inductive berr :=
| EPruneOldestAboveEnd     (* panic "New live start is greater than the live end" *)
| EPruneOldestBelowStart   (* panic "The new start of the live range is less than the existing live start" *)
| ETruncNotFound           (* "Failed to find the last live record in the head segment" *)
| EOpenNilMismatch         (* "Start live and end live must both be nil or both be non-nil" *)
| EOpenIdsNotOrdered       (* "IDs are not ordered" *)
| EOpenNoFirst             (* "Failed to find the first live segment" *)
| EOpenNoLast              (* "Failed to find the last live segment" *)
| EOpenGap                 (* "Gap in segment IDs" *)
| ETruncateNil.            (* Rollback::truncate: earliest_record_id.prev().unwrap() on the nil id *)

Inductive bres (A : Type) := BOk (a : A) | BErr (e : berr).
Arguments BOk {A} a.
Arguments BErr {A} e.

Definition proj (r : brec) : N * N := (br_id r, br_tag r).
Definition phys (segs : list bseg) : list brec := flat_map sg_recs segs.
Definition seg_blocks (g : bseg) : N := fold_right (fun r a => (br_len r + a)%N) 0%N (sg_recs g).

Definition log_empty : slog := {| l_start := 0; l_end := 0; l_segs := [] |}.

Fixpoint last_opt {A} (l : list A) : option A :=
  match l with
  | [] => None
  | [x] => Some x
  | _ :: r => last_opt r
  end.

(* gen_segment_id *)
Definition next_seg_id (segs : list bseg) : N :=
  match last_opt segs with None => 1%N | Some g => (sg_id g + 1)%N end.

(* the head segment writer exists iff there is a segment; its file_size is the size of the file *)
Definition head_full (segsz : N) (segs : list bseg) : bool :=
  match last_opt segs with None => true | Some g => N.leb segsz (4096 * seg_blocks g) end.

Fixpoint upd_last {A} (f : A -> A) (l : list A) : list A :=
  match l with
  | [] => []
  | [x] => [f x]
  | x :: r => x :: upd_last f r
  end.

(* SegmentedLog::append (seglog/mod.rs:182): returns the new record's id *)
Definition log_append (segsz : N) (l : slog) (tag len : N) : slog * N :=
  let rid := (l_end l + 1)%N in
  let segs1 :=
    if head_full segsz (l_segs l)
    then l_segs l ++ [{| sg_id := next_seg_id (l_segs l); sg_min := rid; sg_max := rid; sg_recs := [] |}]
    else l_segs l in
  let segs2 :=
    upd_last (fun g => {| sg_id := sg_id g;
                          sg_min := if N.eqb (sg_min g) 0 then rid else sg_min g;
                          sg_max := rid;
                          sg_recs := sg_recs g ++ [{| br_id := rid; br_tag := tag; br_len := len |}] |}) segs1 in
  ({| l_start := if N.eqb (l_start l) 0 then rid else l_start l; l_end := rid; l_segs := segs2 |}, rid).

(* the loop of prune_oldest: unlink the oldest segment while more than one is left and its max < new start *)
Fixpoint drop_old (ns : N) (segs : list bseg) : list bseg :=
  match segs with
  | g :: ((_ :: _) as rest) => if N.ltb (sg_max g) ns then drop_old ns rest else segs
  | _ => segs
  end.

(* SegmentedLog::prune_oldest (seglog/mod.rs:276) *)
Definition log_prune_oldest (ns : N) (l : slog) : bres slog :=
  if N.eqb ns 0 then BOk log_empty
  else match l_segs l with
       | [] => BOk l
       | _ =>
           if N.ltb (l_end l) ns then BErr EPruneOldestAboveEnd
           else if N.ltb ns (l_start l) then BErr EPruneOldestBelowStart
           else BOk {| l_start := ns; l_end := l_end l; l_segs := drop_old ns (l_segs l) |}
       end.

(* prune_recent locates the new head from the newest segment backwards: on the list newest first *)
Fixpoint drop_new (ne : N) (rsegs : list bseg) : list bseg :=
  match rsegs with
  | g :: ((_ :: _) as rest) => if N.leb (sg_min g) ne then rsegs else drop_new ne rest
  | _ => rsegs
  end.

(* scan_record_end + set_len: keep the records up to and including [ne]; None = "not found" *)
Fixpoint cut_at (ne : N) (recs : list brec) : option (list brec) :=
  match recs with
  | [] => None
  | r :: rest =>
      if N.eqb (br_id r) ne then Some [r]
      else match cut_at ne rest with Some l => Some (r :: l) | None => None end
  end.

(* the new head (first of the list newest first): truncate_head_segment, then segment.max = new end *)
Definition cut_head (ne : N) (rsegs : list bseg) : bres (list bseg) :=
  match rsegs with
  | [] => BOk []
  | g :: rest =>
      match cut_at ne (sg_recs g) with
      | None => BErr ETruncNotFound
      | Some recs => BOk ({| sg_id := sg_id g; sg_min := sg_min g; sg_max := ne; sg_recs := recs |} :: rest)
      end
  end.

(* SegmentedLog::prune_recent (seglog/mod.rs:332) *)
Definition log_prune_recent (ne : N) (l : slog) : bres slog :=
  if N.eqb ne 0 then BOk log_empty
  else match l_segs l with
       | [] => BOk l
       | _ =>
           match cut_head ne (drop_new ne (rev (l_segs l))) with
           | BErr e => BErr e
           | BOk rsegs => BOk {| l_start := l_start l; l_end := ne; l_segs := rev rsegs |}
           end
       end.

(* ---- seglog::open (seglog/mod.rs:667): Recovery ------------------------------------------------- *)
Record scanst := {
  sc_ls : option nat;            (* live_segment_start *)
  sc_le : option nat;            (* live_segment_end *)
  sc_loaded : list (N * N);      (* what process_record has been called with *)
  sc_last : option N;            (* per segment: last / min / max of scan_segment *)
  sc_mn : option N;
  sc_mx : option N
}.

Definition is_some {A} (o : option A) : bool := match o with Some _ => true | None => false end.

(* one iteration of the loop of scan_segment after read_header returned a record (start_live <> nil) *)
Definition rec_step (ms me : N) (idx : nat) (st : scanst) (r : brec) : bres scanst :=
  let id := br_id r in
  if match sc_last st with Some l => negb (N.eqb id (l + 1)) | None => false end then BErr EOpenIdsNotOrdered
  else
    let was_live := is_some (sc_ls st) && negb (is_some (sc_le st)) in
    let became_live := negb (is_some (sc_ls st)) && N.leb ms id in
    let ls' := if became_live then Some idx else sc_ls st in
    let became_nonlive := is_some ls' && negb (is_some (sc_le st)) && N.leb me id in
    let le' := if became_nonlive then Some idx else sc_le st in
    BOk {| sc_ls := ls'; sc_le := le';
           sc_loaded := if was_live || became_live || became_nonlive then sc_loaded st ++ [proj r] else sc_loaded st;
           sc_last := Some id;
           sc_mn := match sc_mn st with None => Some id | m => m end;
           sc_mx := match sc_mx st with None => Some id | Some m => Some (if N.ltb m id then id else m) end |}.

(* the loop: stops at the end of the file or as soon as the last live record has been seen *)
Fixpoint scan_recs (ms me : N) (idx : nat) (recs : list brec) (st : scanst) : bres scanst :=
  match recs with
  | [] => BOk st
  | r :: rest =>
      match sc_le st with
      | Some _ => BOk st
      | None =>
          match rec_step ms me idx st r with
          | BErr e => BErr e
          | BOk st' => scan_recs ms me idx rest st'
          end
      end
  end.

Definition opt_or0 (o : option N) : N := match o with Some x => x | None => 0%N end.

(* for i in 0..candidates.len() { scan_segment(i) }: candidates come back with min / max as scanned *)
Fixpoint scan_segs (ms me : N) (idx : nat) (segs : list bseg) (st : scanst) : bres (scanst * list bseg) :=
  match segs with
  | [] => BOk (st, [])
  | g :: rest =>
      match scan_recs ms me idx (sg_recs g)
              {| sc_ls := sc_ls st; sc_le := sc_le st; sc_loaded := sc_loaded st;
                 sc_last := None; sc_mn := None; sc_mx := None |} with
      | BErr e => BErr e
      | BOk st1 =>
          let g' := {| sg_id := sg_id g; sg_min := opt_or0 (sc_mn st1); sg_max := opt_or0 (sc_mx st1); sg_recs := sg_recs g |} in
          match scan_segs ms me (S idx) rest st1 with
          | BErr e => BErr e
          | BOk (st2, rest') => BOk (st2, g' :: rest')
          end
      end
  end.

(* check_live_segments_gapless *)
Fixpoint gapless (segs : list bseg) : bool :=
  match segs with
  | a :: ((b :: _) as t) => N.eqb (sg_id a) (sg_id b - 1) && gapless t
  | _ => true
  end.

Definition scan_init : scanst :=
  {| sc_ls := None; sc_le := None; sc_loaded := []; sc_last := None; sc_mn := None; sc_mx := None |}.

(* returns the log handle and the records handed to the callback *)
Definition log_open (ms me : N) (segs : list bseg) : bres (slog * list (N * N)) :=
  if xorb (N.eqb ms 0) (N.eqb me 0) then BErr EOpenNilMismatch
  else if N.eqb ms 0 then BOk (log_empty, [])        (* no scan; every segment file is removed *)
  else
    match scan_segs ms me 0 segs scan_init with
    | BErr e => BErr e
    | BOk (st, cands) =>
        match sc_ls st, sc_le st with
        | None, _ => BErr EOpenNoFirst
        | Some _, None => BErr EOpenNoLast
        | Some a, Some b =>
            let live := firstn (S b - a) (skipn a cands) in      (* remove_nonlive_segments *)
            if negb (gapless live) then BErr EOpenGap
            else match cut_head me (rev live) with               (* head.max = end_live; truncate_head_segment *)
                 | BErr e => BErr e
                 | BOk rlive => BOk ({| l_start := ms; l_end := me; l_segs := rev rlive |}, sc_loaded st)
                 end
        end
    end.

(* ---- the rollback log ---------------------------------------------------------------------------- *)
Record bstate := {
  b_mem : list (N * N);          (* InMemory::log, oldest first: (record id, ghost tag) *)
  b_pend : option N;             (* InMemory::pending_truncate *)
  b_log : slog;
  b_man : N * N;                 (* the manifest: rollback_start_live, rollback_end_live *)
  b_maxlen : nat;                (* max_rollback_log_len *)
  b_segsz : N;                   (* max_segment_size, bytes *)
  b_tag : N                      (* ghost: number of commits so far *)
}.

Definition b_init (maxlen : nat) (segsz : N) : bstate :=
  {| b_mem := []; b_pend := None; b_log := log_empty; b_man := (0%N, 0%N); b_maxlen := maxlen; b_segsz := segsz; b_tag := 0 |}.

Definition with_log (s : bstate) (mem : list (N * N)) (pend : option N) (l : slog) (man : N * N) : bstate :=
  {| b_mem := mem; b_pend := pend; b_log := l; b_man := man; b_maxlen := b_maxlen s; b_segsz := b_segsz s; b_tag := b_tag s |}.

(* Rollback::commit (mod.rs:192): append, push_recent *)
Definition b_commit (s : bstate) (len : N) : bstate :=
  let '(l, rid) := log_append (b_segsz s) (b_log s) (b_tag s) len in
  {| b_mem := b_mem s ++ [(rid, b_tag s)]; b_pend := b_pend s; b_log := l; b_man := b_man s;
     b_maxlen := b_maxlen s; b_segsz := b_segsz s; b_tag := (b_tag s + 1)%N |}.

(* Rollback::truncate (mod.rs:230), n > 0.  None = "not enough logged" (Ok(None)) *)
Definition b_truncate (s : bstate) (n : nat) : option (bres bstate) :=
  if Nat.ltb (length (b_mem s)) n then None
  else
    let k := length (b_mem s) - n in
    match skipn k (b_mem s) with
    | [] => Some (BOk s)                               (* n = 0: not called that way *)
    | (earliest, _) :: _ =>
        if N.eqb earliest 0 then Some (BErr ETruncateNil)
        else Some (BOk (with_log s (firstn k (b_mem s)) (Some (N.pred earliest)) (b_log s) (b_man s)))
    end.

(* writeout_start (mod.rs:281), the manifest, writeout_end (mod.rs:331) *)
Definition b_sync (v : variant) (s : bstate) : bres bstate :=
  match b_pend s with
  | Some pt =>
      let st := l_start (b_log s) in
      let '(ms, me) :=
        match v with
        | VPreF7a => (N.min st pt, pt)
        | VPreN8 => if N.ltb pt st then (0%N, 0%N) else (st, pt)
        | _ => match b_mem s with [] => (0%N, 0%N) | _ => (st, pt) end
        end in
      (* manifest := (ms, me); then prune_recent me *)
      match log_prune_recent me (b_log s) with
      | BErr e => BErr e
      | BOk l => BOk (with_log s (b_mem s) None l (ms, me))
      end
  | None =>
      let '(mem, pr) :=
        if Nat.ltb (b_maxlen s) (length (b_mem s))
        then match b_mem s with (id, _) :: rest => (rest, Some (id + 1)%N) | [] => ([], None) end
        else (b_mem s, None) in
      let man := (l_start (b_log s), l_end (b_log s)) in
      match pr with
      | None => BOk (with_log s mem None (b_log s) man)
      | Some ns =>
          match log_prune_oldest ns (b_log s) with
          | BErr e => BErr e
          | BOk l => BOk (with_log s mem None l man)
          end
      end
  end.

(* the loop of Rollback::read (mod.rs:149): while total_len > max { new_start = pop_oldest.id.next() } *)
Fixpoint trim_mem (maxlen : nat) (mem : list (N * N)) (ns : option N) : list (N * N) * option N :=
  match mem with
  | [] => (mem, ns)
  | x :: rest => if Nat.ltb maxlen (length mem) then trim_mem maxlen rest (Some (fst x + 1)%N) else (mem, ns)
  end.

(* Rollback::read (mod.rs:122) on the manifest and the files the previous handle left *)
Definition b_reopen (v : variant) (s : bstate) : bres bstate :=
  match log_open (fst (b_man s)) (snd (b_man s)) (l_segs (b_log s)) with
  | BErr e => BErr e
  | BOk (l, loaded) =>
      let '(mem, ns) := match v with VPreF7b => (loaded, None) | _ => trim_mem (b_maxlen s) loaded None end in
      match ns, mem with
      | Some n, _ :: _ =>
          match log_prune_oldest n l with
          | BErr e => BErr e
          | BOk l' => BOk (with_log s mem None l' (b_man s))
          end
      | _, _ => BOk (with_log s mem None l (b_man s))
      end
  end.

(* ---- operations of a history, each with the sync the code performs -------------------------------- *)
Inductive bop :=
| BCommit (len : N)        (* a session commit whose reverse delta occupies [len] blocks; Store::sync *)
| BRollback (n : nat)      (* Nomt::rollback n: truncate, apply the traceback as a commit without delta; sync *)
| BReopen.                 (* drop the handle, Nomt::open (no sync) *)

Inductive bout := OOk | ORefused | OFail (e : berr).

Definition lift (s : bstate) (r : bres bstate) : bstate * bout :=
  match r with BOk s' => (s', OOk) | BErr e => (s, OFail e) end.

Definition b_step (v : variant) (s : bstate) (op : bop) : bstate * bout :=
  match op with
  | BCommit len => lift s (b_sync v (b_commit s len))
  | BRollback O => (s, OOk)                                       (* lib.rs:614 *)
  | BRollback n =>
      match b_truncate s n with
      | None => (s, ORefused)                                     (* "rollback: not enough logged" *)
      | Some (BErr e) => (s, OFail e)
      | Some (BOk s1) => lift s (b_sync v s1)
      end
  | BReopen => lift s (b_reopen v s)
  end.

(* a run stops at the first failure (the handle is poisoned / the process is gone) *)
Fixpoint b_run (v : variant) (s : bstate) (ops : list bop) : bstate * list bout :=
  match ops with
  | [] => (s, [])
  | op :: rest =>
      let '(s', o) := b_step v s op in
      match o with
      | OFail _ => (s', [o])
      | _ => let '(s'', os) := b_run v s' rest in (s'', o :: os)
      end
  end.

(* ---- the specification: Store.v's bounded stack of snapshots, on snapshot NUMBERS ------------------ *)
(* Store.push_hist / Store.rollback / Store.reopen with the snapshot taken before commit number c named c *)
Definition sp_push (ml : nat) (h : list N) (c : N) : list N :=
  let h' := c :: h in if Nat.ltb ml (length h') then removelast h' else h'.

Definition sp_step (ml : nat) (sp : list N * N) (op : bop) : (list N * N) * bout :=
  let '(h, c) := sp in
  match op with
  | BCommit _ => ((sp_push ml h c, (c + 1)%N), OOk)
  | BRollback O => (sp, OOk)
  | BRollback n => if Nat.ltb (length h) n then (sp, ORefused) else ((skipn n h, c), OOk)
  | BReopen => (sp, OOk)
  end.

Fixpoint sp_run (ml : nat) (sp : list N * N) (ops : list bop) : (list N * N) * list bout :=
  match ops with
  | [] => (sp, [])
  | op :: rest =>
      let '(sp', o) := sp_step ml sp op in
      let '(sp'', os) := sp_run ml sp' rest in (sp'', o :: os)
  end.

(* the abstraction: the snapshots the handle can go back to, newest first *)
Definition b_abs (s : bstate) : list N := rev (map snd (b_mem s)).

(* ---- lock-step comparison (used for the refutations of the pre-fix variants and by the driver) ------ *)
Definition berr_eqb (a b : berr) : bool :=
  match a, b with
  | EPruneOldestAboveEnd, EPruneOldestAboveEnd | EPruneOldestBelowStart, EPruneOldestBelowStart
  | ETruncNotFound, ETruncNotFound | EOpenNilMismatch, EOpenNilMismatch | EOpenIdsNotOrdered, EOpenIdsNotOrdered
  | EOpenNoFirst, EOpenNoFirst | EOpenNoLast, EOpenNoLast | EOpenGap, EOpenGap | ETruncateNil, ETruncateNil => true
  | _, _ => false
  end.

Definition bout_eqb (a b : bout) : bool :=
  match a, b with
  | OOk, OOk | ORefused, ORefused => true
  | OFail x, OFail y => berr_eqb x y
  | _, _ => false
  end.

Fixpoint listN_eqb (a b : list N) : bool :=
  match a, b with
  | [], [] => true
  | x :: a', y :: b' => N.eqb x y && listN_eqb a' b'
  | _, _ => false
  end.

(* every operation has the specification's outcome and leaves the specification's stack *)
Fixpoint conforms (v : variant) (ml : nat) (s : bstate) (sp : list N * N) (ops : list bop) : bool :=
  match ops with
  | [] => true
  | op :: rest =>
      let '(s', o) := b_step v s op in
      let '(sp', so) := sp_step ml sp op in
      bout_eqb o so && listN_eqb (b_abs s') (fst sp') && conforms v ml s' sp' rest
  end.

Definition conforms0 (v : variant) (ml : nat) (segsz : N) (ops : list bop) : bool :=
  conforms v ml (b_init ml segsz) ([], 0%N) ops.

(* all sequences of length n over an alphabet *)
Fixpoint all_seqs {A} (alpha : list A) (n : nat) : list (list A) :=
  match n with
  | O => [[]]
  | S k => flat_map (fun w => map (fun a => a :: w) alpha) (all_seqs alpha k)
  end.
