(* C07, second half: a multi-proof aggregated from canonical path proofs answers every query as
   the individual path proofs do, and its update verification returns the root of the updated
   key/value set (hence agrees with the per-path update verifier and with the store). *)
From Coq Require Import List Bool Arith NArith Lia.
From Nomt Require Import Base Hash Trie Result PathProof BuildTrie VerifyUpdate Witness MultiProof MultiUpdate
  Base_proofs Trie_proofs PathProof_proofs BuildTrie_proofs VerifyUpdate_proofs MultiProof_proofs.
Import ListNotations.

(* ------------------------------------------------------------------------------------------ *)
(* The setting: an honest aggregation                                                          *)
(* ------------------------------------------------------------------------------------------ *)

(* [honest n S ks mp v]: mp is the aggregation of the canonical path proofs of the strictly
   ascending n-bit keys ks (with pairwise distinct terminals) against the key/value set S, and
   v is what verify returns for it against the root of S.  (By multi_complete_n such mp, v
   exist.)  The implementation has n = 256. *)
Definition honest {H : Hasher} (n : nat) (S : kv) (ks : list key)
           (mp : multi_proof H) (v : verified_multi_proof H) : Prop :=
  wf n S /\ ks <> [] /\ sorted_keys ks = true /\ (forall k, In k ks -> length k = n) /\
  NoDup (map (fun k => pp_terminal (canonical_proof H n S k)) ks) /\
  from_path_proofs H (map (canonical_proof H n S) ks) = Ok mp /\
  MultiProof.verify H mp (root_n H n S) = Ok v.

Lemma honest_inner : forall (H : Hasher), HasherOK H -> forall n S ks (mp : multi_proof H) v, honest n S ks mp v ->
  map (fun t => (vm_terminal t, vm_depth t)) (vmp_inner v) =
  map (fun p : path_proof H => (pp_terminal p, length (pp_siblings p))) (map (canonical_proof H n S) ks).
Proof.
  intros H OK n S ks mp v [Hwf [Hne [Hs [Hk [Hnd [Hfp Hv]]]]]].
  destruct (multi_complete_n H OK n S ks Hwf Hne Hs Hk Hnd) as [mp' [v' [H1 [H2 H3]]]].
  rewrite Hfp in H1. inversion H1; subst mp'. rewrite Hv in H2. inversion H2; subst v'. exact H3.
Qed.

(* what the canonical proof of a key looks like *)
Lemma canon_facts : forall (H : Hasher) n S k, wf n S -> length k = n ->
  let p := canonical_proof H n S k in
  let d := length (pp_siblings p) in
  d <= n /\ term_typed n (pp_terminal p) /\ d <= length (term_path (pp_terminal p)) /\
  firstn d (term_path (pp_terminal p)) = firstn d k.
Proof.
  intros H n S k Hwf Hk. unfold canonical_proof.
  destruct (walk H (mk n 0 S) k 0) as [s tm] eqn:Ew. cbn [pp_siblings pp_terminal].
  destruct (mk_walk H n S k s tm Hwf Hk Ew) as [Hl Htm].
  split; [exact Hl|]. destruct tm as [k' v'|p]; cbn [term_typed term_path].
  - destruct Htm as [Hin [Hf _]]. destruct Hwf as [_ Hlen]. rewrite (Hlen k' v' Hin).
    split; [reflexivity|]. split; [exact Hl|exact Hf].
  - destruct Htm as [-> _]. rewrite firstn_length, Hk. rewrite Nat.min_l by exact Hl.
    split; [exact Hl|]. split; [apply le_n|]. rewrite firstn_firstn, Nat.min_id. reflexivity.
Qed.

Lemma nth_error_map_inv : forall (A B : Type) (f : A -> B) l i y,
  nth_error (map f l) i = Some y -> exists x, nth_error l i = Some x /\ f x = y.
Proof.
  intros A B f l i y Hn. rewrite nth_error_map in Hn. destruct (nth_error l i) as [x|]; cbn in Hn; [|discriminate].
  exists x. split; [reflexivity|congruence].
Qed.

(* the i-th terminal of the verified multi-proof is the terminal of the i-th path proof *)
Lemma honest_nth : forall (H : Hasher), HasherOK H -> forall n S ks (mp : multi_proof H) v, honest n S ks mp v ->
  forall i,
    (forall ki, nth_error ks i = Some ki ->
       exists t, nth_error (vmp_inner v) i = Some t /\
         vm_terminal t = pp_terminal (canonical_proof H n S ki) /\
         vm_depth t = length (pp_siblings (canonical_proof H n S ki))) /\
    (forall t, nth_error (vmp_inner v) i = Some t ->
       exists ki, nth_error ks i = Some ki /\
         vm_terminal t = pp_terminal (canonical_proof H n S ki) /\
         vm_depth t = length (pp_siblings (canonical_proof H n S ki))).
Proof.
  intros H OK n S ks mp v Hh i. pose proof (honest_inner H OK n S ks mp v Hh) as Hi.
  rewrite map_map in Hi.
  assert (Hnth : nth_error (map (fun t => (vm_terminal t, vm_depth t)) (vmp_inner v)) i =
                 nth_error (map (fun x => (pp_terminal (canonical_proof H n S x),
                                           length (pp_siblings (canonical_proof H n S x)))) ks) i)
    by (rewrite Hi; reflexivity).
  rewrite !nth_error_map in Hnth. split.
  - intros ki Hk. rewrite Hk in Hnth. cbn [option_map] in Hnth.
    destruct (nth_error (vmp_inner v) i) as [t|]; cbn [option_map] in Hnth; [|discriminate].
    exists t. inversion Hnth. repeat split; assumption.
  - intros t Ht. rewrite Ht in Hnth. cbn [option_map] in Hnth.
    destruct (nth_error ks i) as [ki|]; cbn [option_map] in Hnth; [|discriminate].
    exists ki. inversion Hnth. repeat split; assumption.
Qed.

Lemma honest_typed : forall (H : Hasher), HasherOK H -> forall n S ks (mp : multi_proof H) v, honest n S ks mp v ->
  vmp_typed n v.
Proof.
  intros H OK n S ks mp v Hh t Hin. apply In_nth_error in Hin. destruct Hin as [i Hi].
  destruct (proj2 (honest_nth H OK n S ks mp v Hh i) t Hi) as [ki [Hk [Ht _]]].
  destruct Hh as [Hwf [_ [_ [Hlen _]]]].
  rewrite Ht. apply (canon_facts H n S ki Hwf). apply Hlen. eapply nth_error_In. exact Hk.
Qed.

Lemma honest_wf : forall (H : Hasher) n S ks (mp : multi_proof H) v, honest n S ks mp v -> vmp_wf v.
Proof. intros H n S ks mp v [_ [_ [_ [_ [_ [_ Hv]]]]]]. eapply verify_vmp_wf. exact Hv. Qed.

(* ------------------------------------------------------------------------------------------ *)
(* Binary search with a three-valued comparison: the unique Equal element is found              *)
(* ------------------------------------------------------------------------------------------ *)

Section BinSearch3.
  Context {E A : Type}.
  Variable f : A -> res E comparison.
  Variables (L : list A) (x : A) (R : list A).
  Hypothesis HL : forall y, In y L -> f y = Ok Lt.
  Hypothesis Hx : f x = Ok Eq.
  Hypothesis HR : forall y, In y R -> f y = Ok Gt.

  Lemma bs3_loop : forall fuel size base,
    1 <= size -> base + size <= length (L ++ x :: R) -> size <= fuel ->
    base <= length L -> length L < base + size ->
    binary_search_loop f (L ++ x :: R) fuel size base = Ok (length L).
  Proof.
    induction fuel as [|fuel IH]; intros size base Hs Hb Hfu H1 H2; [lia|].
    cbn [binary_search_loop].
    destruct (Nat.leb size 1) eqn:E1.
    - apply Nat.leb_le in E1. f_equal. lia.
    - apply Nat.leb_gt in E1.
      destruct (div2_bounds size ltac:(lia)) as [Hd1 [Hd2 Hd3]].
      unfold nth_res.
      destruct (nth_error (L ++ x :: R) (base + Nat.div2 size)) as [y|] eqn:En.
      2:{ apply nth_error_None in En. lia. }
      cbn [bind].
      destruct (Nat.lt_ge_cases (base + Nat.div2 size) (length L)) as [Hlt|Hge].
      + rewrite nth_error_app1 in En by exact Hlt.
        rewrite (HL y (nth_error_In _ _ En)). cbn [bind]. apply IH; lia.
      + rewrite nth_error_app2 in En by exact Hge.
        destruct (base + Nat.div2 size - length L) as [|j] eqn:Ej.
        * cbn [nth_error] in En. inversion En; subst y. rewrite Hx. cbn [bind]. apply IH; lia.
        * cbn [nth_error] in En. rewrite (HR y (nth_error_In _ _ En)). cbn [bind]. apply IH; lia.
  Qed.

  Lemma bs3_found : binary_search_by f (L ++ x :: R) = Ok (Found (length L)).
  Proof.
    unfold binary_search_by.
    destruct (L ++ x :: R) as [|a0 sl] eqn:Es.
    - destruct L; discriminate.
    - rewrite <- Es.
      assert (Hlen : length L < length (L ++ x :: R)) by (rewrite app_length; cbn [length]; lia).
      rewrite (bs3_loop (S (length (L ++ x :: R))) (length (L ++ x :: R)) 0) by lia.
      cbn [bind]. unfold nth_res. rewrite nth_error_app2 by lia. rewrite Nat.sub_diag. cbn [nth_error bind].
      rewrite Hx. reflexivity.
  Qed.
End BinSearch3.

(* ------------------------------------------------------------------------------------------ *)
(* keys below two different terminals are ordered as the terminals                              *)
(* ------------------------------------------------------------------------------------------ *)

Lemma diverge_lt : forall c (a b : key),
  firstn c a = firstn c b -> c < length a -> c < length b -> bit a c = false -> bit b c = true ->
  key_ltb a b = true.
Proof.
  intros c a b Hf Ha Hb Ba Bb.
  destruct (key_trichotomy a b) as [Hlt|[Heq|Hgt]]; [exact Hlt| |].
  - subst b. congruence.
  - rewrite (ltb_diverge c b a) in Hgt; [discriminate| | | | |]; try assumption. symmetry. exact Hf.
Qed.

Lemma bit_firstn : forall d (a : key) c, c < d -> bit (firstn d a) c = bit a c.
Proof.
  induction d as [|d IH]; intros a c Hc; [lia|].
  destruct a as [|x a]; [reflexivity|]. destruct c as [|c]; [reflexivity|].
  cbn [firstn]. unfold bit in *. cbn [nth]. apply IH. lia.
Qed.

Lemma firstn_firstn_le : forall (A : Type) c d (l : list A), c <= d -> firstn c (firstn d l) = firstn c l.
Proof. intros A c d l Hc. rewrite firstn_firstn. rewrite Nat.min_l by exact Hc. reflexivity. Qed.

(* a and b diverge (a first) strictly above da and db; ka follows a for da bits, kb follows b for
   db bits: then every cut of ka that reaches the divergence is below every such cut of kb *)
Lemma under_lt : forall (a b ka kb : key) da db ma mb,
  key_ltb a b = true ->
  common a b < da -> common a b < db -> da <= length a -> db <= length b ->
  firstn da ka = firstn da a -> firstn db kb = firstn db b ->
  da <= length ka -> db <= length kb ->
  common a b < ma -> common a b < mb ->
  key_ltb (firstn ma ka) (firstn mb kb) = true.
Proof.
  intros a b ka kb da db ma mb Hlt Hca Hcb Hla Hlb Hka Hkb Hlka Hlkb Hma Hmb.
  set (c := common a b) in *.
  pose proof (common_firstn a b) as Hcf. fold c in Hcf.
  pose proof (common_bit_diff a b ltac:(fold c; lia) ltac:(fold c; lia)) as Hbd. fold c in Hbd.
  assert (Hba : bit a c = false /\ bit b c = true).
  { destruct (bit a c) eqn:Ba, (bit b c) eqn:Bb; try congruence; [|split; reflexivity].
    rewrite (ltb_diverge c a b) in Hlt; [discriminate| | | | |]; try assumption; lia. }
  destruct Hba as [Ba Bb].
  assert (Fa : firstn c ka = firstn c a).
  { rewrite <- (firstn_firstn_le _ c da ka) by lia. rewrite Hka. apply firstn_firstn_le. lia. }
  assert (Fb : firstn c kb = firstn c b).
  { rewrite <- (firstn_firstn_le _ c db kb) by lia. rewrite Hkb. apply firstn_firstn_le. lia. }
  assert (Bka : bit ka c = false).
  { rewrite <- (bit_firstn da ka c) by lia. rewrite Hka. rewrite bit_firstn by lia. exact Ba. }
  assert (Bkb : bit kb c = true).
  { rewrite <- (bit_firstn db kb c) by lia. rewrite Hkb. rewrite bit_firstn by lia. exact Bb. }
  apply (diverge_lt c).
  - rewrite !firstn_firstn_le by lia. congruence.
  - rewrite firstn_length. lia.
  - rewrite firstn_length. lia.
  - rewrite bit_firstn by lia. exact Bka.
  - rewrite bit_firstn by lia. exact Bkb.
Qed.

Lemma sorted_mid : forall (A B : list key) x, sorted_keys (A ++ x :: B) = true ->
  (forall a, In a A -> key_ltb a x = true) /\ (forall b, In b B -> key_ltb x b = true).
Proof.
  intros A B x Hs. apply sorted_app_inv in Hs. destruct Hs as [_ [HB HAB]].
  apply sk_cons_iff in HB. destruct HB as [Hlb _]. split.
  - intros a Ha. apply HAB; [exact Ha|left; reflexivity].
  - exact Hlb.
Qed.

Lemma ltb_neq : forall a b, key_ltb a b = true -> a <> b.
Proof. intros a b Hlt ->. rewrite key_ltb_irrefl in Hlt. discriminate. Qed.

(* ------------------------------------------------------------------------------------------ *)
(* find_index_for finds the terminal a key lies under                                           *)
(* ------------------------------------------------------------------------------------------ *)

Definition under (t : verified_multi_path) (k : key) : Prop :=
  firstn (vm_depth t) k = firstn (vm_depth t) (vpath t).

Lemma find_index_complete : forall (H : Hasher) n (v : verified_multi_proof H) k A t B,
  vmp_wf v -> vmp_typed n v -> length k = n ->
  vmp_inner v = A ++ t :: B -> under t k ->
  find_index_for H v k = Ok (length A).
Proof.
  intros H n v k A t B Hwf Hty Hk Hi Hu. unfold find_index_for. rewrite Hi.
  destruct (vmp_wf_facts H v Hwf) as [Hs [Hd [_ [_ [_ Hcm]]]]].
  rewrite Hi in Hs. rewrite map_app in Hs. cbn [map] in Hs.
  destruct (sorted_mid _ _ _ Hs) as [HA HB].
  assert (Hint : In t (vmp_inner v)) by (rewrite Hi; apply in_or_app; right; left; reflexivity).
  assert (Hbnd : forall u, In u (vmp_inner v) -> vm_depth u <= length (vpath u) /\ length (vpath u) <= n).
  { intros u Hu'. split; [apply Hd; exact Hu'|]. apply term_typed_path. apply Hty. exact Hu'. }
  destruct (Hbnd t Hint) as [Hdt Hlt].
  rewrite (bs3_found _ A t B).
  - reflexivity.
  - intros u Hin.
    assert (Hinu : In u (vmp_inner v)) by (rewrite Hi; apply in_or_app; left; exact Hin).
    destruct (Hbnd u Hinu) as [Hdu Hlu]. fold (vpath u).
    rewrite slice_to_res_ok by lia. cbn [bind]. rewrite slice_to_res_ok by lia. cbn [bind].
    pose proof (HA (vpath u) (in_map vpath _ _ Hin)) as Hlt'.
    destruct (Hcm u t Hinu Hint (ltb_neq _ _ Hlt')) as [Hc1 _].
    destruct (Hcm t u Hint Hinu (fun e => ltb_neq _ _ Hlt' (eq_sym e))) as [Hc2 _].
    rewrite common_comm in Hc2.
    assert (Hl : key_ltb (firstn (vm_depth u) (vpath u)) (firstn (vm_depth u) k) = true).
    { apply (under_lt (vpath u) (vpath t) (vpath u) k (vm_depth u) (vm_depth t)); try assumption; try lia.
      reflexivity. }
    unfold key_cmp. rewrite Hl.
    destruct (key_eqb _ _) eqn:Ee; [|reflexivity].
    apply key_eqb_true_iff in Ee. rewrite Ee in Hl. rewrite key_ltb_irrefl in Hl. discriminate.
  - fold (vpath t). rewrite slice_to_res_ok by lia. cbn [bind]. rewrite slice_to_res_ok by lia. cbn [bind].
    unfold key_cmp. unfold under in Hu. rewrite Hu, key_eqb_refl. reflexivity.
  - intros u Hin.
    assert (Hinu : In u (vmp_inner v)) by (rewrite Hi; apply in_or_app; right; right; exact Hin).
    destruct (Hbnd u Hinu) as [Hdu Hlu]. fold (vpath u).
    rewrite slice_to_res_ok by lia. cbn [bind]. rewrite slice_to_res_ok by lia. cbn [bind].
    pose proof (HB (vpath u) (in_map vpath _ _ Hin)) as Hlt'.
    destruct (Hcm u t Hinu Hint (fun e => ltb_neq _ _ Hlt' (eq_sym e))) as [Hc1 _].
    destruct (Hcm t u Hint Hinu (ltb_neq _ _ Hlt')) as [Hc2 _].
    rewrite common_comm in Hc1.
    assert (Hl : key_ltb (firstn (vm_depth u) k) (firstn (vm_depth u) (vpath u)) = true).
    { apply (under_lt (vpath t) (vpath u) k (vpath u) (vm_depth t) (vm_depth u)); try assumption; try lia.
      reflexivity. }
    unfold key_cmp.
    destruct (key_eqb _ _) eqn:Ee.
    { apply key_eqb_true_iff in Ee. rewrite Ee in Hl. rewrite key_ltb_irrefl in Hl. discriminate. }
    rewrite (key_ltb_asym _ _ Hl). reflexivity.
Qed.

(* ------------------------------------------------------------------------------------------ *)
(* 1. Queries agree                                                                             *)
(* ------------------------------------------------------------------------------------------ *)

(* whenever an individual path proof answers a query, the multi-proof gives the same answer
   (any key length n; HasherCF is not needed) *)
Theorem multi_queries_agree_n : forall (H : Hasher), HasherOK H ->
  forall n S ks (mp : multi_proof H) v, honest n S ks mp v ->
  forall ki, In ki ks -> forall vp,
  PathProof.verify H (canonical_proof H n S ki) ki (root_n H n S) = Ok vp ->
  forall k x, length k = n ->
   (forall b, PathProof.confirm_value H vp k x = Ok b -> MultiProof.confirm_value H v (k, x) = Ok b) /\
   (forall b, PathProof.confirm_nonexistence H vp k = Ok b -> MultiProof.confirm_nonexistence H v k = Ok b).
Proof.
  intros H OK n S ks mp v Hh ki Hin vp Hvp k x Hk.
  pose proof Hh as [Hwf [_ [_ [Hlen _]]]].
  apply In_nth_error in Hin. destruct Hin as [i Hi].
  destruct (proj1 (honest_nth H OK n S ks mp v Hh i) ki Hi) as [t [Ht [Htm Htd]]].
  destruct (nth_error_split _ _ Ht) as [A [B [Hsplit HlA]]].
  destruct (PathProof_proofs.verify_ok_inv H _ _ _ _ Hvp) as [_ [_ [_ [Hpath [Hterm _]]]]].
  assert (Hki : length ki = n) by (apply Hlen; eapply nth_error_In; exact Hi).
  destruct (canon_facts H n S ki Hwf Hki) as [Hdn [_ [Hdl Hpf]]].
  set (p := canonical_proof H n S ki) in *. set (d := length (pp_siblings p)) in *.
  assert (Hscope : forall u, in_scope H vp k = Ok u -> find_index_for H v k = Ok i).
  { intros u Hu. apply in_scope_ok_inv in Hu. destruct Hu as [_ Hu2]. rewrite Hpath in Hu2.
    rewrite firstn_length, Hki in Hu2. rewrite Nat.min_l in Hu2 by exact Hdn.
    rewrite <- HlA. apply (find_index_complete H n v k A t B); try assumption.
    - eapply honest_wf; eassumption.
    - eapply honest_typed; eassumption.
    - unfold under, vpath. rewrite Htd, Htm. fold p d. rewrite Hu2, Hpf. reflexivity. }
  split; intros b Hc.
  - unfold PathProof.confirm_value in Hc.
    destruct (in_scope H vp k) as [u|e|] eqn:Es; cbn [bind] in Hc; try discriminate.
    unfold MultiProof.confirm_value. cbn [fst]. rewrite (Hscope u eq_refl). cbn [bind].
    unfold confirm_value_inner. rewrite (nth_res_ok _ _ _ _ _ Ht). cbn [bind fst snd].
    rewrite Htm. rewrite Hterm in Hc. fold p. destruct (pp_terminal p); exact Hc.
  - unfold PathProof.confirm_nonexistence in Hc.
    destruct (in_scope H vp k) as [u|e|] eqn:Es; cbn [bind] in Hc; try discriminate.
    unfold MultiProof.confirm_nonexistence. rewrite (Hscope u eq_refl). cbn [bind].
    unfold confirm_nonexistence_inner. rewrite (nth_res_ok _ _ _ _ _ Ht). cbn [bind].
    rewrite Htm. rewrite Hterm in Hc. fold p. destruct (pp_terminal p); exact Hc.
Qed.

Theorem multi_queries_agree : forall (H : Hasher), HasherOK H ->
  forall S ks (mp : multi_proof H) v, honest 256 S ks mp v ->
  forall ki, In ki ks -> forall vp,
  PathProof.verify H (canonical_proof H 256 S ki) ki (root_n H 256 S) = Ok vp ->
  forall k x, length k = 256 ->
   (forall b, PathProof.confirm_value H vp k x = Ok b -> MultiProof.confirm_value H v (k, x) = Ok b) /\
   (forall b, PathProof.confirm_nonexistence H vp k = Ok b -> MultiProof.confirm_nonexistence H v k = Ok b).
Proof. intros H OK S ks mp v. apply (multi_queries_agree_n H OK 256). Qed.

(* Converse: when the multi-proof locates a key (find_index_for = Ok i), the i-th individual path
   proof verifies, has the key in scope, and gives exactly the same answers.  (n <= 256 because
   PathProof.verify bounds the number of siblings by 256.) *)
Theorem multi_queries_converse_n : forall (H : Hasher), HasherOK H ->
  forall n S ks (mp : multi_proof H) v, n <= 256 -> honest n S ks mp v ->
  forall k, length k = n -> forall i, find_index_for H v k = Ok i ->
  exists ki vp, nth_error ks i = Some ki /\
    PathProof.verify H (canonical_proof H n S ki) ki (root_n H n S) = Ok vp /\
    (forall x, PathProof.confirm_value H vp k x = MultiProof.confirm_value H v (k, x)) /\
    PathProof.confirm_nonexistence H vp k = MultiProof.confirm_nonexistence H v k.
Proof.
  intros H OK n S ks mp v Hn Hh k Hk i Hf.
  pose proof Hh as [Hwf [_ [_ [Hlen _]]]].
  destruct (find_index_inv H v k i Hf) as [t [Ht [Hdk Hpre]]].
  destruct (proj2 (honest_nth H OK n S ks mp v Hh i) t Ht) as [ki [Hi [Htm Htd]]].
  assert (Hki : length ki = n) by (apply Hlen; eapply nth_error_In; exact Hi).
  destruct (C05_complete H OK n S ki Hn Hwf Hki) as [vp [Hvp _]].
  destruct (PathProof_proofs.verify_ok_inv H _ _ _ _ Hvp) as [_ [_ [_ [Hpath [Hterm _]]]]].
  destruct (canon_facts H n S ki Hwf Hki) as [Hdn [_ [Hdl Hpf]]].
  set (p := canonical_proof H n S ki) in *. set (d := length (pp_siblings p)) in *.
  exists ki, vp. split; [exact Hi|]. split; [exact Hvp|].
  assert (Hsc : in_scope H vp k = Ok tt).
  { unfold in_scope. rewrite Hpath, firstn_length, Hki, Nat.min_l by exact Hdn.
    assert (E : Nat.ltb (length k) d = false) by (apply Nat.ltb_ge; lia). rewrite E.
    unfold vpath in Hpre. rewrite Htd, Htm in Hpre. fold p d in Hpre. rewrite <- Hpre, Hpf.
    rewrite key_eqb_refl. reflexivity. }
  split.
  - intros x. unfold PathProof.confirm_value, MultiProof.confirm_value. cbn [fst].
    rewrite Hsc, Hf. cbn [bind]. unfold confirm_value_inner. rewrite (nth_res_ok _ _ _ _ _ Ht).
    cbn [bind fst snd]. rewrite Htm, Hterm. fold p. destruct (pp_terminal p); reflexivity.
  - unfold PathProof.confirm_nonexistence, MultiProof.confirm_nonexistence.
    rewrite Hsc, Hf. cbn [bind]. unfold confirm_nonexistence_inner. rewrite (nth_res_ok _ _ _ _ _ Ht).
    cbn [bind]. rewrite Htm, Hterm. fold p. destruct (pp_terminal p); reflexivity.
Qed.

(* the converse in the form asked for: an answer of the multi-proof is the answer of one of the
   individual proofs *)
Corollary multi_queries_converse : forall (H : Hasher), HasherOK H ->
  forall S ks (mp : multi_proof H) v, honest 256 S ks mp v ->
  forall k x, length k = 256 ->
   (forall b, MultiProof.confirm_value H v (k, x) = Ok b ->
      exists ki vp, In ki ks /\
        PathProof.verify H (canonical_proof H 256 S ki) ki (root_n H 256 S) = Ok vp /\
        PathProof.confirm_value H vp k x = Ok b) /\
   (forall b, MultiProof.confirm_nonexistence H v k = Ok b ->
      exists ki vp, In ki ks /\
        PathProof.verify H (canonical_proof H 256 S ki) ki (root_n H 256 S) = Ok vp /\
        PathProof.confirm_nonexistence H vp k = Ok b).
Proof.
  intros H OK S ks mp v Hh k x Hk. split; intros b Hc.
  - assert (Hfi : exists i, find_index_for H v k = Ok i).
    { unfold MultiProof.confirm_value in Hc. cbn [fst] in Hc.
      destruct (find_index_for H v k) as [i|e|]; cbn [bind] in Hc; try discriminate. exists i. reflexivity. }
    destruct Hfi as [i Hf].
    destruct (multi_queries_converse_n H OK 256 S ks mp v (le_n _) Hh k Hk i Hf) as [ki [vp [Hi [Hvp [Hcv _]]]]].
    exists ki, vp. split; [eapply nth_error_In; exact Hi|]. split; [exact Hvp|]. rewrite Hcv. exact Hc.
  - assert (Hfi : exists i, find_index_for H v k = Ok i).
    { unfold MultiProof.confirm_nonexistence in Hc.
      destruct (find_index_for H v k) as [i|e|]; cbn [bind] in Hc; try discriminate. exists i. reflexivity. }
    destruct Hfi as [i Hf].
    destruct (multi_queries_converse_n H OK 256 S ks mp v (le_n _) Hh k Hk i Hf) as [ki [vp [Hi [Hvp [_ Hcn]]]]].
    exists ki, vp. split; [eapply nth_error_In; exact Hi|]. split; [exact Hvp|]. rewrite Hcn. exact Hc.
Qed.

(* ------------------------------------------------------------------------------------------ *)
(* 2. Update agrees                                                                             *)
(* ------------------------------------------------------------------------------------------ *)

(* 2a. Descending a chain of bits in a key/value set, in a write set, and the sibling hashes the
   canonical trie has along the chain. *)

Fixpoint sides (bits : key) (d : nat) (L : kv) : kv :=
  match bits with [] => L | b :: bs => sides bs (S d) (side b d L) end.

Fixpoint gsides (bits : key) (d : nat) (W : wlist) : wlist :=
  match bits with [] => W | b :: bs => gsides bs (S d) (gside b d W) end.

Lemma sides_app : forall a b d L, sides (a ++ b) d L = sides b (d + length a) (sides a d L).
Proof.
  induction a as [|x a IH]; intros b d L; cbn [app sides length].
  - rewrite Nat.add_0_r. reflexivity.
  - rewrite IH. replace (S d + length a) with (d + S (length a)) by lia. reflexivity.
Qed.

Lemma goodkv_sides : forall n bits d p L, d + length bits <= n -> goodkv n d p L ->
  goodkv n (d + length bits) (p ++ bits) (sides bits d L).
Proof.
  intros n. induction bits as [|b bs IH]; intros d p L Hd Hg; cbn [sides length].
  - rewrite Nat.add_0_r, app_nil_r. exact Hg.
  - cbn [length] in Hd. replace (d + S (length bs)) with (S d + length bs) by lia.
    replace (p ++ b :: bs) with ((p ++ [b]) ++ bs) by (rewrite <- app_assoc; reflexivity).
    apply IH; [lia|]. apply goodkv_side; [lia|exact Hg].
Qed.

Lemma goodW_gsides : forall n bits d p W, d + length bits <= n -> goodW n d p W ->
  goodW n (d + length bits) (p ++ bits) (gsides bits d W).
Proof.
  intros n. induction bits as [|b bs IH]; intros d p W Hd Hg; cbn [gsides length].
  - rewrite Nat.add_0_r, app_nil_r. exact Hg.
  - cbn [length] in Hd. replace (d + S (length bs)) with (S d + length bs) by lia.
    replace (p ++ b :: bs) with ((p ++ [b]) ++ bs) by (rewrite <- app_assoc; reflexivity).
    apply IH; [lia|]. apply goodW_gside; [lia|exact Hg].
Qed.

Lemma upd_rel_sides : forall bits d L W L', upd_rel L W L' ->
  upd_rel (sides bits d L) (gsides bits d W) (sides bits d L').
Proof.
  induction bits as [|b bs IH]; intros d L W L' Hu; cbn [sides gsides]; [exact Hu|].
  apply IH. apply upd_rel_side. exact Hu.
Qed.

(* write sets that lie below a chain are not changed by descending it, and leave nothing for the
   siblings along the chain *)
Lemma gside_same : forall (p : key) b r d (W : wlist), length p = d ->
  (forall c, In c W -> has_pfx (p ++ b :: r) (fst c)) -> gside b d W = W.
Proof.
  intros p b r d W Hp Hall. unfold gside. apply filter_all. intros c Hc.
  rewrite <- Hp. rewrite (has_pfx_bit _ _ _ _ (Hall c Hc)). apply Bool.eqb_reflx.
Qed.

Lemma gside_other : forall (p : key) b r d (W : wlist), length p = d ->
  (forall c, In c W -> has_pfx (p ++ b :: r) (fst c)) -> gside (negb b) d W = [].
Proof.
  intros p b r d W Hp Hall. unfold gside. apply filter_none. intros c Hc.
  rewrite <- Hp. rewrite (has_pfx_bit _ _ _ _ (Hall c Hc)). destruct b; reflexivity.
Qed.

Lemma gsides_same : forall bits (p : key) d (W : wlist), length p = d ->
  (forall c, In c W -> has_pfx (p ++ bits) (fst c)) -> gsides bits d W = W.
Proof.
  induction bits as [|b bs IH]; intros p d W Hp Hall; cbn [gsides]; [reflexivity|].
  rewrite (gside_same p b bs d W Hp Hall).
  apply (IH (p ++ [b])).
  - rewrite app_length. cbn [length]. lia.
  - intros c Hc. rewrite <- app_assoc. apply Hall. exact Hc.
Qed.

Section Chain.
  Variable H : Hasher.
  Hypothesis HOK : HasherOK H.
  Variable n : nat.

  (* the siblings of the chain [bits] below depth d in the canonical trie of L, root first *)
  Fixpoint chain_sibs (bits : key) (d : nat) (L : kv) : list (node H) :=
    match bits with
    | [] => []
    | b :: bs => hash H (mk (n - S d) (S d) (side (negb b) d L)) :: chain_sibs bs (S d) (side b d L)
    end.

  Lemma chain_sibs_length : forall bits d L, length (chain_sibs bits d L) = length bits.
  Proof. induction bits as [|b bs IH]; intros d L; cbn [chain_sibs length]; [reflexivity|]. rewrite IH. reflexivity. Qed.

  Lemma chain_sibs_app : forall a b d L,
    chain_sibs (a ++ b) d L = chain_sibs a d L ++ chain_sibs b (d + length a) (sides a d L).
  Proof.
    induction a as [|x a IH]; intros b d L; cbn [app chain_sibs sides length].
    - rewrite Nat.add_0_r. reflexivity.
    - rewrite IH. replace (S d + length a) with (d + S (length a)) by lia. reflexivity.
  Qed.

  (* climbing with compaction: bits deepest first, siblings deepest first *)
  Fixpoint cup (nd : node H) (bits_rev : list bool) (sibs_rev : list (node H)) : node H :=
    match bits_rev, sibs_rev with
    | b :: bs, s :: ss => cup (cnode H nd s b) bs ss
    | _, _ => nd
    end.

  Lemma cup_snoc : forall bs ss nd b s, length bs = length ss ->
    cup nd (bs ++ [b]) (ss ++ [s]) = cnode H (cup nd bs ss) s b.
  Proof.
    induction bs as [|x bs IH]; intros [|y ss] nd b s Hl; cbn [length] in Hl; try discriminate.
    - reflexivity.
    - cbn [app cup]. apply IH. lia.
  Qed.

  (* climbing the chain from the updated sub-trie at its bottom, past the (untouched) siblings
     of the old trie, gives the updated sub-trie at its top *)
  Lemma cup_chain : forall bits d p L L' W,
    length p = d -> d + length bits <= n ->
    goodkv n d p L -> goodkv n d p L' -> upd_rel L W L' ->
    (forall c, In c W -> has_pfx (p ++ bits) (fst c)) ->
    cup (hash H (mk (n - (d + length bits)) (d + length bits) (sides bits d L')))
        (rev bits) (rev (chain_sibs bits d L))
    = hash H (mk (n - d) d L').
  Proof.
    induction bits as [|b bs IH]; intros d p L L' W Hp Hd HL HL' Hu Hall.
    - cbn [length rev cup sides]. rewrite Nat.add_0_r. reflexivity.
    - cbn [length] in Hd. cbn [rev chain_sibs sides length].
      rewrite cup_snoc by (rewrite !rev_length, chain_sibs_length; reflexivity).
      replace (d + S (length bs)) with (S d + length bs) by lia.
      rewrite (IH (S d) (p ++ [b]) (side b d L) (side b d L') (gside b d W)).
      + rewrite <- (mk_untouched n d p (n - S d) (negb b) L W L' HL HL' Hu (gside_other p b bs d W Hp Hall)).
        replace (n - d) with (S (n - S d)) by lia.
        apply (cnode_mk H HOK).
        * apply HL'.
        * intros k x Hin. destruct HL' as [_ HL']. destruct (HL' k x Hin) as [Hk _]. lia.
        * eapply goodkv_agree. exact HL'.
      + rewrite app_length. cbn [length]. lia.
      + lia.
      + apply goodkv_side; [lia|exact HL].
      + apply goodkv_side; [lia|exact HL'].
      + apply upd_rel_side. exact Hu.
      + intros c Hc. apply In_gside in Hc. destruct Hc as [Hc _]. rewrite <- app_assoc. apply Hall. exact Hc.
  Qed.
End Chain.

(* 2b. The climbing loop with the values it computes *)

Section Climb.
  Variable H : Hasher.
  Notation err := multi_verify_update_error.
  Notation cs_t := (common_siblings_t H).
  Notation pend := (list (node H * nat)).

  Lemma compact_unique_val : forall sl bits nd base (P : pend) (cs : cs_t) st0,
    length bits = length sl ->
    Forall (fun p => snd p <= base) P ->
    cs_stack cs = push_enumerated H (S base) sl st0 ->
    compact_loop H bits nd (base + length sl) P cs = Ok (cup H nd bits (rev sl), P, set_stack H cs st0).
  Proof.
    induction sl as [|s sl IH] using rev_ind; intros bits nd base P cs st0 Hl HP Hst.
    - destruct bits; [|discriminate]. cbn [compact_loop rev cup].
      cbn [push_enumerated] in Hst. destruct cs; cbn in *; subst; reflexivity.
    - rewrite app_length in *. cbn [length] in *.
      destruct bits as [|b bits]; [cbn in Hl; lia|]. cbn [length] in Hl.
      rewrite push_enumerated_snoc in Hst.
      cbn [compact_loop].
      assert (Hpop : pop_if_at_depth H cs (base + (length sl + 1)) =
                     (Some s, set_stack H cs (push_enumerated H (S base) sl st0))).
      { unfold pop_if_at_depth. rewrite Hst.
        replace (S base + length sl) with (base + (length sl + 1)) by lia.
        rewrite Nat.eqb_refl. reflexivity. }
      assert (Hsel : match P with
                     | (s0, l) :: ps =>
                         if Nat.eqb l (base + (length sl + 1))
                         then Ok (s0, ps, snd (pop_if_at_depth H cs (base + (length sl + 1))))
                         else match pop_if_at_depth H cs (base + (length sl + 1)) with
                              | (Some s1, cs') => Ok (s1, P, cs')
                              | (None, _) => Panic
                              end
                     | [] => match pop_if_at_depth H cs (base + (length sl + 1)) with
                             | (Some s1, cs') => Ok (s1, P, cs')
                             | (None, _) => @Panic err _
                             end
                     end = Ok (s, P, set_stack H cs (push_enumerated H (S base) sl st0))).
      { rewrite Hpop. destruct P as [|[s0 l] ps]; [reflexivity|].
        inversion HP as [|x l' Hx Hl']; subst. cbn [snd] in Hx.
        assert (E : Nat.eqb l (base + (length sl + 1)) = false) by (apply Nat.eqb_neq; lia).
        rewrite E. reflexivity. }
      rewrite Hsel. cbn [bind].
      rewrite sub_res_ok by lia. cbn [bind].
      replace (base + (length sl + 1) - 1) with (base + length sl) by lia.
      rewrite rev_app_distr. cbn [rev app cup].
      match goal with |- compact_loop H bits ?x _ _ _ = _ =>
        rewrite (IH bits x base P (set_stack H cs (push_enumerated H (S base) sl st0)) st0
                    ltac:(lia) HP eq_refl) end.
      reflexivity.
  Qed.

  Lemma compact_pending_val : forall b bits nd L s (P : pend) (cs : cs_t),
    1 <= L ->
    match cs_stack cs with (d, _) :: _ => d <> L | [] => True end ->
    compact_loop H (b :: bits) nd L ((s, L) :: P) cs = compact_loop H bits (cnode H nd s b) (L - 1) P cs.
  Proof.
    intros b bits nd L s P cs HL Hst. cbn [compact_loop]. rewrite Nat.eqb_refl.
    assert (Hp : snd (pop_if_at_depth H cs L) = cs).
    { unfold pop_if_at_depth. destruct (cs_stack cs) as [|[d x] st]; [reflexivity|].
      apply Nat.eqb_neq in Hst. rewrite Hst. reflexivity. }
    rewrite Hp. cbn [bind]. rewrite sub_res_ok by lia. cbn [bind]. reflexivity.
  Qed.

  Lemma hct_eq_val : forall n (P : pend) t nx (cs : cs_t) ops e sub,
    vm_depth t <= length (vpath t) ->
    end_layer_ok t nx e -> e <= vm_depth t ->
    build_trie H n (vm_depth t) (leaf_ops_spliced (as_leaf_option (vm_terminal t)) ops) = Ok sub ->
    hash_and_compact_terminal H n P t nx cs ops =
    finish H (rev (skipn e (firstn (vm_depth t) (vpath t)))) e (sub, P, cs).
  Proof.
    intros n P t nx cs ops e sub Hd He Hed Hsub.
    unfold hash_and_compact_terminal. cbv zeta.
    assert (Hup : match nx with
                  | Some next_terminal =>
                      if Nat.eqb (common (term_path (vm_terminal t)) (term_path (vm_terminal next_terminal)))
                                 (vm_depth t)
                      then Err MultiPathPrefixOfAnother
                      else sub_res (vm_depth t)
                             (common (term_path (vm_terminal t)) (term_path (vm_terminal next_terminal)) + 1)
                  | None => Ok (vm_depth t)
                  end = @Ok err _ (vm_depth t - e)).
    { destruct nx as [t'|]; cbn [end_layer_ok] in He.
      - fold (vpath t) (vpath t').
        assert (E : Nat.eqb (common (vpath t) (vpath t')) (vm_depth t) = false) by (apply Nat.eqb_neq; lia).
        rewrite E. rewrite sub_res_ok by lia. rewrite He. reflexivity.
      - subst e. rewrite Nat.sub_0_r. reflexivity. }
    rewrite Hup. cbn [bind]. rewrite Hsub. cbn [bind].
    fold (vpath t). rewrite slice_to_res_ok by exact Hd. cbn [bind].
    unfold finish.
    rewrite firstn_rev. rewrite firstn_length, Nat.min_l by exact Hd.
    replace (vm_depth t - (vm_depth t - e)) with e by lia.
    rewrite rev_length, skipn_length, firstn_length, Nat.min_l by exact Hd.
    replace (e + (vm_depth t - e)) with (vm_depth t) by lia.
    reflexivity.
  Qed.
End Climb.

(* 2c. The shape of an honest verified multi-proof: the relation VR of MultiProof_proofs, with
   the key/value set [L] whose canonical sub-trie the range proves in place of the node: the
   terminals are the bottoms of their chains, the siblings are the sibling hashes of the chains. *)

Definition term_kv (t : terminal) (L : kv) : Prop :=
  match t with TLeaf k x => L = [(k, x)] | TTerm _ => L = [] end.

Section HShape.
  Variable H : Hasher.
  Variable n : nat.
  Variable sibs : list (node H).

  Inductive HVR : key -> nat -> nat -> kv ->
                  list verified_multi_path -> list verified_bisection -> Prop :=
  | HVR_one : forall pfx off t d L,
      has_pfx pfx (term_path t) ->
      length pfx <= d -> d <= length (term_path t) ->
      off + (d - length pfx) <= length sibs ->
      term_kv t (sides (firstn (d - length pfx) (skipn (length pfx) (term_path t))) (length pfx) L) ->
      firstn (d - length pfx) (skipn off sibs) =
        chain_sibs H n (firstn (d - length pfx) (skipn (length pfx) (term_path t))) (length pfx) L ->
      HVR pfx off (d - length pfx) L
          [{| vm_terminal := t; vm_depth := d;
              vm_unique_siblings_start := off;
              vm_unique_siblings_end := off + (d - length pfx) |}]
          []
  | HVR_split : forall pfx cb off lu ru L TL TR BL BR,
      firstn (length cb) (skipn off sibs) = chain_sibs H n cb (length pfx) L ->
      HVR (pfx ++ cb ++ [false]) (off + length cb) lu
          (side false (length pfx + length cb) (sides cb (length pfx) L)) TL BL ->
      HVR (pfx ++ cb ++ [true]) (off + length cb + lu) ru
          (side true (length pfx + length cb) (sides cb (length pfx) L)) TR BR ->
      HVR pfx off (length cb + lu + ru) L
          (TL ++ TR)
          ((if Nat.ltb 0 (length cb)
            then [{| vb_start_depth := length pfx;
                     vb_common_siblings_start := off;
                     vb_common_siblings_end := off + length cb |}]
            else []) ++ BL ++ BR).

  Lemma HVR_VR : forall pfx off used L T B, HVR pfx off used L T B ->
    exists nd, VR sibs pfx off used nd T B.
  Proof.
    intros pfx off used L T B HV.
    induction HV as [pfx off t d L Hp H1 H2 H3 Hk Hs|pfx cb off lu ru L TL TR BL BR Hs HL IHL HR IHR].
    - eexists. apply VR_one; assumption.
    - destruct IHL as [ln IHL]. destruct IHR as [rn IHR]. eexists. apply VR_split; eassumption.
  Qed.
End HShape.

(* 2d. Running the terminals of an honest range computes the updated sub-trie *)

Lemma has_pfx_under : forall (q a k : key) d,
  has_pfx q a -> length q <= d -> firstn d k = firstn d a -> has_pfx q k.
Proof.
  intros q a k d Hq Hd Hf. unfold has_pfx in *.
  rewrite <- (firstn_firstn_le _ (length q) d k) by exact Hd. rewrite Hf.
  rewrite firstn_firstn_le by exact Hd. exact Hq.
Qed.

Lemma concat_under : forall n (q : key) T opss,
  Forall2 (ops_ok n) T opss ->
  (forall t, In t T -> has_pfx q (vpath t) /\ length q <= vm_depth t) ->
  forall c, In c (concat opss) -> has_pfx q (fst c) /\ length (fst c) = n.
Proof.
  intros n q T opss HF. induction HF as [|t ops T opss Hok HF IH]; intros Hall c Hc; [destruct Hc|].
  cbn [concat] in Hc. apply in_app_or in Hc. destruct Hc as [Hc|Hc].
  - destruct Hok as [_ Hok]. destruct (Hok c Hc) as [Hl Hf].
    destruct (Hall t (or_introl eq_refl)) as [Hq Hd].
    split; [|exact Hl]. eapply has_pfx_under; eassumption.
  - apply IH; [|exact Hc]. intros t' Hin. apply Hall. right. exact Hin.
Qed.

Lemma gside_app_split : forall (q : key) d (WL WR : wlist), length q = d ->
  (forall c, In c WL -> has_pfx (q ++ [false]) (fst c)) ->
  (forall c, In c WR -> has_pfx (q ++ [true]) (fst c)) ->
  gside false d (WL ++ WR) = WL /\ gside true d (WL ++ WR) = WR.
Proof.
  intros q d WL WR Hq HL HR. unfold gside. rewrite !filter_app.
  assert (BL : forall c, In c WL -> bit (fst c) d = false).
  { intros c Hc. rewrite <- Hq. apply (has_pfx_bit q false [] (fst c)). apply HL. exact Hc. }
  assert (BR : forall c, In c WR -> bit (fst c) d = true).
  { intros c Hc. rewrite <- Hq. apply (has_pfx_bit q true [] (fst c)). apply HR. exact Hc. }
  split.
  - rewrite (filter_all _ _ WL) by (intros c Hc; rewrite (BL c Hc); reflexivity).
    rewrite (filter_none _ _ WR) by (intros c Hc; rewrite (BR c Hc); reflexivity).
    apply app_nil_r.
  - rewrite (filter_none _ _ WL) by (intros c Hc; rewrite (BL c Hc); reflexivity).
    rewrite (filter_all _ _ WR) by (intros c Hc; rewrite (BR c Hc); reflexivity).
    reflexivity.
Qed.

Section HRun.
  Variable H : Hasher.
  Hypothesis HOK : HasherOK H.
  Variable n : nat.                      (* KEYLEN *)
  Variable v : verified_multi_proof H.

  Notation inner := (vmp_inner v).
  Notation bis := (vmp_bisections v).
  Notation sibs := (vmp_siblings v).
  Notation err := multi_verify_update_error.
  Notation cs_t := (common_siblings_t H).
  Notation pend := (list (node H * nat)).

  Lemma hrange_run : forall pfx off used L T B,
    HVR H n sibs pfx off used L T B ->
    forall preT postT preB postB e opss (P0 : pend) (cs0 : cs_t) fuel prune L',
      inner = preT ++ T ++ postT ->
      bis = preB ++ B ++ postB ->
      (forall t, In t T -> term_typed n (vm_terminal t)) ->
      e <= length pfx ->
      end_layer_ok (last T dummy_path) (nth_error inner (length preT + length T)) e ->
      Forall2 (ops_ok n) T opss ->
      Forall (fun p => snd p <= length pfx) P0 ->
      Forall (fun x => fst x < length pfx) (cs_stack cs0) ->
      cs_terminal_index cs0 = length preT ->
      cs_bisection_index cs0 = length preB ->
      cs_taken_siblings cs0 = off ->
      length bis + 1 <= fuel + length preB ->
      goodkv n (length pfx) pfx L -> goodkv n (length pfx) pfx L' ->
      upd_rel L (concat opss) L' ->
      sorted_keys (map fst (concat opss)) = true ->
      exists cs1 : cs_t,
        rung H n v fuel prune (length preT) opss (P0, cs0) =
          finish H (rev (skipn e pfx)) e (hash H (mk (n - length pfx) (length pfx) L'), P0, cs1) /\
        cs_stack cs1 = cs_stack cs0 /\ cs_taken_siblings cs1 = off + used /\
        cs_terminal_index cs1 = length preT + length T /\
        cs_bisection_index cs1 = length preB + length B.
  Proof.
    intros pfx off used L T B HV.
    induction HV as [pfx off t d L Hp H1 H2 H3 Hkv Hsib|pfx cb off lu ru L TL TR BL BR Hsib HL IHL HR IHR];
      intros preT postT preB postB e opss P0 cs0 fuel prune L' HiT HiB Hty He Hel Hops HP0 Hst0 Hti Hbi Htk Hfuel
             HgL HgL' Hupd Hsort.
    - (* one terminal *)
      inversion Hops as [|t' ops T' opss' Hok Hrest]; subst. inversion Hrest; subst. clear Hops Hrest.
      cbn [concat] in Hupd, Hsort. rewrite app_nil_r in Hupd, Hsort.
      set (tt := {| vm_terminal := t; vm_depth := d; vm_unique_siblings_start := cs_taken_siblings cs0;
                    vm_unique_siblings_end := cs_taken_siblings cs0 + (d - length pfx) |}) in *.
      cbn [rung]. rewrite bind_ret. unfold stepg.
      assert (Hnt : nth_error inner (length preT) = Some tt).
      { rewrite HiT. cbn [app]. apply nth_error_mid. }
      rewrite (nth_res_ok _ _ _ _ _ Hnt). cbn [bind snd fst].
      destruct (adv_rest_done H v fuel prune tt cs0 (length pfx)) as [cs' [Hadv [Hst' [Htk' [Hti' Hbi']]]]];
        try (cbn; lia).
      rewrite Hadv. cbn [bind].
      unfold tt in Hst', Htk'. cbn [vm_unique_siblings_start vm_unique_siblings_end] in Hst', Htk'.
      replace (cs_taken_siblings cs0 + (d - length pfx) - cs_taken_siblings cs0) with (d - length pfx) in Hst' by lia.
      assert (Htyt : term_typed n t) by (apply (Hty tt); left; reflexivity).
      pose proof (term_typed_path _ _ Htyt) as Hlen.
      cbn [length last] in Hel.
      set (ub := firstn (d - length pfx) (skipn (length pfx) (term_path t))) in *.
      assert (Hub : length ub = d - length pfx).
      { unfold ub. rewrite firstn_length, skipn_length. lia. }
      assert (Hfd : firstn d (term_path t) = pfx ++ ub).
      { unfold ub. rewrite (has_pfx_skipn _ _ Hp) at 1. rewrite firstn_app.
        rewrite (firstn_all2 pfx) by lia. reflexivity. }
      assert (Hdsum : length pfx + length ub = d) by lia.
      (* the operations of this terminal *)
      assert (HopsP : forall c, In c ops -> has_pfx (pfx ++ ub) (fst c)).
      { intros c Hc. destruct Hok as [_ Hok]. destruct (Hok c Hc) as [_ Hf].
        unfold vpath in Hf. cbn [vm_depth vm_terminal tt] in Hf.
        unfold has_pfx. rewrite app_length, Hdsum, Hf. exact Hfd. }
      assert (HgW : goodW n d (pfx ++ ub) ops).
      { split; [apply Hok|]. intros c Hc. destruct Hok as [_ Hok]. destruct (Hok c Hc) as [Hl Hf].
        split; [exact Hl|]. unfold vpath in Hf. cbn [vm_depth vm_terminal tt] in Hf. rewrite Hf. exact Hfd. }
      assert (Hsub : build_trie H n d (leaf_ops_spliced (as_leaf_option t) ops) =
                     Ok (hash H (mk (n - d) d (sides ub (length pfx) L')))).
      { apply (terminal_ops H n (n - d) d (pfx ++ ub) (sides ub (length pfx) L)).
        - lia.
        - destruct t as [k x|p]; cbn [term_kv as_leaf_option] in *.
          + right. exists k, x. split; [exact Hkv|reflexivity].
          + left. split; [exact Hkv|reflexivity].
        - rewrite <- Hdsum. apply goodkv_sides; [lia|exact HgL].
        - rewrite <- Hdsum. apply goodkv_sides; [lia|exact HgL'].
        - exact HgW.
        - rewrite <- (gsides_same ub pfx (length pfx) ops eq_refl HopsP) at 1.
          apply upd_rel_sides. exact Hupd. }
      rewrite (hct_eq_val H n P0 tt (nth_error inner (length preT + 1)) cs' ops e _
                 ltac:(cbn; unfold vpath; cbn; lia) Hel ltac:(cbn; lia) Hsub).
      unfold vpath, tt. cbn [vm_depth vm_terminal].
      rewrite Hfd. rewrite skipn_app. replace (e - length pfx) with 0 by lia. cbn [skipn].
      rewrite rev_app_distr. rewrite finish_app.
      rewrite !rev_length, skipn_length, Hub.
      replace (e + (length pfx - e) + (d - length pfx)) with (length pfx + (d - length pfx)) by lia.
      assert (Hsl : length (firstn (d - length pfx) (skipn (cs_taken_siblings cs0) sibs)) = d - length pfx).
      { rewrite firstn_length, skipn_length. lia. }
      pose proof (compact_unique_val H (firstn (d - length pfx) (skipn (cs_taken_siblings cs0) sibs))
                    (rev ub) (hash H (mk (n - d) d (sides ub (length pfx) L'))) (length pfx) P0 cs' (cs_stack cs0)
                    ltac:(rewrite rev_length; lia) HP0 Hst') as Hc.
      rewrite Hsl in Hc. rewrite Hc. cbn [bind].
      rewrite Hsib.
      replace (hash H (mk (n - d) d (sides ub (length pfx) L')))
        with (hash H (mk (n - (length pfx + length ub)) (length pfx + length ub) (sides ub (length pfx) L')))
        by (rewrite Hdsum; reflexivity).
      rewrite (cup_chain H HOK n ub (length pfx) pfx L L' ops eq_refl ltac:(lia) HgL HgL' Hupd HopsP).
      exists (set_stack H cs' (cs_stack cs0)). split; [reflexivity|].
      cbn [set_stack cs_stack cs_taken_siblings cs_terminal_index cs_bisection_index length].
      repeat split; lia.
    - (* a bisection *)
      destruct (HVR_VR H n sibs _ _ _ _ _ _ HL) as [ln HLv].
      destruct (HVR_VR H n sibs _ _ _ _ _ _ HR) as [rn HRv].
      apply Forall2_app_inv_l in Hops. destruct Hops as [opssL [opssR [HopsL [HopsR ->]]]].
      pose proof (VR_nonempty H sibs _ _ _ _ _ _ HLv) as HneL.
      pose proof (VR_nonempty H sibs _ _ _ _ _ _ HRv) as HneR.
      assert (HoL : opssL <> []).
      { intros ->. inversion HopsL; subst. congruence. }
      assert (HlL : length opssL = length TL) by (symmetry; eapply Forall2_len; exact HopsL).
      pose proof (VR_used_le H sibs _ _ _ _ _ _ HLv) as HuL.
      pose proof (VR_used_le H sibs _ _ _ _ _ _ HRv) as HuR.
      set (sd := length pfx) in *. set (c := length cb) in *.
      assert (HlenL : length (pfx ++ cb ++ [false]) = sd + c + 1).
      { rewrite !app_length. cbn [length]. fold sd c. lia. }
      assert (HlenR : length (pfx ++ cb ++ [true]) = sd + c + 1).
      { rewrite !app_length. cbn [length]. fold sd c. lia. }
      (* the write sets of the two halves *)
      rewrite concat_app in Hupd, Hsort.
      set (WL := concat opssL) in *. set (WR := concat opssR) in *.
      assert (HWL : forall x, In x WL -> has_pfx (pfx ++ cb ++ [false]) (fst x) /\ length (fst x) = n).
      { apply (concat_under n _ TL opssL HopsL). intros t Hin.
        destruct (VR_pfx H sibs _ _ _ _ _ _ HLv t Hin) as [Hq [Hd _]]. split; [exact Hq|exact Hd]. }
      assert (HWR : forall x, In x WR -> has_pfx (pfx ++ cb ++ [true]) (fst x) /\ length (fst x) = n).
      { apply (concat_under n _ TR opssR HopsR). intros t Hin.
        destruct (VR_pfx H sibs _ _ _ _ _ _ HRv t Hin) as [Hq [Hd _]]. split; [exact Hq|exact Hd]. }
      assert (Hdn : sd + c + 1 <= n).
      { destruct TL as [|t0 TL']; [congruence|].
        destruct (VR_pfx H sibs _ _ _ _ _ _ HLv t0 (or_introl eq_refl)) as [_ [Hd1 Hd2]].
        pose proof (term_typed_path _ _ (Hty t0 (or_introl eq_refl))) as Hl. unfold vpath in Hd2. lia. }
      assert (HWall : forall x, In x (WL ++ WR) -> has_pfx (pfx ++ cb) (fst x)).
      { intros x Hx. apply in_app_or in Hx. destruct Hx as [Hx|Hx].
        - apply (has_pfx_app_l _ [false]). rewrite <- app_assoc. apply HWL. exact Hx.
        - apply (has_pfx_app_l _ [true]). rewrite <- app_assoc. apply HWR. exact Hx. }
      set (Lc := sides cb sd L) in *. set (Lc' := sides cb sd L').
      assert (HgLc : goodkv n (sd + c) (pfx ++ cb) Lc) by (apply goodkv_sides; [lia|exact HgL]).
      assert (HgLc' : goodkv n (sd + c) (pfx ++ cb) Lc') by (apply goodkv_sides; [lia|exact HgL']).
      assert (Hupdc : upd_rel Lc (WL ++ WR) Lc').
      { rewrite <- (gsides_same cb pfx sd (WL ++ WR) eq_refl HWall) at 1. apply upd_rel_sides. exact Hupd. }
      destruct (gside_app_split (pfx ++ cb) (sd + c) WL WR) as [HgsL HgsR].
      { rewrite app_length. reflexivity. }
      { intros x Hx. rewrite <- app_assoc. apply HWL. exact Hx. }
      { intros x Hx. rewrite <- app_assoc. apply HWR. exact Hx. }
      assert (HupdL : upd_rel (side false (sd + c) Lc) WL (side false (sd + c) Lc')).
      { rewrite <- HgsL at 1. apply upd_rel_side. exact Hupdc. }
      assert (HupdR : upd_rel (side true (sd + c) Lc) WR (side true (sd + c) Lc')).
      { rewrite <- HgsR at 1. apply upd_rel_side. exact Hupdc. }
      rewrite map_app in Hsort. apply sorted_app_inv in Hsort. destruct Hsort as [HsortL [HsortR _]].
      assert (Hgside : forall (b : bool) X, goodkv n (sd + c) (pfx ++ cb) X ->
                goodkv n (length (pfx ++ cb ++ [b])) (pfx ++ cb ++ [b]) (side b (sd + c) X)).
      { intros b X HX. replace (length (pfx ++ cb ++ [b])) with (S (sd + c))
          by (rewrite !app_length; cbn [length]; fold sd c; lia).
        rewrite app_assoc. apply goodkv_side; [lia|exact HX]. }
      (* ingest the bisection, if it was recorded *)
      assert (Hing : exists (cs0' : cs_t) fuel' prune',
                rung H n v fuel prune (length preT) (opssL ++ opssR) (P0, cs0) =
                rung H n v fuel' prune' (length preT) (opssL ++ opssR) (P0, cs0') /\
                cs_stack cs0' = push_enumerated H (sd + 1) (firstn c (skipn off sibs)) (cs_stack cs0) /\
                cs_taken_siblings cs0' = off + c /\
                cs_terminal_index cs0' = length preT /\
                cs_bisection_index cs0' = length preB + length (if Nat.ltb 0 c then [0] else []) /\
                length bis + 1 <= fuel' + cs_bisection_index cs0').
      { destruct (Nat.ltb 0 c) eqn:Ec.
        - apply Nat.ltb_lt in Ec.
          destruct TL as [|t0 TL']; [congruence|]. destruct opssL as [|ops0 opssL']; [congruence|].
          assert (Hnt : nth_error inner (length preT) = Some t0).
          { rewrite HiT. cbn [app]. apply nth_error_mid. }
          assert (Hnb : nth_error bis (cs_bisection_index cs0) =
                        Some {| vb_start_depth := sd; vb_common_siblings_start := off;
                                vb_common_siblings_end := off + c |}).
          { rewrite HiB, Hbi. cbn [app]. apply nth_error_mid. }
          destruct fuel as [|fuel'].
          { exfalso. rewrite HiB in Hfuel. rewrite !app_length in Hfuel. cbn [length] in Hfuel. lia. }
          destruct (VR_ranges H sibs _ _ _ _ _ _ HLv) as [Hr _].
          specialize (Hr t0 (or_introl eq_refl)).
          destruct (advance_loop_bis H v fuel' t0 prune cs0 _ c Hnb) as [cs0' [Hal [Hs' [Ht' [Hti2 Hbi2]]]]];
            try (cbn; lia).
          { cbn [vb_start_depth]. exact Hst0. }
          exists cs0', fuel', false. split.
          + cbn [app rung]. unfold stepg. rewrite (nth_res_ok _ _ _ _ _ Hnt). cbn [bind snd].
            unfold adv_rest. rewrite Hal. reflexivity.
          + cbn [vb_start_depth] in Hs'. rewrite Htk in Hs', Ht'. cbn [length].
            repeat split; try assumption; lia.
        - apply Nat.ltb_ge in Ec. assert (Hc0 : c = 0) by lia.
          exists cs0, fuel, prune. split; [reflexivity|].
          rewrite Hc0. cbn [firstn push_enumerated length]. repeat split; lia. }
      destruct Hing as [cs0' [fuel' [prune' [Hrun0 [Hst1 [Htk1 [Hti1 [Hbi1 Hfuel1]]]]]]]].
      rewrite Hrun0. rewrite rung_app by exact HoL.
      set (bl := if Nat.ltb 0 c then [{| vb_start_depth := sd; vb_common_siblings_start := off;
                                          vb_common_siblings_end := off + c |}] else []) in *.
      assert (Hbl : length bl = length (if Nat.ltb 0 c then [0] else [])).
      { unfold bl. destruct (Nat.ltb 0 c); reflexivity. }
      assert (Hst1b : Forall (fun x => fst x < sd + c + 1) (cs_stack cs0')).
      { rewrite Hst1. apply push_enumerated_bound.
        - eapply Forall_impl; [|exact Hst0]. intros x Hx. cbn beta in *. lia.
        - rewrite firstn_length. lia. }
      assert (HfT : nth_error inner (length preT + length TL) = hd_error TR).
      { rewrite HiT. rewrite nth_error_app2 by lia.
        replace (length preT + length TL - length preT) with (length TL) by lia.
        rewrite <- app_assoc. rewrite nth_error_app2 by lia. rewrite Nat.sub_diag.
        destruct TR as [|tr TR']; [congruence|reflexivity]. }
      (* left half *)
      destruct (IHL preT (TR ++ postT) (preB ++ bl) (BR ++ postB) (sd + c + 1) opssL P0 cs0' fuel' prune'
                    (side false (sd + c) Lc'))
        as [cs1 [HrunL [Hst2 [Htk2 [Hti2 Hbi2]]]]].
      { rewrite HiT. rewrite <- app_assoc. reflexivity. }
      { rewrite HiB. rewrite <- !app_assoc. reflexivity. }
      { intros t Hin. apply Hty. apply in_or_app. left. exact Hin. }
      { rewrite HlenL. lia. }
      { rewrite HfT. destruct TR as [|tr TR']; [congruence|]. cbn [hd_error end_layer_ok].
        destruct (VR_pfx H sibs _ _ _ _ _ _ HLv (last TL dummy_path) (last_In' _ _ _ HneL)) as [Hpl _].
        destruct (VR_pfx H sibs _ _ _ _ _ _ HRv tr (or_introl eq_refl)) as [Hpr _].
        rewrite app_assoc in Hpl, Hpr.
        rewrite (has_pfx_split_common (pfx ++ cb) _ _ false Hpl Hpr). rewrite app_length. fold sd c. lia. }
      { exact HopsL. }
      { rewrite HlenL. eapply Forall_impl; [|exact HP0]. intros x Hx. cbn beta in *. lia. }
      { rewrite HlenL. exact Hst1b. }
      { exact Hti1. }
      { rewrite app_length, Hbl. exact Hbi1. }
      { exact Htk1. }
      { rewrite app_length, Hbl. rewrite Hbi1 in Hfuel1. exact Hfuel1. }
      { apply Hgside. exact HgLc. }
      { apply Hgside. exact HgLc'. }
      { exact HupdL. }
      { exact HsortL. }
      rewrite HrunL.
      replace (skipn (sd + c + 1) (pfx ++ cb ++ [false])) with (@nil bool)
        by (symmetry; apply skipn_all2; rewrite HlenL; lia).
      cbn [rev]. rewrite finish_nil. cbn [bind].
      rewrite HlL. rewrite run_rung by (cbn [snd]; exact Hti2).
      rewrite HlenL.
      set (ndL := hash H (mk (n - (sd + c + 1)) (sd + c + 1) (side false (sd + c) Lc'))) in *.
      (* right half *)
      destruct (IHR (preT ++ TL) postT (preB ++ bl ++ BL) postB e opssR ((ndL, sd + c + 1) :: P0) cs1
                    (S (length bis)) true (side true (sd + c) Lc'))
        as [cs2 [HrunR [Hst3 [Htk3 [Hti3 Hbi3]]]]].
      { rewrite HiT. rewrite <- !app_assoc. reflexivity. }
      { rewrite HiB. rewrite <- !app_assoc. reflexivity. }
      { intros t Hin. apply Hty. apply in_or_app. right. exact Hin. }
      { rewrite HlenR. lia. }
      { rewrite (last_app_ne' _ TL TR dummy_path HneR) in Hel.
        rewrite app_length in *. rewrite Nat.add_assoc in Hel. exact Hel. }
      { exact HopsR. }
      { rewrite HlenR. constructor; [cbn; lia|].
        eapply Forall_impl; [|exact HP0]. intros x Hx. cbn beta in *. lia. }
      { rewrite HlenR, Hst2. exact Hst1b. }
      { rewrite app_length. exact Hti2. }
      { rewrite !app_length. rewrite Hbi2, app_length. lia. }
      { rewrite Htk2. fold c. lia. }
      { rewrite !app_length. lia. }
      { apply Hgside. exact HgLc. }
      { apply Hgside. exact HgLc'. }
      { exact HupdR. }
      { exact HsortR. }
      rewrite app_length in HrunR. rewrite HrunR. rewrite HlenR.
      (* the climb of the last terminal continues through this bisection *)
      assert (Hsk : skipn e (pfx ++ cb ++ [true]) = skipn e pfx ++ cb ++ [true]).
      { rewrite skipn_app. replace (e - length pfx) with 0 by (fold sd; lia). reflexivity. }
      rewrite Hsk. rewrite !rev_app_distr. cbn [rev app].
      change (true :: rev cb ++ rev (skipn e pfx)) with ([true] ++ rev cb ++ rev (skipn e pfx)).
      rewrite finish_app. rewrite app_length, !rev_length, skipn_length. cbn [length]. fold sd c.
      replace (e + (c + (sd - e)) + 1) with (sd + c + 1) by lia.
      rewrite (compact_pending_val H true [] _ (sd + c + 1) ndL P0 cs2).
      2:{ lia. }
      2:{ rewrite Hst3, Hst2. destruct (cs_stack cs0') as [|[d0 x0] st]; [exact I|].
          inversion Hst1b as [|y l' Hy Hl']; subst. cbn [fst] in Hy. lia. }
      cbn [compact_loop bind].
      assert (Hnode : cnode H (hash H (mk (n - (sd + c + 1)) (sd + c + 1) (side true (sd + c) Lc'))) ndL true
                      = hash H (mk (n - (sd + c)) (sd + c) Lc')).
      { unfold ndL. replace (sd + c + 1) with (S (sd + c)) by lia.
        replace (n - (sd + c)) with (S (n - S (sd + c))) by lia.
        apply (cnode_mk H HOK (n - S (sd + c)) (sd + c) Lc' true).
        - apply HgLc'.
        - intros k x Hin. destruct HgLc' as [_ Hg]. destruct (Hg k x Hin) as [Hk _]. lia.
        - eapply goodkv_agree. exact HgLc'. }
      rewrite Hnode.
      rewrite finish_app. rewrite !rev_length, skipn_length. fold sd c.
      replace (e + (sd - e) + c) with (sd + c) by lia.
      pose proof (compact_unique_val H (firstn c (skipn off sibs)) (rev cb)
                    (hash H (mk (n - (sd + c)) (sd + c) Lc')) sd P0 cs2 (cs_stack cs0)
                    ltac:(rewrite rev_length, firstn_length, skipn_length; fold c; lia) HP0) as Hcu.
      rewrite firstn_length, skipn_length in Hcu.
      replace (Nat.min c (length sibs - off)) with c in Hcu by lia.
      replace (sd + c + 1 - 1) with (sd + c) by lia.
      rewrite Hcu by (rewrite Hst3, Hst2, Hst1; replace (sd + 1) with (S sd) by lia; reflexivity).
      cbn [bind].
      rewrite Hsib.
      unfold Lc'. fold c.
      pose proof (cup_chain H HOK n cb sd pfx L L' (WL ++ WR) eq_refl ltac:(fold c; lia) HgL HgL' Hupd HWall)
        as Hcc.
      fold c in Hcc. rewrite Hcc.
      exists (set_stack H cs2 (cs_stack cs0)). split; [reflexivity|].
      cbn [set_stack cs_stack cs_taken_siblings cs_terminal_index cs_bisection_index].
      rewrite Htk3, Hti3, Hbi3. rewrite !app_length. fold c. fold bl.
      repeat split; lia.
  Qed.
End HRun.

(* 2e. The loops of verify_update on an honest verified multi-proof *)

Lemma concat_repeat_nil : forall (A : Type) m, concat (repeat (@nil A) m) = [].
Proof. intros A m. induction m as [|m IH]; [reflexivity|]. cbn [repeat concat app]. exact IH. Qed.

Lemma concat_end_ops : forall j (w : wlist) m s,
  concat (end_ops j w s m) = if Nat.leb s j && Nat.ltb j (s + m) then w else [].
Proof.
  intros j w. induction m as [|m IH]; intros s.
  - cbn [end_ops seq map concat]. replace (s + 0) with s by lia.
    destruct (Nat.leb s j) eqn:E1; [|reflexivity]. apply Nat.leb_le in E1.
    assert (E2 : Nat.ltb j s = false) by (apply Nat.ltb_ge; exact E1). rewrite E2. reflexivity.
  - unfold end_ops in *. cbn [seq map concat]. rewrite IH.
    destruct (Nat.eqb s j) eqn:Es.
    + apply Nat.eqb_eq in Es. subst j.
      assert (E1 : Nat.leb (S s) s = false) by (apply Nat.leb_gt; lia).
      assert (E2 : Nat.leb s s = true) by (apply Nat.leb_le; lia).
      assert (E3 : Nat.ltb s (s + S m) = true) by (apply Nat.ltb_lt; lia).
      rewrite E1, E2, E3. cbn [andb]. apply app_nil_r.
    + apply Nat.eqb_neq in Es. cbn [app].
      destruct (Nat.leb (S s) j) eqn:E1.
      * apply Nat.leb_le in E1. assert (E2 : Nat.leb s j = true) by (apply Nat.leb_le; lia). rewrite E2.
        replace (S s + m) with (s + S m) by lia. reflexivity.
      * apply Nat.leb_gt in E1. destruct (Nat.leb s j) eqn:E2; [|reflexivity].
        apply Nat.leb_le in E2. lia.
Qed.

Section HLoop.
  Variable H : Hasher.
  Hypothesis HOK : HasherOK H.
  Variable n : nat.
  Variable v : verified_multi_proof H.
  Variables S S' : kv.

  Notation inner := (vmp_inner v).
  Notation bis := (vmp_bisections v).
  Notation sibs := (vmp_siblings v).

  Hypothesis Hshape : HVR H n sibs [] 0 (length sibs) S inner bis.
  Hypothesis Hty : vmp_typed n v.
  Hypothesis HgS : goodkv n 0 [] S.
  Hypothesis HgS' : goodkv n 0 [] S'.

  Lemma hshape_wf : vmp_wf v.
  Proof. destruct (HVR_VR H n sibs _ _ _ _ _ _ Hshape) as [nd HV]. exists nd. exact HV. Qed.

  (* all terminals, each with its operations: the result is the updated root *)
  Lemma run_all_val : forall opss,
    Forall2 (ops_ok n) inner opss ->
    sorted_keys (map fst (concat opss)) = true ->
    upd_rel S (concat opss) S' ->
    exists cs1, run H n v 0 opss (st_init H) = Ok ([(hash H (mk n 0 S'), 0)], cs1).
  Proof.
    intros opss Hops Hsort Hupd.
    destruct (hrange_run H HOK n v [] 0 (length sibs) S inner bis Hshape [] [] [] [] 0 opss [] (cs_new H)
                (Datatypes.S (length bis)) true S') as [cs1 [Hr _]]; try reflexivity; try assumption.
    - rewrite !app_nil_r. reflexivity.
    - rewrite !app_nil_r. reflexivity.
    - cbn [length plus]. rewrite (proj2 (nth_error_None inner (length inner)) (le_n _)). reflexivity.
    - constructor.
    - constructor.
    - cbn [length]. lia.
    - rewrite run_rung by reflexivity. cbn [length] in Hr. unfold st_init. rewrite Hr.
      cbn [skipn rev]. rewrite finish_nil. rewrite Nat.sub_0_r. exists cs1. reflexivity.
  Qed.

  Definition under_b (t : verified_multi_path) (k : key) : Prop := under t k.

  Lemma find_terminal_ok : forall l i key, length key = n ->
    (forall t, In t l -> vm_depth t <= length (vpath t) /\ length (vpath t) <= n) ->
    (exists t, In t l /\ under t key) ->
    exists j, find_terminal l i key = Ok j.
  Proof.
    induction l as [|t l IH]; intros i key Hk Hall [t0 [Hin Hu]]; [destruct Hin|].
    cbn [find_terminal]. destruct (Hall t (or_introl eq_refl)) as [Hd Hl].
    unfold terminal_contains. fold (vpath t).
    rewrite slice_to_res_ok by lia. cbn [bind]. rewrite slice_to_res_ok by lia. cbn [bind].
    destruct (key_eqb (firstn (vm_depth t) key) (firstn (vm_depth t) (vpath t))) eqn:Ek.
    - exists i. reflexivity.
    - destruct Hin as [->|Hin].
      + unfold under in Hu. rewrite Hu, key_eqb_refl in Ek. discriminate.
      + apply IH; [exact Hk| |exists t0; split; assumption].
        intros t' Hin'. apply Hall. right. exact Hin'.
  Qed.

  (* keys in ascending order lie under terminals in ascending order *)
  Lemma order_index : forall m j tm tj k1 k2,
    nth_error inner m = Some tm -> nth_error inner j = Some tj ->
    under tj k1 -> under tm k2 -> length k1 = n -> length k2 = n ->
    key_ltb k1 k2 = true -> j <= m.
  Proof.
    intros m j tm tj k1 k2 Hm Hj Hu1 Hu2 Hk1 Hk2 Hlt.
    destruct (Nat.le_gt_cases j m) as [Hle|Hgt]; [exact Hle|exfalso].
    destruct (nth_error_split _ _ Hj) as [A [B [Hsplit HlA]]].
    assert (HinA : In tm A).
    { rewrite Hsplit in Hm. rewrite nth_error_app1 in Hm by lia. eapply nth_error_In. exact Hm. }
    destruct (vmp_wf_facts H v hshape_wf) as [Hs [Hd [_ [_ [_ Hcm]]]]].
    rewrite Hsplit in Hs. rewrite map_app in Hs. cbn [map] in Hs.
    destruct (sorted_mid _ _ _ Hs) as [HA _].
    pose proof (HA (vpath tm) (in_map vpath _ _ HinA)) as Hlt'.
    assert (Hinm : In tm inner) by (eapply nth_error_In; exact Hm).
    assert (Hinj : In tj inner) by (eapply nth_error_In; exact Hj).
    destruct (Hcm tm tj Hinm Hinj (ltb_neq _ _ Hlt')) as [Hc1 _].
    destruct (Hcm tj tm Hinj Hinm (fun e => ltb_neq _ _ Hlt' (eq_sym e))) as [Hc2 _].
    rewrite common_comm in Hc2.
    pose proof (Hd tm Hinm) as Hdm. pose proof (Hd tj Hinj) as Hdj.
    pose proof (term_typed_path _ _ (Hty tm Hinm)) as Hlm. pose proof (term_typed_path _ _ (Hty tj Hinj)) as Hlj.
    fold (vpath tm) in Hlm. fold (vpath tj) in Hlj.
    pose proof (under_lt (vpath tm) (vpath tj) k2 k1 (vm_depth tm) (vm_depth tj) n n Hlt' Hc1 Hc2 Hdm Hdj
                  Hu2 Hu1 ltac:(lia) ltac:(lia) ltac:(lia) ltac:(lia)) as Hlt2.
    rewrite !firstn_all2 in Hlt2 by lia.
    rewrite (key_ltb_asym _ _ Hlt) in Hlt2. discriminate.
  Qed.

  Lemma In_skipn_nth : forall (A : Type) (l : list A) j m x, j <= m -> nth_error l m = Some x -> In x (skipn j l).
  Proof.
    intros A l j m x Hjm Hn. apply (nth_error_In _ (m - j)). rewrite nth_error_skipn.
    replace (j + (m - j)) with m by lia. exact Hn.
  Qed.

  (* the invariant of the main loop: [Wd] are the operations consumed so far *)
  Definition inv2 (Wd : wlist) (st : vu_state H) : Prop :=
    let s := unwrap_or (st_next_pending_terminal_index H st) 0 in
    exists opss,
      Forall2 (ops_ok n) (firstn s inner) opss /\
      run H n v 0 opss (st_init H) = Ok (st_pending_siblings H st, st_common_siblings H st) /\
      s <= length inner /\
      Wd = concat opss ++ st_working_ops H st /\
      match st_last_terminal_index H st with
      | None => st_working_ops H st = [] /\ st_next_pending_terminal_index H st = None /\
                st_last_key H st = None
      | Some j =>
          s <= j /\
          exists t lk, nth_error inner j = Some t /\ ops_ok n t (st_working_ops H st) /\
            st_last_key H st = Some lk /\ In lk (map fst Wd) /\ under t lk /\ length lk = n /\
            (forall c, In c (st_working_ops H st) -> key_le (fst c) lk)
      end.

  Lemma step_inv2 : forall Wd st key op,
    inv2 Wd st -> length key = n ->
    (forall k, In k (map fst Wd) -> key_ltb k key = true) ->
    (exists t, In t inner /\ under t key) ->
    exists st', verify_update_step H n v st key op = Ok st' /\ inv2 (Wd ++ [(key, op)]) st'.
  Proof.
    intros Wd st key op [opss [Hops [Hrun [Hs [HWd Hlast]]]]] Hk Hord [tk [Hink Huk]].
    pose proof hshape_wf as Hwf.
    unfold verify_update_step.
    set (s := unwrap_or (st_next_pending_terminal_index H st) 0) in *.
    assert (Eord : match st_last_key H st with
                   | Some last_key => negb (key_ltb last_key key)
                   | None => false
                   end = false).
    { destruct (st_last_terminal_index H st) as [x|].
      - destruct Hlast as [_ [t [lk [_ [_ [Hlk [Hinlk _]]]]]]]. rewrite Hlk, (Hord lk Hinlk). reflexivity.
      - destruct Hlast as [_ [_ Hlk]]. rewrite Hlk. reflexivity. }
    rewrite Eord.
    apply In_nth_error in Hink. destruct Hink as [m Hm].
    set (j0 := unwrap_or (st_last_terminal_index H st) 0) in *.
    assert (Hbnds : forall t, In t (skipn j0 inner) -> vm_depth t <= length (vpath t) /\ length (vpath t) <= n).
    { intros t Hin. apply (inner_bounds H n v Hwf Hty).
      rewrite <- (firstn_skipn j0 inner). apply in_or_app. right. exact Hin. }
    assert (Hj0m : j0 <= m).
    { unfold j0. destruct (st_last_terminal_index H st) as [x|]; cbn [unwrap_or]; [|lia].
      destruct Hlast as [_ [t [lk [Hnt [_ [_ [Hinlk [Hul [Hllk _]]]]]]]]].
      apply (order_index m x tk t lk key Hm Hnt Hul Huk Hllk Hk). apply Hord. exact Hinlk. }
    destruct (find_terminal_ok (skipn j0 inner) j0 key Hk Hbnds) as [j' Hft'].
    { exists tk. split; [|exact Huk]. eapply In_skipn_nth; eassumption. }
    pose proof (find_terminal_spec n (skipn j0 inner) j0 key Hk Hbnds) as Hft.
    rewrite Hft' in Hft |- *. cbn [bind].
    destruct Hft as [Hge [t' [Hnt' Hsc]]].
    rewrite nth_error_skipn in Hnt'.
    replace (j0 + (j' - j0)) with j' in Hnt' by lia.
    assert (Hnew : ops_ok n t' [(key, op)]).
    { split; [reflexivity|]. intros c [<-|[]]. cbn [fst]. split; assumption. }
    assert (Hinkey : In key (map fst (Wd ++ [(key, op)]))).
    { rewrite map_app. apply in_or_app. right. left. reflexivity. }
    unfold j0 in *. clear j0.
    destruct (st_last_terminal_index H st) as [x|] eqn:Elt.
    - destruct Hlast as [Hsx [t [lk [Hnt [Hw [Hlk1 [Hinlk [Hul [Hllk Hlk]]]]]]]]]. cbn [unwrap_or] in Hge.
      pose proof (Hord lk Hinlk) as Hlklt.
      destruct (Nat.eqb x j') eqn:Exj.
      + (* same terminal: the operation joins the working set *)
        apply Nat.eqb_eq in Exj. subst j'. eexists. split; [reflexivity|].
        unfold inv2. cbn [st_next_pending_terminal_index st_pending_siblings st_common_siblings
                          st_last_terminal_index st_working_ops st_last_key].
        fold s. exists opss. split; [exact Hops|]. split; [exact Hrun|]. split; [exact Hs|].
        split; [rewrite HWd, app_assoc; reflexivity|]. split; [exact Hsx|].
        rewrite Hnt in Hnt'. inversion Hnt'; subst t'.
        exists t, key. split; [exact Hnt|]. split.
        { destruct (st_working_ops H st) as [|c0 w] eqn:Ew; [exact Hnew|].
          apply (ops_ok_snoc n t (c0 :: w) key op lk); assumption. }
        split; [reflexivity|]. split; [exact Hinkey|]. split; [exact Hsc|]. split; [exact Hk|].
        intros c Hin. apply in_app_or in Hin. destruct Hin as [Hin|[<-|[]]]; [|left; reflexivity].
        right. destruct (Hlk c Hin) as [->|Hlt]; [exact Hlklt|eapply key_ltb_trans; eassumption].
      + (* a new terminal: everything up to the updated one is ingested *)
        apply Nat.eqb_neq in Exj.
        assert (Hxl : x < length inner) by (apply nth_error_Some; congruence).
        pose proof (split3 _ inner s x t Hsx Hnt) as Hsplit.
        set (l := firstn s inner ++ firstn (x - s) (skipn s inner) ++ [t]).
        set (opss' := opss ++ repeat [] (x - s) ++ [st_working_ops H st]).
        assert (Hl : inner = l ++ skipn (x + 1) inner).
        { unfold l. rewrite <- !app_assoc. exact Hsplit. }
        assert (Hll : length l = x + 1).
        { unfold l. rewrite !app_length, !firstn_length, skipn_length. cbn [length]. lia. }
        assert (Hops' : Forall2 (ops_ok n) l opss').
        { unfold l, opss'. apply Forall2_app; [exact Hops|]. apply Forall2_app.
          - pose proof (Forall2_ops_nil n (firstn (x - s) (skipn s inner))) as Hmid.
            rewrite firstn_length, skipn_length in Hmid.
            replace (Nat.min (x - s) (length inner - s)) with (x - s) in Hmid by lia. exact Hmid.
          - constructor; [exact Hw|constructor]. }
        destruct (run_prefix H n v Hwf Hty l _ opss' Hl Hops') as [stf Hstf].
        pose proof Hstf as Hrun'.
        assert (Hlo : length opss = s).
        { rewrite <- (Forall2_len _ _ _ _ _ Hops). rewrite firstn_length. lia. }
        unfold opss' in Hstf. rewrite run_app, Hrun in Hstf. cbn [bind plus] in Hstf.
        rewrite Hlo in Hstf. rewrite run_app in Hstf. rewrite repeat_length in Hstf.
        replace (s + (x - s)) with x in Hstf by lia.
        cbn [unwrap_or]. fold s.
        rewrite ingest_up_to_current_run by lia.
        destruct (run H n v s (repeat [] (x - s)) (st_pending_siblings H st, st_common_siblings H st))
          as [[P CS]|e|]; cbn [bind] in Hstf |- *; try discriminate.
        cbn [run] in Hstf. rewrite bind_ret in Hstf. unfold step1 in Hstf. cbn [fst snd] in Hstf.
        destruct (nth_res inner x) as [t0|e|]; cbn [bind] in Hstf |- *; try discriminate.
        destruct (advance H CS v) as [CS'|e|]; cbn [bind] in Hstf |- *; try discriminate.
        rewrite Hstf. cbn [bind]. eexists. split; [reflexivity|].
        unfold inv2. cbn [st_next_pending_terminal_index st_pending_siblings st_common_siblings
                          st_last_terminal_index st_working_ops st_last_key unwrap_or].
        exists opss'. split.
        { replace (firstn (x + 1) inner) with l; [exact Hops'|].
          rewrite <- Hll. clear -Hl. clearbody l. rewrite Hl.
          rewrite firstn_app, Nat.sub_diag. cbn [firstn].
          rewrite app_nil_r. symmetry. apply firstn_all. }
        split; [rewrite Hrun'; destruct stf; reflexivity|].
        split; [lia|]. split.
        { unfold opss'. rewrite !concat_app, concat_repeat_nil. cbn [concat app].
          rewrite app_nil_r. rewrite HWd. reflexivity. }
        split; [lia|]. exists t', key. split; [exact Hnt'|]. split; [exact Hnew|].
        split; [reflexivity|]. split; [exact Hinkey|]. split; [exact Hsc|]. split; [exact Hk|].
        intros c [<-|[]]. left. reflexivity.
    - (* the first operation *)
      destruct Hlast as [Hw [Hnp Hlk0]]. cbn [unwrap_or] in *.
      eexists. split; [reflexivity|].
      unfold inv2. cbn [st_next_pending_terminal_index st_pending_siblings st_common_siblings
                        st_last_terminal_index st_working_ops st_last_key].
      fold s. exists opss. split; [exact Hops|]. split; [exact Hrun|]. split; [exact Hs|].
      split; [rewrite HWd, app_assoc; reflexivity|].
      split; [unfold s; rewrite Hnp; cbn; lia|]. rewrite Hw. cbn [app].
      exists t', key. split; [exact Hnt'|]. split; [exact Hnew|].
      split; [reflexivity|]. split; [exact Hinkey|]. split; [exact Hsc|]. split; [exact Hk|].
      intros c [<-|[]]. left. reflexivity.
  Qed.

  Lemma loop_inv2 : forall ops Wd st,
    inv2 Wd st ->
    sorted_keys (map fst (Wd ++ ops)) = true ->
    (forall k o, In (k, o) ops -> length k = n /\ exists t, In t inner /\ under t k) ->
    exists st', verify_update_loop H n v ops st = Ok st' /\ inv2 (Wd ++ ops) st'.
  Proof.
    induction ops as [|[key op] ops IH]; intros Wd st Hinv Hsort Hall; cbn [verify_update_loop].
    - exists st. split; [reflexivity|]. rewrite app_nil_r. exact Hinv.
    - destruct (Hall key op (or_introl eq_refl)) as [Hk Hsc].
      destruct (step_inv2 Wd st key op Hinv Hk) as [st1 [Hstep Hinv1]].
      + intros k Hin. rewrite map_app in Hsort. apply sorted_app_inv in Hsort.
        destruct Hsort as [_ [_ Hsort]]. apply Hsort; [exact Hin|]. left. reflexivity.
      + exact Hsc.
      + rewrite Hstep. cbn [bind].
        replace (Wd ++ (key, op) :: ops) with ((Wd ++ [(key, op)]) ++ ops) in * by (rewrite <- app_assoc; reflexivity).
        apply IH; [exact Hinv1|exact Hsort|].
        intros k o Hin. apply (Hall k o). right. exact Hin.
  Qed.

  Lemma last_val : forall W st, inv2 W st ->
    sorted_keys (map fst W) = true -> upd_rel S W S' ->
    exists cs1, verify_update_last H n v st = Ok ([(hash H (mk n 0 S'), 0)], cs1).
  Proof.
    intros W st [opss [Hops [Hrun [Hs [HW Hlast]]]]] Hsort Hupd. unfold verify_update_last.
    set (s := unwrap_or (st_next_pending_terminal_index H st) 0) in *.
    rewrite ingest_to_end_run by lia.
    set (eo := end_ops (unwrap_or (st_last_terminal_index H st) 0) (st_working_ops H st) s (length inner - s)).
    assert (Hall : Forall2 (ops_ok n) inner (opss ++ eo)).
    { rewrite <- (firstn_skipn s inner) at 1. apply Forall2_app; [exact Hops|].
      apply Forall2_end_ops; [lia|].
      intros t Hnt. destruct (st_last_terminal_index H st) as [j|]; cbn [unwrap_or] in Hnt.
      - destruct Hlast as [_ [t0 [lk [Hnt0 [Hw _]]]]]. congruence.
      - destruct Hlast as [Hw _]. rewrite Hw. apply ops_ok_nil. }
    assert (Hcat : concat (opss ++ eo) = W).
    { rewrite concat_app. unfold eo. rewrite concat_end_ops. rewrite HW. f_equal.
      destruct (st_last_terminal_index H st) as [j|]; cbn [unwrap_or].
      - destruct Hlast as [Hsj [t0 [lk [Hnt0 _]]]].
        assert (Hjl : j < length inner) by (apply nth_error_Some; congruence).
        assert (E1 : Nat.leb s j = true) by (apply Nat.leb_le; exact Hsj).
        assert (E2 : Nat.ltb j (s + (length inner - s)) = true) by (apply Nat.ltb_lt; lia).
        rewrite E1, E2. reflexivity.
      - destruct Hlast as [Hw _]. rewrite Hw. destruct (_ && _); reflexivity. }
    destruct (run_all_val (opss ++ eo) Hall) as [cs1 Hr].
    { rewrite Hcat. exact Hsort. }
    { rewrite Hcat. exact Hupd. }
    assert (Hlo : length opss = s).
    { rewrite <- (Forall2_len _ _ _ _ _ Hops). rewrite firstn_length. lia. }
    rewrite run_app, Hrun in Hr. cbn [bind plus] in Hr. rewrite Hlo in Hr.
    exists cs1. exact Hr.
  Qed.

  Theorem verify_update_shape : forall W,
    sorted_keys (map fst W) = true ->
    (forall k o, In (k, o) W -> length k = n /\ exists t, In t inner /\ under t k) ->
    upd_rel S W S' ->
    W <> [] ->
    MultiUpdate.verify_update H n v W = Ok (hash H (mk n 0 S')).
  Proof.
    intros W Hsort Hall Hupd Hne. unfold MultiUpdate.verify_update.
    destruct W as [|c W]; [congruence|].
    set (st0 := {| st_pending_siblings := []; st_last_key := None; st_last_terminal_index := None;
                   st_next_pending_terminal_index := None; st_working_ops := [];
                   st_common_siblings := cs_new H |}).
    assert (Hinv0 : inv2 [] st0).
    { unfold inv2, st0. cbn. exists []. split; [constructor|]. split; [reflexivity|].
      split; [lia|]. split; [reflexivity|]. repeat split. }
    destruct (loop_inv2 (c :: W) [] st0 Hinv0 Hsort Hall) as [st1 [Hloop Hinv1]].
    rewrite Hloop. cbn [bind]. cbn [app] in Hinv1.
    destruct (last_val (c :: W) st1 Hinv1 Hsort Hupd) as [cs1 Hlast].
    rewrite Hlast. reflexivity.
  Qed.
End HLoop.

(* 2f. An honest verified multi-proof has the honest shape (no collision-freeness needed: the
   content of the sibling vector is read off the construction by from_path_proofs) *)

Lemma app_eq_len : forall (A : Type) (a b c d : list A),
  a ++ b = c ++ d -> length a = length c -> a = c /\ b = d.
Proof.
  intros A. induction a as [|x a IH]; intros b c d He Hl; destruct c as [|y c]; cbn [length] in Hl; try discriminate.
  - split; [reflexivity|exact He].
  - cbn [app] in He. injection He as Hx He. destruct (IH b c d He ltac:(lia)) as [-> ->]. subst. split; reflexivity.
Qed.

Lemma split_unique : forall (A : Type) (g : A -> bool) (l1 l2 l1' l2' : list A),
  l1 ++ l2 = l1' ++ l2' ->
  (forall x, In x l1 -> g x = false) -> (forall x, In x l2 -> g x = true) ->
  (forall x, In x l1' -> g x = false) -> (forall x, In x l2' -> g x = true) ->
  length l1 = length l1'.
Proof.
  intros A g. induction l1 as [|x l1 IH]; intros l2 l1' l2' He H1 H2 H1' H2'; destruct l1' as [|y l1'].
  - reflexivity.
  - exfalso. cbn [app] in He. subst l2.
    pose proof (H2 y (or_introl eq_refl)) as E1. pose proof (H1' y (or_introl eq_refl)) as E2. congruence.
  - exfalso. cbn [app] in He. subst l2'.
    pose proof (H2' x (or_introl eq_refl)) as E1. pose proof (H1 x (or_introl eq_refl)) as E2. congruence.
  - cbn [app] in He. injection He as Hx He. cbn [length]. f_equal.
    apply (IH l2 l1' l2' He); try assumption.
    + intros z Hz. apply H1. right. exact Hz.
    + intros z Hz. apply H1'. right. exact Hz.
Qed.

Lemma firstn_pre : forall (A : Type) (a r : list A), firstn (length a) (a ++ r) = a.
Proof. intros A a r. rewrite firstn_app, Nat.sub_diag. cbn [firstn]. rewrite app_nil_r. apply firstn_all. Qed.

Lemma skipn_pre : forall (A : Type) (a r : list A), skipn (length a) (a ++ r) = r.
Proof. intros A a r. rewrite skipn_app, Nat.sub_diag, skipn_all. reflexivity. Qed.

Lemma firstn_app3 : forall (A : Type) (X a b c : list A),
  firstn (length (a ++ b ++ c)) X = a ++ b ++ c ->
  firstn (length a) X = a /\ firstn (length b) (skipn (length a) X) = b /\
  firstn (length c) (skipn (length a + length b) X) = c.
Proof.
  intros A X a b c Hf.
  assert (HX : X = a ++ b ++ c ++ skipn (length (a ++ b ++ c)) X).
  { rewrite <- (firstn_skipn (length (a ++ b ++ c)) X) at 1. rewrite Hf. rewrite <- !app_assoc. reflexivity. }
  set (Y := skipn (length (a ++ b ++ c)) X) in *. clearbody Y. clear Hf. subst X.
  split; [apply firstn_pre|]. split.
  - rewrite skipn_pre. apply firstn_pre.
  - rewrite <- skipn_skipn'. rewrite skipn_pre, skipn_pre. apply firstn_pre.
Qed.

Section Honest.
  Variable H : Hasher.
  Variable n : nat.

  Lemma walk_chain : forall f d p (L : kv) k s tm,
    d + f = n -> goodkv n d p L -> length k = n ->
    walk H (mk f d L) k d = (s, tm) ->
    s = chain_sibs H n (firstn (length s) (skipn d k)) d L /\
    term_kv tm (sides (firstn (length s) (skipn d k)) d L).
  Proof.
    induction f as [|f IH]; intros d p L k s tm Hdf Hg Hk Hw.
    all: destruct (kv_cases L) as [->|[[k0 [v0 ->]]|HL2]].
    1,4: (rewrite mk_nil in Hw; cbn [walk] in Hw; inversion Hw; subst; split; reflexivity).
    1,3: (rewrite mk_single in Hw; cbn [walk] in Hw; inversion Hw; subst; split; reflexivity).
    - exfalso. apply (no_fuel0 d L); [apply Hg| |eapply goodkv_agree; exact Hg|exact HL2].
      intros k' v' Hin. destruct Hg as [_ Hg]. destruct (Hg k' v' Hin). lia.
    - rewrite walk_mk_step in Hw by exact HL2.
      destruct (walk H (mk f (S d) (side (bit k d) d L)) k (S d)) as [s' tm'] eqn:Ew.
      inversion Hw; subst s tm. clear Hw.
      destruct (IH (S d) (p ++ [bit k d]) (side (bit k d) d L) k s' tm' ltac:(lia)
                   (goodkv_side n d p (bit k d) L ltac:(lia) Hg) Hk Ew) as [Hs Ht].
      cbn [length]. rewrite (skipn_bit d k) by lia. cbn [firstn chain_sibs sides].
      replace (n - S d) with f by lia.
      split; [f_equal; exact Hs|exact Ht].
  Qed.

  Variable S0 : kv.
  Hypothesis Hwf : wf n S0.

  Lemma wf_goodkv : goodkv n 0 [] S0.
  Proof.
    destruct Hwf as [Hnd Hlen]. split; [exact Hnd|]. intros k x Hin. split; [apply (Hlen k x Hin)|reflexivity].
  Qed.

  (* a path proof whose siblings and terminal are those of the canonical trie of S0 along its own
     terminal path *)
  Definition canon_pp (pp : path_proof H) : Prop :=
    let d := length (pp_siblings pp) in
    d <= length (ptp H pp) /\
    pp_siblings pp = chain_sibs H n (firstn d (ptp H pp)) 0 S0 /\
    term_kv (pp_terminal pp) (sides (firstn d (ptp H pp)) 0 S0).

  Lemma canonical_canon_pp : forall k, length k = n -> canon_pp (canonical_proof H n S0 k).
  Proof.
    intros k Hk. destruct (canon_facts H n S0 k Hwf Hk) as [Hdn [_ [Hdl Hpf]]].
    unfold canon_pp, ptp. rewrite Hpf. split; [exact Hdl|].
    unfold canonical_proof in *.
    destruct (walk H (mk n 0 S0) k 0) as [s tm] eqn:Ew. cbn [pp_siblings pp_terminal] in *.
    destruct (walk_chain n 0 [] S0 k s tm ltac:(lia) wf_goodkv Hk Ew) as [Hs Ht].
    cbn [skipn] in Hs, Ht. split; assumption.
  Qed.

  Variable pps : list (path_proof H).
  Variable sibs : list (node H).

  Lemma VR_CR_HVR : forall pfx off used nd T B, VR sibs pfx off used nd T B ->
    forall lo hi P ss nd' cost, CR H pps pfx lo hi P ss nd' cost ->
    same_paths P T -> firstn (length ss) (skipn off sibs) = ss ->
    (forall i pp, lo <= i -> i < hi -> nth_error pps i = Some pp -> canon_pp pp) ->
    HVR H n sibs pfx off used (sides pfx 0 S0) T B /\ used = length ss.
  Proof.
    intros pfx off used nd T B HV.
    induction HV as [pfx off t d Hp H1 H2 H3|pfx cb off lu ru ln rn TL TR BL BR HL IHL HR IHR];
      intros lo hi P ss nd' cost HC Hsame Hss Hcan.
    - (* one terminal *)
      inversion HC as [pfx0 lo0 pp Hn Hpp Hl1 Hl2|pfx0 cb0 lo0 mid hi0 pl PL sl ln0 cL PR sr rn0 cR Hn Hlen HCL HCR];
        subst.
      + unfold same_paths in Hsame. cbn [map mkp mpp_terminal mpp_depth vm_terminal vm_depth] in Hsame.
        injection Hsame as Ht Hd. subst t d.
        destruct (Hcan lo pp (le_n _) ltac:(lia) Hn) as [Hc1 [Hc2 Hc3]].
        unfold ptp in *.
        set (dd := length (pp_siblings pp)) in *.
        set (ub := firstn (dd - length pfx) (skipn (length pfx) (term_path (pp_terminal pp)))) in *.
        assert (Hfd : firstn dd (term_path (pp_terminal pp)) = pfx ++ ub).
        { unfold ub. rewrite (has_pfx_skipn _ _ Hp) at 1. rewrite firstn_app.
          rewrite (firstn_all2 pfx) by lia. reflexivity. }
        rewrite Hfd in Hc2, Hc3.
        rewrite chain_sibs_app in Hc2. rewrite sides_app in Hc3. cbn [plus] in Hc2, Hc3.
        assert (Hsk : skipn (length pfx) (pp_siblings pp) = chain_sibs H n ub (length pfx) (sides pfx 0 S0)).
        { rewrite Hc2. rewrite <- (chain_sibs_length H n pfx 0 S0) at 1. apply skipn_pre. }
        assert (Hlss : length (skipn (length pfx) (pp_siblings pp)) = dd - length pfx).
        { rewrite skipn_length. reflexivity. }
        split; [|symmetry; exact Hlss].
        apply HVR_one; try assumption.
        rewrite Hlss in Hss. rewrite Hss. exact Hsk.
      + exfalso. pose proof (MPS_nonempty H _ _ _ _ (CR_MPS H pps _ _ _ _ _ _ _ HCL)) as N1.
        pose proof (MPS_nonempty H _ _ _ _ (CR_MPS H pps _ _ _ _ _ _ _ HCR)) as N2.
        unfold same_paths in Hsame. apply (f_equal (@length _)) in Hsame.
        rewrite !map_length, app_length in Hsame. cbn [length] in Hsame.
        destruct PL; [congruence|]. destruct PR; [congruence|]. cbn [length] in Hsame. lia.
    - (* a bisection *)
      pose proof (VR_nonempty H sibs _ _ _ _ _ _ HL) as HneL.
      pose proof (VR_nonempty H sibs _ _ _ _ _ _ HR) as HneR.
      inversion HC as [pfx0 lo0 pp Hn Hpp Hl1 Hl2|pfx0 cb0 lo0 mid hi0 pl PL sl ln0 cL PR sr rn0 cR Hn Hlen HCL HCR];
        subst.
      + exfalso. unfold same_paths in Hsame. apply (f_equal (@length _)) in Hsame.
        rewrite !map_length, app_length in Hsame. cbn [length] in Hsame.
        destruct TL; [congruence|]. destruct TR; [congruence|]. cbn [length] in Hsame. lia.
      + pose proof (CR_MPS H pps _ _ _ _ _ _ _ HCL) as HML. pose proof (CR_MPS H pps _ _ _ _ _ _ _ HCR) as HMR.
        pose proof (MPS_nonempty H _ _ _ _ HML) as NL. pose proof (MPS_nonempty H _ _ _ _ HMR) as NR.
        (* the lists of terminal paths *)
        assert (Hpaths : map vpath TL ++ map vpath TR = map tpath PL ++ map tpath PR).
        { unfold same_paths in Hsame.
          apply (f_equal (map (fun x : terminal * nat => term_path (fst x)))) in Hsame.
          rewrite !map_map in Hsame. cbn [fst] in Hsame. rewrite !map_app in Hsame. exact Hsame. }
        assert (HpTL : forall x, In x (map vpath TL) -> has_pfx ((pfx ++ cb) ++ [false]) x).
        { intros x Hx. apply in_map_iff in Hx. destruct Hx as [t [<- Hin]]. rewrite <- app_assoc.
          apply (VR_pfx H sibs _ _ _ _ _ _ HL t Hin). }
        assert (HpTR : forall x, In x (map vpath TR) -> has_pfx ((pfx ++ cb) ++ [true]) x).
        { intros x Hx. apply in_map_iff in Hx. destruct Hx as [t [<- Hin]]. rewrite <- app_assoc.
          apply (VR_pfx H sibs _ _ _ _ _ _ HR t Hin). }
        assert (HpPL : forall x, In x (map tpath PL) -> has_pfx ((pfx ++ cb0) ++ [false]) x).
        { intros x Hx. apply in_map_iff in Hx. destruct Hx as [t [<- Hin]]. rewrite <- app_assoc.
          apply (MPS_pfx H _ _ _ _ HML t Hin). }
        assert (HpPR : forall x, In x (map tpath PR) -> has_pfx ((pfx ++ cb0) ++ [true]) x).
        { intros x Hx. apply in_map_iff in Hx. destruct Hx as [t [<- Hin]]. rewrite <- app_assoc.
          apply (MPS_pfx H _ _ _ _ HMR t Hin). }
        (* the common bits agree *)
        assert (Hcb : cb0 = cb).
        { destruct TL as [|t0 TL']; [congruence|]. destruct PL as [|p0 PL']; [congruence|].
          cbn [map app] in Hpaths. injection Hpaths as Hx0 Hrest.
          set (tl := last TR dummy_path).
          assert (Hlt : In (vpath tl) (map vpath TR)) by (apply in_map; apply last_In'; exact HneR).
          assert (Hlp : In (vpath tl) (map tpath PR)).
          { assert (Hlast : last (map vpath TL' ++ map vpath TR) [] = last (map tpath PL' ++ map tpath PR) [])
              by (rewrite Hrest; reflexivity).
            rewrite !last_app_ne' in Hlast by (intros E; apply map_eq_nil in E; congruence).
            assert (Hl1 : last (map vpath TR) [] = vpath tl).
            { unfold tl. clear -HneR. induction TR as [|a TR IH]; [congruence|].
              destruct TR as [|b TR]; [reflexivity|]. cbn [map] in *.
              change (last (vpath a :: vpath b :: map vpath TR) []) with (last (vpath b :: map vpath TR) []).
              change (last (a :: b :: TR) dummy_path) with (last (b :: TR) dummy_path).
              apply IH. discriminate. }
            rewrite <- Hl1, Hlast. apply last_In'. intros E. apply map_eq_nil in E. congruence. }
          pose proof (HpTL (vpath t0) (or_introl eq_refl)) as A1.
          pose proof (HpPL (tpath p0) (or_introl eq_refl)) as A2. rewrite <- Hx0 in A2.
          pose proof (HpTR _ Hlt) as A3. pose proof (HpPR _ Hlp) as A4.
          pose proof (has_pfx_split_common (pfx ++ cb) _ _ false A1 A3) as C1.
          pose proof (has_pfx_split_common (pfx ++ cb0) _ _ false A2 A4) as C2.
          rewrite C1 in C2. rewrite !app_length in C2.
          apply has_pfx_app_l in A1. apply has_pfx_app_l in A2. unfold has_pfx in A1, A2.
          rewrite !app_length in A1, A2.
          replace (length pfx + length cb0) with (length pfx + length cb) in A2 by lia.
          rewrite A1 in A2. apply app_inv_head in A2. symmetry. exact A2. }
        subst cb0.
        (* the bisection points agree *)
        assert (Hlen1 : length (map vpath TL) = length (map tpath PL)).
        { apply (split_unique _ (fun x : key => bit x (length (pfx ++ cb))) _ _ _ _ Hpaths).
          - intros x Hx. apply (has_pfx_bit (pfx ++ cb) false [] x). apply HpTL. exact Hx.
          - intros x Hx. apply (has_pfx_bit (pfx ++ cb) true [] x). apply HpTR. exact Hx.
          - intros x Hx. apply (has_pfx_bit (pfx ++ cb) false [] x). apply HpPL. exact Hx.
          - intros x Hx. apply (has_pfx_bit (pfx ++ cb) true [] x). apply HpPR. exact Hx. }
        rewrite !map_length in Hlen1.
        unfold same_paths in Hsame. rewrite !map_app in Hsame.
        destruct (app_eq_len _ _ _ _ _ Hsame ltac:(rewrite !map_length; exact Hlen1)) as [HsameL HsameR].
        (* the siblings *)
        set (seg := firstn (length cb) (skipn (length pfx) (pp_siblings pl))) in *.
        assert (Hlseg : length seg = length cb).
        { unfold seg. rewrite firstn_length, skipn_length. lia. }
        destruct (firstn_app3 _ (skipn off sibs) seg sl sr Hss) as [Hs1 [Hs2 Hs3]].
        rewrite skipn_skipn' in Hs2, Hs3. rewrite Hlseg in Hs1, Hs2, Hs3.
        destruct (CR_bounds H pps _ _ _ _ _ _ _ HCL) as [Blo [_ _]].
        destruct (CR_bounds H pps _ _ _ _ _ _ _ HCR) as [Bmid [_ _]].
        destruct (IHL lo mid PL sl ln0 cL HCL HsameL Hs2) as [HVL HluL].
        { intros i pp Hi1 Hi2. apply Hcan; lia. }
        subst lu.
        destruct (IHR mid hi PR sr rn0 cR HCR HsameR ltac:(rewrite <- Nat.add_assoc; exact Hs3)) as [HVR' HruR].
        { intros i pp Hi1 Hi2. apply Hcan; lia. }
        subst ru.
        split; [|rewrite !app_length, Hlseg; lia].
        rewrite !sides_app in HVL, HVR'. cbn [plus sides] in HVL, HVR'.
        apply HVR_split; try assumption.
        (* the common siblings are the chain siblings of the first path proof *)
        rewrite Hs1.
        destruct (Hcan lo pl (le_n _) ltac:(lia) Hn) as [Hc1 [Hc2 _]].
        destruct (CR_pfx H pps _ _ _ _ _ _ _ HCL lo (le_n _) Blo) as [pl' [Hn' Hppl]].
        rewrite Hn in Hn'. inversion Hn'; subst pl'. clear Hn'.
        rewrite app_assoc in Hppl. apply has_pfx_app_l in Hppl.
        set (dl := length (pp_siblings pl)) in *.
        assert (Hpd : has_pfx (pfx ++ cb) (firstn dl (ptp H pl))).
        { unfold has_pfx in *. rewrite firstn_firstn_le by (rewrite app_length; lia). exact Hppl. }
        apply has_pfx_skipn in Hpd. rewrite Hpd in Hc2.
        rewrite <- !app_assoc in Hc2. rewrite !chain_sibs_app in Hc2. cbn [plus] in Hc2.
        unfold seg. rewrite Hc2.
        rewrite <- (chain_sibs_length H n pfx 0 S0) at 1. rewrite skipn_pre.
        rewrite <- (chain_sibs_length H n cb (length pfx) (sides pfx 0 S0)) at 1. apply firstn_pre.
  Qed.
End Honest.

Lemma honest_shape : forall (H : Hasher), HasherOK H ->
  forall n S ks (mp : multi_proof H) v, honest n S ks mp v ->
  HVR H n (vmp_siblings v) [] 0 (length (vmp_siblings v)) S (vmp_inner v) (vmp_bisections v).
Proof.
  intros H OK n S ks mp v [Hwf [Hne [Hs [Hk [Hndt [Hfp Hv]]]]]].
  pose proof Hwf as [Hnd Hlen].
  set (pps := map (canonical_proof H n S) ks) in *.
  set (gt := fun k => pp_terminal (canonical_proof H n S k)).
  set (gs := fun k => pp_siblings (canonical_proof H n S k)).
  assert (Hgpp : forall k, canonical_proof H n S k = gpp H gt gs k).
  { intros k. unfold gpp, gt, gs. destruct (canonical_proof H n S k). reflexivity. }
  set (M := max_path_len (fun p : path_proof H => term_path (pp_terminal p)) pps).
  destruct (canon_CR H pps M n 0 S [] [] ks 0 gt gs) as [P [ss [cost [HC [Hcost _]]]]];
    try assumption; try reflexivity.
  - intros k Hin. unfold M.
    apply (max_path_len_In _ (fun p : path_proof H => term_path (pp_terminal p)) pps (canonical_proof H n S k)).
    unfold pps. apply in_map. exact Hin.
  - intros k Hin. split; [apply Hk; exact Hin|reflexivity].
  - intros k Hin. unfold gs, gt, canonical_proof.
    destruct (walk H (mk n 0 S) k 0) as [s tm]. split; reflexivity.
  - intros i k Hn. cbn [plus]. unfold pps. rewrite nth_error_map, Hn. cbn [option_map].
    rewrite Hgpp. reflexivity.
  - assert (Hlp : length ks = length pps) by (unfold pps; rewrite map_length; reflexivity).
    cbn [plus] in HC. rewrite Hlp in HC.
    pose proof (from_path_proofs_CR H pps P ss _ cost HC) as Hfp'.
    fold M in Hfp'. rewrite Hlp in Hcost.
    specialize (Hfp' ltac:(nia)).
    rewrite Hfp in Hfp'. inversion Hfp'; subst mp. clear Hfp'.
    destruct (MultiProof_proofs.verify_ok_inv H _ _ v Hv) as [nd [_ [HV [Hsib [_ [_ [_ Hsame]]]]]]].
    cbn [mp_paths mp_siblings] in *.
    assert (HPne : P <> []) by (apply (MPS_nonempty H _ _ _ _ (CR_MPS H pps _ _ _ _ _ _ _ HC))).
    specialize (Hsame HPne). rewrite Hsib.
    destruct (VR_CR_HVR H n S pps ss [] 0 (length ss) nd (vmp_inner v) (vmp_bisections v) HV
                0 (length pps) P ss _ cost HC Hsame) as [Hshape _].
    + cbn [skipn]. apply firstn_all.
    + intros i pp _ _ Hn. unfold pps in Hn. apply nth_error_map_inv in Hn. destruct Hn as [k [Hnk <-]].
      apply (canonical_canon_pp H n S Hwf). apply Hk. eapply nth_error_In. exact Hnk.
    + exact Hshape.
Qed.

Lemma terminal_contains_under : forall (t : verified_multi_path) k,
  terminal_contains t k = Ok true -> under t k.
Proof.
  intros t k Hc. unfold terminal_contains, slice_to_res in Hc.
  destruct (Nat.ltb (length k) (vm_depth t)); cbn [bind] in Hc; [discriminate|].
  destruct (Nat.ltb (length (term_path (vm_terminal t))) (vm_depth t)); cbn [bind] in Hc; [discriminate|].
  inversion Hc as [Hc']. apply key_eqb_true_iff in Hc'. exact Hc'.
Qed.

Lemma apply_upd_rel : forall S (W : wlist), sorted_keys (map fst W) = true -> upd_rel S W (apply S W).
Proof.
  intros S W Hs k. rewrite get_apply. rewrite last_write_wget by (apply sk_NoDup; exact Hs). reflexivity.
Qed.

(* C07, update half, for any key length n.  The write set must be strictly ascending, over n-bit
   keys, and IN SCOPE: every written key lies under the proven path of some terminal of the
   multi-proof (the mirror's own test, terminal_contains); otherwise verify_update returns
   Err MultiOpsOutOfOrder / Err MultiOpOutOfScope by design.  Terminals without operations are
   fine (unlike the per-path verifier there is no PathWithoutOps), and the empty write set
   returns the old root.  No collision-freeness is needed. *)
Theorem multi_update_correct_n : forall (H : Hasher), HasherOK H ->
  forall n S ks (mp : multi_proof H) v W, honest n S ks mp v ->
  kv_sorted S = true ->
  sorted_keys (map fst W) = true -> (forall k o, In (k, o) W -> length k = n) ->
  (forall k o, In (k, o) W -> exists t, In t (vmp_inner v) /\ terminal_contains t k = Ok true) ->
  MultiUpdate.verify_update H n v W = Ok (root_n H n (apply S W)).
Proof.
  intros H OK n S ks mp v W Hh HsS HsW HlW Hscope.
  pose proof Hh as [Hwf [_ [_ [_ [_ [_ Hv]]]]]].
  destruct W as [|c W].
  - cbn [MultiUpdate.verify_update apply fold_left].
    destruct (MultiProof_proofs.verify_ok_inv H _ _ v Hv) as [_ [_ [_ [_ [Hr _]]]]]. rewrite Hr. reflexivity.
  - unfold root_n.
    apply (verify_update_shape H OK n v S (apply S (c :: W))).
    + eapply honest_shape; eassumption.
    + eapply honest_typed; eassumption.
    + apply wf_goodkv. exact Hwf.
    + apply wf_goodkv. apply apply_wf; assumption.
    + exact HsW.
    + intros k o Hin. split; [eapply HlW; exact Hin|].
      destruct (Hscope k o Hin) as [t [Hint Hc]]. exists t. split; [exact Hint|].
      apply terminal_contains_under. exact Hc.
    + apply apply_upd_rel. exact HsW.
    + discriminate.
Qed.

Theorem multi_update_correct : forall (H : Hasher), HasherOK H ->
  forall S ks (mp : multi_proof H) v W, honest 256 S ks mp v ->
  kv_sorted S = true ->
  sorted_keys (map fst W) = true -> (forall k o, In (k, o) W -> length k = 256) ->
  (forall k o, In (k, o) W -> exists t, In t (vmp_inner v) /\ terminal_contains t k = Ok true) ->
  MultiUpdate.verify_update H 256 v W = Ok (root_n H 256 (apply S W)).
Proof. intros H OK S ks mp v W. apply (multi_update_correct_n H OK 256). Qed.

(* ... and therefore the same new root as the per-path update verifier on the witness grouped
   by terminal, and as the store.  (The two verifiers have different error types, so "equal
   results" is stated as: both return Ok of the same node, the root of the updated set.) *)
Corollary multi_update_agrees_n : forall (H : Hasher), HasherOK H ->
  forall n S ks (mp : multi_proof H) v W, honest n S ks mp v ->
  kv_sorted S = true ->
  sorted_keys (map fst W) = true -> (forall k o, In (k, o) W -> length k = n) ->
  (forall k o, In (k, o) W -> exists t, In t (vmp_inner v) /\ terminal_contains t k = Ok true) ->
  exists r, MultiUpdate.verify_update H n v W = Ok r /\
            VerifyUpdate.verify_update H n (root_n H n S) (group H n S W) = Ok r /\
            r = root_n H n (apply S W).
Proof.
  intros H OK n S ks mp v W Hh HsS HsW HlW Hscope.
  exists (root_n H n (apply S W)). split; [|split; [|reflexivity]].
  - eapply multi_update_correct_n; eassumption.
  - destruct Hh as [Hwf _]. apply verify_update_correct; assumption.
Qed.

Corollary multi_update_agrees : forall (H : Hasher), HasherOK H ->
  forall S ks (mp : multi_proof H) v W, honest 256 S ks mp v ->
  kv_sorted S = true ->
  sorted_keys (map fst W) = true -> (forall k o, In (k, o) W -> length k = 256) ->
  (forall k o, In (k, o) W -> exists t, In t (vmp_inner v) /\ terminal_contains t k = Ok true) ->
  exists r, MultiUpdate.verify_update H 256 v W = Ok r /\
            VerifyUpdate.verify_update H 256 (root_n H 256 S) (group H 256 S W) = Ok r /\
            r = root_n H 256 (apply S W).
Proof. intros H OK S ks mp v W. apply (multi_update_agrees_n H OK 256). Qed.

Print Assumptions multi_queries_agree.
Print Assumptions multi_queries_converse.
Print Assumptions multi_update_correct.
Print Assumptions multi_update_agrees.

(* ------------------------------------------------------------------------------------------ *)
(* executable instances (free hasher, 8-bit and 3-bit keys)                                     *)
(* ------------------------------------------------------------------------------------------ *)
Module MultiUpdateProofsExamples.
  Definition k (bits : list nat) : key := map (fun b => Nat.eqb b 1) bits.
  Definition S8 : kv :=
    [(k[0;0;0;0;0;0;0;1], 1%N); (k[0;0;0;0;0;0;1;0], 2%N); (k[0;1;0;0;0;0;0;0], 3%N);
     (k[1;0;1;0;0;0;0;0], 4%N); (k[1;0;1;1;0;0;0;0], 5%N); (k[1;1;1;1;1;1;1;1], 6%N)].
  Definition ks8 := [k[0;0;0;0;0;0;0;0]; k[0;0;0;0;0;0;1;0]; k[0;1;1;0;0;0;0;0]; k[1;0;1;0;0;0;0;0]; k[1;0;1;1;0;0;0;0]].

  Definition honest_v (n : nat) (S : kv) (ks : list key) : option (verified_multi_proof FreeH) :=
    match from_path_proofs FreeH (map (canonical_proof FreeH n S) ks) with
    | Ok mp => match MultiProof.verify FreeH mp (root_n FreeH n S) with Ok v => Some v | _ => None end
    | _ => None
    end.

  (* multi-proof update = root of the updated set, per-path update = root of the updated set *)
  Definition check (S : kv) ks W : option (res multi_verify_update_error bool * bool) :=
    match honest_v 8 S ks with
    | Some v =>
        Some (match MultiUpdate.verify_update FreeH 8 v W with
              | Ok r => Ok (fnode_eqb r (root_n FreeH 8 (apply S W)))
              | Err e => Err e
              | Panic => Panic
              end,
              match VerifyUpdate.verify_update FreeH 8 (root_n FreeH 8 S) (group FreeH 8 S W) with
              | Ok r => fnode_eqb r (root_n FreeH 8 (apply S W))
              | _ => false
              end)
    | None => None
    end.

  (* deletions that empty a sub-trie (the two leaves below 000000), then more of the left half *)
  Example del_subtrie : check S8 ks8 [(k[0;0;0;0;0;0;0;1], None); (k[0;0;0;0;0;0;1;0], None)] = Some (Ok true, true).
  Proof. vm_compute. reflexivity. Qed.
  Example del_left_half :
    check S8 ks8 [(k[0;0;0;0;0;0;0;1], None); (k[0;0;0;0;0;0;1;0], None); (k[0;1;0;0;0;0;0;0], None)] = Some (Ok true, true).
  Proof. vm_compute. reflexivity. Qed.
  (* everything the proof covers is deleted; only the uncovered leaf 11111111 remains *)
  Example del_all_covered :
    check S8 ks8 [(k[0;0;0;0;0;0;0;1], None); (k[0;0;0;0;0;0;1;0], None); (k[0;1;0;0;0;0;0;0], None);
                  (k[1;0;1;0;0;0;0;0], None); (k[1;0;1;1;0;0;0;0], None)] = Some (Ok true, true).
  Proof. vm_compute. reflexivity. Qed.
  (* inserts next to leaves, deletes, and an insert below a deleted leaf *)
  Example mixed :
    check S8 ks8 [(k[0;0;0;0;0;0;0;0], Some 3%N); (k[0;0;0;0;0;0;1;1], Some 3%N); (k[0;1;0;0;0;0;0;0], None);
                  (k[1;0;1;0;0;0;0;0], None); (k[1;0;1;1;0;0;0;0], None); (k[1;0;1;1;0;0;0;1], Some 0%N)]
    = Some (Ok true, true).
  Proof. vm_compute. reflexivity. Qed.
  (* inserts under terminators: the empty trie, and a terminator next to leaves *)
  Example ins_empty :
    check [] [k[1;0;1;1;0;0;0;1]] [(k[1;0;1;1;0;0;0;1], Some 0%N); (k[1;1;1;1;0;0;0;1], Some 0%N)] = Some (Ok true, true).
  Proof. vm_compute. reflexivity. Qed.
  Example ins_terminator :
    check S8 [k[0;0;0;0;0;0;0;0]; k[0;0;1;0;0;0;0;0]; k[1;0;1;0;0;0;0;0]; k[1;1;0;0;0;0;0;0]]
          [(k[0;0;1;0;0;0;0;0], Some 9%N); (k[0;0;1;0;0;0;0;1], Some 9%N); (k[1;1;0;0;0;0;0;0], Some 7%N)]
    = Some (Ok true, true).
  Proof. vm_compute. reflexivity. Qed.
  (* the last leaf is deleted: the root becomes the terminator *)
  Example del_last :
    check [(k[1;0;1;1;0;0;0;1], 1%N)] [k[1;0;1;1;0;0;0;1]] [(k[1;0;1;1;0;0;0;1], None)] = Some (Ok true, true).
  Proof. vm_compute. reflexivity. Qed.
  Example empty_write_set : check S8 ks8 [] = Some (Ok true, true).
  Proof. vm_compute. reflexivity. Qed.
  (* rejected by design: 00000010 is not under a terminal of the proof for these keys (the first
     terminal is the leaf 00000001 at depth 7); the per-path verifier, which is handed the witness
     of the written keys themselves, accepts *)
  Example out_of_scope :
    check S8 [k[0;0;0;0;0;0;0;0]; k[0;0;1;0;0;0;0;0]] [(k[0;0;0;0;0;0;0;1], None); (k[0;0;0;0;0;0;1;0], None)]
    = Some (Err MultiOpOutOfScope, true).
  Proof. vm_compute. reflexivity. Qed.

  (* queries: every individual answer is reproduced *)
  Definition qcheck (S : kv) ks (ki kq : key) (x : value) :=
    match honest_v 8 S ks, PathProof.verify FreeH (canonical_proof FreeH 8 S ki) ki (root_n FreeH 8 S) with
    | Some v, Ok vp =>
        Some (PathProof.confirm_value FreeH vp kq x, MultiProof.confirm_value FreeH v (kq, x),
              PathProof.confirm_nonexistence FreeH vp kq, MultiProof.confirm_nonexistence FreeH v kq)
    | _, _ => None
    end.
  Example q1 : qcheck S8 ks8 (k[0;0;0;0;0;0;0;0]) (k[0;0;0;0;0;0;0;1]) 1%N = Some (Ok true, Ok true, Ok false, Ok false).
  Proof. vm_compute. reflexivity. Qed.
  Example q2 : qcheck S8 ks8 (k[0;1;1;0;0;0;0;0]) (k[0;1;1;1;0;0;0;0]) 3%N = Some (Ok false, Ok false, Ok true, Ok true).
  Proof. vm_compute. reflexivity. Qed.
  (* the individual proof does not answer (out of its scope) but the multi-proof does *)
  Example q3 : qcheck S8 ks8 (k[0;1;1;0;0;0;0;0]) (k[1;0;1;1;0;0;0;0]) 5%N
               = Some (Err KeyOutOfScope, Ok true, Err KeyOutOfScope, Ok false).
  Proof. vm_compute. reflexivity. Qed.

  (* the theorems on an instance: the hypotheses are satisfiable *)
  Definition S3 : kv := [([false; false; true], 1%N); ([false; true; false], 2%N); ([true; true; false], 3%N)].
  Definition ks3 : list key := [[false; false; false]; [false; true; false]; [true; false; true]].
  Definition W3 : wlist := [([false; false; false], Some 7%N); ([false; true; false], None); ([true; false; true], Some 8%N)].
  Definition mp3 : multi_proof FreeH :=
    match from_path_proofs FreeH (map (canonical_proof FreeH 3 S3) ks3) with
    | Ok mp => mp | _ => {| mp_paths := []; mp_siblings := [] |} end.
  Definition v3 : verified_multi_proof FreeH :=
    match MultiProof.verify FreeH mp3 (root_n FreeH 3 S3) with
    | Ok v => v | _ => {| vmp_inner := []; vmp_bisections := []; vmp_siblings := []; vmp_root := (FT : node FreeH) |} end.

  Lemma honest3 : honest 3 S3 ks3 mp3 v3.
  Proof.
    unfold honest. split; [|split; [|split; [|split; [|split; [|split]]]]].
    - split.
      + vm_compute. repeat constructor; intros Hin; cbn in Hin; intuition discriminate.
      + intros k0 x [Heq|[Heq|[Heq|[]]]]; inversion Heq; reflexivity.
    - discriminate.
    - reflexivity.
    - intros k0 [<-|[<-|[<-|[]]]]; reflexivity.
    - vm_compute. repeat constructor; intros Hin; cbn in Hin; intuition discriminate.
    - vm_compute. reflexivity.
    - vm_compute. reflexivity.
  Qed.

  Example update_small_thm :
    MultiUpdate.verify_update FreeH 3 v3 W3 = Ok (root_n FreeH 3 (apply S3 W3)).
  Proof.
    apply (multi_update_correct_n FreeH FreeH_OK 3 S3 ks3 mp3 v3 W3 honest3).
    - reflexivity.
    - reflexivity.
    - intros k0 o [Heq|[Heq|[Heq|[]]]]; inversion Heq; reflexivity.
    - intros k0 o [Heq|[Heq|[Heq|[]]]]; inversion Heq; subst.
      + exists (nth 0 (vmp_inner v3) dummy_path). split; [vm_compute; tauto|vm_compute; reflexivity].
      + exists (nth 1 (vmp_inner v3) dummy_path). split; [vm_compute; tauto|vm_compute; reflexivity].
      + exists (nth 2 (vmp_inner v3) dummy_path). split; [vm_compute; tauto|vm_compute; reflexivity].
  Qed.

  Example queries_small_thm : forall vp,
    PathProof.verify FreeH (canonical_proof FreeH 3 S3 [false; true; false]) [false; true; false] (root_n FreeH 3 S3) = Ok vp ->
    forall b, PathProof.confirm_value FreeH vp [false; true; false] 2%N = Ok b ->
              MultiProof.confirm_value FreeH v3 ([false; true; false], 2%N) = Ok b.
  Proof.
    intros vp Hvp b Hb.
    apply (proj1 (multi_queries_agree_n FreeH FreeH_OK 3 S3 ks3 mp3 v3 honest3 [false; true; false]
                    (or_intror (or_introl eq_refl)) vp Hvp [false; true; false] 2%N eq_refl)).
    exact Hb.
  Qed.
End MultiUpdateProofsExamples.
