(* Theorems about the abstract store machine (Store.v): sequential model (C01), rejected
   commits (C12), rollback (C09), reopening (C10), overlays (C11). *)
From Coq Require Import List Bool Arith NArith Lia.
From Nomt Require Import Base Store Base_proofs.
Import ListNotations.

(* ---------- auxiliary ---------- *)

Lemma kv_eqb_refl : forall a, kv_eqb a a = true.
Proof. intros a. apply kv_eqb_true_iff. reflexivity. Qed.

Lemma apply_app : forall S a b, apply S (a ++ b) = apply (apply S a) b.
Proof. intros S a b. unfold apply. apply fold_left_app. Qed.

Lemma find_update_other : forall cs id f j,
  j <> id -> find (update cs id f) j = find cs j.
Proof.
  induction cs as [|[i c] cs IH]; intros id f j Hj.
  - reflexivity.
  - cbn [update]. destruct (N.eqb i id) eqn:E.
    + cbn [find]. apply N.eqb_eq in E. subst i.
      destruct (N.eqb id j) eqn:E2.
      * apply N.eqb_eq in E2. subst. contradiction.
      * reflexivity.
    + cbn [find]. destruct (N.eqb i j); [reflexivity|]. apply IH. exact Hj.
Qed.

(* the full effect of a plain commit *)
Lemma commit_finish_eq : forall st id b,
  exists cs,
  commit (finish st id [] b) id false =
  ({| cur := apply (cur st) (writes_of b);
      hist := push_hist (max_len st) (hist st) (cur st);
      max_len := max_len st;
      seqn := seqn st + 1;
      marker := None;
      csets := cs |}, COk).
Proof.
  intros st id b. unfold commit, finish.
  cbn [csets find]. rewrite N.eqb_refl.
  cbn [c_overlay c_base c_result view fold_right cur hist max_len seqn marker negb].
  rewrite kv_eqb_refl. unfold stale_count.
  cbn [c_parent c_seqn hd_error seqn negb orb]. rewrite N.eqb_refl. cbn [negb].
  eexists. reflexivity.
Qed.

Lemma commit_batch_eq : forall st id b,
  exists cs,
  commit_batch st id b =
  {| cur := apply (cur st) (writes_of b);
     hist := push_hist (max_len st) (hist st) (cur st);
     max_len := max_len st;
     seqn := seqn st + 1;
     marker := None;
     csets := cs |}.
Proof.
  intros st id b. unfold commit_batch.
  destruct (commit_finish_eq st id b) as [cs Hcs]. rewrite Hcs. exists cs. reflexivity.
Qed.

(* ---------- C01: committed state = sequential model ---------- *)

Lemma commit_batch_cur : forall st id batch,
  cur (commit_batch st id batch) = apply (cur st) (writes_of batch).
Proof.
  intros st id batch. destruct (commit_batch_eq st id batch) as [cs H]. rewrite H. reflexivity.
Qed.

Lemma commit_batch_seqn : forall st id batch, seqn (commit_batch st id batch) = (seqn st + 1)%N.
Proof.
  intros st id batch. destruct (commit_batch_eq st id batch) as [cs H]. rewrite H. reflexivity.
Qed.

Lemma commit_batch_hist : forall st id batch,
  hist (commit_batch st id batch) = push_hist (max_len st) (hist st) (cur st).
Proof.
  intros st id batch. destruct (commit_batch_eq st id batch) as [cs H]. rewrite H. reflexivity.
Qed.

Lemma commit_batch_max_len : forall st id batch,
  max_len (commit_batch st id batch) = max_len st.
Proof.
  intros st id batch. destruct (commit_batch_eq st id batch) as [cs H]. rewrite H. reflexivity.
Qed.

Fixpoint run_commits (st : state) (h : list (N * list (key * option (option value)))) : state :=
  match h with
  | [] => st
  | (id, b) :: h' => run_commits (commit_batch st id b) h'
  end.

Lemma run_commits_cur : forall h st,
  cur (run_commits st h) = apply (cur st) (concat (map (fun e => writes_of (snd e)) h)).
Proof.
  induction h as [|[id b] h IH]; intros st.
  - reflexivity.
  - cbn [run_commits map concat snd]. rewrite IH, commit_batch_cur, apply_app. reflexivity.
Qed.

Lemma run_commits_max_len : forall h st, max_len (run_commits st h) = max_len st.
Proof.
  induction h as [|[id b] h IH]; intros st.
  - reflexivity.
  - cbn [run_commits]. rewrite IH. apply commit_batch_max_len.
Qed.

Theorem C01_last_write : forall ml h k,
  get (cur (run_commits (init ml) h)) k =
  match last_write (concat (map (fun e => writes_of (snd e)) h)) k with
  | Some w => w
  | None => None
  end.
Proof.
  intros ml h k. rewrite run_commits_cur, get_apply. reflexivity.
Qed.

Theorem C01_delete_is_absence : forall S k v,
  get S k = None -> apply S [(k, Some v); (k, None)] = S.
Proof.
  intros S0 k v Hg. unfold apply. cbn [fold_left]. unfold apply1. cbn [fst snd].
  apply del_ins_absent. exact Hg.
Qed.

Lemma cur_sorted : forall ml h, kv_sorted (cur (run_commits (init ml) h)) = true.
Proof.
  intros ml h. rewrite run_commits_cur. apply apply_sorted. reflexivity.
Qed.

(* ---------- C12: a rejected or deferred commit has no effect ---------- *)

Theorem C12_reject_noop : forall st id busy st' r,
  commit st id busy = (st', r) -> r <> COk ->
  cur st' = cur st /\ hist st' = hist st /\ seqn st' = seqn st /\ marker st' = marker st /\
  max_len st' = max_len st /\
  (forall j, j <> id -> find (csets st') j = find (csets st) j) /\
  (r = CDeferred -> st' = st).
Proof.
  intros st id busy st' r Hc Hr. unfold commit in Hc.
  assert (Hdrop : forall q, q <> CDeferred -> (drop st id, q) = (st', r) ->
    cur st' = cur st /\ hist st' = hist st /\ seqn st' = seqn st /\ marker st' = marker st /\
    max_len st' = max_len st /\
    (forall j, j <> id -> find (csets st') j = find (csets st) j) /\
    (r = CDeferred -> st' = st)).
  { intros q Hq Heq. inversion Heq; subst st' r.
    repeat split; try reflexivity.
    - intros j Hj. unfold drop, with_csets. cbn [csets]. apply find_update_other. exact Hj.
    - intros Hd. contradiction. }
  assert (Hsame : forall q, q <> COk -> (st, q) = (st', r) ->
    cur st' = cur st /\ hist st' = hist st /\ seqn st' = seqn st /\ marker st' = marker st /\
    max_len st' = max_len st /\
    (forall j, j <> id -> find (csets st') j = find (csets st) j) /\
    (r = CDeferred -> st' = st)).
  { intros q Hq Heq. inversion Heq; subst st' r. repeat split; reflexivity. }
  destruct (find (csets st) id) as [c|].
  - match type of Hc with (if negb ?p then _ else _) = _ => destruct p end; cbn [negb] in Hc.
    + destruct busy.
      * apply (Hsame CDeferred); [discriminate|exact Hc].
      * destruct (negb (kv_eqb (cur st) (c_base c)) || stale_count st c).
        -- apply (Hdrop CStale); [discriminate|exact Hc].
        -- inversion Hc; subst r. contradiction Hr. reflexivity.
    + apply (Hdrop CParent); [discriminate|exact Hc].
  - apply (Hsame CUnknown); [discriminate|exact Hc].
Qed.

(* ---------- C12: the acceptance rule, exactly; ABA ---------- *)

(* which answer a (blocking) commit gives is decided by the state: once the parent check has passed,
   the commit succeeds exactly when the committed state is the change set's base AND - for a change
   set without a parent overlay - no commit or rollback has happened since its session was taken *)
Theorem commit_accept_iff : forall st id c,
  find (csets st) id = Some c -> c_parent c = None ->
  (snd (commit st id false) = COk <-> (cur st = c_base c /\ seqn st = c_seqn c)) /\
  (snd (commit st id false) = CStale <-> ~ (cur st = c_base c /\ seqn st = c_seqn c)).
Proof.
  intros st id c Hf Hp. unfold commit. rewrite Hf, Hp.
  cbn [negb]. unfold stale_count. rewrite Hp.
  assert (Hiff : negb (kv_eqb (cur st) (c_base c)) || negb (N.eqb (seqn st) (c_seqn c)) = false <->
                 cur st = c_base c /\ seqn st = c_seqn c).
  { rewrite orb_false_iff, !negb_false_iff, kv_eqb_true_iff, N.eqb_eq. reflexivity. }
  destruct (negb (kv_eqb (cur st) (c_base c)) || negb (N.eqb (seqn st) (c_seqn c))) eqn:E;
    cbn [snd]; split; split; intros H; try discriminate; try reflexivity.
  - apply Hiff in H. discriminate.
  - intros H'. apply Hiff in H'. discriminate.
  - apply Hiff. reflexivity.
  - exfalso. apply H. apply Hiff. reflexivity.
Qed.

(* everything a user of the store can do *)
Inductive op :=
| OFinish (j : N) (m : list N) (b : list (key * option (option value)))
| OOverlay (j : N)
| ODrop (j : N)
| OCommit (j : N) (busy : bool)
| ORollback (n : nat).

Definition step (st : state) (o : op) : state :=
  match o with
  | OFinish j m b => finish st j m b
  | OOverlay j => into_overlay st j
  | ODrop j => drop st j
  | OCommit j busy => fst (commit st j busy)
  | ORollback n => fst (rollback st n)
  end.

Fixpoint run_ops (st : state) (ops : list op) : state :=
  match ops with
  | [] => st
  | o :: ops' => run_ops (step st o) ops'
  end.

(* the operation is a successful commit, or a successful rollback of at least one commit *)
Definition moves (st : state) (o : op) : bool :=
  match o with
  | OCommit j busy => match snd (commit st j busy) with COk => true | _ => false end
  | ORollback (S n) => match snd (rollback st (S n)) with ROk => true | _ => false end
  | _ => false
  end.

(* some operation of the sequence, run from [st], is one *)
Fixpoint moved (st : state) (ops : list op) : bool :=
  match ops with
  | [] => false
  | o :: ops' => moves st o || moved (step st o) ops'
  end.

(* no later session is given the identifier [id] (identifiers name objects: they are not reused) *)
Definition no_reuse (id : N) (ops : list op) : bool :=
  forallb (fun o => match o with OFinish j _ _ => negb (N.eqb j id) | _ => true end) ops.

Lemma find_update_keeps : forall (f : cset -> cset),
  (forall c, c_parent (f c) = c_parent c /\ c_seqn (f c) = c_seqn c) ->
  forall cs j id c, find cs id = Some c ->
  exists c', find (update cs j f) id = Some c' /\ c_parent c' = c_parent c /\ c_seqn c' = c_seqn c.
Proof.
  intros f Hf. induction cs as [|[i c0] cs IH]; intros j id c H.
  - discriminate.
  - cbn [update]. cbn [find] in H. destruct (N.eqb i j) eqn:Ej.
    + cbn [find]. destruct (N.eqb i id) eqn:Ei.
      * injection H as <-. exists (f c0). split; [reflexivity|]. apply Hf.
      * exists c. repeat split; [exact H].
    + cbn [find]. destruct (N.eqb i id) eqn:Ei.
      * injection H as <-. exists c0. repeat split; reflexivity.
      * apply IH. exact H.
Qed.

Lemma set_status_keeps : forall s h c,
  c_parent (set_status s h c) = c_parent c /\ c_seqn (set_status s h c) = c_seqn c.
Proof. intros s h c. split; reflexivity. Qed.

Lemma drop_keeps : forall st j id c, find (csets st) id = Some c ->
  exists c', find (csets (drop st j)) id = Some c' /\ c_parent c' = c_parent c /\ c_seqn c' = c_seqn c.
Proof.
  intros st j id c H. unfold drop, with_csets. cbn [csets].
  apply find_update_keeps; [|exact H].
  intros c0. destruct (c_status c0); apply set_status_keeps.
Qed.

(* one operation: the change set [id] keeps its parent and its count, the store's count does not go
   back, and it advances when the operation is a successful commit or rollback *)
Lemma step_keeps : forall st o id c,
  find (csets st) id = Some c -> no_reuse id [o] = true ->
  exists c', find (csets (step st o)) id = Some c' /\ c_parent c' = c_parent c /\ c_seqn c' = c_seqn c /\
    (seqn st <= seqn (step st o))%N /\ (moves st o = true -> (seqn st < seqn (step st o))%N).
Proof.
  intros st o id c Hf Hnr.
  assert (Hsame : forall st', csets st' = csets st -> seqn st' = seqn st ->
            exists c', find (csets st') id = Some c' /\ c_parent c' = c_parent c /\ c_seqn c' = c_seqn c /\
                       (seqn st <= seqn st')%N).
  { intros st' Hc Hs. exists c. rewrite Hc, Hs. repeat split; [exact Hf|lia]. }
  destruct o as [j m b|j|j|j busy|n]; cbn [step moves].
  - (* finish of another session *)
    cbn [no_reuse forallb] in Hnr. rewrite andb_true_r in Hnr. apply negb_true_iff in Hnr.
    exists c. unfold finish. cbn [csets find seqn]. rewrite Hnr.
    repeat split; [exact Hf|lia|discriminate].
  - (* into_overlay *)
    unfold into_overlay, with_csets. cbn [csets seqn].
    destruct (find_update_keeps set_overlay (fun c0 => conj eq_refl eq_refl) (csets st) j id c Hf)
      as (c' & H1 & H2 & H3).
    exists c'. repeat split; try assumption; [lia|discriminate].
  - (* drop *)
    destruct (drop_keeps st j id c Hf) as (c' & H1 & H2 & H3).
    exists c'. repeat split; try assumption; [unfold drop, with_csets; cbn [seqn]; lia|discriminate].
  - (* commit *)
    unfold commit.
    destruct (find (csets st) j) as [cj|]; cbn [fst snd].
    + match goal with |- context [if negb ?p then _ else _] => destruct p end; cbn [negb fst snd].
      * destruct busy; cbn [fst snd].
        -- exists c. repeat split; [exact Hf|lia|discriminate].
        -- destruct (negb (kv_eqb (cur st) (c_base cj)) || stale_count st cj); cbn [fst snd].
           ++ destruct (drop_keeps st j id c Hf) as (c' & H1 & H2 & H3).
              exists c'. repeat split; try assumption;
                [unfold drop, with_csets; cbn [seqn]; lia|discriminate].
           ++ cbn [csets seqn].
              destruct (find_update_keeps (set_status Committed false) (set_status_keeps Committed false)
                          (csets st) j id c Hf) as (c' & H1 & H2 & H3).
              exists c'. repeat split; try assumption; lia.
      * destruct (drop_keeps st j id c Hf) as (c' & H1 & H2 & H3).
        exists c'. repeat split; try assumption;
          [unfold drop, with_csets; cbn [seqn]; lia|discriminate].
    + exists c. repeat split; [exact Hf|lia|discriminate].
  - (* rollback *)
    destruct n as [|n].
    + cbn [rollback fst]. exists c. repeat split; [exact Hf|lia|discriminate].
    + unfold rollback. destruct (max_len st) as [l|]; cbn [fst snd].
      * destruct (nth_error (hist st) n) as [snap|]; cbn [fst snd csets seqn].
        -- exists c. repeat split; [exact Hf|lia|intros _; lia].
        -- exists c. repeat split; [exact Hf|lia|discriminate].
      * exists c. repeat split; [exact Hf|lia|discriminate].
Qed.

Lemma run_ops_keeps : forall ops st id c,
  find (csets st) id = Some c -> no_reuse id ops = true ->
  exists c', find (csets (run_ops st ops)) id = Some c' /\ c_parent c' = c_parent c /\
    c_seqn c' = c_seqn c /\
    (seqn st <= seqn (run_ops st ops))%N /\ (moved st ops = true -> (seqn st < seqn (run_ops st ops))%N).
Proof.
  induction ops as [|o ops IH]; intros st id c Hf Hnr.
  - exists c. cbn [run_ops moved]. repeat split; [exact Hf|lia|discriminate].
  - cbn [run_ops moved]. cbn [no_reuse forallb] in Hnr. apply andb_true_iff in Hnr.
    destruct Hnr as [Hn1 Hn2].
    destruct (step_keeps st o id c Hf) as (c1 & F1 & P1 & S1 & L1 & M1).
    { cbn [no_reuse forallb]. rewrite Hn1. reflexivity. }
    destruct (IH (step st o) id c1 F1 Hn2) as (c2 & F2 & P2 & S2 & L2 & M2).
    exists c2. split; [exact F2|]. split; [congruence|]. split; [congruence|]. split; [lia|].
    intros Hm. apply orb_true_iff in Hm. destruct Hm as [Hm|Hm].
    + specialize (M1 Hm). lia.
    + specialize (M2 Hm). lia.
Qed.

(* ABA.  A session without a parent overlay is finished in any state; then anything at all is done
   with the store (other sessions finished, turned into overlays, dropped, committed or refused;
   rollbacks), among which at least one commit or rollback succeeds.  The first change set is then
   refused as stale and the refusal changes nothing - whatever the committed state is by then: in
   particular when it has come back to the change set's base (see [aba_example_*] below). *)
Theorem aba_rejected : forall st id batch ops,
  no_reuse id ops = true ->
  moved (finish st id [] batch) ops = true ->
  let st1 := run_ops (finish st id [] batch) ops in
  commit st1 id false = (drop st1 id, CStale) /\
  cur (drop st1 id) = cur st1 /\ hist (drop st1 id) = hist st1 /\ seqn (drop st1 id) = seqn st1 /\
  marker (drop st1 id) = marker st1 /\ max_len (drop st1 id) = max_len st1.
Proof.
  intros st id batch ops Hnr Hmv st1.
  split; [|repeat split; reflexivity].
  set (s0 := finish st id [] batch) in *.
  assert (Hf : exists c, find (csets s0) id = Some c /\ c_parent c = None /\ c_seqn c = seqn s0).
  { unfold s0, finish. cbn [csets find seqn]. rewrite N.eqb_refl. eexists. split; [reflexivity|].
    split; reflexivity. }
  destruct Hf as (c & Hf & Hp & Hs).
  destruct (run_ops_keeps ops s0 id c Hf Hnr) as (c' & F & P & S & _ & M).
  specialize (M Hmv). fold st1 in F, M.
  unfold commit. rewrite F. rewrite P, Hp.
  cbn [negb].
  assert (Hst : stale_count st1 c' = true).
  { unfold stale_count. rewrite P, Hp. apply negb_true_iff. apply N.eqb_neq. lia. }
  rewrite Hst, orb_true_r. reflexivity.
Qed.

(* two such histories in which the committed state does come back to the base of the change set:
   the old rule (equal states) would have accepted it *)

(* write then delete: 1 is prepared on the empty store; 2 inserts a key, 3 deletes it again *)
Example aba_example_delete :
  let k := [true; false] in
  let s0 := finish (init (Some 4)) 1%N [] [(k, Some (Some 7%N))] in
  let ops := [OFinish 2%N [] [(k, Some (Some 5%N))]; OCommit 2%N false;
              OFinish 3%N [] [(k, Some None)]; OCommit 3%N false] in
  let s1 := run_ops s0 ops in
  (no_reuse 1%N ops, moved s0 ops, cur s1, option_map c_base (find (csets s1) 1%N),
   option_map c_seqn (find (csets s1) 1%N), seqn s1,
   snd (commit s1 1%N false), cur (fst (commit s1 1%N false)), seqn (fst (commit s1 1%N false)),
   hist (fst (commit s1 1%N false))) =
  (true, true, [], Some [], Some 0%N, 2%N, CStale, [], 2%N, [[(k, 5%N)]; []]).
Proof. vm_compute. reflexivity. Qed.

(* commit then rollback *)
Example aba_example_rollback :
  let k := [true; false] in
  let s0 := finish (init (Some 4)) 1%N [] [(k, Some (Some 7%N))] in
  let ops := [OFinish 2%N [] [(k, Some (Some 5%N))]; OCommit 2%N false; ORollback 1] in
  let s1 := run_ops s0 ops in
  (no_reuse 1%N ops, moved s0 ops, cur s1, option_map c_base (find (csets s1) 1%N),
   option_map c_seqn (find (csets s1) 1%N), seqn s1,
   snd (commit s1 1%N false), cur (fst (commit s1 1%N false)), seqn (fst (commit s1 1%N false)),
   hist (fst (commit s1 1%N false))) =
  (true, true, [], Some [], Some 0%N, 2%N, CStale, [], 2%N, []).
Proof. vm_compute. reflexivity. Qed.

(* ---------- C09: rollback ---------- *)

Theorem rollback_fail_noop : forall st n st', rollback st n = (st', RErr) -> st' = st.
Proof.
  intros st n st' H. unfold rollback in H.
  destruct n as [|n']; [discriminate|].
  destruct (max_len st); [|inversion H; reflexivity].
  destruct (nth_error (hist st) n'); [discriminate|inversion H; reflexivity].
Qed.

Lemma rollback_ok_inv : forall st n st',
  rollback st (S n) = (st', ROk) ->
  exists snap l, max_len st = Some l /\ nth_error (hist st) n = Some snap /\
    st' = {| cur := snap; hist := skipn (S n) (hist st); max_len := max_len st;
             seqn := seqn st + 1; marker := None; csets := csets st |}.
Proof.
  intros st n st' H. unfold rollback in H.
  destruct (max_len st) as [l|] eqn:El; [|discriminate].
  destruct (nth_error (hist st) n) as [snap|] eqn:En; [|discriminate].
  exists snap, l. inversion H. repeat split; reflexivity.
Qed.

Lemma rollback_ok_intro : forall st n snap l,
  max_len st = Some l -> nth_error (hist st) n = Some snap ->
  rollback st (S n) =
    ({| cur := snap; hist := skipn (S n) (hist st); max_len := max_len st;
        seqn := seqn st + 1; marker := None; csets := csets st |}, ROk).
Proof.
  intros st n snap l Hl Hn. unfold rollback. rewrite Hl, Hn. reflexivity.
Qed.

Theorem rollback_ok_restores : forall st n st',
  rollback st n = (st', ROk) -> n > 0 ->
  exists snap, nth_error (hist st) (n - 1) = Some snap /\ cur st' = snap /\ hist st' = skipn n (hist st)
               /\ seqn st' = (seqn st + 1)%N.
Proof.
  intros st n st' H Hn. destruct n as [|n']; [lia|].
  apply rollback_ok_inv in H. destruct H as [snap [l [Hl [Hnth Hst]]]].
  exists snap. replace (S n' - 1) with n' by lia. subst st'. repeat split; try reflexivity. exact Hnth.
Qed.

Lemma nth_error_skipn' : forall A (l : list A) k i,
  nth_error (skipn k l) i = nth_error l (k + i).
Proof.
  intros A l. induction l as [|x l IH]; intros k i.
  - rewrite skipn_nil. destruct i; destruct k; reflexivity.
  - destruct k as [|k]; [reflexivity|]. cbn [skipn plus nth_error]. apply IH.
Qed.

Lemma skipn_skipn' : forall A (l : list A) k m,
  skipn m (skipn k l) = skipn (k + m) l.
Proof.
  intros A l. induction l as [|x l IH]; intros k m.
  - rewrite !skipn_nil. reflexivity.
  - destruct k as [|k]; [reflexivity|]. cbn [skipn plus]. apply IH.
Qed.

Theorem rollback_additive : forall st k m st1 st2 st3,
  k > 0 -> m > 0 ->
  rollback st k = (st1, ROk) -> rollback st1 m = (st2, ROk) -> rollback st (k + m) = (st3, ROk) ->
  cur st2 = cur st3 /\ hist st2 = hist st3.
Proof.
  intros st k m st1 st2 st3 Hk Hm H1 H2 H3.
  destruct k as [|k]; [lia|]. destruct m as [|m]; [lia|].
  cbn [plus] in H3.
  apply rollback_ok_inv in H1. destruct H1 as [s1 [l1 [Hl1 [Hn1 E1]]]].
  apply rollback_ok_inv in H2. destruct H2 as [s2 [l2 [Hl2 [Hn2 E2]]]].
  apply rollback_ok_inv in H3. destruct H3 as [s3 [l3 [Hl3 [Hn3 E3]]]].
  subst st2 st3. cbn [cur hist]. subst st1. cbn [hist] in *.
  rewrite nth_error_skipn' in Hn2.
  replace (S k + m) with (k + S m) in Hn2 by lia.
  rewrite Hn3 in Hn2. inversion Hn2; subst s3.
  split; [reflexivity|].
  rewrite skipn_skipn'. f_equal.
Qed.

Theorem rollback_additive_ok : forall st k m st1 st2,
  k > 0 -> m > 0 -> rollback st k = (st1, ROk) -> rollback st1 m = (st2, ROk) ->
  exists st3, rollback st (k + m) = (st3, ROk).
Proof.
  intros st k m st1 st2 Hk Hm H1 H2.
  destruct k as [|k]; [lia|]. destruct m as [|m]; [lia|].
  apply rollback_ok_inv in H1. destruct H1 as [s1 [l1 [Hl1 [Hn1 E1]]]].
  apply rollback_ok_inv in H2. destruct H2 as [s2 [l2 [Hl2 [Hn2 E2]]]].
  subst st1. cbn [hist] in Hn2. rewrite nth_error_skipn' in Hn2.
  replace (S k + m) with (k + S m) in Hn2 by lia.
  cbn [plus]. eexists. eapply rollback_ok_intro; eassumption.
Qed.

(* pushing a snapshot never disturbs a prefix shorter than the limit *)
Lemma push_hist_prefix : forall limit pre rest s,
  length pre < limit ->
  exists rest', push_hist (Some limit) (pre ++ rest) s = s :: pre ++ rest'.
Proof.
  intros limit pre rest s Hlen. unfold push_hist. cbv zeta.
  destruct (Nat.ltb limit (length (s :: pre ++ rest))) eqn:E.
  - apply Nat.ltb_lt in E.
    assert (Hne : rest <> []).
    { intros ->. rewrite app_nil_r in E. cbn [length] in E. lia. }
    exists (removelast rest).
    change (s :: pre ++ rest) with ((s :: pre) ++ rest).
    rewrite removelast_app by exact Hne. reflexivity.
  - exists rest. reflexivity.
Qed.

Lemma run_commits_hist_prefix : forall limit h st pre rest,
  max_len st = Some limit -> hist st = pre ++ rest -> length pre + length h <= limit ->
  exists snaps rest', hist (run_commits st h) = snaps ++ pre ++ rest' /\ length snaps = length h.
Proof.
  intros limit. induction h as [|[id b] h IH]; intros st pre rest Hml Hh Hlen.
  - exists [], rest. split; [exact Hh|reflexivity].
  - cbn [run_commits]. cbn [length] in Hlen.
    destruct (push_hist_prefix limit pre rest (cur st)) as [rest1 Hp]; [lia|].
    destruct (IH (commit_batch st id b) (cur st :: pre) rest1) as [snaps [rest' [H1 H2]]].
    + rewrite commit_batch_max_len. exact Hml.
    + rewrite commit_batch_hist, Hml, Hh. exact Hp.
    + cbn [length]. lia.
    + exists (snaps ++ [cur st]), rest'. split.
      * rewrite H1, <- app_assoc. reflexivity.
      * rewrite app_length, H2. cbn [length]. lia.
Qed.

(* The statement holds as given: no bound on the starting log is needed, because [push_hist]
   discards the OLDEST snapshot and only when the log is longer than the limit, so the newest
   [n <= limit] snapshots are always intact. *)
Theorem rollback_undoes_commits : forall st h n limit,
  max_len st = Some limit -> n = length h -> 0 < n -> n <= limit ->
  exists st', rollback (run_commits st h) n = (st', ROk) /\ cur st' = cur st.
Proof.
  intros st h n limit Hml Hn Hpos Hle.
  destruct h as [|[id b] h]; [cbn [length] in Hn; lia|].
  cbn [length] in Hn. subst n. cbn [run_commits].
  destruct (push_hist_prefix limit [] (hist st) (cur st)) as [rest1 Hp]; [cbn [length]; lia|].
  cbn [app] in Hp.
  destruct (run_commits_hist_prefix limit h (commit_batch st id b) [cur st] rest1)
    as [snaps [rest' [H1 H2]]].
  - rewrite commit_batch_max_len. exact Hml.
  - rewrite commit_batch_hist, Hml. exact Hp.
  - cbn [length]. lia.
  - eexists. split.
    + eapply rollback_ok_intro.
      * rewrite run_commits_max_len, commit_batch_max_len. exact Hml.
      * rewrite H1. rewrite nth_error_app2 by lia. rewrite H2, Nat.sub_diag. reflexivity.
    + reflexivity.
Qed.

Lemma push_hist_bound : forall n h s, length h <= n -> length (push_hist (Some n) h s) <= n.
Proof.
  intros n h s Hlen. unfold push_hist. cbv zeta.
  destruct (Nat.ltb n (length (s :: h))) eqn:E.
  - rewrite removelast_firstn_len, firstn_length. cbn [length] in *. lia.
  - apply Nat.ltb_ge in E. exact E.
Qed.

(* ---------- C10: reopening ---------- *)

Theorem reopen_transparent : forall st,
  cur (reopen st) = cur st /\ hist (reopen st) = hist st /\ seqn (reopen st) = seqn st /\
  max_len (reopen st) = max_len st.
Proof. intros st. repeat split; reflexivity. Qed.

Theorem reopen_then_commit : forall st id b,
  cur (commit_batch (reopen st) id b) = cur (commit_batch st id b) /\
  hist (commit_batch (reopen st) id b) = hist (commit_batch st id b).
Proof.
  intros st id b. rewrite !commit_batch_cur, !commit_batch_hist. split; reflexivity.
Qed.

Theorem reopen_then_rollback : forall st n,
  cur (fst (rollback (reopen st) n)) = cur (fst (rollback st n)) /\
  snd (rollback (reopen st) n) = snd (rollback st n).
Proof.
  intros st n. unfold rollback. destruct n as [|n']; [split; reflexivity|].
  cbn [reopen max_len hist].
  destruct (max_len st); [|split; reflexivity].
  destruct (nth_error (hist st) n'); split; reflexivity.
Qed.

(* ---------- C11: overlays ---------- *)

Lemma view_cons : forall st o m, view st (o :: m) = apply (view st m) (changes_of st o).
Proof. reflexivity. Qed.

Theorem fork_no_effect : forall st id m b,
  cur (finish st id m b) = cur st /\ hist (finish st id m b) = hist st /\
  cur (drop st id) = cur st /\ hist (drop st id) = hist st /\
  cur (into_overlay st id) = cur st /\ hist (into_overlay st id) = hist st.
Proof. intros st id m b. repeat split; reflexivity. Qed.

Theorem chain_commit_equiv : forall st b1 b2,
  (forall j, find (csets st) j = None) -> marker st = None ->
  let s1 := into_overlay (finish st 1%N [] b1) 1%N in
  let s2 := into_overlay (finish s1 2%N [1%N] b2) 2%N in
  let '(s3, r1) := commit s2 1%N false in
  let '(s4, r2) := commit s3 2%N false in
  r1 = COk /\ r2 = COk /\
  cur s4 = cur (commit_batch (commit_batch st 1%N b1) 2%N b2) /\
  hist s4 = hist (commit_batch (commit_batch st 1%N b1) 2%N b2).
Proof.
  intros st b1 b2 Hf Hm s1 s2.
  rewrite !commit_batch_cur, !commit_batch_hist, !commit_batch_max_len, commit_batch_cur.
  destruct (commit s2 1%N false) as [s3 r1] eqn:E1.
  destruct (commit s3 2%N false) as [s4 r2] eqn:E2.
  unfold commit in E1. subst s2 s1.
  unfold into_overlay, with_csets, finish in E1.
  cbn [csets update find cur hist max_len seqn marker N.eqb Pos.eqb] in E1.
  unfold stale_count in E1.
  cbn [set_overlay c_overlay c_parent c_seqn c_base negb view fold_right cur seqn hd_error] in E1.
  rewrite kv_eqb_refl, N.eqb_refl in E1. cbn [negb orb] in E1.
  inversion E1; subst s3 r1. clear E1.
  unfold commit in E2.
  cbn [csets update find cur hist max_len seqn marker N.eqb Pos.eqb] in E2.
  cbn [set_overlay set_status c_overlay c_parent c_base c_result c_changes negb view fold_right cur
       changes_of csets find N.eqb Pos.eqb hd_error] in E2.
  unfold stale_count in E2.
  cbn [set_overlay set_status c_parent hd_error] in E2.
  rewrite kv_eqb_refl in E2. cbn [negb orb] in E2.
  inversion E2; subst s4 r2. clear E2.
  cbn [cur hist]. repeat split; reflexivity.
Qed.

Theorem overlay_parent_refused : forall st id c p,
  find (csets st) id = Some c -> c_overlay c = true -> c_parent c = Some p -> marker st <> Some p ->
  snd (commit st id false) = CParent /\ cur (fst (commit st id false)) = cur st.
Proof.
  intros st id c p Hf Ho Hp Hm. unfold commit. rewrite Hf, Ho, Hp.
  destruct (marker st) as [m|] eqn:Em.
  - destruct (N.eqb p m) eqn:E.
    + apply N.eqb_eq in E. subst m. contradiction Hm. reflexivity.
    + cbn [negb fst snd]. split; reflexivity.
  - cbn [negb fst snd]. split; reflexivity.
Qed.

(* A change set kept across closing the handle and reopening the directory (finished sessions and
   overlays do not borrow the handle) is not a change set of the new handle: its commit is refused
   and changes nothing, whatever the committed state is; everything durable is what it was. *)
Lemma cross_handle_refused : forall st id busy,
  commit (reopen st) id busy = (reopen st, CUnknown) /\
  cur (reopen st) = cur st /\ hist (reopen st) = hist st /\ seqn (reopen st) = seqn st /\
  max_len (reopen st) = max_len st.
Proof. intros st id busy. repeat split. Qed.
