(* Small corollaries used by the property files (multi-proofs). *)
From Coq Require Import List.
From Nomt Require Import Base Hash Trie Result PathProof BuildTrie MultiProof MultiUpdate MultiProof_proofs.

Lemma multi_confirm_total_of_verify : forall (H : Hasher) (mp : multi_proof H) root v k x,
  mp_typed 256 mp -> MultiProof.verify H mp root = Ok v -> length k = 256 ->
  MultiProof.confirm_value H v (k, x) <> Panic /\ MultiProof.confirm_nonexistence H v k <> Panic.
Proof.
  intros H mp root v k x Hty Hv Hk.
  exact (multi_confirm_total H v k x (verify_vmp_wf H mp root v Hv)
           (verify_vmp_typed H 256 mp root v Hty Hv) Hk).
Qed.
