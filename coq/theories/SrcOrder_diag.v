(* DIAGNOSTICS, not proof obligations of any property: the textual order of marker expressions
   inside a few functions of /repo, regenerated on every run (Gen/SrcFacts.v).  A refactoring that
   moves code into helper functions or renames local variables makes these fail although nothing
   observable changes, so tools/check reports a failure here as a NOTE (and in the evidence),
   never as a violation; the properties' ties to the source are the correspondence runs, which
   observe the real order of the real I/O and API behaviour. *)
From Coq Require Import List NArith String Bool Arith.
From Nomt.Gen Require Import SrcFacts.
Import ListNotations.
Open Scope string_scope.

Fixpoint rank (name : string) (l : list (string * nat)) : nat :=
  match l with
  | [] => 0
  | (n, r) :: l' => if String.eqb n name then r else rank name l'
  end.

(* both present and in this order *)
Definition before (a b : string) (l : list (string * nat)) : bool :=
  Nat.ltb 0 (rank a l) && Nat.ltb (rank a l) (rank b l).

Definition absent (a : string) (l : list (string * nat)) : bool := Nat.eqb (rank a l) 0.

(* --- C12 / C14: the commit entry points of lib.rs ------------------------------------- *)
(* the write lock is taken before the previous-root check; nothing that changes state (rollback
   log, overlay status, root, store) happens before the check; a poisoned store is refused before
   the rollback log is touched *)
Definition entry_ok (overlay : bool) (l : list (string * nat)) : bool :=
  before "lock" "root_check" l &&
  before "lock" "poison_check" l &&
  before "poison_check" "rollback_append" l &&
  before "root_check" "rollback_append" l &&
  before "root_check" "root_update" l &&
  before "root_check" "store_commit" l &&
  before "rollback_append" "store_commit" l &&
  before "root_update" "store_commit" l &&
  (if overlay
   then before "parent_check" "lock" l && before "root_check" "mark_committed" l
   else absent "mark_committed" l).

Definition commit_orders_ok : bool :=
  entry_ok false steps_session_commit && entry_ok false steps_session_commit_nb &&
  entry_ok true steps_overlay_commit && entry_ok true steps_overlay_commit_nb &&
  before "lock" "poison_check" steps_rollback && before "poison_check" "truncate" steps_rollback &&
  before "truncate" "commit" steps_rollback.

Lemma commit_orders_ok_true : commit_orders_ok = true.
Proof. vm_compute. reflexivity. Qed.

(* --- C14: failures are examined and poison the store ------------------------------------ *)
Definition fault_handling_ok : bool :=
  before "poison_check" "sync" store_commit_steps && before "sync" "poison_set" store_commit_steps &&
  before "send" "recv_checked" write_ht_steps && before "recv_checked" "sync_all" write_ht_steps.

Lemma fault_handling_ok_true : fault_handling_ok = true.
Proof. vm_compute. reflexivity. Qed.

(* --- C03 / C04 / C17: the phases of a sync and the order inside its steps ----------------- *)
Definition sync_order_ok : bool :=
  before "bitbox_begin" "bitbox_wait_pre_meta" sync_phases &&
  before "beatree_begin" "beatree_wait_pre_meta" sync_phases &&
  before "rollback_begin" "meta_write" sync_phases &&
  before "bitbox_wait_pre_meta" "meta_write" sync_phases &&
  before "beatree_wait_pre_meta" "meta_write" sync_phases &&
  before "meta_write" "rollback_post_meta" sync_phases &&
  before "meta_write" "bitbox_post_meta" sync_phases &&
  before "meta_write" "beatree_post_meta" sync_phases &&
  before "rollback_post_meta" "rollback_wait_post_meta" sync_phases &&
  (* the redo log is complete and durable before it matters *)
  before "set_len" "write_all" write_wal_steps && before "write_all" "sync_all" write_wal_steps &&
  (* the switch-over record is written, then made durable *)
  before "write_all_at" "sync_all" meta_write_steps.

(* hash-table pages are durable before the redo log is discarded, in a sync and in recovery; a
   rollback record is complete and durable before the log's live range moves *)
Definition sync_order_ok2 : bool :=
  before "write_ht" "truncate_wal" bitbox_post_meta_steps &&
  before "redo_write" "ht_sync" bitbox_recover_steps &&
  before "ht_sync" "final_truncate" bitbox_recover_steps &&
  before "write_header" "write_payload" seglog_append_steps &&
  before "write_payload" "fsync" seglog_append_steps &&
  before "fsync" "end_live_update" seglog_append_steps.

Lemma sync_order_ok_true : sync_order_ok = true /\ sync_order_ok2 = true.
Proof. vm_compute. split; reflexivity. Qed.

(* --- C20: lock before touching the directory, drain before unlocking ---------------------- *)
Definition lock_order_ok : bool :=
  before "mkdir" "flock" store_create_steps && before "flock" "create_meta" store_create_steps &&
  before "io_shutdown" "flock_drop" shared_drop_steps.

Lemma lock_order_ok_true : lock_order_ok = true.
Proof. vm_compute. reflexivity. Qed.

(* --- constants the models use ------------------------------------------------------------- *)

(* the ten calls of Fault.sync_steps are in the textual order of Sync::sync (diagnostic: the marker
   expressions name the local variables of that function) *)
From Nomt Require Import Fault.
Lemma sync_steps_in_source_order :
  map (fun s => rank (step_name s) sync_phases) sync_steps = seq 1 10.
Proof. vm_compute; reflexivity. Qed.
