(* Theorems about the overlay index and LiveOverlay mirror (Overlay.v):
     prune_below_spec, idx_wf preservation, overlay_view (C11), new_refusals. *)
From Coq Require Import List Bool Arith NArith Lia.
From Nomt Require Import Base Result Store Base_proofs Overlay.
Import ListNotations.
Local Open Scope N_scope.

(* ------------------------------------------------------------------------------------------ *)
(* the map                                                                                    *)
(* ------------------------------------------------------------------------------------------ *)

Lemma mget_mremove : forall m k k',
  mget (mremove m k) k' = if key_eqb k k' then None else mget m k'.
Proof.
  unfold mremove.
  induction m as [|[k0 s0] m IH]; intros k k'; cbn [filter mget fst].
  - destruct (key_eqb k k'); reflexivity.
  - destruct (key_eqb k0 k) eqn:E0; cbn [negb].
    + apply key_eqb_true_iff in E0. subst. rewrite IH.
      destruct (key_eqb k k'); reflexivity.
    + cbn [mget]. rewrite IH.
      destruct (key_eqb k k') eqn:E1; [|reflexivity].
      apply key_eqb_true_iff in E1. subst. rewrite E0. reflexivity.
Qed.

Lemma mget_minsert : forall m k s k',
  mget (minsert m k s) k' = if key_eqb k k' then Some s else mget m k'.
Proof.
  intros m k s k'. unfold minsert. cbn [mget]. rewrite mget_mremove.
  destruct (key_eqb k k'); reflexivity.
Qed.

(* ------------------------------------------------------------------------------------------ *)
(* the index invariant                                                                        *)
(* ------------------------------------------------------------------------------------------ *)

(* the largest seqn listed for k in values_by_seqn *)
Fixpoint listed_max (q : list (N * key)) (k : key) : option N :=
  match q with
  | [] => None
  | (s, k') :: q' =>
      if key_eqb k' k
      then Some (match listed_max q' k with Some t => N.max s t | None => s end)
      else listed_max q' k
  end.

(* ascending by seqn (not strictly: one overlay lists many keys) *)
Fixpoint seq_sorted (q : list (N * key)) : Prop :=
  match q with
  | [] => True
  | e :: q' => (forall e', In e' q' -> fst e <= fst e') /\ seq_sorted q'
  end.

Definition idx_wf (ix : index) : Prop :=
  seq_sorted (ix_by_seqn ix) /\
  forall k, mget (ix_values ix) k = listed_max (ix_by_seqn ix) k.

(* keep an entry only if its seqn is >= min *)
Definition keep_ge (min : N) (o : option N) : option N :=
  match o with
  | Some s => if N.leb min s then Some s else None
  | None => None
  end.

Definition ge_min (min : N) (e : N * key) : bool := N.leb min (fst e).

Lemma listed_max_In : forall q k t, listed_max q k = Some t -> In (t, k) q.
Proof.
  induction q as [|[s k0] q IH]; intros k t H; cbn [listed_max] in H.
  - discriminate.
  - destruct (key_eqb k0 k) eqn:E.
    + apply key_eqb_true_iff in E. subst k0.
      destruct (listed_max q k) as [t'|] eqn:E'.
      * injection H as H. destruct (N.max_spec s t') as [[_ Hm]|[_ Hm]]; rewrite Hm in H; subst t.
        -- right. apply IH. exact E'.
        -- left. reflexivity.
      * injection H as H. subst. left. reflexivity.
    + right. apply IH. exact H.
Qed.

Lemma filter_all : forall A (f : A -> bool) l, (forall x, In x l -> f x = true) -> filter f l = l.
Proof.
  induction l as [|x l IH]; intros H; cbn [filter].
  - reflexivity.
  - rewrite (H x (or_introl eq_refl)). f_equal. apply IH. intros y Hy. apply H. right. exact Hy.
Qed.

Lemma seq_sorted_filter : forall f q, seq_sorted q -> seq_sorted (filter f q).
Proof.
  induction q as [|e q IH]; intros H; cbn [filter].
  - exact I.
  - destruct H as [H1 H2]. destruct (f e).
    + split.
      * intros e' He'. apply filter_In in He'. apply H1. tauto.
      * apply IH. exact H2.
    + apply IH. exact H2.
Qed.

(* the loop invariant of prune_below: the map and the remaining queue agree on everything the
   loop will keep.  (idx_wf itself is NOT an invariant of the loop: after popping (1,k) with
   (2,k) still queued and min = 5 the key is already gone from the map.) *)
Definition loop_inv (min : N) (m : vmap) (q : list (N * key)) : Prop :=
  (forall k s, mget m k = Some s -> listed_max q k = Some s) /\
  (forall k s, min <= s -> listed_max q k = Some s -> mget m k = Some s).

Lemma prune_loop_spec : forall min q m,
  seq_sorted q -> loop_inv min m q ->
  snd (prune_loop min m q) = filter (ge_min min) q /\
  forall k, mget (fst (prune_loop min m q)) k = keep_ge min (listed_max q k).
Proof.
  intros min. induction q as [|[s k0] q IH]; intros m Hs [Ha Hb].
  - cbn [prune_loop fst snd filter listed_max keep_ge]. split; [reflexivity|].
    intros k. destruct (mget m k) as [t|] eqn:E; [|reflexivity].
    apply Ha in E. discriminate.
  - cbn [prune_loop]. destruct (N.leb min s) eqn:Els.
    + (* the head stays: so does everything behind it *)
      apply N.leb_le in Els. cbn [fst snd].
      assert (Hall : forall e, In e ((s, k0) :: q) -> ge_min min e = true).
      { intros e [He|He]; unfold ge_min; apply N.leb_le.
        - subst e. exact Els.
        - destruct Hs as [Hs _]. specialize (Hs e He). cbn [fst] in Hs. lia. }
      split.
      * symmetry. apply filter_all. exact Hall.
      * intros k. destruct (listed_max ((s, k0) :: q) k) as [t|] eqn:E.
        -- assert (Ht : min <= t).
           { apply listed_max_In in E. apply Hall in E. unfold ge_min in E.
             apply N.leb_le in E. exact E. }
           rewrite (Hb k t Ht E). unfold keep_ge.
           apply N.leb_le in Ht. rewrite Ht. reflexivity.
        -- destruct (mget m k) as [t|] eqn:E'; [|reflexivity].
           apply Ha in E'. rewrite E' in E. discriminate.
    + apply N.leb_gt in Els.
      destruct Hs as [Hs1 Hs2].
      set (m2 := match mget m k0 with
                 | Some got =>
                     if negb (N.eqb got s) && N.leb min got
                     then minsert (mremove m k0) k0 got else mremove m k0
                 | None => mremove m k0
                 end).
      assert (Hm2 : forall k, mget m2 k =
                 if key_eqb k0 k
                 then match mget m k0 with
                      | Some got => if negb (N.eqb got s) && N.leb min got then Some got else None
                      | None => None
                      end
                 else mget m k).
      { intros k. unfold m2. destruct (mget m k0) as [got|].
        - destruct (negb (N.eqb got s) && N.leb min got).
          + rewrite mget_minsert, mget_mremove. destruct (key_eqb k0 k); reflexivity.
          + rewrite mget_mremove. reflexivity.
        - rewrite mget_mremove. reflexivity. }
      (* what the invariant says about the popped key *)
      assert (Hk0 : forall t, listed_max ((s, k0) :: q) k0 = Some t ->
                 t = match listed_max q k0 with Some t' => N.max s t' | None => s end).
      { intros t H. cbn [listed_max] in H. rewrite key_eqb_refl in H. injection H as H.
        symmetry. exact H. }
      assert (Hinv : loop_inv min m2 q).
      { split.
        - intros k t H. rewrite Hm2 in H. destruct (key_eqb k0 k) eqn:Ek.
          + apply key_eqb_true_iff in Ek. subst k.
            destruct (mget m k0) as [got|] eqn:Eg; [|discriminate].
            destruct (negb (N.eqb got s) && N.leb min got) eqn:Ec; [|discriminate].
            injection H as H. subst t.
            apply andb_true_iff in Ec. destruct Ec as [Ec1 Ec2].
            apply negb_true_iff in Ec1. apply N.eqb_neq in Ec1. apply N.leb_le in Ec2.
            pose proof (Hk0 _ (Ha _ _ Eg)) as Hgot.
            destruct (listed_max q k0) as [t'|]; [|congruence].
            f_equal. lia.
          + specialize (Ha k t H). cbn [listed_max] in Ha. rewrite Ek in Ha. exact Ha.
        - intros k t Ht H. rewrite Hm2. destruct (key_eqb k0 k) eqn:Ek.
          + apply key_eqb_true_iff in Ek. subst k.
            assert (Hfull : listed_max ((s, k0) :: q) k0 = Some t).
            { cbn [listed_max]. rewrite key_eqb_refl, H. f_equal. lia. }
            rewrite (Hb _ _ Ht Hfull).
            assert (Hne : N.eqb t s = false) by (apply N.eqb_neq; lia).
            assert (Hle : N.leb min t = true) by (apply N.leb_le; exact Ht).
            rewrite Hne, Hle. reflexivity.
          + apply Hb; [exact Ht|]. cbn [listed_max]. rewrite Ek. exact H. }
      destruct (IH m2 Hs2 Hinv) as [IH1 IH2].
      fold m2. split.
      * rewrite IH1. cbn [filter]. unfold ge_min at 2. cbn [fst].
        assert (Hf : N.leb min s = false) by (apply N.leb_gt; exact Els).
        rewrite Hf. reflexivity.
      * intros k. rewrite IH2. cbn [listed_max]. destruct (key_eqb k0 k) eqn:Ek; [|reflexivity].
        destruct (listed_max q k) as [t|]; cbn [keep_ge].
        -- destruct (N.leb min t) eqn:E1.
           ++ apply N.leb_le in E1. replace (N.max s t) with t by lia.
              apply N.leb_le in E1. rewrite E1. reflexivity.
           ++ apply N.leb_gt in E1.
              assert (Hf : N.leb min (N.max s t) = false) by (apply N.leb_gt; lia).
              rewrite Hf. reflexivity.
        -- assert (Hf : N.leb min s = false) by (apply N.leb_gt; exact Els).
           rewrite Hf. reflexivity.
Qed.

Lemma idx_wf_loop_inv : forall min ix, idx_wf ix -> loop_inv min (ix_values ix) (ix_by_seqn ix).
Proof.
  intros min ix [_ H]. split.
  - intros k s E. rewrite <- H. exact E.
  - intros k s _ E. rewrite H. exact E.
Qed.

(* Theorem 1 *)
Theorem prune_below_spec : forall min ix,
  idx_wf ix ->
  (forall k, mget (ix_values (prune_below min ix)) k = keep_ge min (mget (ix_values ix) k)) /\
  ix_by_seqn (prune_below min ix) = filter (ge_min min) (ix_by_seqn ix).
Proof.
  intros min ix Hwf.
  destruct (prune_loop_spec min (ix_by_seqn ix) (ix_values ix) (proj1 Hwf)
              (idx_wf_loop_inv min ix Hwf)) as [H1 H2].
  unfold prune_below. cbn [ix_values ix_by_seqn]. split.
  - intros k. rewrite H2. destruct Hwf as [_ Hm]. rewrite Hm. reflexivity.
  - exact H1.
Qed.

(* in words: k is in the pruned map with seqn s  iff  it was in the map with seqn s >= min *)
Corollary prune_below_spec_iff : forall min ix k s,
  idx_wf ix ->
  (mget (ix_values (prune_below min ix)) k = Some s <->
   mget (ix_values ix) k = Some s /\ min <= s).
Proof.
  intros min ix k s Hwf. destruct (prune_below_spec min ix Hwf) as [H _]. rewrite H.
  destruct (mget (ix_values ix) k) as [t|]; cbn [keep_ge].
  - destruct (N.leb min t) eqn:E.
    + apply N.leb_le in E. split.
      * intros H1. injection H1 as H1. subst. split; [reflexivity|exact E].
      * intros [H1 _]. exact H1.
    + apply N.leb_gt in E. split.
      * discriminate.
      * intros [H1 H2]. injection H1 as H1. subst. lia.
  - split; [discriminate|]. intros [H1 _]. discriminate.
Qed.

Lemma listed_max_filter : forall min q k,
  seq_sorted q -> listed_max (filter (ge_min min) q) k = keep_ge min (listed_max q k).
Proof.
  intros min. induction q as [|[s k0] q IH]; intros k Hs.
  - reflexivity.
  - destruct Hs as [Hs1 Hs2]. cbn [filter]. unfold ge_min at 1. cbn [fst].
    destruct (N.leb min s) eqn:Els.
    + apply N.leb_le in Els.
      assert (Hall : forall e, In e q -> ge_min min e = true).
      { intros e He. unfold ge_min. apply N.leb_le. specialize (Hs1 e He). cbn [fst] in Hs1. lia. }
      rewrite (filter_all _ _ _ Hall).
      destruct (listed_max ((s, k0) :: q) k) as [t|] eqn:E; [|reflexivity].
      cbn [keep_ge]. apply listed_max_In in E.
      assert (Ht : ge_min min (t, k) = true).
      { destruct E as [E|E]; [|apply Hall; exact E].
        injection E as E1 E2. subst. unfold ge_min. apply N.leb_le. exact Els. }
      unfold ge_min in Ht. cbn [fst] in Ht. rewrite Ht. reflexivity.
    + apply N.leb_gt in Els. rewrite (IH k Hs2). cbn [listed_max].
      destruct (key_eqb k0 k); [|reflexivity].
      destruct (listed_max q k) as [t|]; cbn [keep_ge].
      * destruct (N.leb min t) eqn:E1.
        -- apply N.leb_le in E1. replace (N.max s t) with t by lia.
           apply N.leb_le in E1. rewrite E1. reflexivity.
        -- apply N.leb_gt in E1.
           assert (Hf : N.leb min (N.max s t) = false) by (apply N.leb_gt; lia).
           rewrite Hf. reflexivity.
      * assert (Hf : N.leb min s = false) by (apply N.leb_gt; exact Els).
        rewrite Hf. reflexivity.
Qed.

(* Theorem 2a *)
Theorem prune_below_wf : forall min ix, idx_wf ix -> idx_wf (prune_below min ix).
Proof.
  intros min ix Hwf. destruct (prune_below_spec min ix Hwf) as [H1 H2]. split.
  - rewrite H2. apply seq_sorted_filter. exact (proj1 Hwf).
  - intros k. rewrite H1, H2, listed_max_filter by exact (proj1 Hwf).
    destruct Hwf as [_ Hm]. rewrite Hm. reflexivity.
Qed.

(* ---- insert_values ---- *)

Definition kmem (k : key) (ks : list key) : bool := existsb (fun k' => key_eqb k' k) ks.

Lemma seq_sorted_snoc : forall q s k,
  seq_sorted q -> (forall e, In e q -> fst e <= s) -> seq_sorted (q ++ [(s, k)]).
Proof.
  induction q as [|e q IH]; intros s k Hs Hle; cbn [app seq_sorted].
  - split; [intros e' []|exact I].
  - destruct Hs as [Hs1 Hs2]. split.
    + intros e' He'. apply in_app_or in He'. destruct He' as [He'|[He'|[]]].
      * apply Hs1. exact He'.
      * subst e'. cbn [fst]. apply Hle. left. reflexivity.
    + apply IH; [exact Hs2|]. intros e' He'. apply Hle. right. exact He'.
Qed.

Lemma listed_max_snoc : forall q s k k',
  (forall e, In e q -> fst e <= s) ->
  listed_max (q ++ [(s, k)]) k' = if key_eqb k k' then Some s else listed_max q k'.
Proof.
  induction q as [|[s0 k0] q IH]; intros s k k' Hle; cbn [app listed_max].
  - destruct (key_eqb k k'); reflexivity.
  - rewrite IH by (intros e He; apply Hle; right; exact He).
    assert (H0 : s0 <= s) by (apply (Hle (s0, k0)); left; reflexivity).
    destruct (key_eqb k0 k') eqn:E0; [|reflexivity].
    destruct (key_eqb k k') eqn:E1.
    + f_equal. lia.
    + reflexivity.
Qed.

Lemma insert_values_spec : forall s ks ix,
  (forall k, mget (ix_values (insert_values s ks ix)) k =
             if kmem k ks then Some s else mget (ix_values ix) k) /\
  ix_by_seqn (insert_values s ks ix) = ix_by_seqn ix ++ map (fun k => (s, k)) ks.
Proof.
  intros s. induction ks as [|k0 ks IH]; intros ix; cbn [insert_values kmem existsb map].
  - split; [reflexivity|]. rewrite app_nil_r. reflexivity.
  - destruct (IH {| ix_values := minsert (ix_values ix) k0 s;
                    ix_by_seqn := ix_by_seqn ix ++ [(s, k0)] |}) as [H1 H2].
    cbn [ix_values ix_by_seqn] in H1, H2. split.
    + intros k. rewrite H1. fold (kmem k ks). rewrite mget_minsert.
      destruct (kmem k ks); destruct (key_eqb k0 k); reflexivity.
    + rewrite H2, <- app_assoc. reflexivity.
Qed.

(* Theorem 2b: "the sequence number is assumed to be greater than or equal to the maximum in
   the vector" *)
Theorem insert_values_wf : forall s ks ix,
  idx_wf ix -> (forall e, In e (ix_by_seqn ix) -> fst e <= s) ->
  idx_wf (insert_values s ks ix).
Proof.
  intros s. induction ks as [|k0 ks IH]; intros ix Hwf Hle; cbn [insert_values].
  - exact Hwf.
  - apply IH.
    + destruct Hwf as [Hs Hm]. split; cbn [ix_values ix_by_seqn].
      * apply seq_sorted_snoc; assumption.
      * intros k. rewrite mget_minsert, listed_max_snoc by exact Hle. rewrite Hm. reflexivity.
    + cbn [ix_by_seqn]. intros e He. apply in_app_or in He. destruct He as [He|[He|[]]].
      * apply Hle. exact He.
      * subst e. cbn [fst]. lia.
Qed.

Lemma insert_values_bound : forall s ks ix e,
  (forall e, In e (ix_by_seqn ix) -> fst e <= s) ->
  In e (ix_by_seqn (insert_values s ks ix)) -> fst e <= s.
Proof.
  intros s ks ix e Hle He. rewrite (proj2 (insert_values_spec s ks ix)) in He.
  apply in_app_or in He. destruct He as [He|He].
  - apply Hle. exact He.
  - apply in_map_iff in He. destruct He as [k [He _]]. subst e. cbn [fst]. lia.
Qed.

(* ------------------------------------------------------------------------------------------ *)
(* specification side: the nearest overlay of a chain that touched a key                      *)
(* ------------------------------------------------------------------------------------------ *)

Definition vals_of (os : ostore) (id : N) : list change :=
  match ov_find os id with Some o => o_values o | None => [] end.

Definition chain_vals (os : ostore) (ids : list N) : list (list change) := map (vals_of os) ids.

Definition touches (vs : list change) (k : key) : bool :=
  match chg_get vs k with Some _ => true | None => false end.

(* position (0 = nearest) of the first change list that touches k *)
Fixpoint nearest_pos (vss : list (list change)) (k : key) : option nat :=
  match vss with
  | [] => None
  | vs :: r => if touches vs k then Some O else option_map S (nearest_pos r k)
  end.

(* the change to k in the nearest change list that touches k *)
Fixpoint nearest_change (vss : list (list change)) (k : key) : option (option value) :=
  match vss with
  | [] => None
  | vs :: r => match chg_get vs k with Some w => Some w | None => nearest_change r k end
  end.

Lemma nearest_pos_cons : forall vs r k,
  nearest_pos (vs :: r) k = if touches vs k then Some O else option_map S (nearest_pos r k).
Proof. reflexivity. Qed.

Lemma touches_kmem : forall vs k, touches vs k = kmem k (map fst vs).
Proof.
  unfold touches, kmem. induction vs as [|[k0 w] vs IH]; intros k; cbn [chg_get map existsb fst].
  - reflexivity.
  - destruct (key_eqb k0 k); [reflexivity|]. cbn [orb]. apply IH.
Qed.

Lemma nearest_pos_lt : forall vss k i, nearest_pos vss k = Some i -> (i < length vss)%nat.
Proof.
  induction vss as [|vs r IH]; intros k i H; cbn [nearest_pos] in H.
  - discriminate.
  - cbn [length]. destruct (touches vs k).
    + injection H as H. subst. lia.
    + destruct (nearest_pos r k) as [j|] eqn:E; [|discriminate].
      injection H as H. subst. specialize (IH k j E). lia.
Qed.

Lemma nearest_pos_app : forall a b k,
  nearest_pos (a ++ b) k =
  match nearest_pos a k with
  | Some i => Some i
  | None => option_map (fun j => (length a + j)%nat) (nearest_pos b k)
  end.
Proof.
  induction a as [|vs a IH]; intros b k; cbn [app nearest_pos length].
  - destruct (nearest_pos b k); reflexivity.
  - destruct (touches vs k); [reflexivity|]. rewrite IH.
    destruct (nearest_pos a k); [reflexivity|].
    destruct (nearest_pos b k); reflexivity.
Qed.

Lemma nearest_pos_change : forall vss k i,
  nearest_pos vss k = Some i ->
  exists vs w, nth_error vss i = Some vs /\ chg_get vs k = Some w /\ nearest_change vss k = Some w.
Proof.
  induction vss as [|vs r IH]; intros k i H; cbn [nearest_pos] in H.
  - discriminate.
  - unfold touches in H. cbn [nearest_change]. destruct (chg_get vs k) as [w|] eqn:E.
    + injection H as H. subst. exists vs, w. cbn [nth_error]. auto.
    + destruct (nearest_pos r k) as [j|] eqn:E'; [|discriminate].
      injection H as H. subst. destruct (IH k j E') as [vs' [w [H1 [H2 H3]]]].
      exists vs', w. cbn [nth_error]. auto.
Qed.

Lemma nearest_pos_none : forall vss k, nearest_pos vss k = None -> nearest_change vss k = None.
Proof.
  induction vss as [|vs r IH]; intros k H; cbn [nearest_pos] in H; cbn [nearest_change].
  - reflexivity.
  - unfold touches in H. destruct (chg_get vs k); [discriminate|].
    destruct (nearest_pos r k) eqn:E; [discriminate|]. apply IH. exact E.
Qed.

(* ------------------------------------------------------------------------------------------ *)
(* the store invariant                                                                        *)
(* ------------------------------------------------------------------------------------------ *)

(* records are never removed from the store *)
Definition ov_extends (os os' : ostore) : Prop :=
  forall id o, ov_find os id = Some o -> ov_find os' id = Some o.

Definition ov_ok (os : ostore) (o : overlay) : Prop :=
  idx_wf (o_index o) /\
  (forall e, In e (ix_by_seqn (o_index o)) -> fst e <= o_seqn o) /\
  (* the recorded ancestor at distance i+1 exists and has seqn = o_seqn - (i+1) *)
  (forall i a, nth_error (o_ancestors o) i = Some a ->
     exists ao, ov_find os a = Some ao /\ o_seqn ao + 1 + N.of_nat i = o_seqn o) /\
  (* the index names, for every key, the nearest of o and its recorded ancestors touching it *)
  (forall k, mget (ix_values (o_index o)) k =
     option_map (fun i => o_seqn o - N.of_nat i)
                (nearest_pos (o_values o :: chain_vals os (o_ancestors o)) k)) /\
  o_parent o = hd_error (o_ancestors o) /\
  NoDup (map fst (o_values o)).

Definition store_ok (os : ostore) : Prop := forall id o, ov_find os id = Some o -> ov_ok os o.

(* a LiveOverlay whose strong references point into the store: parent, a prefix of the parent's
   recorded ancestors, and min_seqn = parent.seqn - len.  lo_new only produces such values and
   they stay such while the store grows / statuses change. *)
Definition lo_ok (os : ostore) (lo : live_overlay) : Prop :=
  match lo_parent lo with
  | None => lo_ancestors lo = []
  | Some p =>
      exists po, ov_find os p = Some po /\
        (exists rest, o_ancestors po = lo_ancestors lo ++ rest) /\
        lo_min_seqn lo + N.of_nat (length (lo_ancestors lo)) = o_seqn po
  end.

Lemma ov_extends_refl : forall os, ov_extends os os.
Proof. intros os id o H. exact H. Qed.

Lemma ov_extends_trans : forall a b c, ov_extends a b -> ov_extends b c -> ov_extends a c.
Proof. intros a b c H1 H2 id o H. apply H2, H1, H. Qed.

Lemma ov_ok_anc_in : forall os o a,
  ov_ok os o -> In a (o_ancestors o) -> exists ao, ov_find os a = Some ao.
Proof.
  intros os o a Hok Hin. destruct Hok as [_ [_ [Hanc _]]].
  apply In_nth_error in Hin. destruct Hin as [i Hi].
  destruct (Hanc i a Hi) as [ao [H _]]. exists ao. exact H.
Qed.

Lemma ov_ok_anc_len : forall os o, ov_ok os o -> N.of_nat (length (o_ancestors o)) <= o_seqn o.
Proof.
  intros os o Hok. destruct Hok as [_ [_ [Hanc _]]].
  destruct (o_ancestors o) as [|a l] eqn:E using rev_ind.
  - cbn [length]. lia.
  - clear IHl. assert (Hn : nth_error (l ++ [a]) (length l) = Some a).
    { rewrite nth_error_app2 by lia. rewrite Nat.sub_diag. reflexivity. }
    destruct (Hanc _ _ Hn) as [ao [_ Hs]]. rewrite app_length. cbn [length]. lia.
Qed.

Lemma chain_vals_ext : forall os os' l,
  ov_extends os os' -> (forall a, In a l -> exists ao, ov_find os a = Some ao) ->
  chain_vals os' l = chain_vals os l.
Proof.
  intros os os' l Hext Hl. unfold chain_vals. apply map_ext_in. intros a Ha.
  destruct (Hl a Ha) as [ao Hao]. unfold vals_of. rewrite Hao, (Hext _ _ Hao). reflexivity.
Qed.

Lemma ov_ok_ext : forall os os' o, ov_extends os os' -> ov_ok os o -> ov_ok os' o.
Proof.
  intros os os' o Hext Hok.
  pose proof (fun a => ov_ok_anc_in os o a Hok) as Hin.
  destruct Hok as [H1 [H2 [H3 [H4 [H5 H6]]]]].
  split; [exact H1|]. split; [exact H2|]. split; [|split; [|split; assumption]].
  - intros i a Hi. destruct (H3 i a Hi) as [ao [Ha Hs]]. exists ao. split; [|exact Hs].
    apply Hext. exact Ha.
  - intros k. rewrite (chain_vals_ext os os' _ Hext).
    + apply H4.
    + intros a Ha. apply Hin; assumption.
Qed.

Lemma lo_ok_ext : forall os os' lo, ov_extends os os' -> lo_ok os lo -> lo_ok os' lo.
Proof.
  intros os os' lo Hext H. unfold lo_ok in *. destruct (lo_parent lo) as [p|]; [|exact H].
  destruct H as [po [H1 H2]]. exists po. split; [|exact H2]. apply Hext. exact H1.
Qed.

(* ---- finish ---- *)

Lemma ov_find_finish : forall os id lo vals id',
  ov_find (lo_finish os id lo vals) id' =
  if N.eqb id id' then Some (finish_overlay os lo vals) else ov_find os id'.
Proof. intros. reflexivity. Qed.

Lemma finish_extends : forall os id lo vals,
  ov_find os id = None -> ov_extends os (lo_finish os id lo vals).
Proof.
  intros os id lo vals Hfresh id' o H. rewrite ov_find_finish.
  destruct (N.eqb id id') eqn:E; [|exact H].
  apply N.eqb_eq in E. subst. rewrite Hfresh in H. discriminate.
Qed.

Lemma finish_overlay_none : forall os lo vals,
  lo_parent lo = None ->
  finish_overlay os lo vals =
  {| o_seqn := 0;
     o_index := insert_values 0 (map fst vals) (prune_below (lo_min_seqn lo) ix_empty);
     o_values := vals; o_ancestors := []; o_parent := None |}.
Proof. intros os lo vals H. unfold finish_overlay, lo_chain. rewrite H. reflexivity. Qed.

Lemma finish_overlay_some : forall os lo vals p po,
  lo_parent lo = Some p -> ov_find os p = Some po ->
  finish_overlay os lo vals =
  {| o_seqn := o_seqn po + 1;
     o_index := insert_values (o_seqn po + 1) (map fst vals)
                  (prune_below (lo_min_seqn lo) (o_index po));
     o_values := vals; o_ancestors := p :: lo_ancestors lo; o_parent := Some p |}.
Proof. intros os lo vals p po H1 H2. unfold finish_overlay, lo_chain. rewrite H1, H2. reflexivity. Qed.

Lemma idx_wf_empty : idx_wf ix_empty.
Proof. split; [exact I|]. intros k. reflexivity. Qed.

Lemma finish_overlay_ok : forall os os' lo vals,
  store_ok os -> lo_ok os lo -> NoDup (map fst vals) -> ov_extends os os' ->
  ov_ok os' (finish_overlay os lo vals).
Proof.
  intros os os' lo vals Hst Hlo Hnd Hext. unfold lo_ok in Hlo.
  destruct (lo_parent lo) as [p|] eqn:Ep.
  - destruct Hlo as [po [Hf [[rest Hrest] Hmin]]].
    rewrite (finish_overlay_some os lo vals p po Ep Hf).
    pose proof (Hst p po Hf) as Hpo.
    pose proof (ov_ok_anc_len os po Hpo) as Hlen.
    pose proof (fun a => ov_ok_anc_in os po a Hpo) as Hin.
    destruct Hpo as [Hwf [Hbound [Hanc [Hidx [_ _]]]]].
    set (m := lo_ancestors lo) in *. set (min := lo_min_seqn lo) in *.
    destruct (prune_below_spec min (o_index po) Hwf) as [Hp1 Hp2].
    pose proof (prune_below_wf min (o_index po) Hwf) as Hpwf.
    assert (Hpb : forall e, In e (ix_by_seqn (prune_below min (o_index po))) ->
                            fst e <= o_seqn po + 1).
    { intros e He. rewrite Hp2 in He. apply filter_In in He. destruct He as [He _].
      specialize (Hbound e He). lia. }
    unfold ov_ok. cbn [o_seqn o_index o_values o_ancestors o_parent hd_error].
    split; [apply insert_values_wf; assumption|].
    split; [intros e He; eapply insert_values_bound; eassumption|].
    split; [|split; [|split; [reflexivity|exact Hnd]]].
    + intros i a Hi. destruct i as [|j]; cbn [nth_error] in Hi.
      * injection Hi as Hi. subst a. exists po. split; [apply Hext; exact Hf|]. lia.
      * assert (Hj : nth_error (o_ancestors po) j = Some a).
        { rewrite Hrest, nth_error_app1; [exact Hi|]. apply nth_error_Some. congruence. }
        destruct (Hanc j a Hj) as [ao [Ha Hs]]. exists ao. split; [apply Hext; exact Ha|]. lia.
    + intros k.
      rewrite (proj1 (insert_values_spec _ _ _)), Hp1, Hidx.
      assert (Hcv : chain_vals os' (p :: m) = o_values po :: chain_vals os m).
      { rewrite (chain_vals_ext os os' (p :: m) Hext).
        - unfold chain_vals at 1. cbn [map]. unfold vals_of at 1. rewrite Hf. reflexivity.
        - intros a [Ha|Ha].
          + subst a. exists po. exact Hf.
          + apply (Hin a). rewrite Hrest. apply in_or_app. left. exact Ha. }
      rewrite Hcv, (nearest_pos_cons vals). rewrite <- touches_kmem.
      destruct (touches vals k); [cbn [option_map]; f_equal; lia|].
      rewrite Hrest. unfold chain_vals at 1. rewrite map_app. fold (chain_vals os m).
      fold (chain_vals os rest). rewrite app_comm_cons, nearest_pos_app.
      destruct (nearest_pos (o_values po :: chain_vals os m) k) as [i|] eqn:Ei.
      * apply nearest_pos_lt in Ei. cbn [length] in Ei. unfold chain_vals in Ei.
        rewrite map_length in Ei. fold m in Ei. cbn [option_map keep_ge].
        assert (Hle : N.leb min (o_seqn po - N.of_nat i) = true) by (apply N.leb_le; lia).
        rewrite Hle. f_equal. lia.
      * destruct (nearest_pos (chain_vals os rest) k) as [j|] eqn:Ej; [|reflexivity].
        apply nearest_pos_lt in Ej. unfold chain_vals in Ej. rewrite map_length in Ej.
        cbn [option_map keep_ge length]. unfold chain_vals. rewrite map_length. fold m.
        rewrite Hrest, app_length in Hlen. fold m in Hlen.
        assert (Hle : N.leb min (o_seqn po - N.of_nat (S (length m) + j)) = false)
          by (apply N.leb_gt; lia).
        rewrite Hle. reflexivity.
  - rewrite (finish_overlay_none os lo vals Ep).
    unfold ov_ok. cbn [o_seqn o_index o_values o_ancestors o_parent hd_error].
    assert (Hpe : prune_below (lo_min_seqn lo) ix_empty = ix_empty) by reflexivity.
    rewrite Hpe.
    split; [apply insert_values_wf; [exact idx_wf_empty|intros e []]|].
    split; [intros e He; eapply insert_values_bound; [|exact He]; intros e' []|].
    split; [intros i a Hi; destruct i; discriminate|].
    split; [|split; [reflexivity|exact Hnd]].
    intros k. rewrite (proj1 (insert_values_spec _ _ _)). cbn [chain_vals map nearest_pos].
    rewrite <- touches_kmem. destruct (touches vals k); reflexivity.
Qed.

Lemma finish_ok : forall os id lo vals,
  store_ok os -> lo_ok os lo -> ov_find os id = None -> NoDup (map fst vals) ->
  store_ok (lo_finish os id lo vals).
Proof.
  intros os id lo vals Hst Hlo Hfresh Hnd id' o H.
  pose proof (finish_extends os id lo vals Hfresh) as Hext.
  rewrite ov_find_finish in H. destruct (N.eqb id id').
  - injection H as H. subst o. apply finish_overlay_ok; assumption.
  - apply (ov_ok_ext os); [exact Hext|]. apply (Hst id'). exact H.
Qed.

Lemma store_ok_same : forall os os',
  os_ovs os' = os_ovs os -> store_ok os -> store_ok os'.
Proof.
  intros os os' Heq Hst id o H.
  assert (Hf : forall i, ov_find os' i = ov_find os i) by (intros i; unfold ov_find; rewrite Heq; reflexivity).
  rewrite Hf in H. apply (ov_ok_ext os).
  - intros i o' Hi. rewrite Hf. exact Hi.
  - apply (Hst id). exact H.
Qed.

(* ------------------------------------------------------------------------------------------ *)
(* LiveOverlay::new                                                                           *)
(* ------------------------------------------------------------------------------------------ *)

Lemma zip_anc_ok : forall os supplied recorded m,
  zip_anc os supplied recorded = Ok m ->
  (exists rest, recorded = m ++ rest) /\
  m = firstn (length m) supplied /\
  (length m = Nat.min (length supplied) (length recorded)) /\
  (forall a, In a m -> held os a = true).
Proof.
  intros os. induction supplied as [|s sup IH]; intros recorded m H.
  - cbn [zip_anc] in H. injection H as H. subst m.
    split; [exists recorded; reflexivity|]. split; [reflexivity|]. split; [reflexivity|]. intros a [].
  - destruct recorded as [|a rec]; cbn [zip_anc] in H.
    + injection H as H. subst m.
      split; [exists []; reflexivity|]. split; [reflexivity|]. split; [reflexivity|]. intros a [].
    + destruct (held os a) eqn:Eh; cbn [negb] in H; [|discriminate].
      destruct (N.eqb s a) eqn:Es; cbn [negb] in H; [|discriminate].
      apply N.eqb_eq in Es. subst s.
      destruct (zip_anc os sup rec) as [m'| |] eqn:Ez; cbn [bind] in H; try discriminate.
      injection H as H. subst m.
      destruct (IH rec m' Ez) as [[rest Hr] [Hp [Hl Hh]]].
      split; [exists rest; rewrite Hr; reflexivity|].
      split; [cbn [length firstn]; f_equal; exact Hp|].
      split; [cbn [length]; rewrite Hl; reflexivity|].
      intros a' [Ha|Ha]; [subst; exact Eh|apply Hh; exact Ha].
Qed.

Lemma zip_anc_no_panic : forall os supplied recorded, zip_anc os supplied recorded <> Panic.
Proof.
  intros os. induction supplied as [|s sup IH]; intros recorded; cbn [zip_anc].
  - discriminate.
  - destruct recorded as [|a rec]; [discriminate|].
    destruct (negb (held os a)); [discriminate|].
    destruct (negb (N.eqb s a)); [discriminate|].
    specialize (IH rec). destruct (zip_anc os sup rec); cbn [bind]; congruence.
Qed.

(* what an accepted chain looks like *)
Lemma lo_new_inv : forall os chain lo,
  lo_new os chain = Ok lo ->
  (chain = [] /\ lo = {| lo_parent := None; lo_ancestors := []; lo_min_seqn := 0 |}) \/
  (exists p rest po m lst,
     chain = p :: rest /\ ov_find os p = Some po /\
     zip_anc os rest (o_ancestors po) = Ok m /\
     ov_find os (last m p) = Some lst /\
     match o_parent lst with Some pp => is_committed os pp = true | None => True end /\
     N.of_nat (length m) <= o_seqn po /\
     lo = {| lo_parent := Some p; lo_ancestors := m;
             lo_min_seqn := o_seqn po - N.of_nat (length m) |}).
Proof.
  intros os chain lo H. destruct chain as [|p rest]; cbn [lo_new] in H.
  - left. injection H as H. auto.
  - right. destruct (ov_find os p) as [po|] eqn:Ep; [|discriminate].
    destruct (zip_anc os rest (o_ancestors po)) as [m| |] eqn:Ez; cbn [bind] in H; try discriminate.
    destruct (ov_find os (last m p)) as [lst|] eqn:El; [|discriminate].
    exists p, rest, po, m, lst.
    destruct (o_parent lst) as [pp|] eqn:Epp.
    + destruct (is_committed os pp) eqn:Ec; cbn [negb] in H; [|discriminate].
      destruct (N.ltb (o_seqn po) (N.of_nat (length m))) eqn:Elt; [discriminate|].
      apply N.ltb_ge in Elt. injection H as H. repeat split; auto.
    + destruct (N.ltb (o_seqn po) (N.of_nat (length m))) eqn:Elt; [discriminate|].
      apply N.ltb_ge in Elt. injection H as H. repeat split; auto.
Qed.

Lemma lo_new_ok : forall os chain lo, lo_new os chain = Ok lo -> lo_ok os lo.
Proof.
  intros os chain lo H. apply lo_new_inv in H.
  destruct H as [[_ H]|[p [rest [po [m [lst [_ [Hf [Hz [_ [_ [Hlen H]]]]]]]]]]]]; subst lo; unfold lo_ok;
    cbn [lo_parent lo_ancestors lo_min_seqn].
  - reflexivity.
  - exists po. split; [exact Hf|]. split; [|lia].
    apply zip_anc_ok in Hz. exact (proj1 Hz).
Qed.

(* the overlays the session reads = the supplied chain cut to parent + recorded ancestors *)
Lemma lo_new_chain : forall os p rest lo,
  lo_new os (p :: rest) = Ok lo ->
  exists po, ov_find os p = Some po /\
    lo_chain lo = firstn (S (length (o_ancestors po))) (p :: rest).
Proof.
  intros os p rest lo H. apply lo_new_inv in H.
  destruct H as [[H _]|[p' [rest' [po [m [lst [Hc [Hf [Hz [_ [_ [_ H]]]]]]]]]]]]; [discriminate|].
  injection Hc as Hc1 Hc2. subst p' rest' lo. exists po. split; [exact Hf|].
  unfold lo_chain. cbn [lo_parent lo_ancestors firstn]. f_equal.
  apply zip_anc_ok in Hz. destruct Hz as [_ [Hp [Hl _]]].
  rewrite Hp at 1. rewrite Hl.
  destruct (Nat.min_spec (length rest) (length (o_ancestors po))) as [[Hlt Hm]|[Hle Hm]]; rewrite Hm.
  - rewrite !firstn_all2 by lia. reflexivity.
  - reflexivity.
Qed.

(* ------------------------------------------------------------------------------------------ *)
(* reachable stores                                                                           *)
(* ------------------------------------------------------------------------------------------ *)

(* Stores built by LiveOverlay::new + finish, Data drops and mark_committed.  A session is
   created by `new` on a store os0 and may be finished later, on any store os that still has all
   the records of os0 (records are never removed; os0 = os is the atomic case).  The written
   keys of a session are distinct (a HashMap). *)
Inductive reach : ostore -> Prop :=
| reach_empty : reach os_empty
| reach_finish : forall os0 chain lo os id vals,
    reach os0 -> lo_new os0 chain = Ok lo ->
    reach os -> ov_extends os0 os ->
    ov_find os id = None -> NoDup (map fst vals) ->
    reach (lo_finish os id lo vals)
| reach_drop : forall os id, reach os -> reach (drop_data os id)
| reach_commit : forall os id, reach os -> reach (mark_committed os id).

Lemma store_ok_empty : store_ok os_empty.
Proof. intros id o H. discriminate. Qed.

Theorem reach_store_ok : forall os, reach os -> store_ok os.
Proof.
  intros os H. induction H as [|os0 chain lo os id vals _ IH0 Hnew _ IH Hext Hfresh Hnd|os id _ IH|os id _ IH].
  - exact store_ok_empty.
  - apply finish_ok; try assumption. apply (lo_ok_ext os0); [exact Hext|].
    apply (lo_new_ok os0 chain). exact Hnew.
  - apply (store_ok_same os); [reflexivity|exact IH].
  - apply (store_ok_same os); [reflexivity|exact IH].
Qed.

(* ------------------------------------------------------------------------------------------ *)
(* Theorem 3: the view                                                                        *)
(* ------------------------------------------------------------------------------------------ *)

Lemma nth_error_chain_vals : forall os l j vs,
  nth_error (chain_vals os l) j = Some vs -> exists a, nth_error l j = Some a /\ vs = vals_of os a.
Proof.
  intros os. induction l as [|a l IH]; intros j vs H; destruct j as [|j]; cbn [chain_vals map nth_error] in *;
    try discriminate.
  - injection H as H. exists a. auto.
  - apply IH. exact H.
Qed.

Lemma lo_value_ok : forall os lo k,
  store_ok os -> lo_ok os lo ->
  lo_value os lo k = Ok (nearest_change (chain_vals os (lo_chain lo)) k).
Proof.
  intros os lo k Hst Hlo. unfold lo_ok in Hlo. unfold lo_value, lo_chain.
  destruct (lo_parent lo) as [p|] eqn:Ep; [|reflexivity].
  destruct Hlo as [po [Hf [[rest Hrest] Hmin]]]. rewrite Hf.
  pose proof (Hst p po Hf) as Hpo.
  pose proof (ov_ok_anc_len os po Hpo) as Hlen.
  destruct Hpo as [_ [_ [Hanc [Hidx _]]]].
  set (m := lo_ancestors lo) in *. set (min := lo_min_seqn lo) in *.
  rewrite Hidx.
  assert (Hcv : chain_vals os (p :: m) = o_values po :: chain_vals os m).
  { unfold chain_vals. cbn [map]. unfold vals_of at 1. rewrite Hf. reflexivity. }
  rewrite Hcv. rewrite Hrest. unfold chain_vals at 1. rewrite map_app.
  fold (chain_vals os m). fold (chain_vals os rest).
  rewrite Hrest, app_length in Hlen.
  assert (Hlm : length (o_values po :: chain_vals os m) = S (length m)).
  { cbn [length]. unfold chain_vals. rewrite map_length. reflexivity. }
  rewrite app_comm_cons, nearest_pos_app, Hlm.
  destruct (nearest_pos (o_values po :: chain_vals os m) k) as [i|] eqn:Ei.
  - (* the nearest toucher is one of the overlays the session holds *)
    pose proof (nearest_pos_lt _ _ _ Ei) as Hi. rewrite Hlm in Hi.
    destruct (nearest_pos_change _ _ _ Ei) as [vs [w [Hnth [Hget Hnc]]]].
    rewrite Hnc. cbn [option_map].
    assert (Hlt : N.ltb (o_seqn po - N.of_nat i) min = false) by (apply N.ltb_ge; lia).
    rewrite Hlt.
    replace (N.to_nat (o_seqn po - N.of_nat i - min)) with (length m - i)%nat by lia.
    destruct i as [|j].
    + cbn [nth_error] in Hnth. injection Hnth as Hnth. subst vs.
      rewrite Nat.sub_0_r, Nat.eqb_refl, Hget. reflexivity.
    + assert (Hne : Nat.eqb (length m - S j) (length m) = false) by (apply Nat.eqb_neq; lia).
      assert (Hnl : Nat.ltb (length m) (S (length m - S j)) = false) by (apply Nat.ltb_ge; lia).
      rewrite Hne, Hnl.
      replace (length m - (length m - S j) - 1)%nat with j by lia.
      cbn [nth_error] in Hnth. apply nth_error_chain_vals in Hnth.
      destruct Hnth as [a [Ha Hvs]]. rewrite Ha.
      assert (Hj : nth_error (o_ancestors po) j = Some a).
      { rewrite Hrest, nth_error_app1; [exact Ha|]. apply nth_error_Some. congruence. }
      destruct (Hanc j a Hj) as [ao [Hao _]]. rewrite Hao.
      unfold vals_of in Hvs. rewrite Hao in Hvs. subst vs. rewrite Hget. reflexivity.
  - (* nobody in the session's chain touched k *)
    rewrite (nearest_pos_none _ _ Ei).
    destruct (nearest_pos (chain_vals os rest) k) as [j|] eqn:Ej; [|reflexivity].
    (* an older recorded ancestor, no longer supplied, did: its index entry is below min_seqn *)
    apply nearest_pos_lt in Ej. unfold chain_vals in Ej. rewrite map_length in Ej.
    cbn [option_map].
    assert (Hlt : N.ltb (o_seqn po - N.of_nat (S (length m) + j)) min = true) by (apply N.ltb_lt; lia).
    rewrite Hlt. reflexivity.
Qed.

(* Theorem 3, first form.  For a session created on a reachable store os0 and read on any later
   reachable store os: the value is the change to k in the NEAREST overlay of the accepted chain
   that touched k, None if none did, never a Panic. *)
Theorem overlay_view_gen : forall os0 os chain lo k,
  reach os0 -> lo_new os0 chain = Ok lo -> reach os -> ov_extends os0 os ->
  lo_value os lo k = Ok (nearest_change (chain_vals os (lo_chain lo)) k).
Proof.
  intros os0 os chain lo k H0 Hnew H Hext. apply lo_value_ok.
  - apply reach_store_ok. exact H.
  - apply (lo_ok_ext os0); [exact Hext|]. apply (lo_new_ok os0 chain). exact Hnew.
Qed.

Theorem overlay_view : forall os chain lo k,
  reach os -> lo_new os chain = Ok lo ->
  lo_value os lo k = Ok (nearest_change (chain_vals os (lo_chain lo)) k).
Proof.
  intros os chain lo k H Hnew.
  apply (overlay_view_gen os os chain lo k H Hnew H (ov_extends_refl os)).
Qed.

Corollary overlay_view_no_panic : forall os chain lo k,
  reach os -> lo_new os chain = Ok lo -> is_panic (lo_value os lo k) = false.
Proof. intros os chain lo k H Hnew. rewrite (overlay_view os chain lo k H Hnew). reflexivity. Qed.

(* ---- second form: the Store.view formula ---- *)

Lemma chg_get_notin : forall vs k, ~ In k (map fst vs) -> chg_get vs k = None.
Proof.
  induction vs as [|[k1 w1] vs IH]; intros k Hnotin; [reflexivity|].
  cbn [chg_get]. cbn [map fst] in Hnotin.
  destruct (key_eqb k1 k) eqn:E1.
  - apply key_eqb_true_iff in E1. subst. exfalso. apply Hnotin. left. reflexivity.
  - apply IH. intros H. apply Hnotin. right. exact H.
Qed.

Lemma get_apply_chg_get : forall vs S k,
  NoDup (map fst vs) ->
  get (apply S vs) k = match chg_get vs k with Some w => w | None => get S k end.
Proof.
  induction vs as [|[k0 w] vs IH]; intros S k Hnd.
  - reflexivity.
  - cbn [map fst] in Hnd. inversion Hnd as [|x l Hnotin Hnd']. subst x l.
    change (apply S ((k0, w) :: vs)) with (apply (apply1 S (k0, w)) vs).
    rewrite (IH _ k Hnd'). cbn [chg_get].
    assert (H1 : get (apply1 S (k0, w)) k = if key_eqb k0 k then w else get S k).
    { unfold apply1. cbn [fst snd]. destruct w as [v|].
      - apply get_ins.
      - apply get_del. }
    destruct (key_eqb k0 k) eqn:E.
    + apply key_eqb_true_iff in E. subst k0. rewrite (chg_get_notin vs k Hnotin). exact H1.
    + destruct (chg_get vs k); [reflexivity|exact H1].
Qed.

Definition chain_state (os : ostore) (committed : kv) (ids : list N) : kv :=
  fold_right (fun id S => apply S (vals_of os id)) committed ids.

Lemma get_chain_state : forall os committed ids k,
  (forall id, In id ids -> NoDup (map fst (vals_of os id))) ->
  get (chain_state os committed ids) k =
  match nearest_change (chain_vals os ids) k with Some w => w | None => get committed k end.
Proof.
  intros os committed. induction ids as [|id ids IH]; intros k Hnd.
  - reflexivity.
  - cbn [chain_state fold_right chain_vals map nearest_change].
    rewrite get_apply_chg_get by (apply Hnd; left; reflexivity).
    destruct (chg_get (vals_of os id) k); [reflexivity|].
    apply IH. intros id' Hid'. apply Hnd. right. exact Hid'.
Qed.

Lemma vals_of_nodup : forall os id, store_ok os -> NoDup (map fst (vals_of os id)).
Proof.
  intros os id Hst. unfold vals_of. destruct (ov_find os id) as [o|] eqn:E.
  - destruct (Hst id o E) as [_ [_ [_ [_ [_ H]]]]]. exact H.
  - constructor.
Qed.

Lemma apply_view_ok : forall os committed lo k,
  store_ok os -> lo_ok os lo ->
  apply_view os committed lo k = Ok (get (chain_state os committed (lo_chain lo)) k).
Proof.
  intros os committed lo k Hst Hlo. unfold apply_view.
  rewrite (lo_value_ok os lo k Hst Hlo), get_chain_state.
  - destruct (nearest_change (chain_vals os (lo_chain lo)) k); reflexivity.
  - intros id _. apply vals_of_nodup. exact Hst.
Qed.

(* Theorem 3, second form: reading through the session = reading the committed state with the
   chain's change sets applied oldest first (the Store.view formula). *)
Theorem overlay_view_apply : forall os chain lo committed k,
  reach os -> lo_new os chain = Ok lo ->
  apply_view os committed lo k =
  Ok (get (fold_right (fun id S => apply S (vals_of os id)) committed (lo_chain lo)) k).
Proof.
  intros os chain lo committed k H Hnew. apply apply_view_ok.
  - apply reach_store_ok. exact H.
  - apply (lo_new_ok os chain). exact Hnew.
Qed.

(* ------------------------------------------------------------------------------------------ *)
(* Theorem 4: LiveOverlay::new refuses exactly when Store.check_chain does                    *)
(* ------------------------------------------------------------------------------------------ *)

(* an abstract-machine state whose change sets mirror the overlay store *)
Definition mirrors (os : ostore) (st : state) : Prop :=
  (forall id, ov_find os id = None -> Store.find (csets st) id = None) /\
  (forall id o, ov_find os id = Some o ->
     exists c, Store.find (csets st) id = Some c /\
       c_anc c = o_ancestors o /\ c_parent c = o_parent o /\
       c_held c = held os id /\ c_status c = status_of os id /\
       c_changes c = o_values o).

(* such a state always exists *)
Definition cset_of (os : ostore) (e : N * overlay) : N * cset :=
  (fst e, {| c_base := []; c_changes := o_values (snd e); c_result := [];
             c_parent := o_parent (snd e); c_seqn := 0; c_anc := o_ancestors (snd e);
             c_status := status_of os (fst e); c_held := held os (fst e);
             c_overlay := false |}).

Definition state_of (os : ostore) (committed : kv) : state :=
  {| cur := committed; hist := []; max_len := None; seqn := 0; marker := None;
     csets := map (cset_of os) (os_ovs os) |}.

Lemma mirrors_state_of : forall os committed, mirrors os (state_of os committed).
Proof.
  intros os committed. unfold mirrors, state_of, ov_find. cbn [csets].
  generalize (os_ovs os) as l. intros l. split.
  - induction l as [|[i o] l IH]; intros id H; cbn [map cset_of fst snd Store.find assoc] in *.
    + reflexivity.
    + destruct (N.eqb i id); [discriminate|]. apply IH. exact H.
  - induction l as [|[i o] l IH]; intros id o' H; cbn [map cset_of fst snd Store.find assoc] in *.
    + discriminate.
    + destruct (N.eqb i id) eqn:E.
      * injection H as H. subst o'. apply N.eqb_eq in E. subst i.
        eexists. split; [reflexivity|]. cbn. repeat split; reflexivity.
      * apply IH. exact H.
Qed.

(* the outcome of new read as an outcome of check_chain; a Panic corresponds to nothing *)
Definition chain_res_of (r : res invalid_ancestors live_overlay) : option chain_res :=
  match r with
  | Ok lo => Some (ChainOk (lo_chain lo))
  | Err IANotAncestor => Some NotAncestor
  | Err IAIncomplete => Some Incomplete
  | Panic => None
  end.

Definition zip_res_of (r : res invalid_ancestors (list N)) : chain_res :=
  match r with
  | Ok m => ChainOk m
  | Err IANotAncestor => NotAncestor
  | Err IAIncomplete => Incomplete
  | Panic => Incomplete
  end.

Lemma zip_chain_anc : forall os st supplied recorded,
  (forall a, In a recorded -> alive st a = held os a) ->
  zip_chain st supplied recorded = zip_res_of (zip_anc os supplied recorded).
Proof.
  intros os st. induction supplied as [|s sup IH]; intros recorded Hal.
  - reflexivity.
  - destruct recorded as [|a rec]; [reflexivity|]. cbn [zip_chain zip_anc].
    rewrite (Hal a (or_introl eq_refl)).
    destruct (held os a); cbn [negb]; [|reflexivity].
    destruct (N.eqb s a); cbn [negb]; [|reflexivity].
    rewrite (IH rec) by (intros a' Ha'; apply Hal; right; exact Ha').
    destruct (zip_anc os sup rec) as [m|[|]|]; reflexivity.
Qed.

Lemma mirrors_alive : forall os st id o,
  mirrors os st -> ov_find os id = Some o -> alive st id = held os id.
Proof.
  intros os st id o [_ Hm] Hf. destruct (Hm id o Hf) as [c [Hc [_ [_ [Hh _]]]]].
  unfold alive. rewrite Hc. exact Hh.
Qed.

Lemma mirrors_committed : forall os st id o,
  mirrors os st -> ov_find os id = Some o -> committed st id = is_committed os id.
Proof.
  intros os st id o [_ Hm] Hf. destruct (Hm id o Hf) as [c [Hc [_ [_ [_ [Hs _]]]]]].
  unfold committed, is_committed. rewrite Hc, Hs. reflexivity.
Qed.

Lemma last_in : forall (m : list N) p, last m p = p \/ In (last m p) m.
Proof.
  induction m as [|a m IH]; intros p.
  - left. reflexivity.
  - right. destruct m as [|b m'].
    + left. reflexivity.
    + destruct (IH a) as [H|H].
      * change (last (a :: b :: m') p) with (last (b :: m') p).
        assert (Hl : forall d d', last (b :: m') d = last (b :: m') d').
        { clear. revert b. induction m' as [|c m' IH]; intros b d d'; [reflexivity|].
          change (last (b :: c :: m') d) with (last (c :: m') d).
          change (last (b :: c :: m') d') with (last (c :: m') d'). apply IH. }
        rewrite (Hl p a), H. left. reflexivity.
      * change (last (a :: b :: m') p) with (last (b :: m') p).
        assert (Hl : forall d d', last (b :: m') d = last (b :: m') d').
        { clear. revert b. induction m' as [|c m' IH]; intros b d d'; [reflexivity|].
          change (last (b :: c :: m') d) with (last (c :: m') d).
          change (last (b :: c :: m') d') with (last (c :: m') d'). apply IH. }
        rewrite (Hl p a). right. exact H.
Qed.

(* Theorem 4.  On a store satisfying the invariant and a machine state mirroring it, new never
   panics and its answer is check_chain's: Ok on the same matched chain, NotAncestor and
   Incomplete in exactly the same cases. *)
Theorem new_refusals_ok : forall os st chain,
  store_ok os -> mirrors os st ->
  chain_res_of (lo_new os chain) = Some (check_chain st chain).
Proof.
  intros os st chain Hst Hmir. destruct chain as [|p rest]; [reflexivity|].
  cbn [lo_new check_chain].
  destruct (ov_find os p) as [po|] eqn:Ep.
  - destruct (proj2 Hmir p po Ep) as [c [Hc [Hanc _]]]. rewrite Hc, Hanc.
    pose proof (Hst p po Ep) as Hpo.
    rewrite (zip_chain_anc os st rest (o_ancestors po)).
    2:{ intros a Ha. destruct (ov_ok_anc_in os po a Hpo Ha) as [ao Hao].
        apply (mirrors_alive os st a ao Hmir Hao). }
    destruct (zip_anc os rest (o_ancestors po)) as [m|[|]|] eqn:Ez; cbn [bind zip_res_of chain_res_of];
      try reflexivity.
    + pose proof (zip_anc_ok _ _ _ _ Ez) as [[rst Hrst] [_ [_ _]]].
      assert (Hlast : exists lst, ov_find os (last m p) = Some lst).
      { destruct (last_in m p) as [H|H].
        - rewrite H. exists po. exact Ep.
        - apply (ov_ok_anc_in os po _ Hpo). rewrite Hrst. apply in_or_app. left. exact H. }
      destruct Hlast as [lst Hl]. rewrite Hl.
      destruct (proj2 Hmir _ lst Hl) as [cl [Hcl [_ [Hpar _]]]].
      unfold parent_done. rewrite Hcl, Hpar.
      pose proof (Hst _ lst Hl) as Hlst.
      pose proof (ov_ok_anc_len os po Hpo) as Hlen. rewrite Hrst, app_length in Hlen.
      assert (Hlt : N.ltb (o_seqn po) (N.of_nat (length m)) = false) by (apply N.ltb_ge; lia).
      destruct (o_parent lst) as [pp|] eqn:Epp.
      * assert (Hpp : exists ppo, ov_find os pp = Some ppo).
        { apply (ov_ok_anc_in os lst pp Hlst). destruct Hlst as [_ [_ [_ [_ [Hhd _]]]]].
          rewrite Epp in Hhd. destruct (o_ancestors lst) as [|x l]; [discriminate|].
          injection Hhd as Hhd. subst. left. reflexivity. }
        destruct Hpp as [ppo Hppo].
        rewrite (mirrors_committed os st pp ppo Hmir Hppo).
        destruct (is_committed os pp); cbn [negb]; [|reflexivity].
        rewrite Hlt. reflexivity.
      * rewrite Hlt. reflexivity.
    + exfalso. exact (zip_anc_no_panic _ _ _ Ez).
  - rewrite (proj1 Hmir p Ep). reflexivity.
Qed.

Theorem new_refusals : forall os st chain,
  reach os -> mirrors os st ->
  (forall m, check_chain st chain = ChainOk m <->
             exists lo, lo_new os chain = Ok lo /\ lo_chain lo = m) /\
  (check_chain st chain = NotAncestor <-> lo_new os chain = Err IANotAncestor) /\
  (check_chain st chain = Incomplete <-> lo_new os chain = Err IAIncomplete) /\
  lo_new os chain <> Panic.
Proof.
  intros os st chain Hr Hmir.
  pose proof (new_refusals_ok os st chain (reach_store_ok os Hr) Hmir) as H.
  destruct (lo_new os chain) as [lo|[|]|]; cbn [chain_res_of] in H; try discriminate;
    injection H as H; rewrite <- H.
  - split; [|split; [|split]]; try (split; discriminate); try discriminate.
    intros m. split.
    + intros Hm. injection Hm as Hm. exists lo. auto.
    + intros [lo' [Hlo' Hm]]. injection Hlo' as Hlo'. subst. reflexivity.
  - split; [|split; [|split]]; try (split; [discriminate|intros [lo' [Hlo' _]]; discriminate]);
      try (split; discriminate); try discriminate.
    split; reflexivity.
  - split; [|split; [|split]]; try (split; [discriminate|intros [lo' [Hlo' _]]; discriminate]);
      try (split; discriminate); try discriminate.
    split; reflexivity.
Qed.

(* ---- the overlay view against Store.view itself ---- *)

Lemma mirrors_changes : forall os st id, mirrors os st -> changes_of st id = vals_of os id.
Proof.
  intros os st id [Hn Hs]. unfold changes_of, vals_of. destruct (ov_find os id) as [o|] eqn:E.
  - destruct (Hs id o E) as [c [Hc [_ [_ [_ [_ Hch]]]]]]. rewrite Hc. exact Hch.
  - rewrite (Hn id E). reflexivity.
Qed.

Lemma view_chain_state : forall os st m,
  mirrors os st -> view st m = chain_state os (cur st) m.
Proof.
  intros os st m Hmir. unfold view, chain_state. induction m as [|id m IH]; cbn [fold_right].
  - reflexivity.
  - rewrite IH, (mirrors_changes os st id Hmir). reflexivity.
Qed.

(* C11, overlay side: whenever the abstract machine validates a chain, LiveOverlay::new accepts
   it and every read through the session returns what the machine's view says. *)
Theorem overlay_view_Store : forall os st chain m,
  reach os -> mirrors os st -> check_chain st chain = ChainOk m ->
  exists lo, lo_new os chain = Ok lo /\
    forall k, apply_view os (cur st) lo k = Ok (get (view st m) k).
Proof.
  intros os st chain m Hr Hmir Hc.
  destruct (new_refusals os st chain Hr Hmir) as [H _].
  destruct (proj1 (H m) Hc) as [lo [Hlo Hm]]. exists lo. split; [exact Hlo|].
  intros k. rewrite (overlay_view_apply os chain lo (cur st) k Hr Hlo), Hm.
  rewrite (view_chain_state os st m Hmir). reflexivity.
Qed.

(* ------------------------------------------------------------------------------------------ *)
(* small instances (the scenarios of overlay.rs's tests and of the task)                      *)
(* ------------------------------------------------------------------------------------------ *)
Module Examples.
  Definition k1 : key := [true].
  Definition k2 : key := [false].
  Definition k3 : key := [true; true].

  Definition fin (os : ostore) (id : N) (chain : list N) (vals : list change) : ostore :=
    match lo_new os chain with Ok lo => lo_finish os id lo vals | _ => os end.
  Definition rd (os : ostore) (chain : list N) (k : key) :=
    match lo_new os chain with Ok lo => Some (lo_value os lo k) | _ => None end.

  (* a chain of depth 3; k2 is touched by two ancestors *)
  Definition s1 := fin os_empty 1 [] [(k1, Some 1); (k2, Some 2)].
  Definition s2 := fin s1 2 [1] [(k2, Some 3)].
  Definition s3 := fin s2 3 [2; 1] [(k3, None)].

  Example read_depth3 :
    map (rd s3 [3; 2; 1]) [k1; k2; k3; []] =
    [Some (Ok (Some (Some 1))); Some (Ok (Some (Some 3))); Some (Ok (Some None)); Some (Ok None)].
  Proof. vm_compute. reflexivity. Qed.

  (* incomplete_ancestors / not_ancestor / extra supplied overlays are ignored by the zip *)
  Example refusals :
    (lo_new s3 [3], lo_new s3 [3; 2], lo_new s3 [3; 1]) =
    (Err IAIncomplete, Err IAIncomplete, Err IANotAncestor) /\
    lo_new s3 [3; 2; 1; 7] = lo_new s3 [3; 2; 1].
  Proof. vm_compute. split; reflexivity. Qed.

  (* committed_ancestors_considered_complete: 1 is committed, [3;2] is accepted and the changes
     of 1 (seqn 0 < min_seqn 1) are ignored: k1 reads as "not in the overlays" *)
  Definition s4 := mark_committed s3 1.
  Example read_after_commit :
    map (rd s4 [3; 2]) [k1; k2; k3] =
    [Some (Ok None); Some (Ok (Some (Some 3))); Some (Ok (Some None))].
  Proof. vm_compute. reflexivity. Qed.

  (* the committed ancestor is then dropped: supplying it is no longer possible, [3;2] still is *)
  Definition s5 := drop_data s4 1.
  Example after_drop :
    lo_new s5 [3; 2; 1] = Err IAIncomplete /\
    lo_new s5 [3; 2] = Ok {| lo_parent := Some 3; lo_ancestors := [2]; lo_min_seqn := 1 |}.
  Proof. vm_compute. split; reflexivity. Qed.

  (* prune_below_works: the overlay finished on [3;2] has everything of seqn 0 pruned *)
  Definition s6 := fin s5 4 [3; 2] [(k1, Some 9)].
  Example pruned_index :
    option_map (fun o => (o_seqn o, ix_by_seqn (o_index o), o_ancestors o)) (ov_find s6 4) =
    Some (3, [(1, k2); (2, k3); (3, k1)], [3; 2]).
  Proof. vm_compute. reflexivity. Qed.
  Example read_after_prune :
    map (rd s6 [4; 3; 2]) [k1; k2; k3] =
    [Some (Ok (Some (Some 9))); Some (Ok (Some (Some 3))); Some (Ok (Some None))].
  Proof. vm_compute. reflexivity. Qed.

  (* a live (not committed) ancestor dropped in the middle: every chain through it is refused *)
  Definition s7 := drop_data s3 2.
  Example dropped_middle :
    (lo_new s7 [3; 2; 1], lo_new s7 [3]) = (Err IAIncomplete, Err IAIncomplete).
  Proof. vm_compute. reflexivity. Qed.

  (* the same reads through apply_view and through Store.view on the mirroring machine state *)
  Definition base : kv := [(k2, 7); (k1, 8)].
  Example view_agrees :
    match lo_new s6 [4; 3; 2], check_chain (state_of s6 base) [4; 3; 2] with
    | Ok lo, ChainOk m =>
        map (apply_view s6 base lo) [k1; k2; k3; []] =
        map (fun k => Ok (get (view (state_of s6 base) m) k)) [k1; k2; k3; []]
    | _, _ => False
    end.
  Proof. vm_compute. reflexivity. Qed.

  (* the loop of prune_below does not keep idx_wf at every iteration (see loop_inv): after
     popping (1,k) with min = 5 the map has lost k while (2,k) is still queued *)
  Example prune_intermediate :
    prune_loop 5 [(k1, 2)] [(1, k1); (2, k1); (6, k2)] = ([], [(6, k2)]) /\
    mremove [(k1, 2)] k1 = [].
  Proof. vm_compute. split; reflexivity. Qed.

  (* these stores are reachable: the theorems apply to them *)
  Lemma reach_fin : forall os id chain vals,
    reach os -> ov_find os id = None -> NoDup (map fst vals) -> reach (fin os id chain vals).
  Proof.
    intros os id chain vals Hr Hf Hnd. unfold fin.
    destruct (lo_new os chain) as [lo| |] eqn:E; try exact Hr.
    apply (reach_finish os chain lo os id vals); try assumption. apply ov_extends_refl.
  Qed.

  Ltac nodup := repeat (constructor; [cbn; intuition discriminate|]); constructor.

  Example reach_s6 : reach s6.
  Proof.
    unfold s6, s5, s4, s3, s2, s1.
    apply reach_fin; [apply reach_drop, reach_commit| reflexivity | nodup].
    apply reach_fin; [|reflexivity|nodup].
    apply reach_fin; [|reflexivity|nodup].
    apply reach_fin; [exact reach_empty|reflexivity|nodup].
  Qed.
End Examples.

Print Assumptions prune_below_spec.
Print Assumptions prune_below_wf.
Print Assumptions insert_values_wf.
Print Assumptions overlay_view_gen.
Print Assumptions overlay_view_apply.
Print Assumptions new_refusals.
Print Assumptions overlay_view_Store.
