(* The worker partition, independent of the split POLICY (property C13).

   Shards.v mirrors one particular way of dealing the 64 root children out to the shards (the
   remainder 64 % n goes to the first shards).  Which split the code uses is a policy; what the
   property needs is only that the list of regions is SOME valid split:

     regions_okb regs   the list is non-empty; every region is (min key of its first child, max key
                        of the last descendant of its last child, number of children) with at
                        least one child; the child ranges are contiguous and ascending, the first
                        one starts at child 0 and the last one ends at child 63.

   `index_of_child regs c` is the region that contains root child c (what `shard_index_for` has
   to return), read off the region keys; `ranges_of regs ks` is the computation of
   merkle/worker.rs `RangeUpdater::new` for every worker (binary_search_by_key on the region's
   min key / partition_point on its max key), parametric in the list of regions.  All three are
   extracted and applied to the REAL regions returned by the code. *)
From Coq Require Import List Bool Arith.
From Nomt Require Import Base Shards.
Import ListNotations.

Definition region : Type := (key * key * nat)%type.

Definition region_min (r : region) : key := fst (fst r).
Definition region_max (r : region) : key := snd (fst r).
Definition region_count (r : region) : nat := snd r.

(* the regions from child [next] on: each one starts where the previous one stopped *)
Fixpoint regions_from (next : nat) (regs : list region) : bool :=
  match regs with
  | [] => next =? NUM_CHILDREN
  | r :: rest =>
      (1 <=? region_count r)
      && (next + region_count r <=? NUM_CHILDREN)
      && key_eqb (region_min r) (min_key next)
      && key_eqb (region_max r) (max_key (next + region_count r - 1))
      && regions_from (next + region_count r) rest
  end.

Definition regions_okb (regs : list region) : bool :=
  match regs with
  | [] => false
  | _ :: _ => regions_from 0 regs
  end.

(* root child c lies between the children of the region's two keys *)
Definition region_has_child (r : region) (c : nat) : bool :=
  (child_of (region_min r) <=? c) && (c <=? child_of (region_max r)).

(* the index of the first region containing child c; [length regs] when there is none *)
Fixpoint index_of_child (regs : list region) (c : nat) : nat :=
  match regs with
  | [] => 0
  | r :: rest => if region_has_child r c then 0 else S (index_of_child rest c)
  end.

(* RangeUpdater::new for every worker *)
Definition ranges_of (regs : list region) (ks : list key) : list (nat * nat) :=
  map (fun r => (range_start_for ks r, range_end_for ks r)) regs.

(* worker i's interval *)
Definition gen_range_start (regs : list region) (ks : list key) (i : nat) : nat :=
  range_start_for ks (nth i regs dummy_region).
Definition gen_range_end (regs : list region) (ks : list key) (i : nat) : nat :=
  range_end_for ks (nth i regs dummy_region).

(* number of children of region i, and its first child: the children of the regions before it *)
Definition count_of (regs : list region) (i : nat) : nat := region_count (nth i regs dummy_region).

Fixpoint start_of (regs : list region) (i : nat) : nat :=
  match i, regs with
  | S i', r :: rest => region_count r + start_of rest i'
  | _, _ => 0
  end.

(* the split with the given child counts, in order from child [next] *)
Fixpoint regions_of_counts_from (next : nat) (counts : list nat) : list region :=
  match counts with
  | [] => []
  | c :: rest => (min_key next, max_key (next + c - 1), c) :: regions_of_counts_from (next + c) rest
  end.

Definition regions_of_counts (counts : list nat) : list region := regions_of_counts_from 0 counts.
