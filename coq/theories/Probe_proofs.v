(* The triangular probe sequence of the merkle page table (bitbox ProbeSequence, mirrored by
   [Image.probe] / [Image.seqpos]): closed form, period 2 * buckets, mirror symmetry inside a period.
   Consequences: every bucket the sequence ever reaches is reached within its first [buckets] steps,
   so a probe loop bounded by any whole multiple (>= 1) of the table size examines every reachable
   bucket before it reports exhaustion - the bound (repair of the unbounded loop that made a commit
   hang instead of failing with bucket exhaustion) never makes a lookup or an allocation miss a
   bucket that an unbounded walk would have found. *)
From Coq Require Import List NArith Arith Lia.
From Nomt Require Import Base Image.
Local Open Scope N_scope.

(* twice the k-th triangular number, k (k + 1) *)
Definition tri2 (k : nat) : N := N.of_nat k * (N.of_nat k + 1).

(* 2 * (position before reduction) of the k-th visited bucket: b + (k+1) s + k (k+1) / 2 *)
Lemma seqpos_closed : forall k n b s, 0 < n ->
  exists q, 2 * seqpos n b s k + 2 * n * q = 2 * b + 2 * (N.of_nat k + 1) * s + tri2 k
            /\ seqpos n b s k < n.
Proof.
  induction k as [|k IH]; intros n b s Hn.
  - cbn [seqpos]. exists ((b + s) / n). unfold tri2. cbn [N.of_nat].
    pose proof (N.div_mod (b + s) n ltac:(lia)) as D.
    pose proof (N.mod_lt (b + s) n ltac:(lia)) as L. split; [nia|exact L].
  - cbn [seqpos]. destruct (IH n ((b + s) mod n) (s + 1) Hn) as [q [E L]].
    pose proof (N.div_mod (b + s) n ltac:(lia)) as D.
    exists (q + (b + s) / n). split; [|exact L].
    unfold tri2 in *. rewrite Nat2N.inj_succ. nia.
Qed.

(* positions are determined by the unreduced value modulo n *)
Lemma seqpos_mod_unique : forall n x y qx qy, 0 < n -> x < n -> y < n ->
  2 * x + 2 * n * qx = 2 * y + 2 * n * qy -> x = y.
Proof.
  intros n x y qx qy Hn Hx Hy E.
  assert (E' : x + n * qx = y + n * qy) by nia.
  assert (Hx' : x = (x + n * qx) mod n).
  { rewrite N.mul_comm, N.mod_add by lia. symmetry. apply N.mod_small. exact Hx. }
  assert (Hy' : y = (y + n * qy) mod n).
  { rewrite N.mul_comm, N.mod_add by lia. symmetry. apply N.mod_small. exact Hy. }
  rewrite Hx', Hy', E'. reflexivity.
Qed.

(* period: 2 * buckets steps later the walk is where it was *)
Lemma probe_period : forall n b s k, 0 < n ->
  seqpos n b s (k + N.to_nat (2 * n)) = seqpos n b s k.
Proof.
  intros n b s k Hn.
  destruct (seqpos_closed (k + N.to_nat (2 * n)) n b s Hn) as [q1 [E1 L1]].
  destruct (seqpos_closed k n b s Hn) as [q2 [E2 L2]].
  unfold tri2 in *. rewrite Nat2N.inj_add, N2Nat.id in E1.
  set (K := N.of_nat k) in *.
  (* the difference of the unreduced values is 2 n (2 s + 2 K + 2 n + 1) *)
  apply (seqpos_mod_unique n _ _ q1 (q2 + (2 * s + 2 * K + 2 * n + 1)) Hn L1 L2). nia.
Qed.

Lemma probe_period_iter : forall q n b s k, 0 < n ->
  seqpos n b s (k + q * N.to_nat (2 * n)) = seqpos n b s k.
Proof.
  induction q as [|q IH]; intros n b s k Hn.
  - rewrite Nat.mul_0_l, Nat.add_0_r. reflexivity.
  - replace (k + S q * N.to_nat (2 * n))%nat with ((k + q * N.to_nat (2 * n)) + N.to_nat (2 * n))%nat by lia.
    rewrite probe_period by exact Hn. apply IH. exact Hn.
Qed.

(* mirror symmetry inside one period (for a walk starting with step 0, as the code's does):
   step 2n-1-k visits the bucket step k visits *)
Lemma probe_mirror : forall n b k, 0 < n -> (k < N.to_nat (2 * n))%nat ->
  seqpos n b 0 (N.to_nat (2 * n) - 1 - k) = seqpos n b 0 k.
Proof.
  intros n b k Hn Hk.
  destruct (seqpos_closed (N.to_nat (2 * n) - 1 - k) n b 0 Hn) as [q1 [E1 L1]].
  destruct (seqpos_closed k n b 0 Hn) as [q2 [E2 L2]].
  unfold tri2 in *.
  assert (EK : N.of_nat (N.to_nat (2 * n) - 1 - k) = 2 * n - 1 - N.of_nat k) by lia.
  rewrite EK in E1. set (K := N.of_nat k) in *.
  assert (HK : K < 2 * n) by lia.
  (* (2n-1-K)(2n-K) = K(K+1) + 2n (2n - 2K - 1), as 2n - 1 - K >= 0 *)
  destruct (N.le_gt_cases (2 * K + 1) (2 * n)) as [Hle|Hgt].
  - apply (seqpos_mod_unique n _ _ q1 (q2 + (2 * n - 2 * K - 1)) Hn L1 L2). nia.
  - symmetry. apply (seqpos_mod_unique n _ _ q2 (q1 + (2 * K + 1 - 2 * n)) Hn L2 L1). nia.
Qed.

(* every bucket the walk ever visits is visited within its first period ... *)
Lemma probe_reach_period : forall n b s k, 0 < n ->
  exists j, (j < N.to_nat (2 * n))%nat /\ seqpos n b s j = seqpos n b s k.
Proof.
  intros n b s k Hn.
  set (P := N.to_nat (2 * n)).
  assert (HP : (0 < P)%nat) by (unfold P; lia).
  exists (k mod P)%nat. split; [apply Nat.mod_upper_bound; lia|].
  pose proof (Nat.div_mod k P ltac:(lia)) as D.
  rewrite D at 2. rewrite (Nat.add_comm (P * (k / P))), (Nat.mul_comm P).
  symmetry. apply probe_period_iter. exact Hn.
Qed.

(* ... and, for the code's walk (initial step 0), already within its first [buckets] steps *)
Lemma probe_reach_half : forall n b k, 0 < n ->
  exists j, (j < N.to_nat n)%nat /\ seqpos n b 0 j = seqpos n b 0 k.
Proof.
  intros n b k Hn.
  destruct (probe_reach_period n b 0 k Hn) as [j [Hj E]].
  destruct (Nat.lt_ge_cases j (N.to_nat n)) as [Hlt|Hge].
  - exists j. split; [exact Hlt|exact E].
  - exists (N.to_nat (2 * n) - 1 - j)%nat. split; [lia|].
    rewrite probe_mirror by assumption. exact E.
Qed.

(* the decoder's bounded walk: running out of fuel means that none of the first [fuel] visited
   buckets was the target (and all of them were occupied) *)
Lemma probe_fuel_none : forall fuel mm n target b s,
  probe fuel mm n target b s = Some (WProbeFuel, target, 0) ->
  forall j, (j < fuel)%nat -> seqpos n b s j <> target.
Proof.
  induction fuel as [|f IH]; intros mm n target b s H j Hj; [lia|].
  cbn [probe] in H.
  destruct ((b + s) mod n =? target) eqn:Et; [discriminate|].
  destruct (nfind ((b + s) mod n) mm) eqn:Ef; [|discriminate].
  destruct j as [|j]; cbn [seqpos].
  - apply N.eqb_neq in Et. exact Et.
  - apply (IH _ _ _ _ _ H). lia.
Qed.

(* a walk bounded by [factor * buckets] steps (factor >= 1) that gives up has examined every bucket
   the unbounded walk could ever reach: the target is not reachable at all *)
Lemma probe_bound_complete : forall factor fuel mm n target b,
  0 < n -> 1 <= factor -> (N.to_nat (factor * n) <= fuel)%nat ->
  probe fuel mm n target b 0 = Some (WProbeFuel, target, 0) ->
  forall k, seqpos n b 0 k <> target.
Proof.
  intros factor fuel mm n target b Hn Hf Hfuel H k.
  destruct (probe_reach_half n b k Hn) as [j [Hj E]].
  rewrite <- E. apply (probe_fuel_none _ _ _ _ _ _ H).
  assert (N.to_nat n <= N.to_nat (factor * n))%nat by nia. lia.
Qed.

(* non-vacuity: a table of 6 buckets (not a power of two) whose walk from bucket 0 reaches only
   {0, 1, 3, 4}: the period is 12, the second half mirrors the first, and a full walk never
   reaches bucket 2 or 5 *)
Example probe_cycle_6 :
  map (seqpos 6 0 0) (seq 0 13) = [0; 1; 3; 0; 4; 3; 3; 4; 0; 3; 1; 0; 0].
Proof. vm_compute. reflexivity. Qed.
