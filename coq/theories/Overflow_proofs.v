(* Theorems about the overflow page count (property C01, value layout). *)
From Coq Require Import NArith ZArith Lia.
From Nomt Require Import Overflow.
Open Scope N_scope.

Ltac Zify.zify_post_hook ::= Z.div_mod_to_equations.

Ltac unfold_tnp :=
  unfold total_needed_pages, overflow_deficit, needed_pages, pages_fit,
    MAX_OVERFLOW_CELL_NODE_POINTERS, MAX_PNS, BODY_SIZE, PAGE_SIZE in *;
  change (4096 - 4) with 4092 in *; change (4092 - 4) with 4088 in *.

Theorem total_needed_pages_fits : forall v,
  let p := total_needed_pages v in
  v + 4 * (p - 15) <= p * 4092.
Proof.
  intros v p. subst p. unfold_tnp.
  destruct (N.leb_spec ((v + 4092 - 1) / 4092) 15) as [H1|H1]; [lia|].
  destruct (N.leb_spec ((v + 4092 - 1) / 4092)
              (15 + ((v + 4092 - 1) / 4092 * 4092 - v) / 4)) as [H2|H2]; [lia|].
  lia.
Qed.

(* the statement of the task, with its size bounds (the bounds are not needed) *)
Corollary total_needed_pages_fits_bounded : forall v,
  1332 < v <= 2 ^ 29 ->
  let p := total_needed_pages v in
  v + 4 * (p - 15) <= p * 4092.
Proof. intros v _. apply total_needed_pages_fits. Qed.

(* No subtraction of the Rust function underflows (so `N`'s truncating subtraction and Rust's
   checked `usize` subtraction agree). *)
Theorem total_needed_pages_no_underflow : forall v,
  let np := needed_pages v in
  1 <= v + BODY_SIZE /\
  (MAX_OVERFLOW_CELL_NODE_POINTERS < np ->
     v <= np * BODY_SIZE /\
     (MAX_OVERFLOW_CELL_NODE_POINTERS + (np * BODY_SIZE - v) / 4 < np ->
        np * BODY_SIZE <= v + (np - MAX_OVERFLOW_CELL_NODE_POINTERS) * 4)).
Proof.
  intros v np. subst np. unfold_tnp. repeat split; intros; lia.
Qed.

(* For the sizes the beatree accepts (MAX_OVERFLOW_VALUE_SIZE = 2^29) every intermediate value
   stays below 2^32, so no `usize` addition or multiplication overflows either (32- or 64-bit). *)
Theorem total_needed_pages_no_overflow : forall v,
  v <= 2 ^ 29 ->
  let np := needed_pages v in
  v + BODY_SIZE < 2 ^ 32 /\ np * BODY_SIZE < 2 ^ 32 /\
  v + (np - MAX_OVERFLOW_CELL_NODE_POINTERS) * 4 < 2 ^ 32 /\
  v + (np - MAX_OVERFLOW_CELL_NODE_POINTERS) * 4 - np * BODY_SIZE + BODY_SIZE < 2 ^ 32 /\
  total_needed_pages v < 2 ^ 18.
Proof.
  intros v Hv np. subst np. change (2 ^ 29) with 536870912 in Hv.
  change (2 ^ 32) with 4294967296. change (2 ^ 18) with 262144. unfold_tnp.
  destruct (N.leb_spec ((v + 4092 - 1) / 4092) 15) as [H1|H1]; [lia|].
  destruct (N.leb_spec ((v + 4092 - 1) / 4092)
              (15 + ((v + 4092 - 1) / 4092 * 4092 - v) / 4)) as [H2|H2]; lia.
Qed.

(* The last of the [p] pages is not empty: the [p - 1] first pages cannot hold the value and the
   [p - 15] pointers.  This is what `chunk` relies on (`assert!(!value.is_empty())` at the top of
   every page of its loop, with the pointers written greedily first). *)
Theorem total_needed_pages_last_page_used : forall v,
  0 < v ->
  let p := total_needed_pages v in
  (p - 1) * 4092 < v + 4 * (p - 15).
Proof.
  intros v Hv p. subst p. unfold_tnp.
  destruct (N.leb_spec ((v + 4092 - 1) / 4092) 15) as [H1|H1]; [lia|].
  destruct (N.leb_spec ((v + 4092 - 1) / 4092)
              (15 + ((v + 4092 - 1) / 4092 * 4092 - v) / 4)) as [H2|H2]; [lia|].
  lia.
Qed.

(* `total_needed_pages_least` as asked (no smaller page count fits) is FALSE: see
   [total_needed_pages_not_least] below.  What holds: at most ONE page is wasted ... *)
Theorem total_needed_pages_least_partial : forall v,
  let p := total_needed_pages v in
  forall q, q + 1 < p -> ~ (v + 4 * (q - 15) <= q * 4092).
Proof.
  intros v p q. subst p. unfold_tnp.
  destruct (N.leb_spec ((v + 4092 - 1) / 4092) 15) as [H1|H1]; [lia|].
  destruct (N.leb_spec ((v + 4092 - 1) / 4092)
              (15 + ((v + 4092 - 1) / 4092 * 4092 - v) / 4)) as [H2|H2]; [lia|].
  lia.
Qed.

(* ... and exactly when: the formula rounds `n / (BODY_SIZE - 4)` up with `+ BODY_SIZE - 3`
   instead of `+ BODY_SIZE - 5`, so it over-allocates by one page iff the deficit [n] is positive
   and congruent to 0 or -1 modulo 4088. *)
Theorem total_needed_pages_overalloc_iff : forall v,
  0 < v ->
  let p := total_needed_pages v in
  let n := overflow_deficit v in
  (v + 4 * ((p - 1) - 15) <= (p - 1) * 4092) <->
  (0 < n /\ (n mod 4088 = 0 \/ n mod 4088 = 4087)).
Proof.
  intros v Hv p n. subst p n. unfold_tnp.
  destruct (N.leb_spec ((v + 4092 - 1) / 4092) 15) as [H1|H1]; [lia|].
  destruct (N.leb_spec ((v + 4092 - 1) / 4092)
              (15 + ((v + 4092 - 1) / 4092 * 4092 - v) / 4)) as [H2|H2]; [lia|].
  remember ((v + 4092 - 1) / 4092) as np eqn:Enp.
  assert (Hnp : np * 4092 < v + 4092 /\ v <= np * 4092) by lia.
  clear Enp.
  assert (Hav : 4 * (np - 15) > np * 4092 - v) by lia. clear H2.
  remember (v + (np - 15) * 4 - np * 4092) as n eqn:En.
  assert (En' : n + np * 4092 = v + (np - 15) * 4) by lia. clear En.
  split.
  - intros Hf. split. lia.
    remember ((n + 4092 - 3) / 4088) as r eqn:Er.
    assert (Hr : 4088 * r <= n + 4089 < 4088 * r + 4088) by lia. clear Er.
    assert (Hc : n = 4088 * (r - 1) \/ n + 1 = 4088 * (r - 1)) by lia.
    destruct Hc as [Hc|Hc].
    + left. rewrite Hc. rewrite N.mul_comm. apply N.mod_mul. discriminate.
    + right. assert (Hn2 : n = 4087 + (r - 2) * 4088) by lia. rewrite Hn2.
      rewrite N.mod_add by discriminate. reflexivity.
  - intros [Hn Hm].
    assert (Hq : n = 4088 * (n / 4088) + n mod 4088) by (apply N.div_mod; discriminate).
    remember (n / 4088) as q eqn:Eq. clear Eq.
    remember ((n + 4092 - 3) / 4088) as r eqn:Er.
    assert (Hr : 4088 * r <= n + 4089 < 4088 * r + 4088) by lia. clear Er.
    destruct Hm as [Hm|Hm]; rewrite Hm in Hq; clear Hm; lia.
Qed.

(* below 4243403 bytes (about 4.05 MiB) the count is the least one *)
Theorem total_needed_pages_least_small : forall v,
  v < 4243403 ->
  let p := total_needed_pages v in
  forall q, q < p -> ~ (v + 4 * (q - 15) <= q * 4092).
Proof.
  intros v Hv p q. subst p. unfold_tnp.
  destruct (N.leb_spec ((v + 4092 - 1) / 4092) 15) as [H1|H1]; [lia|].
  destruct (N.leb_spec ((v + 4092 - 1) / 4092)
              (15 + ((v + 4092 - 1) / 4092 * 4092 - v) / 4)) as [H2|H2]; [lia|].
  lia.
Qed.

(* smallest counterexample to "least": 4243403 bytes get 1039 pages although 1038 suffice
   (4243403 + 4 * 1023 = 4247495 <= 1038 * 4092 = 4247496) *)
Theorem total_needed_pages_not_least :
  let v := 4243403 in
  1332 < v <= 2 ^ 29 /\
  total_needed_pages v = 1039 /\
  v + 4 * (1038 - 15) <= 1038 * 4092.
Proof. vm_compute. repeat split; discriminate. Qed.

(* in general: whenever the deficit of a size is a positive multiple of 4088 (or one less) *)
Example overalloc_sizes :
  total_needed_pages 4243404 = 1039 /\ pages_fit 4243404 1038 = true /\
  total_needed_pages 4247491 = 1040 /\ pages_fit 4247491 1039 = true /\
  total_needed_pages (2 ^ 29 - 1988) = 131329 /\ pages_fit (2 ^ 29 - 1988) 131328 = true.
Proof. vm_compute. repeat split. Qed.
