(* The abstract machine every property is stated against: a sequential key/value map with a
   bounded stack of snapshots (what rollback restores), finished sessions / overlays as
   first-class change sets, the last-commit marker and the sync sequence number.
   Executable; extracted and run next to the real Nomt API by the harness. *)
From Nomt Require Import Base.

Inductive ostatus := Live | Dropped | Committed.

Record cset := {
  c_base : kv;              (* the view the session was computed on (its previous root) *)
  c_changes : list change;  (* the writes of the batch, sorted by key *)
  c_result : kv;            (* base with the changes applied *)
  c_parent : option N;      (* nearest overlay the session was layered on *)
  c_seqn : N;               (* the store's commit count when the session was taken *)
  c_anc : list N;           (* live ancestors recorded at creation, nearest first *)
  c_status : ostatus;
  c_held : bool;            (* the caller still owns the object *)
  c_overlay : bool          (* into_overlay has been called *)
}.

Record state := {
  cur : kv;
  hist : list kv;           (* snapshots before each logged commit, newest first *)
  max_len : option nat;     (* None: rollback disabled *)
  seqn : N;
  marker : option N;        (* overlay committed last, if the last commit was an overlay *)
  csets : list (N * cset)
}.

Definition init (ml : option nat) : state :=
  {| cur := []; hist := []; max_len := ml; seqn := 0; marker := None; csets := [] |}.

Fixpoint find (cs : list (N * cset)) (id : N) : option cset :=
  match cs with
  | [] => None
  | (i, c) :: cs' => if N.eqb i id then Some c else find cs' id
  end.

Fixpoint update (cs : list (N * cset)) (id : N) (f : cset -> cset) : list (N * cset) :=
  match cs with
  | [] => []
  | (i, c) :: cs' => if N.eqb i id then (i, f c) :: cs' else (i, c) :: update cs' id f
  end.

Definition set_status (s : ostatus) (held : bool) (c : cset) : cset :=
  {| c_base := c_base c; c_changes := c_changes c; c_result := c_result c; c_parent := c_parent c;
     c_seqn := c_seqn c;
     c_anc := c_anc c; c_status := s; c_held := held; c_overlay := c_overlay c |}.

Definition set_overlay (c : cset) : cset :=
  {| c_base := c_base c; c_changes := c_changes c; c_result := c_result c; c_parent := c_parent c;
     c_seqn := c_seqn c;
     c_anc := c_anc c; c_status := c_status c; c_held := c_held c; c_overlay := true |}.

Definition alive (st : state) (id : N) : bool :=
  match find (csets st) id with Some c => c_held c | None => false end.

Definition committed (st : state) (id : N) : bool :=
  match find (csets st) id with
  | Some c => match c_status c with Committed => true | _ => false end
  | None => false
  end.

(* ---- building a session on a chain of overlays (LiveOverlay::new) ---- *)
Inductive chain_res := ChainOk (matched : list N) | NotAncestor | Incomplete.

Fixpoint zip_chain (st : state) (rest anc : list N) : chain_res :=
  match rest, anc with
  | s :: rest', a :: anc' =>
      if negb (alive st a) then Incomplete
      else if N.eqb s a then
        match zip_chain st rest' anc' with
        | ChainOk m => ChainOk (a :: m)
        | r => r
        end
      else NotAncestor
  | _, _ => ChainOk []
  end.

Definition parent_done (st : state) (id : N) : bool :=
  match find (csets st) id with
  | Some c => match c_parent c with None => true | Some p => committed st p end
  | None => false
  end.

(* chain: nearest parent first.  Returns the overlays whose changes the session sees. *)
Definition check_chain (st : state) (chain : list N) : chain_res :=
  match chain with
  | [] => ChainOk []
  | o :: rest =>
      match find (csets st) o with
      | None => Incomplete
      | Some c =>
          match zip_chain st rest (c_anc c) with
          | ChainOk m =>
              if parent_done st (last m o) then ChainOk (o :: m) else Incomplete
          | r => r
          end
      end
  end.

(* The overlays a session is layered on were computed on some committed state; the session is
   only meaningful while that state is still the committed one (otherwise the chain sits on an
   abandoned fork: it can no longer be committed and nothing is specified about reading it). *)
Definition chain_fresh (st : state) (m : list N) : bool :=
  match m with
  | [] => true
  | _ => match find (csets st) (last m 0%N) with
         | Some c => kv_eqb (cur st) (c_base c)
         | None => false
         end
  end.

Definition changes_of (st : state) (id : N) : list change :=
  match find (csets st) id with Some c => c_changes c | None => [] end.

(* the state a session layered on the (validated) overlays [m], nearest first, observes *)
Definition view (st : state) (m : list N) : kv :=
  fold_right (fun id S => apply S (changes_of st id)) (cur st) m.

Definition writes_of (batch : list (key * option (option value))) : list change :=
  (* batch entries: None = read only; Some w = write w *)
  flat_map (fun e => match snd e with None => [] | Some w => [(fst e, w)] end) batch.

(* Session::finish on a validated chain *)
Definition finish (st : state) (id : N) (m : list N) (batch : list (key * option (option value))) : state :=
  let base := view st m in
  let ch := writes_of batch in
  let c := {| c_base := base; c_changes := ch; c_result := apply base ch;
              c_parent := hd_error m; c_seqn := seqn st; c_anc := m; c_status := Live; c_held := true;
              c_overlay := false |} in
  {| cur := cur st; hist := hist st; max_len := max_len st; seqn := seqn st; marker := marker st;
     csets := (id, c) :: csets st |}.

Definition with_csets (st : state) (cs : list (N * cset)) : state :=
  {| cur := cur st; hist := hist st; max_len := max_len st; seqn := seqn st; marker := marker st;
     csets := cs |}.

Definition into_overlay (st : state) (id : N) : state :=
  with_csets st (update (csets st) id set_overlay).

Definition drop (st : state) (id : N) : state :=
  with_csets st (update (csets st) id
     (fun c => match c_status c with Live => set_status Dropped false c | s => set_status s false c end)).

(* bounded snapshot stack: push, then discard the oldest one if over the limit *)
Definition push_hist (ml : option nat) (h : list kv) (snap : kv) : list kv :=
  match ml with
  | None => h
  | Some n => let h' := snap :: h in if Nat.ltb n (length h') then removelast h' else h'
  end.

Inductive commit_out := COk | CStale | CParent | CDeferred | CUnknown.

(* commit of a finished session or overlay.  [busy]: other sessions are alive and the commit is
   the non-blocking flavour, so the change set is handed back. *)
(* A change set without a parent overlay is valid only against the very commit count it was
   prepared on: the same key/value set can come back (delete and re-insert, commit and rollback)
   while the pages behind it have changed.  A change set with a parent is positioned by the marker
   of the last committed overlay. *)
Definition stale_count (st : state) (c : cset) : bool :=
  match c_parent c with
  | None => negb (N.eqb (seqn st) (c_seqn c))
  | Some _ => false
  end.

Definition commit (st : state) (id : N) (busy : bool) : state * commit_out :=
  match find (csets st) id with
  | None => (st, CUnknown)
  | Some c =>
      (* a change set prepared on top of an overlay - whether it is committed as an overlay or as a
         finished session - is valid only directly after that overlay has been committed *)
      let parent_ok :=
        match c_parent c, marker st with
        | None, _ => true
        | Some p, Some m => N.eqb p m
        | Some _, None => false
        end in
      if negb parent_ok then (drop st id, CParent)
      else if busy then (st, CDeferred)
      else if negb (kv_eqb (cur st) (c_base c)) || stale_count st c then (drop st id, CStale)
      else
        ({| cur := c_result c;
            hist := push_hist (max_len st) (hist st) (cur st);
            max_len := max_len st;
            seqn := seqn st + 1;
            marker := if c_overlay c then Some id else None;
            csets := update (csets st) id (set_status Committed false) |}, COk)
  end.

Inductive rb_out := ROk | RErr.

Definition rollback (st : state) (n : nat) : state * rb_out :=
  match n with
  | O => (st, ROk)
  | S n' =>
      match max_len st with
      | None => (st, RErr)
      | Some _ =>
          match nth_error (hist st) n' with
          | None => (st, RErr)
          | Some snap =>
              ({| cur := snap; hist := skipn n (hist st); max_len := max_len st;
                  seqn := seqn st + 1; marker := None; csets := csets st |}, ROk)
          end
      end
  end.

(* closing and reopening: every in-memory object is gone, everything durable is unchanged *)
Definition reopen (st : state) : state :=
  {| cur := cur st; hist := hist st; max_len := max_len st; seqn := seqn st; marker := None;
     csets := [] |}.

(* a plain session commit of a batch on the committed state, as one step *)
Definition commit_batch (st : state) (id : N) (batch : list (key * option (option value))) : state :=
  fst (commit (finish st id [] batch) id false).
