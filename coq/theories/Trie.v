(* The specification of the commitment: the canonical binary Merkle-Patricia trie over a
   key/value set (docs/nomt_specification.md), its root, the canonical path proof of a key and
   the terminals of the trie.  Everything is a function of the key/value set alone. *)
From Nomt Require Import Base Hash.

Inductive trie :=
| E                              (* empty sub-trie: terminator *)
| Lf (k : key) (v : value)       (* exactly one value below: leaf, as high as possible *)
| Br (l r : trie).               (* two or more values below: internal node *)

Definition side (b : bool) (d : nat) (S : kv) : kv :=
  filter (fun p => Bool.eqb (bit (fst p) d) b) S.

(* [mk fuel d S]: the trie of the pairs S, all of which agree on their first d bits.
   fuel bounds the remaining key length; with distinct keys of length >= d + fuel ... the
   out-of-fuel branch is unreachable (Trie_proofs.mk_fuel_irrelevant). *)
Fixpoint mk (fuel : nat) (d : nat) (S : kv) : trie :=
  match S with
  | [] => E
  | [(k, v)] => Lf k v
  | _ =>
      match fuel with
      | O => E
      | Datatypes.S f => Br (mk f (Datatypes.S d) (side false d S)) (mk f (Datatypes.S d) (side true d S))
      end
  end.

(* terminal of a lookup path *)
Inductive terminal :=
| TLeaf (k : key) (v : value)
| TTerm (path : key).            (* position of the terminator: the first [depth] bits of the key *)

Section WithHasher.
  Variable H : Hasher.

  Fixpoint hash (t : trie) : node H :=
    match t with
    | E => TERM H
    | Lf k v => hleaf H k v
    | Br l r => hint H (hash l) (hash r)
    end.

  (* The key length of the implementation is 256; the definitions are generic in it. *)
  Definition root_n (n : nat) (S : kv) : node H := hash (mk n 0 S).

  (* canonical path proof: siblings root-first, terminal *)
  Fixpoint walk (t : trie) (k : key) (d : nat) : list (node H) * terminal :=
    match t with
    | E => ([], TTerm (firstn d k))
    | Lf k' v => ([], TLeaf k' v)
    | Br l r =>
        if bit k d
        then let '(s, tm) := walk r k (S d) in (hash l :: s, tm)
        else let '(s, tm) := walk l k (S d) in (hash r :: s, tm)
    end.

  Definition path_proof_n (n : nat) (S : kv) (k : key) := walk (mk n 0 S) k 0.
End WithHasher.

(* all terminals of a trie with their positions, left to right *)
Fixpoint terminals (t : trie) (pos : key) : list (key * option (key * value)) :=
  match t with
  | E => [(pos, None)]
  | Lf k v => [(pos, Some (k, v))]
  | Br l r => terminals l (pos ++ [false]) ++ terminals r (pos ++ [true])
  end.
