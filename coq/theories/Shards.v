(* Mirror of the page-cache sharding arithmetic (nomt/src/page_cache.rs: `shard_regions`,
   `shard_index_for`) and of the way a sorted batch is split between the merkle workers
   (nomt/src/merkle/worker.rs: `RangeUpdater::new`).

   The 64 children of the root page are dealt out to `num_shards` shards in order; the first
   `64 % num_shards` shards get one child more.  A shard owns the keys whose top 6 bits are one of
   its children: its key range goes from `min_key_path` of its first child (child index in the
   top 6 bits, then zeros) to `max_key_path` of the last descendant of its last child (child
   index, then ones).  A worker takes from the sorted batch the index range
     range_start = binary_search_by_key(min key)   (Ok position or Err insertion position:
                                                    the first index whose key is >= min key)
     range_end   = partition_point(key <= max key) (the first index whose key is > max key). *)
From Coq Require Import List Bool Arith.
From Nomt Require Import Base.
Import ListNotations.

Definition NUM_CHILDREN : nat := 64.

(* (start, count) of shard [shard_index]: the two arms of the `if` in `shard_regions` *)
Definition shard_bounds (num_shards shard_index : nat) : nat * nat :=
  let part := NUM_CHILDREN / num_shards in
  let remainder := NUM_CHILDREN mod num_shards in
  if remainder <=? shard_index
  then (part * shard_index + remainder, part)
  else (part * shard_index + shard_index, part + 1).

Definition shard_start (n i : nat) : nat := fst (shard_bounds n i).
Definition shard_count (n i : nat) : nat := snd (shard_bounds n i).
(* end_child = start + count - 1 *)
Definition shard_last (n i : nat) : nat := shard_start n i + shard_count n i - 1.

(* 6-bit child index, most significant bit first *)
Fixpoint bits_of_nat (w n : nat) : list bool :=
  match w with
  | O => []
  | S w' => Nat.testbit n w' :: bits_of_nat w' n
  end.

Fixpoint nat_of_bits_acc (acc : nat) (bs : list bool) : nat :=
  match bs with
  | [] => acc
  | b :: bs' => nat_of_bits_acc (2 * acc + (if b then 1 else 0)) bs'
  end.
Definition nat_of_bits (bs : list bool) : nat := nat_of_bits_acc 0 bs.

Definition child_bits (c : nat) : list bool := bits_of_nat 6 c.

(* PageId::min_key_path / max_key_path of (the last descendant of) a root child *)
Definition min_key (c : nat) : key := child_bits c ++ repeat false 250.
Definition max_key (c : nat) : key := child_bits c ++ repeat true 250.

(* the root child a key goes through *)
Definition child_of (k : key) : nat := nat_of_bits (firstn 6 k).

(* fn shard_regions(num_shards): per shard (min key, max key, number of root children) *)
Definition shard_regions (num_shards : nat) : list (key * key * nat) :=
  map (fun i => (min_key (shard_start num_shards i), max_key (shard_last num_shards i),
                 shard_count num_shards i))
      (seq 0 num_shards).

(* fn shard_index_for(num_shards, first_ancestor) *)
Definition shard_index_for (num_shards first_ancestor : nat) : nat :=
  let part := NUM_CHILDREN / num_shards in
  let remainder := NUM_CHILDREN mod num_shards in
  if first_ancestor <? (part + 1) * remainder
  then first_ancestor / (part + 1)
  else (first_ancestor - (part + 1) * remainder) / part + remainder.

(* slice::partition_point on a partitioned slice: the first index where the predicate fails *)
Fixpoint partition_point (p : key -> bool) (ks : list key) : nat :=
  match ks with
  | [] => 0
  | k :: ks' => if p k then S (partition_point p ks') else 0
  end.

(* binary_search_by_key(&min).unwrap_or_else(|i| i) on a strictly sorted slice: the index of the
   key equal to [min] if there is one, else the insertion position - in both cases the number of
   keys below [min] *)
Definition range_start_for (ks : list key) (region : key * key * nat) : nat :=
  partition_point (fun k => key_ltb k (fst (fst region))) ks.

(* partition_point(|(key, _)| *key <= key_range_end) *)
Definition range_end_for (ks : list key) (region : key * key * nat) : nat :=
  partition_point (fun k => negb (key_ltb (snd (fst region)) k)) ks.

Definition dummy_region : key * key * nat := ([], [], 0).

Definition range_start (ks : list key) (num_shards i : nat) : nat :=
  range_start_for ks (nth i (shard_regions num_shards) dummy_region).
Definition range_end (ks : list key) (num_shards i : nat) : nat :=
  range_end_for ks (nth i (shard_regions num_shards) dummy_region).

(* all the workers' ranges of a batch *)
Definition ranges (ks : list key) (num_shards : nat) : list (nat * nat) :=
  map (fun r => (range_start_for ks r, range_end_for ks r)) (shard_regions num_shards).
