(* The stack-based build_trie of core/src/update.rs (mirrored in BuildTrie.v) computes the hash
   of the canonical trie [mk] of its (sorted, equal-length, common-prefix) operations.

   Proof architecture: a compositional statement about the main loop.  Processing a whole
   segment [S] of consecutive keys that is exactly the set of keys below a node at layer [l]
   (depth [skip + l]) has the same effect on the pending stack as processing one "super leaf"
   whose hash is [hash (mk .. (skip + l) S)] placed at layer [l]: it is hashed up from layer [l]
   to the layer [n2' = common_after (last S) next + 1] dictated by the next key, and pushed.
   The statement is proved by induction on the fuel of [mk] (the remaining key length); a sorted
   segment splits into [side false ++ side true], both of which are segments one layer below. *)
From Coq Require Import List Bool Arith NArith Lia Permutation.
From Nomt Require Import Base Hash Trie Result BuildTrie Base_proofs Trie_proofs.
Import ListNotations.

(* ---------- bit-level facts ---------- *)

Lemma common_comm : forall a b, common a b = common b a.
Proof.
  induction a as [|x a IH]; intros [|y b]; cbn [common]; try reflexivity.
  rewrite (IH b). destruct x, y; reflexivity.
Qed.

Lemma common_diverge : forall d (a b : key),
  firstn d a = firstn d b -> d < length a -> d < length b -> bit a d <> bit b d ->
  common a b = d.
Proof.
  induction d as [|d IH]; intros [|x a] [|y b] Hf Ha Hb Hbit; cbn [length] in Ha, Hb; try lia.
  - unfold bit in Hbit. cbn [nth] in Hbit. cbn [common].
    destruct x, y; cbn [Bool.eqb]; try reflexivity; exfalso; apply Hbit; reflexivity.
  - cbn [firstn] in Hf. injection Hf as Hxy Hf. subst y.
    cbn [common]. rewrite Bool.eqb_reflx. f_equal.
    apply IH; try assumption; try lia.
Qed.

Lemma ltb_diverge : forall d (a b : key),
  firstn d a = firstn d b -> d < length a -> d < length b ->
  bit a d = true -> bit b d = false -> key_ltb a b = false.
Proof.
  induction d as [|d IH]; intros [|x a] [|y b] Hf Ha Hb Hba Hbb; cbn [length] in Ha, Hb; try lia.
  - unfold bit in Hba, Hbb. cbn [nth] in Hba, Hbb. subst. reflexivity.
  - cbn [firstn] in Hf. injection Hf as Hxy Hf. subst y.
    cbn [key_ltb]. rewrite Bool.eqb_reflx.
    apply (IH a b); try assumption; try lia.
Qed.

Lemma bit_skipn : forall s (k : key) l, bit (skipn s k) l = bit k (s + l).
Proof.
  unfold bit. induction s as [|s IH]; intros k l.
  - reflexivity.
  - destruct k as [|x k].
    + cbn [skipn]. destruct l; reflexivity.
    + cbn [skipn plus nth]. apply IH.
Qed.

Lemma common_after_diverge : forall skip l (a b : key),
  firstn (skip + l) a = firstn (skip + l) b -> skip + l < length a -> skip + l < length b ->
  bit a (skip + l) <> bit b (skip + l) -> common_after skip a b = l.
Proof.
  intros skip l a b Hf Ha Hb Hbit. unfold common_after.
  apply common_diverge.
  - rewrite !firstn_skipn_comm. rewrite Hf. reflexivity.
  - rewrite skipn_length. lia.
  - rewrite skipn_length. lia.
  - rewrite !bit_skipn. exact Hbit.
Qed.

Lemma rev_firstn_S : forall l (k : key), l < length k ->
  rev (firstn (S l) k) = bit k l :: rev (firstn l k).
Proof.
  intros l k Hl. rewrite firstn_S_bit by exact Hl.
  rewrite rev_app_distr. reflexivity.
Qed.

(* ---------- a sorted list under a common prefix splits into its two sides ---------- *)

Lemma agree_tail : forall d p (L : kv), agree d (p :: L) -> agree d L.
Proof.
  intros d p L Hag k v k' v' Hin Hin'. eapply Hag; right; eassumption.
Qed.

Lemma sorted_bit_mono : forall d k v (L : kv),
  kv_sorted ((k, v) :: L) = true -> agree d ((k, v) :: L) ->
  (forall k' v', In (k', v') ((k, v) :: L) -> d < length k') ->
  bit k d = true -> forall k' v', In (k', v') L -> bit k' d = true.
Proof.
  intros d k v L Hs Hag Hlen Hb k' v' Hin.
  apply sorted_cons_iff in Hs. destruct Hs as [Hlb _].
  pose proof (Hlb k' v' Hin) as Hlt.
  destruct (bit k' d) eqn:Eb; [reflexivity|exfalso].
  assert (Hf : key_ltb k k' = false).
  { apply (ltb_diverge d); try assumption.
    - eapply Hag; [left; reflexivity|right; exact Hin].
    - eapply Hlen. left. reflexivity.
    - eapply Hlen. right. exact Hin. }
  rewrite Hf in Hlt. discriminate.
Qed.

Lemma filter_all : forall (A : Type) (f : A -> bool) (L : list A),
  (forall x, In x L -> f x = true) -> filter f L = L.
Proof.
  intros A f. induction L as [|x L IH]; intros Hall; cbn [filter].
  - reflexivity.
  - rewrite (Hall x) by (left; reflexivity). f_equal. apply IH.
    intros y Hy. apply Hall. right. exact Hy.
Qed.

Lemma filter_none : forall (A : Type) (f : A -> bool) (L : list A),
  (forall x, In x L -> f x = false) -> filter f L = [].
Proof.
  intros A f. induction L as [|x L IH]; intros Hall; cbn [filter].
  - reflexivity.
  - rewrite (Hall x) by (left; reflexivity). apply IH.
    intros y Hy. apply Hall. right. exact Hy.
Qed.

Lemma side_split : forall d (L : kv),
  kv_sorted L = true -> agree d L -> (forall k v, In (k, v) L -> d < length k) ->
  L = side false d L ++ side true d L.
Proof.
  intros d. induction L as [|[k v] L IH]; intros Hs Hag Hlen.
  - reflexivity.
  - assert (HsL : kv_sorted L = true).
    { apply sorted_cons_iff in Hs. destruct Hs as [_ Hs]. exact Hs. }
    assert (HagL : agree d L) by (eapply agree_tail; exact Hag).
    assert (HlenL : forall k' v', In (k', v') L -> d < length k').
    { intros k' v' Hin. eapply Hlen. right. exact Hin. }
    unfold side. cbn [filter fst].
    destruct (bit k d) eqn:Eb; cbn [Bool.eqb].
    + (* everything after k has bit d set as well *)
      pose proof (sorted_bit_mono d k v L Hs Hag Hlen Eb) as Hall.
      rewrite (filter_none _ _ L).
      * rewrite (filter_all _ _ L); [reflexivity|].
        intros [k' v'] Hin. cbn [fst]. rewrite (Hall k' v' Hin). reflexivity.
      * intros [k' v'] Hin. cbn [fst]. rewrite (Hall k' v' Hin). reflexivity.
    + cbn [app]. f_equal. apply IH; assumption.
Qed.

(* ---------- first and last key of a segment ---------- *)

Definition dummy : key * value := ([], 0%N).
Definition hdk (L : kv) : key := fst (hd dummy L).
Definition lastk (L : kv) : key := fst (last L dummy).

Lemma hd_In : forall (L : kv), L <> [] -> In (hd dummy L) L.
Proof. intros [|p L] Hne; [congruence|left; reflexivity]. Qed.

Lemma last_In : forall (L : kv), L <> [] -> In (last L dummy) L.
Proof.
  induction L as [|p L IH]; intros Hne; [congruence|].
  destruct L as [|q L].
  - left. reflexivity.
  - right. apply IH. discriminate.
Qed.

Lemma hdk_In : forall (L : kv), L <> [] -> exists v, In (hdk L, v) L.
Proof.
  intros L Hne. exists (snd (hd dummy L)). unfold hdk.
  rewrite <- surjective_pairing. apply hd_In. exact Hne.
Qed.

Lemma lastk_In : forall (L : kv), L <> [] -> exists v, In (lastk L, v) L.
Proof.
  intros L Hne. exists (snd (last L dummy)). unfold lastk.
  rewrite <- surjective_pairing. apply last_In. exact Hne.
Qed.

Lemma hdk_app : forall (L1 L2 : kv), L1 <> [] -> hdk (L1 ++ L2) = hdk L1.
Proof. intros [|p L1] L2 Hne; [congruence|reflexivity]. Qed.

Lemma last_app_ne : forall (L1 L2 : kv), L2 <> [] -> last (L1 ++ L2) dummy = last L2 dummy.
Proof.
  induction L1 as [|p L1 IH]; intros L2 Hne.
  - reflexivity.
  - cbn [app]. specialize (IH L2 Hne).
    destruct (L1 ++ L2) as [|q M] eqn:E.
    + destruct L1; [cbn in E; congruence|discriminate].
    + cbn [last]. cbn [last] in IH. exact IH.
Qed.

Lemma lastk_app : forall (L1 L2 : kv), L2 <> [] -> lastk (L1 ++ L2) = lastk L2.
Proof. intros L1 L2 Hne. unfold lastk. rewrite last_app_ne by exact Hne. reflexivity. Qed.

Lemma length_ne : forall (L : kv), L <> [] -> 1 <= length L.
Proof. intros [|p L] Hne; [congruence|cbn [length]; lia]. Qed.

(* ---------- the loop, one step at a time ---------- *)

Section Loop.
  Variable H : Hasher.
  Variable n : nat.      (* key length *)
  Variable skip : nat.

  (* layer forced by the previous key / by the next key (0 when there is none) *)
  Definition n1' (a : option key) (k : key) : nat :=
    match a with None => 0 | Some a => common_after skip a k + 1 end.
  Definition n2' (k : key) (rest : kv) : nat :=
    match rest with [] => 0 | c :: _ => common_after skip (fst c) k + 1 end.

  Definition push_hl (r : node H * nat * list (node H * nat)) : list (node H * nat) :=
    let '(nd, ly, p) := r in (nd, ly) :: p.

  (* the loop from the state "previous key a, remaining ops, stack" *)
  Definition bt_run (a : option key) (ops : kv) (pend : list (node H * nat))
    : res bt_err (list (node H * nat)) :=
    match ops with
    | [] => Ok pend
    | b :: r => bt_loop H n skip a b r pend
    end.

  Lemma bt_loop_step : forall a k v rest pend,
    bt_loop H n skip a (k, v) rest pend =
    let ld := Nat.max (n1' a k) (n2' k rest) in
    if Nat.ltb n (skip + ld) then Panic
    else bt_run (Some k) rest
           (push_hl (hash_layers H (ld - n2' k rest) (rev (firstn ld (skipn skip k))) ld
                                 (hleaf H k v) pend)).
  Proof.
    intros a k v rest pend.
    destruct a as [a|]; destruct rest as [|c rest]; unfold n1', n2'; cbn [bt_loop option_map fst].
    - set (ca := common_after skip a k).
      replace (Nat.max (ca + 1) 0) with (ca + 1) by lia.
      replace (ca + 1 - 0) with (ca + 1) by lia.
      destruct (n <? skip + (ca + 1)); [reflexivity|].
      destruct (hash_layers H (ca + 1) (rev (firstn (ca + 1) (skipn skip k))) (ca + 1)
                            (hleaf H k v) pend) as [[nd ly] p].
      reflexivity.
    - set (ca := common_after skip a k). set (cc := common_after skip (fst c) k).
      replace (Nat.max (ca + 1) (cc + 1)) with (Nat.max ca cc + 1) by lia.
      replace (Nat.max ca cc + 1 - (cc + 1)) with (ca - cc) by lia.
      destruct (n <? skip + (Nat.max ca cc + 1)); [reflexivity|].
      destruct (hash_layers H (ca - cc) (rev (firstn (Nat.max ca cc + 1) (skipn skip k)))
                            (Nat.max ca cc + 1) (hleaf H k v) pend) as [[nd ly] p].
      reflexivity.
    - cbn [Nat.max Nat.sub].
      destruct (n <? skip + 0); [reflexivity|]. reflexivity.
    - set (cc := common_after skip (fst c) k).
      replace (Nat.max 0 (cc + 1)) with (cc + 1) by lia.
      replace (cc + 1 - (cc + 1)) with 0 by lia.
      destruct (n <? skip + (cc + 1)); [reflexivity|]. reflexivity.
  Qed.

  Lemma n2'_app : forall k (L rest : kv), L <> [] ->
    n2' k (L ++ rest) = common_after skip (hdk L) k + 1.
  Proof. intros k [|p L] rest Hne; [congruence|reflexivity]. Qed.

  (* ---------- hashing one layer up ---------- *)

  Definition top_le (l : nat) (pend : list (node H * nat)) : Prop :=
    match pend with [] => True | (_, l') :: _ => l' <= l end.

  Lemma hl_zero : forall bits l h pend, hash_layers H 0 bits l h pend = (h, l, pend).
  Proof. intros bits l h pend. reflexivity. Qed.

  Lemma hl_step_pop : forall m b bs l h s pend,
    hash_layers H (S m) (b :: bs) (S l) h ((s, S l) :: pend) =
    hash_layers H m bs l (if b then hint H s h else hint H h s) pend.
  Proof.
    intros m b bs l h s pend. cbn [hash_layers].
    replace (S l - 1) with l by lia.
    replace (l + 1) with (S l) by lia.
    rewrite Nat.eqb_refl. reflexivity.
  Qed.

  Lemma hl_step_term : forall m b bs l h pend, top_le l pend ->
    hash_layers H (S m) (b :: bs) (S l) h pend =
    hash_layers H m bs l (if b then hint H (TERM H) h else hint H h (TERM H)) pend.
  Proof.
    intros m b bs l h pend Htop. cbn [hash_layers].
    replace (S l - 1) with l by lia.
    destruct pend as [|[s l'] pend]; [reflexivity|].
    cbn [top_le] in Htop.
    destruct (Nat.eqb l' (l + 1)) eqn:E; [|reflexivity].
    apply Nat.eqb_eq in E. lia.
  Qed.

  (* ---------- a whole segment behaves like one leaf at its layer ---------- *)

  Definition segment_goal (f l : nat) (L rest : kv) (a : option key) (pend : list (node H * nat)) :=
    bt_run a (L ++ rest) pend =
    bt_run (Some (lastk L)) rest
      (push_hl (hash_layers H (l - n2' (lastk L) rest) (rev (firstn l (skipn skip (lastk L)))) l
                            (hash H (mk f (skip + l) L)) pend)).

  Lemma segment_single : forall f l k v rest a pend,
    skip + l <= n ->
    l = Nat.max (n1' a k) (n2' k rest) ->
    segment_goal f l [(k, v)] rest a pend.
  Proof.
    intros f l k v rest a pend Hle Hl. unfold segment_goal.
    unfold lastk. cbn [last fst app bt_run].
    rewrite bt_loop_step. cbv zeta. rewrite <- Hl.
    assert (E : Nat.ltb n (skip + l) = false) by (apply Nat.ltb_ge; lia).
    rewrite E. rewrite mk_single. reflexivity.
  Qed.

  Lemma cross_common : forall l (L : kv) k0 v0 k1 v1,
    agree (skip + l) L -> (forall k v, In (k, v) L -> skip + l < length k) ->
    In (k0, v0) (side false (skip + l) L) -> In (k1, v1) (side true (skip + l) L) ->
    common_after skip k0 k1 = l /\ common_after skip k1 k0 = l.
  Proof.
    intros l L k0 v0 k1 v1 Hag Hlen H0 H1.
    apply In_side in H0. destruct H0 as [H0 B0].
    apply In_side in H1. destruct H1 as [H1 B1].
    split; apply common_after_diverge.
    - eapply Hag; eassumption.
    - eapply Hlen; eassumption.
    - eapply Hlen; eassumption.
    - rewrite B0, B1. discriminate.
    - eapply Hag; eassumption.
    - eapply Hlen; eassumption.
    - eapply Hlen; eassumption.
    - rewrite B0, B1. discriminate.
  Qed.

  Lemma segment : forall f l (L rest : kv) a pend,
    skip + l + f = n ->
    L <> [] ->
    kv_sorted L = true ->
    (forall k v, In (k, v) L -> length k = n) ->
    agree (skip + l) L ->
    n1' a (hdk L) <= l ->
    n2' (lastk L) rest <= l ->
    (2 <= length L \/ l = Nat.max (n1' a (hdk L)) (n2' (lastk L) rest)) ->
    top_le l pend ->
    segment_goal f l L rest a pend.
  Proof.
    induction f as [|f IH]; intros l L rest a pend Hn Hne Hs Hlen Hag Hn1 Hn2 Hsz Htop;
      destruct (kv_cases L) as [HL|[[k [v HL]]|Hge]]; try congruence.
    - subst L. apply segment_single; [lia|].
      destruct Hsz as [Hsz|Hsz]; [cbn [length] in Hsz; lia|exact Hsz].
    - exfalso. apply (no_fuel0 (skip + l) L); try assumption.
      + apply sorted_NoDup. exact Hs.
      + intros k v Hin. rewrite (Hlen k v Hin). lia.
    - subst L. apply segment_single; [lia|].
      destruct Hsz as [Hsz|Hsz]; [cbn [length] in Hsz; lia|exact Hsz].
    - (* at least two keys: split at bit skip + l *)
      assert (Hlt : forall k v, In (k, v) L -> skip + l < length k).
      { intros k v Hin. rewrite (Hlen k v Hin). lia. }
      pose proof (side_split (skip + l) L Hs Hag Hlt) as Hsplit.
      pose proof (cross_common l L) as Hcross.
      unfold segment_goal. rewrite (mk_ge2 f (skip + l) L Hge). cbn [hash].
      assert (Hs0 : kv_sorted (side false (skip + l) L) = true) by (apply filter_sorted; exact Hs).
      assert (Hs1 : kv_sorted (side true (skip + l) L) = true) by (apply filter_sorted; exact Hs).
      assert (Hlen0 : forall k v, In (k, v) (side false (skip + l) L) -> length k = n).
      { intros k v Hin. apply In_side in Hin. destruct Hin as [Hin _]. eapply Hlen; exact Hin. }
      assert (Hlen1 : forall k v, In (k, v) (side true (skip + l) L) -> length k = n).
      { intros k v Hin. apply In_side in Hin. destruct Hin as [Hin _]. eapply Hlen; exact Hin. }
      assert (Hag0 : agree (skip + S l) (side false (skip + l) L)).
      { rewrite Nat.add_succ_r. apply agree_side; assumption. }
      assert (Hag1 : agree (skip + S l) (side true (skip + l) L)).
      { rewrite Nat.add_succ_r. apply agree_side; assumption. }
      destruct (lastk_In L Hne) as [vb Hb].
      assert (Hlb : l < length (skipn skip (lastk L))).
      { rewrite skipn_length. rewrite (Hlen _ _ Hb). lia. }
      set (S0 := side false (skip + l) L) in *.
      set (S1 := side true (skip + l) L) in *.
      assert (HS0 : S0 = [] \/ S0 <> []) by (destruct S0; [left; reflexivity|right; discriminate]).
      assert (HS1 : S1 = [] \/ S1 <> []) by (destruct S1; [left; reflexivity|right; discriminate]).
      destruct HS0 as [E0|N0].
      + (* left side empty *)
        rewrite E0 in Hsplit. cbn [app] in Hsplit.
        rewrite E0, <- Hsplit. rewrite mk_nil. cbn [hash].
        pose proof (IH (S l) L rest a pend) as IHL. unfold segment_goal in IHL.
        rewrite IHL; try assumption; try lia.
        * replace (S l - n2' (lastk L) rest) with (S (l - n2' (lastk L) rest)) by lia.
          rewrite rev_firstn_S by exact Hlb. rewrite bit_skipn.
          assert (Hbit : bit (lastk L) (skip + l) = true).
          { assert (Hb' : In (lastk L, vb) S1) by (rewrite <- Hsplit; exact Hb).
            apply In_side in Hb'. destruct Hb' as [_ Hb']. exact Hb'. }
          rewrite Hbit. rewrite hl_step_term by exact Htop.
          rewrite Nat.add_succ_r. reflexivity.
        * rewrite Hsplit. exact Hag1.
        * destruct pend as [|[s l'] pend]; cbn [top_le] in *; lia.
      + destruct HS1 as [E1|N1].
        * (* right side empty *)
          rewrite E1 in Hsplit. rewrite app_nil_r in Hsplit.
          rewrite E1, <- Hsplit. rewrite mk_nil. cbn [hash].
          pose proof (IH (S l) L rest a pend) as IHL. unfold segment_goal in IHL.
          rewrite IHL; try assumption; try lia.
          -- replace (S l - n2' (lastk L) rest) with (S (l - n2' (lastk L) rest)) by lia.
             rewrite rev_firstn_S by exact Hlb. rewrite bit_skipn.
             assert (Hbit : bit (lastk L) (skip + l) = false).
             { assert (Hb' : In (lastk L, vb) S0) by (rewrite <- Hsplit; exact Hb).
               apply In_side in Hb'. destruct Hb' as [_ Hb']. exact Hb'. }
             rewrite Hbit. rewrite hl_step_term by exact Htop.
             rewrite Nat.add_succ_r. reflexivity.
          -- rewrite Hsplit. exact Hag0.
          -- destruct pend as [|[s l'] pend]; cbn [top_le] in *; lia.
        * (* both sides non-empty *)
          destruct (lastk_In S0 N0) as [v0 Hl0].
          destruct (hdk_In S1 N1) as [v1 Hh1].
          destruct (Hcross _ _ _ _ Hag Hlt Hl0 Hh1) as [C01 C10].
          assert (Hhd : hdk L = hdk S0).
          { rewrite Hsplit at 1. apply hdk_app. exact N0. }
          assert (Hla : lastk L = lastk S1).
          { rewrite Hsplit at 1. apply lastk_app. exact N1. }
          assert (Hn2_0 : n2' (lastk S0) (S1 ++ rest) = S l).
          { rewrite n2'_app by exact N1. rewrite C10. lia. }
          assert (Hn1_1 : n1' (Some (lastk S0)) (hdk S1) = S l).
          { unfold n1'. rewrite C01. lia. }
          rewrite Hsplit at 1. rewrite <- app_assoc.
          pose proof (IH (S l) S0 (S1 ++ rest) a pend) as IH0. unfold segment_goal in IH0.
          rewrite IH0; try assumption; try lia.
          -- rewrite Hn2_0. rewrite Nat.sub_diag. rewrite hl_zero. cbn [push_hl].
             pose proof (IH (S l) S1 rest (Some (lastk S0))
                            ((hash H (mk f (skip + S l) S0), S l) :: pend)) as IH1.
             unfold segment_goal in IH1.
             rewrite IH1; try assumption; try lia.
             ++ rewrite <- Hla.
                replace (S l - n2' (lastk L) rest) with (S (l - n2' (lastk L) rest)) by lia.
                rewrite rev_firstn_S by exact Hlb. rewrite bit_skipn.
                assert (Hbit : bit (lastk L) (skip + l) = true).
                { destruct (lastk_In S1 N1) as [vl Hl1]. rewrite <- Hla in Hl1.
                  apply In_side in Hl1. destruct Hl1 as [_ Hl1]. exact Hl1. }
                rewrite Hbit. rewrite hl_step_pop.
                rewrite Nat.add_succ_r. reflexivity.
             ++ rewrite <- Hla. lia.
             ++ right. rewrite <- Hla. lia.
             ++ cbn [top_le]. lia.
          -- rewrite <- Hhd. lia.
          -- right. rewrite <- Hhd. lia.
          -- destruct pend as [|[s l'] pend]; cbn [top_le] in *; lia.
  Qed.
End Loop.

(* ---------- the theorem ---------- *)

Theorem build_trie_spec : forall (H : Hasher) (n skip : nat) (ops : list (key * value)),
  skip <= n ->
  sorted_keys (map fst ops) = true ->                 (* strictly ascending keys *)
  (forall k v, In (k, v) ops -> length k = n) ->      (* n-bit keys (n = 256 in the implementation) *)
  agree skip ops ->                                    (* all keys share their first [skip] bits *)
  build_trie H n skip ops = Ok (hash H (mk (n - skip) skip ops)).
Proof.
  intros H n skip ops Hle Hs Hlen Hag.
  destruct (kv_cases ops) as [HL|[[k [v HL]]|Hge]].
  - subst ops. rewrite mk_nil. reflexivity.
  - subst ops. rewrite mk_single. reflexivity.
  - assert (Hbt : build_trie H n skip ops =
                  if Nat.ltb n skip then Panic
                  else bind (bt_run H n skip None (ops ++ []) [])
                         (fun pending => Ok (match pending with (nd, _) :: _ => nd | [] => TERM H end))).
    { rewrite app_nil_r.
      destruct ops as [|[k v] [|p ops]]; cbn [length] in Hge; try lia. reflexivity. }
    rewrite Hbt.
    assert (E : Nat.ltb n skip = false) by (apply Nat.ltb_ge; lia).
    rewrite E.
    assert (Hne : ops <> []) by (intros ->; cbn [length] in Hge; lia).
    pose proof (segment H n skip (n - skip) 0 ops [] None []) as Hseg.
    unfold segment_goal in Hseg. rewrite Hseg.
    + cbn [n2' Nat.sub]. rewrite hl_zero. cbn [push_hl bt_run bind].
      rewrite Nat.add_0_r. reflexivity.
    + lia.
    + exact Hne.
    + exact Hs.
    + exact Hlen.
    + rewrite Nat.add_0_r. exact Hag.
    + cbn [n1']. lia.
    + cbn [n2']. lia.
    + left. exact Hge.
    + exact I.
Qed.

(* totality corollary: on such inputs the Rust function does not panic *)
Corollary build_trie_total : forall (H : Hasher) n skip ops,
  skip <= n -> sorted_keys (map fst ops) = true -> (forall k v, In (k, v) ops -> length k = n) ->
  agree skip ops -> build_trie H n skip ops <> Panic.
Proof.
  intros H n skip ops Hle Hs Hlen Hag.
  rewrite (build_trie_spec H n skip ops Hle Hs Hlen Hag). discriminate.
Qed.
