(* Theorems about the worker partition for ANY valid split of the 64 root children (property C13):
   nothing here depends on how many children a shard gets, only on `regions_okb`. *)
From Coq Require Import List Bool Arith Lia.
From Nomt Require Import Base Base_proofs Shards Shards_proofs ShardsGen.
Import ListNotations.

(* ====================================================================================== *)
(* Part 1: the root child of a region key                                                   *)
(* ====================================================================================== *)

Lemma child_of_region_keys : forall c, c < 64 ->
  child_of (min_key c) = c /\ child_of (max_key c) = c.
Proof.
  intros c Hc.
  assert (Hall : forallb (fun c => (child_of (min_key c) =? c) && (child_of (max_key c) =? c))
                   (seq 0 64) = true) by (vm_compute; reflexivity).
  rewrite forallb_forall in Hall. specialize (Hall c ltac:(apply in_seq; lia)).
  apply andb_true_iff in Hall. destruct Hall as [H1 H2].
  apply Nat.eqb_eq in H1, H2. auto.
Qed.

(* a region made of whole children s .. s+cnt-1 contains exactly those children *)
Lemma region_has_child_std : forall s cnt c, 1 <= cnt -> s + cnt <= 64 ->
  region_has_child (min_key s, max_key (s + cnt - 1), cnt) c = (s <=? c) && (c <? s + cnt).
Proof.
  intros s cnt c H1 H2. unfold region_has_child, region_min, region_max. cbn [fst snd].
  destruct (child_of_region_keys s ltac:(lia)) as [Hm _].
  destruct (child_of_region_keys (s + cnt - 1) ltac:(lia)) as [_ HM].
  rewrite Hm, HM. f_equal.
  destruct (c <=? s + cnt - 1) eqn:E1; destruct (c <? s + cnt) eqn:E2; try reflexivity.
  - apply Nat.leb_le in E1. apply Nat.ltb_ge in E2. lia.
  - apply Nat.leb_gt in E1. apply Nat.ltb_lt in E2. lia.
Qed.

(* ====================================================================================== *)
(* Part 2: what `regions_from` / `regions_okb` mean                                         *)
(* ====================================================================================== *)

Lemma regions_from_nil : forall s, regions_from s [] = true <-> s = 64.
Proof.
  intros s. cbn [regions_from]. unfold NUM_CHILDREN. apply Nat.eqb_eq.
Qed.

Lemma regions_from_cons : forall s r rest,
  regions_from s (r :: rest) = true <->
  1 <= region_count r /\ s + region_count r <= 64 /\
  r = (min_key s, max_key (s + region_count r - 1), region_count r) /\
  regions_from (s + region_count r) rest = true.
Proof.
  intros s [[lo hi] cnt] rest.
  cbn [regions_from region_count region_min region_max fst snd]. unfold NUM_CHILDREN.
  split.
  - intros H.
    apply andb_true_iff in H. destruct H as [H H5].
    apply andb_true_iff in H. destruct H as [H H4].
    apply andb_true_iff in H. destruct H as [H H3].
    apply andb_true_iff in H. destruct H as [H1 H2].
    apply Nat.leb_le in H1, H2. apply key_eqb_true_iff in H3, H4. subst lo hi. auto.
  - intros [H1 [H2 [H3 H5]]].
    assert (Hlo : lo = min_key s) by congruence.
    assert (Hhi : hi = max_key (s + cnt - 1)) by congruence.
    subst lo hi.
    apply Nat.leb_le in H1, H2. rewrite H1, H2, !key_eqb_refl, H5. reflexivity.
Qed.

Lemma start_of_0 : forall regs, start_of regs 0 = 0.
Proof. intros [|r rest]; reflexivity. Qed.

Lemma start_of_cons : forall r rest i,
  start_of (r :: rest) (S i) = region_count r + start_of rest i.
Proof. reflexivity. Qed.

Lemma count_of_cons : forall r rest i, count_of (r :: rest) (S i) = count_of rest i.
Proof. reflexivity. Qed.

(* contiguity is built into start_of: a region starts where the previous one stops *)
Lemma start_of_S : forall regs i, i < length regs ->
  start_of regs (S i) = start_of regs i + count_of regs i.
Proof.
  induction regs as [|r rest IH]; intros i Hi; cbn [length] in Hi; [lia|].
  destruct i as [|i].
  - rewrite start_of_cons, !start_of_0. unfold count_of. cbn [nth]. lia.
  - rewrite (start_of_cons r rest (S i)), (start_of_cons r rest i), count_of_cons.
    rewrite IH by lia. lia.
Qed.

Lemma start_of_disjoint : forall regs j i, i < j -> j <= length regs ->
  start_of regs i + count_of regs i <= start_of regs j.
Proof.
  induction j as [|j IH]; intros i Hij Hj; [lia|].
  rewrite (start_of_S regs j) by lia.
  destruct (Nat.eq_dec i j) as [->|Hne]; [lia|].
  specialize (IH i ltac:(lia) ltac:(lia)). lia.
Qed.

Lemma length_le_start_of : forall regs,
  (forall i, i < length regs -> 1 <= count_of regs i) ->
  length regs <= start_of regs (length regs).
Proof.
  induction regs as [|r rest IH]; intros H; cbn [length]; [lia|].
  rewrite start_of_cons.
  pose proof (H 0 ltac:(cbn [length]; lia)) as H0. unfold count_of in H0. cbn [nth] in H0.
  assert (length rest <= start_of rest (length rest)).
  { apply IH. intros i Hi. specialize (H (S i) ltac:(cbn [length]; lia)).
    rewrite count_of_cons in H. exact H. }
  lia.
Qed.

(* the regions from child s on, one by one *)
Lemma regions_from_nth : forall regs s, regions_from s regs = true ->
  (forall i, i < length regs ->
     1 <= count_of regs i /\ s + start_of regs i + count_of regs i <= 64 /\
     nth i regs dummy_region =
       (min_key (s + start_of regs i), max_key (s + start_of regs i + count_of regs i - 1),
        count_of regs i)) /\
  s + start_of regs (length regs) = 64.
Proof.
  induction regs as [|r rest IH]; intros s H.
  - apply regions_from_nil in H. split; [intros i Hi; cbn [length] in Hi; lia|].
    cbn [length]. rewrite start_of_0. lia.
  - apply regions_from_cons in H. destruct H as [H1 [H2 [H3 H4]]].
    destruct (IH _ H4) as [IHa IHb]. split.
    + intros [|i] Hi.
      * rewrite start_of_0. unfold count_of. cbn [nth]. rewrite !Nat.add_0_r.
        split; [exact H1|]. split; [exact H2|exact H3].
      * cbn [length] in Hi. rewrite start_of_cons, count_of_cons. cbn [nth].
        rewrite !Nat.add_assoc. apply IHa. lia.
    + cbn [length]. rewrite start_of_cons, Nat.add_assoc. exact IHb.
Qed.

Lemma regions_from_complete : forall regs s,
  (forall i, i < length regs ->
     1 <= count_of regs i /\
     nth i regs dummy_region =
       (min_key (s + start_of regs i), max_key (s + start_of regs i + count_of regs i - 1),
        count_of regs i)) ->
  s + start_of regs (length regs) = 64 ->
  regions_from s regs = true.
Proof.
  induction regs as [|r rest IH]; intros s Hn Hsum.
  - apply regions_from_nil. cbn [length] in Hsum. rewrite start_of_0 in Hsum. lia.
  - cbn [length] in Hsum. rewrite start_of_cons in Hsum.
    destruct (Hn 0 ltac:(cbn [length]; lia)) as [H1 H3].
    rewrite start_of_0 in H3. unfold count_of in H1, H3. cbn [nth] in H1, H3.
    rewrite !Nat.add_0_r in H3.
    apply regions_from_cons. split; [exact H1|]. split; [lia|]. split; [exact H3|].
    apply IH.
    + intros i Hi. specialize (Hn (S i) ltac:(cbn [length]; lia)).
      rewrite start_of_cons, count_of_cons in Hn. cbn [nth] in Hn.
      rewrite !Nat.add_assoc in Hn. exact Hn.
    + lia.
Qed.

(* the meaning of the boolean, as a proposition: a non-empty list of regions in which region i
   consists of the whole root children start_of i .. start_of i + count_of i - 1 (start_of i is
   the number of children of the regions before it: contiguous, ascending, from child 0), every
   region has at least one child, and all 64 children are used *)
Definition regions_ok (regs : list region) : Prop :=
  regs <> [] /\
  (forall i, i < length regs ->
     1 <= count_of regs i /\
     nth i regs dummy_region =
       (min_key (start_of regs i), max_key (start_of regs i + count_of regs i - 1),
        count_of regs i)) /\
  start_of regs (length regs) = 64.

Theorem regions_okb_iff : forall regs, regions_okb regs = true <-> regions_ok regs.
Proof.
  intros regs. unfold regions_okb, regions_ok. split.
  - intros H. destruct regs as [|r rest]; [discriminate|].
    destruct (regions_from_nth _ _ H) as [Ha Hb]. split; [discriminate|]. split.
    + intros i Hi. destruct (Ha i Hi) as [H1 [_ H3]]. split; [exact H1|exact H3].
    + exact Hb.
  - intros [Hne [Ha Hb]]. destruct regs as [|r rest]; [congruence|].
    apply regions_from_complete.
    + intros i Hi. exact (Ha i Hi).
    + exact Hb.
Qed.

(* the region containing a child, for the regions from child s on *)
Lemma index_from : forall regs s, regions_from s regs = true -> forall c, s <= c < 64 ->
  index_of_child regs c < length regs /\
  s + start_of regs (index_of_child regs c) <= c
    < s + start_of regs (index_of_child regs c) + count_of regs (index_of_child regs c).
Proof.
  induction regs as [|r rest IH]; intros s H c Hc.
  - apply regions_from_nil in H. lia.
  - apply regions_from_cons in H. destruct H as [H1 [H2 [H3 H4]]].
    assert (Hh : region_has_child r c = (s <=? c) && (c <? s + region_count r)).
    { rewrite H3 at 1. apply region_has_child_std; assumption. }
    cbn [index_of_child]. rewrite Hh.
    destruct (c <? s + region_count r) eqn:E.
    + apply Nat.ltb_lt in E. replace (s <=? c) with true by (symmetry; apply Nat.leb_le; lia).
      cbn [andb]. rewrite start_of_0. unfold count_of. cbn [nth length]. lia.
    + apply Nat.ltb_ge in E. rewrite andb_false_r.
      destruct (IH _ H4 c ltac:(lia)) as [Ia Ib].
      rewrite start_of_cons, count_of_cons. cbn [length]. lia.
Qed.

Lemma index_unique_from : forall regs s, regions_from s regs = true ->
  forall c i, i < length regs ->
  s + start_of regs i <= c < s + start_of regs i + count_of regs i ->
  index_of_child regs c = i.
Proof.
  induction regs as [|r rest IH]; intros s H c i Hi Hc; cbn [length] in Hi; [lia|].
  apply regions_from_cons in H. destruct H as [H1 [H2 [H3 H4]]].
  assert (Hh : region_has_child r c = (s <=? c) && (c <? s + region_count r)).
  { rewrite H3 at 1. apply region_has_child_std; assumption. }
  cbn [index_of_child]. rewrite Hh.
  destruct i as [|i].
  - rewrite start_of_0 in Hc. unfold count_of in Hc. cbn [nth] in Hc.
    replace (s <=? c) with true by (symmetry; apply Nat.leb_le; lia).
    replace (c <? s + region_count r) with true by (symmetry; apply Nat.ltb_lt; lia).
    reflexivity.
  - rewrite start_of_cons, count_of_cons in Hc.
    replace (c <? s + region_count r) with false by (symmetry; apply Nat.ltb_ge; lia).
    rewrite andb_false_r. f_equal.
    apply (IH _ H4 c i); lia.
Qed.

(* What `regions_okb` means, in the shape of Shards_proofs.shards_partition: with
   start_of / count_of in the place of the mirror's shard_start / shard_count, and
   index_of_child in the place of shard_index_for. *)
Theorem regions_okb_sound : forall regs, regions_okb regs = true ->
  let n := length regs in
  (* between 1 and 64 regions *)
  1 <= n <= 64 /\
  (* every region is a non-empty run of root children below 64 ... *)
  (forall i, i < n -> 1 <= count_of regs i /\ start_of regs i + count_of regs i <= 64) /\
  (* ... given by the min key of its first child, the max key of its last child, its count *)
  (forall i, i < n ->
     nth i regs dummy_region =
       (min_key (start_of regs i), max_key (start_of regs i + count_of regs i - 1),
        count_of regs i)) /\
  (* contiguous, in order, from child 0 to child 63 *)
  start_of regs 0 = 0 /\
  (forall i, S i < n -> start_of regs (S i) = start_of regs i + count_of regs i) /\
  start_of regs (n - 1) + count_of regs (n - 1) = 64 /\
  (* pairwise disjoint *)
  (forall i j, i < j -> j < n -> start_of regs i + count_of regs i <= start_of regs j) /\
  (* index_of_child is the index of THE region containing the child *)
  (forall c, c < 64 ->
     index_of_child regs c < n /\
     start_of regs (index_of_child regs c) <= c
       < start_of regs (index_of_child regs c) + count_of regs (index_of_child regs c)) /\
  (forall c i, c < 64 -> i < n ->
     start_of regs i <= c < start_of regs i + count_of regs i -> index_of_child regs c = i).
Proof.
  intros regs H n.
  assert (Hfrom : regions_from 0 regs = true).
  { unfold regions_okb in H. destruct regs; [discriminate|exact H]. }
  assert (Hpos : 1 <= n).
  { unfold regions_okb in H. subst n. destruct regs; [discriminate|cbn [length]; lia]. }
  destruct (regions_from_nth _ _ Hfrom) as [Ha Hb]. cbn [Nat.add] in Ha, Hb. fold n in Ha, Hb.
  assert (Hle : n <= 64).
  { rewrite <- Hb. apply length_le_start_of. intros i Hi. apply (Ha i Hi). }
  split; [lia|].
  split. { intros i Hi. destruct (Ha i Hi) as [H1 [H2 _]]. lia. }
  split. { intros i Hi. destruct (Ha i Hi) as [_ [_ H3]]. exact H3. }
  split; [apply start_of_0|].
  split. { intros i Hi. apply start_of_S. fold n. lia. }
  split.
  { rewrite <- (start_of_S regs (n - 1)) by (fold n; lia).
    replace (S (n - 1)) with n by lia. exact Hb. }
  split. { intros i j Hij Hj. apply start_of_disjoint; [exact Hij|fold n; lia]. }
  split.
  { intros c Hc. destruct (index_from _ _ Hfrom c ltac:(lia)) as [Ia Ib].
    cbn [Nat.add] in Ib. split; [exact Ia|exact Ib]. }
  { intros c i Hc Hi Hin. apply (index_unique_from _ _ Hfrom c i Hi). cbn [Nat.add]. exact Hin. }
Qed.

(* every split into positive counts that add up to 64 is accepted, and nothing else is *)
Lemma regions_of_counts_from_ok : forall cs s,
  Forall (fun c => 1 <= c) cs -> s + list_sum cs = 64 ->
  regions_from s (regions_of_counts_from s cs) = true.
Proof.
  induction cs as [|c cs IH]; intros s Hf Hs; cbn [regions_of_counts_from].
  - apply regions_from_nil. cbn [list_sum fold_right] in Hs. lia.
  - cbn [list_sum fold_right] in Hs. inversion Hf as [|c' cs' Hc Hcs]; subst.
    apply regions_from_cons. unfold region_count. cbn [snd].
    split; [exact Hc|]. split; [lia|]. split; [reflexivity|].
    apply IH; [exact Hcs|unfold list_sum; lia].
Qed.

Theorem regions_of_counts_ok : forall cs,
  cs <> [] -> Forall (fun c => 1 <= c) cs -> list_sum cs = 64 ->
  regions_okb (regions_of_counts cs) = true.
Proof.
  intros cs Hne Hf Hs. unfold regions_okb, regions_of_counts.
  destruct cs as [|c cs]; [congruence|].
  pose proof (regions_of_counts_from_ok (c :: cs) 0 Hf Hs) as H.
  cbn [regions_of_counts_from] in *. exact H.
Qed.

Lemma regions_from_counts : forall regs s, regions_from s regs = true ->
  regs = regions_of_counts_from s (map region_count regs) /\
  Forall (fun c => 1 <= c) (map region_count regs) /\
  s + list_sum (map region_count regs) = 64.
Proof.
  induction regs as [|r rest IH]; intros s H.
  - apply regions_from_nil in H. cbn. split; [reflexivity|]. split; [constructor|lia].
  - apply regions_from_cons in H. destruct H as [H1 [H2 [H3 H4]]].
    destruct (IH _ H4) as [Ia [Ib Ic]].
    cbn [map regions_of_counts_from list_sum fold_right]. split.
    + rewrite <- Ia. rewrite <- H3. reflexivity.
    + split; [constructor; assumption|unfold list_sum in Ic; lia].
Qed.

Theorem regions_okb_counts : forall regs, regions_okb regs = true ->
  regs = regions_of_counts (map region_count regs) /\
  Forall (fun c => 1 <= c) (map region_count regs) /\
  list_sum (map region_count regs) = 64.
Proof.
  intros regs H. unfold regions_okb in H. destruct regs as [|r rest]; [discriminate|].
  destruct (regions_from_counts _ _ H) as [Ha [Hb Hc]].
  split; [exact Ha|]. split; [exact Hb|]. cbn [Nat.add] in Hc. exact Hc.
Qed.

(* ====================================================================================== *)
(* Part 3: the workers' ranges partition the batch, for any valid split                     *)
(* ====================================================================================== *)

Lemma gen_range_start_child : forall regs ks i,
  regions_okb regs = true -> i < length regs -> keys256 ks ->
  gen_range_start regs ks i = partition_point (fun k => child_of k <? start_of regs i) ks.
Proof.
  intros regs ks i Hok Hi Hl. unfold gen_range_start, range_start_for.
  destruct (regions_okb_sound regs Hok) as [_ [Hb [Hr _]]].
  rewrite (Hr i Hi). cbn [fst snd]. destruct (Hb i Hi) as [H1 H2].
  apply pp_ext. intros k Hk. apply key_ltb_min_key; [apply Hl; exact Hk|lia].
Qed.

Lemma gen_range_end_child : forall regs ks i,
  regions_okb regs = true -> i < length regs -> keys256 ks ->
  gen_range_end regs ks i =
  partition_point (fun k => child_of k <=? start_of regs i + count_of regs i - 1) ks.
Proof.
  intros regs ks i Hok Hi Hl. unfold gen_range_end, range_end_for.
  destruct (regions_okb_sound regs Hok) as [_ [Hb [Hr _]]].
  rewrite (Hr i Hi). cbn [fst snd]. destruct (Hb i Hi) as [H1 H2].
  apply pp_ext. intros k Hk. apply key_leb_max_key; [apply Hl; exact Hk|lia].
Qed.

Theorem ranges_partition_gen : forall (regs : list region) (ks : list key),
  regions_okb regs = true ->
  sorted_keys ks = true ->
  (forall k, In k ks -> length k = 256) ->
  let n := length regs in
  (* one [start, end) interval per worker, computed as in RangeUpdater::new *)
  ranges_of regs ks =
    map (fun i => (gen_range_start regs ks i, gen_range_end regs ks i)) (seq 0 n) /\
  (* the intervals are consecutive, start at 0 and end at the batch length *)
  gen_range_start regs ks 0 = 0 /\
  (forall i, S i < n -> gen_range_end regs ks i = gen_range_start regs ks (S i)) /\
  gen_range_end regs ks (n - 1) = length ks /\
  (forall i, i < n -> gen_range_start regs ks i <= gen_range_end regs ks i <= length ks) /\
  (* every key lies in the interval of the region that contains its root child ... *)
  (forall j d, j < length ks ->
     let s := index_of_child regs (child_of (nth j ks d)) in
     s < n /\ gen_range_start regs ks s <= j < gen_range_end regs ks s) /\
  (* ... and an interval holds only keys of its region *)
  (forall i j d, i < n -> gen_range_start regs ks i <= j < gen_range_end regs ks i ->
     index_of_child regs (child_of (nth j ks d)) = i).
Proof.
  intros regs ks Hok Hs Hl n.
  destruct (regions_okb_sound regs Hok) as [Hn [Hb [_ [H0 [Hnext [Hlast [_ [Hidx Huniq]]]]]]]].
  fold n in Hn, Hb, Hnext, Hlast, Hidx, Huniq.
  assert (Hchild : forall k, In k ks -> child_of k < 64).
  { intros k Hk. apply key_decompose. apply Hl. exact Hk. }
  split.
  { unfold ranges_of, gen_range_start, gen_range_end.
    apply (nth_ext _ _ (0, 0) (0, 0)).
    - rewrite !map_length, seq_length. reflexivity.
    - intros i Hi. rewrite map_length in Hi. fold n in Hi.
      rewrite nth_map_seq by exact Hi.
      set (g := fun r => (range_start_for ks r, range_end_for ks r)).
      rewrite (nth_indep _ (0, 0) (g dummy_region)) by (rewrite map_length; exact Hi).
      rewrite (map_nth g). reflexivity. }
  split.
  { rewrite gen_range_start_child by (try assumption; fold n; lia). rewrite H0.
    apply pp_all_false. intros k _. reflexivity. }
  split.
  { intros i Hi.
    rewrite gen_range_end_child, gen_range_start_child by (try assumption; fold n; lia).
    apply pp_ext. intros k _. rewrite (Hnext i Hi).
    destruct (Hb i ltac:(lia)) as [Hc _].
    destruct (child_of k <=? start_of regs i + count_of regs i - 1) eqn:E1;
      destruct (child_of k <? start_of regs i + count_of regs i) eqn:E2; try reflexivity.
    - apply Nat.leb_le in E1. apply Nat.ltb_ge in E2. lia.
    - apply Nat.leb_gt in E1. apply Nat.ltb_lt in E2. lia. }
  split.
  { rewrite gen_range_end_child by (try assumption; fold n; lia).
    apply pp_all_true. intros k Hk. apply Nat.leb_le.
    specialize (Hchild k Hk). lia. }
  split.
  { intros i Hi. rewrite gen_range_start_child, gen_range_end_child by assumption.
    split; [|apply pp_le_length].
    apply pp_mono. intros k _ Hk. apply Nat.ltb_lt in Hk. apply Nat.leb_le.
    destruct (Hb i Hi) as [Hc _]. lia. }
  split.
  { intros j d Hj s.
    assert (Hin : In (nth j ks d) ks) by (apply nth_In; exact Hj).
    destruct (Hidx _ (Hchild _ Hin)) as [Hsn [Hlo Hhi]]. fold s in Hsn, Hlo, Hhi.
    split; [exact Hsn|].
    rewrite gen_range_start_child, gen_range_end_child by assumption. split.
    - apply (pp_le_of_false _ ks j d Hj). apply Nat.ltb_ge. exact Hlo.
    - apply (pp_gt_of_true _ ks j d Hj). intros i Hi. apply Nat.leb_le.
      pose proof (sorted_child_mono ks Hs Hl i j d Hi Hj) as Hm. lia. }
  { intros i j d Hi [Hlo Hhi].
    rewrite gen_range_start_child in Hlo by assumption.
    rewrite gen_range_end_child in Hhi by assumption.
    assert (Hj : j < length ks).
    { pose proof (pp_le_length
        (fun k => child_of k <=? start_of regs i + count_of regs i - 1) ks). lia. }
    assert (Hin : In (nth j ks d) ks) by (apply nth_In; exact Hj).
    apply Huniq; [apply Hchild; exact Hin|exact Hi|].
    destruct (Hb i Hi) as [Hc _].
    split.
    - destruct (Nat.lt_ge_cases (child_of (nth j ks d)) (start_of regs i)) as [Hlt|Hge];
        [|exact Hge].
      exfalso.
      assert (j < partition_point (fun k => child_of k <? start_of regs i) ks).
      { apply (pp_gt_of_true _ ks j d Hj). intros i' Hi'. apply Nat.ltb_lt.
        pose proof (sorted_child_mono ks Hs Hl i' j d Hi' Hj). lia. }
      lia.
    - apply (pp_lt_true _ ks j d) in Hhi. apply Nat.leb_le in Hhi. lia. }
Qed.

(* ====================================================================================== *)
(* Part 4: the mirror of the present policy is one valid split (the old theorems are        *)
(* instances)                                                                               *)
(* ====================================================================================== *)

Definition mirror_check (n : nat) : bool :=
  regions_okb (shard_regions n)
  && (length (shard_regions n) =? n)
  && forallb (fun i => (start_of (shard_regions n) i =? shard_start n i)
                       && (count_of (shard_regions n) i =? shard_count n i)) (seq 0 n)
  && forallb (fun c => index_of_child (shard_regions n) c =? shard_index_for n c)
       (seq 0 NUM_CHILDREN).

Lemma mirror_check_all : forallb mirror_check (seq 1 64) = true.
Proof. vm_compute. reflexivity. Qed.

Lemma mirror_check_n : forall n, 1 <= n <= 64 -> mirror_check n = true.
Proof.
  intros n Hn. pose proof mirror_check_all as H. rewrite forallb_forall in H.
  apply H. apply in_seq. lia.
Qed.

Theorem shards_mirror_ok : forall n, 1 <= n <= 64 -> regions_okb (shard_regions n) = true.
Proof.
  intros n Hn. pose proof (mirror_check_n n Hn) as H. unfold mirror_check in H.
  apply andb_true_iff in H. destruct H as [H _].
  apply andb_true_iff in H. destruct H as [H _].
  apply andb_true_iff in H. destruct H as [H _]. exact H.
Qed.

(* the generic notions, on the mirror's regions, are the mirror's own *)
Theorem shards_mirror_instance : forall n, 1 <= n <= 64 ->
  length (shard_regions n) = n /\
  (forall i, i < n -> start_of (shard_regions n) i = shard_start n i /\
                      count_of (shard_regions n) i = shard_count n i) /\
  (forall c, c < 64 -> index_of_child (shard_regions n) c = shard_index_for n c) /\
  (forall ks, ranges_of (shard_regions n) ks = ranges ks n) /\
  (forall ks i, gen_range_start (shard_regions n) ks i = range_start ks n i /\
                gen_range_end (shard_regions n) ks i = range_end ks n i).
Proof.
  intros n Hn. pose proof (mirror_check_n n Hn) as H. unfold mirror_check in H.
  apply andb_true_iff in H. destruct H as [H H4].
  apply andb_true_iff in H. destruct H as [H H3].
  apply andb_true_iff in H. destruct H as [_ H2].
  rewrite forallb_forall in H3, H4. unfold NUM_CHILDREN in H4.
  split; [apply Nat.eqb_eq; exact H2|].
  split.
  { intros i Hi. specialize (H3 i ltac:(apply in_seq; lia)).
    apply andb_true_iff in H3. destruct H3 as [Ha Hb].
    apply Nat.eqb_eq in Ha, Hb. auto. }
  split.
  { intros c Hc. apply Nat.eqb_eq. apply H4. apply in_seq. lia. }
  split; [intros ks; reflexivity|].
  intros ks i. split; reflexivity.
Qed.

(* Shards_proofs.ranges_partition, obtained again as the instance regs := shard_regions n *)
Corollary ranges_partition_is_instance : forall (ks : list key) n,
  1 <= n <= 64 ->
  sorted_keys ks = true ->
  (forall k, In k ks -> length k = 256) ->
  ranges ks n = map (fun i => (range_start ks n i, range_end ks n i)) (seq 0 n) /\
  range_start ks n 0 = 0 /\
  (forall i, S i < n -> range_end ks n i = range_start ks n (S i)) /\
  range_end ks n (n - 1) = length ks /\
  (forall i, i < n -> range_start ks n i <= range_end ks n i <= length ks) /\
  (forall j d, j < length ks ->
     let s := shard_index_for n (child_of (nth j ks d)) in
     s < n /\ range_start ks n s <= j < range_end ks n s) /\
  (forall i j d, i < n -> range_start ks n i <= j < range_end ks n i ->
     shard_index_for n (child_of (nth j ks d)) = i).
Proof.
  intros ks n Hn Hs Hl.
  destruct (shards_mirror_instance n Hn) as [Hlen [_ [Hidx _]]].
  pose proof (ranges_partition_gen (shard_regions n) ks (shards_mirror_ok n Hn) Hs Hl) as H.
  assert (Hlen' : @length region (shard_regions n) = n) by exact Hlen.
  cbv zeta in H. rewrite Hlen' in H.
  destruct H as [G1 [G2 [G3 [G4 [G5 [G6 G7]]]]]].
  assert (Hchild : forall j d, j < length ks -> child_of (nth j ks d) < 64).
  { intros j d Hj. apply key_decompose. apply Hl. apply nth_In. exact Hj. }
  split; [exact G1|]. split; [exact G2|]. split; [exact G3|]. split; [exact G4|].
  split; [exact G5|]. split.
  - intros j d Hj. cbv zeta. rewrite <- (Hidx _ (Hchild j d Hj)). exact (G6 j d Hj).
  - intros i j d Hi Hr.
    assert (Hj : j < length ks).
    { destruct (G5 i Hi) as [_ Hle].
      change (gen_range_end (shard_regions n) ks i) with (range_end ks n i) in Hle. lia. }
    rewrite <- (Hidx _ (Hchild j d Hj)). exact (G7 i j d Hi Hr).
Qed.

(* ====================================================================================== *)
(* Part 5: non-vacuity - other valid splits, and invalid ones                               *)
(* ====================================================================================== *)

(* the remainder 64 % n given to the LAST shards (seeded/harmless2/h4.diff) *)
Definition shard_counts_last (n : nat) : list nat :=
  repeat (64 / n) (n - 64 mod n) ++ repeat (64 / n + 1) (64 mod n).
Definition shard_regions_last (n : nat) : list region := regions_of_counts (shard_counts_last n).

Example remainder_last_ok :
  forallb (fun n => regions_okb (shard_regions_last n) && (length (shard_regions_last n) =? n))
    (seq 1 64) = true.
Proof. vm_compute. reflexivity. Qed.

Example remainder_last_is_another_split :
  map region_count (shard_regions 3) = [22; 21; 21] /\
  map region_count (shard_regions_last 3) = [21; 21; 22] /\
  map (index_of_child (shard_regions_last 3)) [0; 20; 21; 41; 42; 63] = [0; 0; 1; 1; 2; 2] /\
  map (shard_index_for 3) [0; 20; 21; 41; 42; 63] = [0; 0; 0; 1; 1; 2].
Proof. vm_compute. repeat split; reflexivity. Qed.

(* a very uneven split: sizes 1, 62, 1 *)
Example uneven_ok : regions_okb (regions_of_counts [1; 62; 1]) = true.
Proof. vm_compute. reflexivity. Qed.

(* ... and the split of a batch it induces: two keys in child 0, one in child 1, one in child 40,
   one in child 63 *)
Example uneven_ranges :
  ranges_of (regions_of_counts [1; 62; 1])
    [min_key 0; max_key 0; min_key 1; max_key 40; max_key 63] = [(0, 2); (2, 4); (4, 5)].
Proof. vm_compute. reflexivity. Qed.

(* the same batch under the mirror's split into 3 *)
Example mirror_ranges :
  ranges_of (shard_regions 3)
    [min_key 0; max_key 0; min_key 1; max_key 40; max_key 63] = [(0, 3); (3, 4); (4, 5)].
Proof. vm_compute. reflexivity. Qed.

(* invalid splits are rejected: *)
(* no region at all *)
Example reject_empty : regions_okb [] = false.
Proof. reflexivity. Qed.
(* child 1 left uncovered *)
Example reject_gap :
  regions_okb [(min_key 0, max_key 0, 1); (min_key 2, max_key 63, 62)] = false.
Proof. vm_compute. reflexivity. Qed.
(* child 63 left uncovered *)
Example reject_short : regions_okb (regions_of_counts [32; 31]) = false.
Proof. vm_compute. reflexivity. Qed.
(* child 31 in two regions *)
Example reject_overlap :
  regions_okb [(min_key 0, max_key 31, 32); (min_key 31, max_key 63, 33)] = false.
Proof. vm_compute. reflexivity. Qed.
(* regions out of order *)
Example reject_unordered :
  regions_okb [(min_key 32, max_key 63, 32); (min_key 0, max_key 31, 32)] = false.
Proof. vm_compute. reflexivity. Qed.
(* a region without children *)
Example reject_empty_region :
  regions_okb [(min_key 0, max_key 31, 32); (min_key 32, max_key 31, 0); (min_key 32, max_key 63, 32)]
  = false.
Proof. vm_compute. reflexivity. Qed.
(* the child count does not match the keys *)
Example reject_wrong_count :
  regions_okb [(min_key 0, max_key 31, 31); (min_key 32, max_key 63, 32)] = false.
Proof. vm_compute. reflexivity. Qed.
(* a max key that is not the last key of a whole child *)
Example reject_partial_child :
  regions_okb [(min_key 0, min_key 31, 32); (min_key 32, max_key 63, 32)] = false.
Proof. vm_compute. reflexivity. Qed.
