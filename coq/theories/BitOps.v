(* Mirror of `separate`, `prefix_len`, `separator_len` of nomt/src/beatree/ops/bit_ops.rs.
   A beatree key is `[u8; 32]`; here it is its 256 bits, most significant bit of byte 0 first
   (`Base.key = list bool`), so that the byte order of Rust's `[u8; 32]` comparison is
   `Base.key_ltb`.  The functions keep the byte structure of the Rust code (whole bytes copied,
   last partial byte masked); `mask_byte` is the `u8` mask expression itself, related to the
   bit-list operation `keep_bits` in BitOps_proofs. *)
From Coq Require Import List Bool Arith NArith.
From Nomt Require Import Base Result.
Import ListNotations.

Definition KEY_BITS : nat := 256.

(* fn prefix_len(key_a, key_b): count equal bits from the most significant one, stop at the
   first difference (or after 32 bytes) *)
Fixpoint prefix_len (a b : key) : nat :=
  match a, b with
  | x :: a', y :: b' => if Bool.eqb x y then S (prefix_len a' b') else 0
  | _, _ => 0
  end.

(* `byte & mask` with `mask = !((1 << (8 - remaining)) - 1)`: the first [remaining] bits of the
   byte are kept, the others cleared *)
Definition keep_bits (remaining : nat) (byte : list bool) : list bool :=
  firstn remaining byte ++ repeat false (8 - remaining).

(* the same on the number of the byte, as the Rust code computes it (u8 arithmetic) *)
Definition mask_of (remaining : nat) : N := 255 - (N.shiftl 1 (N.of_nat (8 - remaining)) - 1).
Definition mask_byte (remaining : nat) (byte : N) : N := N.land byte (mask_of remaining).

Fixpoint bits_of_byte_aux (w : nat) (x : N) : list bool :=
  match w with
  | O => []
  | S w' => N.testbit x (N.of_nat w') :: bits_of_byte_aux w' x
  end.
Definition bits_of_byte (x : N) : list bool := bits_of_byte_aux 8 x.

(* fn separate(a, b), `b > a` expected.
     bit_len = prefix_len(a, b) + 1; separator = [0; 32];
     separator[..bit_len / 8] = b[..bit_len / 8];
     if bit_len % 8 != 0 { separator[bit_len / 8] = b[bit_len / 8] & mask }
   With a = b the bit length is 257 and `separator[32]` is out of bounds: Panic. *)
Definition separate (a b : key) : res unit key :=
  let bit_len := prefix_len a b + 1 in
  let full_bytes := bit_len / 8 in
  let remaining := bit_len mod 8 in
  if remaining =? 0 then
    Ok (firstn (8 * full_bytes) b ++ repeat false (KEY_BITS - 8 * full_bytes))
  else if 32 <=? full_bytes then Panic
  else
    Ok (firstn (8 * full_bytes) b
        ++ keep_bits remaining (firstn 8 (skipn (8 * full_bytes) b))
        ++ repeat false (KEY_BITS - 8 * full_bytes - 8)).

(* fn separator_len(key): 1 for the all-zero key, else 256 - number of trailing zero bits *)
Fixpoint leading_zeros (k : list bool) : nat :=
  match k with
  | false :: k' => S (leading_zeros k')
  | _ => 0
  end.

Definition separator_len (k : key) : nat :=
  if forallb negb k then 1 else KEY_BITS - leading_zeros (rev k).
