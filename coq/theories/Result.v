(* Outcome of a mirrored Rust function: a value, an error value, or a panic (index out of
   bounds, unwrap on None, failed assertion, arithmetic overflow - the workspace builds with
   debug assertions in release too). *)
Inductive res (E A : Type) : Type :=
| Ok (a : A)
| Err (e : E)
| Panic.
Arguments Ok {E A}. Arguments Err {E A}. Arguments Panic {E A}.

Definition bind {E A B} (r : res E A) (f : A -> res E B) : res E B :=
  match r with Ok a => f a | Err e => Err e | Panic => Panic end.

Definition is_panic {E A} (r : res E A) : bool :=
  match r with Panic => true | _ => false end.
