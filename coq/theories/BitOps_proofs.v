(* Theorems about the separator bit operations of the beatree (property C01). *)
From Coq Require Import List Bool Arith NArith Lia.
From Nomt Require Import Base Base_proofs Result BitOps.
Import ListNotations.

(* ---------- prefix_len ---------- *)

Theorem prefix_len_spec : forall a b, prefix_len a b = common a b.
Proof.
  induction a as [|x a IH]; intros [|y b]; cbn; try rewrite IH; reflexivity.
Qed.

Lemma prefix_len_le : forall a b, prefix_len a b <= length b.
Proof.
  induction a as [|x a IH]; intros [|y b]; cbn; try lia.
  destruct (Bool.eqb x y); [specialize (IH b)|]; lia.
Qed.

Lemma prefix_len_refl : forall a, prefix_len a a = length a.
Proof.
  induction a as [|x a IH]; cbn; [reflexivity|].
  rewrite Bool.eqb_reflx, IH. reflexivity.
Qed.

Lemma prefix_len_lt : forall a b,
  length a = length b -> a <> b -> prefix_len a b < length b.
Proof.
  induction a as [|x a IH]; intros [|y b] Hl Hne; cbn in *; try discriminate.
  - contradiction.
  - destruct (Bool.eqb x y) eqn:E; [|lia].
    apply Bool.eqb_prop in E. subst y.
    assert (Hab : a <> b) by (intros ->; apply Hne; reflexivity).
    specialize (IH b ltac:(lia) Hab). lia.
Qed.

Lemma key_ltb_neq : forall a b, key_ltb a b = true -> a <> b.
Proof. intros a b H ->. rewrite key_ltb_irrefl in H. discriminate. Qed.

(* the first differing bit of a < b is 0 in a and 1 in b *)
Lemma prefix_len_bit : forall a b,
  length a = length b -> key_ltb a b = true ->
  nth (prefix_len a b) a false = false /\ nth (prefix_len a b) b false = true.
Proof.
  induction a as [|x a IH]; intros [|y b] Hl Hlt; cbn in *; try discriminate.
  destruct (Bool.eqb x y) eqn:E.
  - apply IH; [lia|exact Hlt].
  - destruct x, y; cbn in *; try discriminate. split; reflexivity.
Qed.

(* ---------- the u8 mask ---------- *)

Lemma mask_byte_spec : forall remaining x,
  1 <= remaining <= 7 -> (x < 256)%N ->
  bits_of_byte (mask_byte remaining x) = keep_bits remaining (bits_of_byte x).
Proof.
  intros r x Hr Hx.
  assert (Hall : forallb (fun r => forallb (fun x =>
            key_eqb (bits_of_byte (mask_byte r x)) (keep_bits r (bits_of_byte x)))
            (map N.of_nat (seq 0 256))) (seq 1 7) = true) by (vm_compute; reflexivity).
  rewrite forallb_forall in Hall.
  specialize (Hall r ltac:(apply in_seq; lia)).
  rewrite forallb_forall in Hall.
  apply key_eqb_true_iff. apply Hall.
  rewrite <- (N2Nat.id x). apply in_map. apply in_seq. lia.
Qed.

(* the mask never leaves the u8 range, and the shift amount is in 1..7 *)
Lemma mask_of_range : forall remaining, 1 <= remaining <= 7 ->
  (mask_of remaining < 256)%N /\ (1 <= 8 - remaining <= 7).
Proof.
  intros r Hr. split; [|lia].
  assert (Hall : forallb (fun r => N.ltb (mask_of r) 256) (seq 1 7) = true)
    by (vm_compute; reflexivity).
  rewrite forallb_forall in Hall. apply N.ltb_lt. apply Hall. apply in_seq. lia.
Qed.

(* ---------- separate: closed form ---------- *)

Lemma firstn_add : forall (A : Type) n m (l : list A),
  firstn (n + m) l = firstn n l ++ firstn m (skipn n l).
Proof.
  induction n as [|n IH]; intros m l; cbn; [reflexivity|].
  destruct l as [|x l]; cbn.
  - rewrite firstn_nil. reflexivity.
  - rewrite IH. reflexivity.
Qed.

(* the separator in closed form: the first [prefix_len a b + 1] bits of [b], zero padded *)
Definition sep_of (a b : key) : key :=
  firstn (S (prefix_len a b)) b ++ repeat false (length b - S (prefix_len a b)).

Theorem separate_closed_form : forall a b,
  length a = KEY_BITS -> length b = KEY_BITS -> a <> b ->
  separate a b = Ok (firstn (prefix_len a b + 1) b
                     ++ repeat false (KEY_BITS - (prefix_len a b + 1))).
Proof.
  unfold KEY_BITS. intros a b Ha Hb Hne.
  pose proof (prefix_len_lt a b ltac:(lia) Hne) as Hp. rewrite Hb in Hp.
  unfold separate, KEY_BITS.
  set (bl := prefix_len a b + 1) in *.
  assert (Hbl : bl <= 256) by (subst bl; lia).
  pose proof (Nat.div_mod bl 8 ltac:(lia)) as Hdm.
  pose proof (Nat.mod_upper_bound bl 8 ltac:(lia)) as Hmb.
  set (f := bl / 8) in *. set (r := bl mod 8) in *.
  destruct (r =? 0) eqn:Er.
  - apply Nat.eqb_eq in Er.
    assert (E : bl = 8 * f) by lia. rewrite E. reflexivity.
  - apply Nat.eqb_neq in Er.
    destruct (32 <=? f) eqn:Ef; [apply Nat.leb_le in Ef; lia|].
    apply Nat.leb_gt in Ef.
    f_equal. rewrite Hdm at 1. rewrite firstn_add. rewrite <- app_assoc. f_equal.
    unfold keep_bits. rewrite firstn_firstn. rewrite Nat.min_l by lia.
    rewrite <- app_assoc. f_equal.
    rewrite <- repeat_app. f_equal. lia.
Qed.

Lemma separate_sep_of : forall a b,
  length a = KEY_BITS -> length b = KEY_BITS -> a <> b ->
  separate a b = Ok (sep_of a b).
Proof.
  intros a b Ha Hb Hne. rewrite separate_closed_form by assumption.
  unfold sep_of. rewrite Hb. rewrite Nat.add_1_r. reflexivity.
Qed.

(* equal keys: Rust indexes `separator[32]`, out of bounds *)
Theorem separate_equal_panics : forall a,
  length a = KEY_BITS -> separate a a = Panic.
Proof.
  unfold KEY_BITS. intros a Ha. unfold separate.
  rewrite prefix_len_refl, Ha. reflexivity.
Qed.

Lemma sep_of_length : forall a b, length a = length b -> a <> b ->
  length (sep_of a b) = length b.
Proof.
  intros a b Hl Hne. pose proof (prefix_len_lt a b Hl Hne) as Hp.
  unfold sep_of. rewrite app_length, firstn_length, repeat_length. lia.
Qed.

(* ---------- order facts ---------- *)

Lemma key_ltb_zeros : forall t n, length t = n -> key_ltb t (repeat false n) = false.
Proof.
  induction t as [|x t IH]; intros n Hn; subst n; cbn; [reflexivity|].
  destruct x; cbn; [reflexivity|]. apply IH. reflexivity.
Qed.

Lemma sep_of_cons_eq : forall x a b,
  sep_of (x :: a) (x :: b) = x :: sep_of a b.
Proof.
  intros x a b. unfold sep_of. cbn [prefix_len]. rewrite Bool.eqb_reflx.
  cbn [firstn length app Nat.sub]. reflexivity.
Qed.

Lemma sep_of_cons_neq : forall x y a b, Bool.eqb x y = false ->
  sep_of (x :: a) (y :: b) = y :: repeat false (length b).
Proof.
  intros x y a b E. unfold sep_of. cbn [prefix_len]. rewrite E.
  cbn [firstn length app Nat.sub]. rewrite Nat.sub_0_r. reflexivity.
Qed.

Lemma sep_of_gt : forall a b, length a = length b -> key_ltb a b = true ->
  key_ltb a (sep_of a b) = true.
Proof.
  induction a as [|x a IH]; intros [|y b] Hl Hlt; cbn in Hl, Hlt; try discriminate.
  destruct (Bool.eqb x y) eqn:E.
  - apply Bool.eqb_prop in E. subst y. rewrite sep_of_cons_eq. cbn.
    rewrite Bool.eqb_reflx. apply IH; [lia|exact Hlt].
  - rewrite sep_of_cons_neq by exact E. cbn. rewrite E. exact Hlt.
Qed.

Lemma sep_of_le : forall a b, length a = length b -> key_ltb a b = true ->
  key_ltb b (sep_of a b) = false.
Proof.
  induction a as [|x a IH]; intros [|y b] Hl Hlt; cbn in Hl, Hlt; try discriminate.
  destruct (Bool.eqb x y) eqn:E.
  - apply Bool.eqb_prop in E. subst y. rewrite sep_of_cons_eq. cbn.
    rewrite Bool.eqb_reflx. apply IH; [lia|exact Hlt].
  - rewrite sep_of_cons_neq by exact E. cbn. rewrite Bool.eqb_reflx.
    apply key_ltb_zeros. reflexivity.
Qed.

(* ---------- separator_len ---------- *)

(* position of the last set bit plus one, 0 for an all-zero list *)
Fixpoint last_set (k : list bool) : nat :=
  match k with
  | [] => 0
  | x :: k' =>
      match last_set k' with
      | 0 => if x then 1 else 0
      | S m => S (S m)
      end
  end.

Lemma last_set_zero_iff : forall k, last_set k = 0 <-> forallb negb k = true.
Proof.
  induction k as [|x k IH]; cbn; [tauto|].
  destruct (last_set k) eqn:E.
  - destruct x; cbn.
    + split; discriminate.
    + split; intros _; [apply IH|]; reflexivity.
  - split; [discriminate|]. intros H. apply andb_true_iff in H. destruct H as [_ H].
    apply IH in H. discriminate.
Qed.

Lemma last_set_le : forall k, last_set k <= length k.
Proof.
  induction k as [|x k IH]; cbn; [lia|].
  destruct (last_set k); [destruct x|]; lia.
Qed.

Lemma forallb_negb_rev : forall k, forallb negb (rev k) = forallb negb k.
Proof.
  induction k as [|x k IH]; cbn; [reflexivity|].
  rewrite forallb_app, IH. cbn. rewrite andb_true_r. apply andb_comm.
Qed.

Lemma leading_zeros_snoc : forall l x,
  leading_zeros (l ++ [x]) =
  if forallb negb l then length l + (if x then 0 else 1) else leading_zeros l.
Proof.
  induction l as [|y l IH]; intros x; cbn.
  - destruct x; reflexivity.
  - destruct y; cbn; [reflexivity|]. rewrite IH.
    destruct (forallb negb l); reflexivity.
Qed.

Lemma leading_zeros_le : forall l, leading_zeros l <= length l.
Proof.
  induction l as [|y l IH]; cbn; [lia|]. destruct y; cbn; lia.
Qed.

Lemma trailing_zeros_last_set : forall k,
  length k - leading_zeros (rev k) = last_set k.
Proof.
  induction k as [|x k IH]; cbn [rev length last_set]; [reflexivity|].
  rewrite leading_zeros_snoc, forallb_negb_rev, rev_length.
  destruct (forallb negb k) eqn:Ez.
  - apply last_set_zero_iff in Ez. rewrite Ez. destruct x; lia.
  - pose proof (leading_zeros_le (rev k)) as Hle. rewrite rev_length in Hle.
    destruct (last_set k) eqn:El.
    + apply last_set_zero_iff in El. rewrite El in Ez. discriminate.
    + lia.
Qed.

Lemma separator_len_last_set : forall k, length k = KEY_BITS ->
  separator_len k = Nat.max 1 (last_set k).
Proof.
  intros k Hk. unfold separator_len. rewrite <- Hk, trailing_zeros_last_set.
  destruct (forallb negb k) eqn:Ez.
  - apply last_set_zero_iff in Ez. rewrite Ez. reflexivity.
  - destruct (last_set k) eqn:El; [|lia].
    apply last_set_zero_iff in El. rewrite El in Ez. discriminate.
Qed.

Lemma last_set_spec : forall k i, last_set k = S i ->
  nth i k false = true /\ (forall j, i < j -> nth j k false = false).
Proof.
  induction k as [|x k IH]; intros i H; cbn in H; [discriminate|].
  destruct (last_set k) eqn:El.
  - destruct x; [|discriminate]. inversion H; subst i. split; [reflexivity|].
    intros [|j] Hj; [lia|]. cbn.
    apply last_set_zero_iff in El.
    destruct (nth_in_or_default j k false) as [Hin|Hd]; [|exact Hd].
    rewrite forallb_forall in El. specialize (El _ Hin).
    destruct (nth j k false); [discriminate|reflexivity].
  - inversion H; subst i. destruct (IH n eq_refl) as [H1 H2]. split; [exact H1|].
    intros [|j] Hj; [lia|]. cbn. apply H2. lia.
Qed.

(* `separator_len`: one plus the index of the last set bit; the all-zero key has length ONE
   (not zero - the code special-cases it) *)
Theorem separator_len_spec : forall k, length k = KEY_BITS ->
  (forallb negb k = true -> separator_len k = 1) /\
  (forallb negb k = false ->
     exists i, i < KEY_BITS /\ separator_len k = S i /\
               nth i k false = true /\ (forall j, i < j -> nth j k false = false)).
Proof.
  intros k Hk. rewrite (separator_len_last_set k Hk). split; intros Hz.
  - apply last_set_zero_iff in Hz. rewrite Hz. reflexivity.
  - destruct (last_set k) as [|i] eqn:El.
    + apply last_set_zero_iff in El. rewrite El in Hz. discriminate.
    + exists i. pose proof (last_set_le k) as Hle. rewrite El, Hk in Hle.
      destruct (last_set_spec k i El) as [H1 H2].
      unfold KEY_BITS in *. split; [lia|]. split; [lia|]. split; [exact H1|exact H2].
Qed.

(* a key is its first [separator_len] bits followed by zeros, and no shorter prefix does *)
Lemma last_set_tail_zero : forall k, forallb negb (skipn (last_set k) k) = true.
Proof.
  induction k as [|x k IH]; cbn; [reflexivity|].
  destruct (last_set k) eqn:El.
  - apply last_set_zero_iff in El. destruct x; cbn; [exact El|]. rewrite El. reflexivity.
  - cbn. exact IH.
Qed.

Lemma skipn_add : forall (A : Type) n m (l : list A),
  skipn (n + m) l = skipn m (skipn n l).
Proof.
  induction n as [|n IH]; intros m l; cbn; [reflexivity|].
  destruct l as [|x l]; [rewrite skipn_nil; reflexivity|apply IH].
Qed.

Theorem separator_len_zero_tail : forall k, length k = KEY_BITS ->
  k = firstn (separator_len k) k ++ repeat false (KEY_BITS - separator_len k).
Proof.
  intros k Hk.
  assert (Hz : forall l : list bool, forallb negb l = true -> l = repeat false (length l)).
  { induction l as [|x l IH]; cbn; intros H; [reflexivity|].
    apply andb_true_iff in H. destruct H as [Hx Hl]. destruct x; [discriminate|].
    f_equal. apply IH. exact Hl. }
  assert (Hgen : forall n, last_set k <= n -> forallb negb (skipn n k) = true).
  { intros n Hn. replace n with (last_set k + (n - last_set k)) by lia.
    rewrite skipn_add.
    pose proof (last_set_tail_zero k) as Ht.
    rewrite forallb_forall in *. intros b Hb. apply Ht.
    rewrite <- (firstn_skipn (n - last_set k) (skipn (last_set k) k)).
    apply in_or_app. right. exact Hb. }
  rewrite (separator_len_last_set k Hk).
  specialize (Hgen (Nat.max 1 (last_set k)) ltac:(lia)).
  apply Hz in Hgen. rewrite skipn_length, Hk in Hgen. rewrite <- Hgen.
  symmetry. apply firstn_skipn.
Qed.

(* ---------- separate: the main statement ---------- *)

Lemma last_set_zeros : forall n, last_set (repeat false n) = 0.
Proof. intros n. apply last_set_zero_iff. induction n; cbn; auto. Qed.

Lemma last_set_sep_of : forall a b, length a = length b -> key_ltb a b = true ->
  last_set (sep_of a b) = S (prefix_len a b).
Proof.
  induction a as [|x a IH]; intros [|y b] Hl Hlt; cbn in Hl, Hlt; try discriminate.
  destruct (Bool.eqb x y) eqn:E.
  - pose proof E as E'. apply Bool.eqb_prop in E'. subst y. rewrite sep_of_cons_eq.
    cbn [last_set prefix_len]. rewrite E. rewrite (IH b ltac:(lia) Hlt). reflexivity.
  - rewrite sep_of_cons_neq by exact E. cbn [last_set prefix_len]. rewrite E, last_set_zeros.
    destruct x, y; cbn in *; try discriminate. reflexivity.
Qed.

Lemma key_ltb_last_set_pos : forall a s, length a = length s -> key_ltb a s = true ->
  0 < last_set s.
Proof.
  intros a s Hl Hlt. destruct (last_set s) eqn:E; [|lia].
  apply last_set_zero_iff in E.
  assert (Hs : s = repeat false (length a)).
  { rewrite Hl. clear -E. induction s as [|x s IH]; cbn in *; [reflexivity|].
    apply andb_true_iff in E. destruct E as [Hx Hs]. destruct x; [discriminate|].
    f_equal. apply IH. exact Hs. }
  rewrite Hs, key_ltb_zeros in Hlt by reflexivity. discriminate.
Qed.

(* every key strictly above [a] and not above [b] has its last set bit after the common prefix
   of [a] and [b] *)
Lemma between_last_set : forall a b s,
  length a = length b -> length a = length s ->
  key_ltb a b = true -> key_ltb a s = true -> key_ltb b s = false ->
  prefix_len a b < last_set s.
Proof.
  induction a as [|x a IH]; intros [|y b] [|z s] Hl1 Hl2 Hab Has Hbs;
    cbn in Hl1, Hl2, Hab; try discriminate.
  cbn [prefix_len].
  destruct (Bool.eqb x y) eqn:E.
  - apply Bool.eqb_prop in E. subst y.
    cbn in Has, Hbs.
    destruct (Bool.eqb x z) eqn:Ez.
    + specialize (IH b s ltac:(lia) ltac:(lia) Hab Has Hbs).
      cbn. destruct (last_set s); lia.
    + destruct x; cbn in *; discriminate.
  - eapply key_ltb_last_set_pos; [|exact Has]. cbn. lia.
Qed.

Theorem separate_spec : forall a b,
  length a = KEY_BITS -> length b = KEY_BITS -> key_ltb a b = true ->
  exists sep,
    separate a b = Ok sep /\
    length sep = KEY_BITS /\
    (* a < sep <= b *)
    key_ltb a sep = true /\
    negb (key_ltb b sep) = true /\
    (* b's first prefix_len + 1 bits, zero padded *)
    sep = firstn (prefix_len a b + 1) b ++ repeat false (KEY_BITS - (prefix_len a b + 1)) /\
    separator_len sep = prefix_len a b + 1 /\
    (* the shortest separator between a and b *)
    (forall s, length s = KEY_BITS -> key_ltb a s = true -> negb (key_ltb b s) = true ->
               separator_len sep <= separator_len s).
Proof.
  intros a b Ha Hb Hlt.
  pose proof (key_ltb_neq a b Hlt) as Hne.
  assert (Hl : length a = length b) by congruence.
  exists (sep_of a b).
  assert (Hlen : length (sep_of a b) = KEY_BITS)
    by (rewrite sep_of_length by assumption; exact Hb).
  assert (Hsl : separator_len (sep_of a b) = prefix_len a b + 1).
  { rewrite separator_len_last_set by exact Hlen.
    rewrite last_set_sep_of by assumption. lia. }
  split; [apply separate_sep_of; assumption|].
  split; [exact Hlen|].
  split; [apply sep_of_gt; assumption|].
  split; [rewrite sep_of_le by assumption; reflexivity|].
  split; [unfold sep_of; rewrite Hb, Nat.add_1_r; reflexivity|].
  split; [exact Hsl|].
  intros s Hs Has Hbs. apply negb_true_iff in Hbs.
  rewrite Hsl, (separator_len_last_set s Hs).
  pose proof (between_last_set a b s Hl ltac:(congruence) Hlt Has Hbs). lia.
Qed.
