(* Printing glue used by the extracted driver: number the nodes of a trie so that roots and
   path-proof siblings can be handed to the harness as references into one node table, which
   the harness evaluates with the real hasher.  [awalk_spec] (Emit_proofs) ties it to Trie.walk. *)
From Nomt Require Import Base Hash Trie.

Inductive atrie :=
| AE
| AL (id : N) (k : key) (v : value)
| AB (id : N) (l r : atrie).

(* post-order numbering from [next]; id 0 is reserved for the terminator *)
Fixpoint annotate (t : trie) (next : N) : atrie * N :=
  match t with
  | E => (AE, next)
  | Lf k v => (AL next k v, N.succ next)
  | Br l r =>
      let '(al, n1) := annotate l next in
      let '(ar, n2) := annotate r n1 in
      (AB n2 al ar, N.succ n2)
  end.

Definition aid (t : atrie) : N :=
  match t with AE => 0%N | AL i _ _ => i | AB i _ _ => i end.

Inductive entry := EL (id : N) (k : key) (v : value) | EI (id l r : N).

Fixpoint atable (t : atrie) (acc : list entry) : list entry :=
  match t with
  | AE => acc
  | AL i k v => EL i k v :: acc
  | AB i l r => atable l (atable r (EI i (aid l) (aid r) :: acc))
  end.

Fixpoint awalk (t : atrie) (k : key) (d : nat) : list N * terminal :=
  match t with
  | AE => ([], TTerm (firstn d k))
  | AL _ k' v => ([], TLeaf k' v)
  | AB _ l r =>
      if bit k d
      then let '(s, tm) := awalk r k (S d) in (aid l :: s, tm)
      else let '(s, tm) := awalk l k (S d) in (aid r :: s, tm)
  end.

(* generic node terms (outputs of mirrored functions) as reverse-polish token lists *)
Inductive tok := TkT | TkL (k : key) (v : value) | TkI | TkO (t : nkind) (id : N).

Fixpoint rpn (n : fnode) (acc : list tok) : list tok :=
  match n with
  | FT => TkT :: acc
  | FL k v => TkL k v :: acc
  | FI l r => rpn l (rpn r (TkI :: acc))
  | FO t i => TkO t i :: acc
  end.
